import PncProofs.SlabLemmas
import PncProofs.BridgeLemmas
/-
C13 — memory-mapped and record-based CAMx readers agree.

For the slab formats (one3d / humidity / vertical diffusivity, temperature, height/pressure) the file carries
no counts: `Slab.mmDecode` is the memory-mapped reader's inference (records of `cells + 4` words, slabs per step
from the first change of (time, date)), `Slab.viewOf` is the content the file was written from — which is also
what a reader that walks the Fortran records one by one presents.  `mm_decode_encode` proves that the two are
the same for every well-formed file of at least two time steps, any grid size, layer count and payload, for all
three layouts.  (For the gridded average/emissions family the corresponding statement is
`Camx.decodeMM_encode`, proved for C08/C09.)  `single_step_rejected` shows why one-step files are outside the
domain: no record differs from the first, the inference has nothing to go on.
-/
namespace Props.C13
open Slab Words

structure WF (f : SFile) : Prop where
  cells : ∀ s ∈ f.steps, ∀ c ∈ s.slabs, c.length = f.cells
  same : ∀ s ∈ f.steps, ∀ s' ∈ f.steps, s.slabs.length = s'.slabs.length
  two : ∃ s0 s1 rest, f.steps = s0 :: s1 :: rest ∧ (s1.time, s1.date) ≠ (s0.time, s0.date) ∧
    1 ≤ s0.slabs.length

def framedStep (s : Step) : List (List Word) := (stepRows s).map frame

theorem encode_eq (f : SFile) : encode f = ((f.steps.map framedStep).flatten).flatten := by
  simp only [encode, encodeRecs, rows, framedStep, List.map_flatten, List.map_map]
  rfl

theorem framedStep_length (s : Step) : (framedStep s).length = s.slabs.length := by
  simp [framedStep, stepRows]

theorem mem_framedStep {s : Step} {r : List Word} (h : r ∈ framedStep s) :
    ∃ c ∈ s.slabs, r = frame (s.time :: s.date :: c) := by
  simp only [framedStep, stepRows, List.map_map, List.mem_map, Function.comp] at h
  obtain ⟨c, hc, rfl⟩ := h
  exact ⟨c, hc, rfl⟩

/-- step A: cutting the file into records of `cells + 4` words gives back the framed records -/
theorem chunk_records (f : SFile) (h : WF f) :
    chunk (f.cells + 4) (encode f) (encode f).length = (f.steps.map framedStep).flatten := by
  rw [encode_eq]
  apply chunk_flatten (f.cells + 4) (by omega) _ _ _ (Nat.le_refl _)
  intro p hp
  obtain ⟨fs, hfs, hp'⟩ := List.mem_flatten.mp hp
  obtain ⟨s, hs, rfl⟩ := List.mem_map.mp hfs
  obtain ⟨c, hc, rfl⟩ := mem_framedStep hp'
  rw [frame_len, h.cells s hs c hc]

theorem takeWhile_stop {α} (p : α → Bool) (y : α) (r : List α) (hy : p y = false) :
    ∀ (l : List α), (∀ x ∈ l, p x = true) → (l ++ y :: r).takeWhile p = l := by
  intro l
  induction l with
  | nil => intro _; simp [List.takeWhile_cons, hy]
  | cons a as ih =>
    intro h
    simp only [List.cons_append, List.takeWhile_cons, h a (by simp), if_true]
    rw [ih (fun x hx => h x (by simp [hx]))]

/-- step B: the first change of (time, date) is after exactly one step's slabs -/
theorem leading_eq (f : SFile) (h : WF f) (s0 s1 : Step) (rest : List Step)
    (hst : f.steps = s0 :: s1 :: rest) (hne : (s1.time, s1.date) ≠ (s0.time, s0.date)) (hm : 1 ≤ s0.slabs.length) :
    leading ((f.steps.map framedStep).flatten) = s0.slabs.length := by
  rw [hst]
  simp only [List.map_cons, List.flatten_cons]
  have h1 : 1 ≤ s1.slabs.length := by
    have := h.same s1 (by rw [hst]; simp) s0 (by rw [hst]; simp)
    omega
  -- shapes of the first two framed steps
  obtain ⟨c0, cs0, hc0⟩ : ∃ c0 cs0, s0.slabs = c0 :: cs0 := by
    cases hs : s0.slabs with
    | nil => rw [hs] at hm; simp at hm
    | cons a as => exact ⟨a, as, rfl⟩
  obtain ⟨c1, cs1, hc1⟩ : ∃ c1 cs1, s1.slabs = c1 :: cs1 := by
    cases hs : s1.slabs with
    | nil => rw [hs] at h1; simp at h1
    | cons a as => exact ⟨a, as, rfl⟩
  have e0 : framedStep s0 = frame (s0.time :: s0.date :: c0) :: cs0.map (fun c => frame (s0.time :: s0.date :: c)) := by
    simp [framedStep, stepRows, hc0]
  have e1 : framedStep s1 = frame (s1.time :: s1.date :: c1) :: cs1.map (fun c => frame (s1.time :: s1.date :: c)) := by
    simp [framedStep, stepRows, hc1]
  rw [e0, e1]
  simp only [List.cons_append, leading, recTD_frame]
  rw [takeWhile_stop _ _ _ (by
      rw [recTD_frame]
      simp only [beq_eq_false_iff_ne, ne_eq]
      exact hne) _ (by
      intro x hx
      obtain ⟨c, _, rfl⟩ := List.mem_map.mp hx
      rw [recTD_frame]; simp)]
  simp [hc0]
  omega


theorem flatten_length (steps : List Step) (m : Nat) (hm : ∀ s ∈ steps, s.slabs.length = m) :
    ((steps.map framedStep).flatten).length = m * steps.length := by
  induction steps with
  | nil => simp
  | cons s rest ih =>
    simp only [List.map_cons, List.flatten_cons, List.length_append, List.length_cons, framedStep_length,
      hm s (by simp), ih (fun x hx => hm x (by simp [hx]))]
    ring

theorem recCells_framedStep (s : Step) : (framedStep s).map recCells = s.slabs := by
  simp only [framedStep, stepRows, List.map_map]
  conv_rhs => rw [← List.map_id s.slabs]
  apply List.map_congr_left
  intro c _
  simp [Function.comp, recCells_frame]

/-- **the memory-mapped readers recover the content** (C13, slab formats): for every well-formed file with at
least two time steps — any grid size, any number of layers, any payload — what the memory-mapped reader infers
from record sizes and (time, date) changes is exactly the content the file was written from, i.e. what a
record-by-record reader presents: the same number of steps and layers, the same time flags and the same cells
of every variable. -/
theorem mm_decode_encode (k : Kind) (f : SFile) (h : WF f) :
    mmDecode k f.cells (encode f) = viewOf k f := by
  obtain ⟨s0, s1, rest, hst, hne, hm⟩ := h.two
  have hsame : ∀ s ∈ f.steps, s.slabs.length = s0.slabs.length :=
    fun s hs => h.same s hs s0 (by rw [hst]; simp)
  unfold mmDecode
  have hwhole : ¬ ((encode f).length % (f.cells + 4) ≠ 0) := by
    rw [encode_eq]
    have : ∀ (ps : List (List Word)), (∀ p ∈ ps, p.length = f.cells + 4) →
        ps.flatten.length % (f.cells + 4) = 0 := by
      intro ps
      induction ps with
      | nil => intro _; simp
      | cons a as ih =>
        intro hp
        simp only [List.flatten_cons, List.length_append, hp a (by simp)]
        have := ih (fun x hx => hp x (by simp [hx]))
        rw [Nat.add_mod, Nat.mod_self, this]; simp
    have hz := this ((f.steps.map framedStep).flatten) (by
      intro p hp
      obtain ⟨fs, hfs, hp'⟩ := List.mem_flatten.mp hp
      obtain ⟨s, hs, rfl⟩ := List.mem_map.mp hfs
      obtain ⟨c, hc, rfl⟩ := mem_framedStep hp'
      rw [frame_len, h.cells s hs c hc])
    omega
  rw [if_neg hwhole, chunk_records f h]
  unfold mmRows
  simp only
  rw [leading_eq f h s0 s1 rest hst hne hm]
  have hlen := flatten_length f.steps s0.slabs.length hsame
  have hnsteps : f.steps.length = rest.length + 2 := by rw [hst]; simp
  -- the three guards
  have g1 : ¬ (s0.slabs.length = 0 ∨ s0.slabs.length = ((f.steps.map framedStep).flatten).length ∨
      ((f.steps.map framedStep).flatten).length % s0.slabs.length ≠ 0) := by
    rw [hlen, hnsteps]
    intro hh
    rcases hh with h0 | h1 | h2
    · omega
    · have : s0.slabs.length * (rest.length + 2) = s0.slabs.length * rest.length + 2 * s0.slabs.length := by ring
      omega
    · exact h2 (Nat.mul_mod_right _ _)
  rw [if_neg g1]
  have g2 : ¬ (k ≠ Kind.one3d ∧ ((f.steps.map framedStep).flatten).any (fun r => r.head? ≠ r.getLast?) = true) := by
    intro ⟨_, hany⟩
    rw [List.any_eq_true] at hany
    obtain ⟨r, hr, hbad⟩ := hany
    obtain ⟨fs, hfs, hr'⟩ := List.mem_flatten.mp hr
    obtain ⟨s, _, rfl⟩ := List.mem_map.mp hfs
    obtain ⟨c, _, rfl⟩ := mem_framedStep hr'
    simp [frame_markers] at hbad
  rw [if_neg g2]
  -- step C: regroup the records into steps
  have hchunk : chunk s0.slabs.length ((f.steps.map framedStep).flatten) ((f.steps.map framedStep).flatten).length =
      f.steps.map framedStep := by
    apply chunk_flatten s0.slabs.length (by omega) _ _ _ (Nat.le_refl _)
    intro p hp
    obtain ⟨s, hs, rfl⟩ := List.mem_map.mp hp
    rw [framedStep_length, hsame s hs]
  rw [hchunk]
  unfold viewOf
  rw [hst]
  simp only [List.map_cons]
  -- step D: the view
  congr 1
  funext nz
  have hflag : ∀ s : Step, 1 ≤ s.slabs.length →
      ((recTD ((framedStep s).headD [])).2, (recTD ((framedStep s).headD [])).1) = (s.date, s.time) := by
    intro s hs
    cases hsl : s.slabs with
    | nil => rw [hsl] at hs; simp at hs
    | cons c cs =>
      simp [framedStep, stepRows, hsl, recTD_frame]
  have h1 : 1 ≤ s1.slabs.length := by
    have := hsame s1 (by rw [hst]; simp); omega
  have hrest : ∀ s ∈ rest, 1 ≤ s.slabs.length := by
    intro s hs
    have := hsame s (by rw [hst]; simp [hs]); omega
  simp only [List.length_cons, List.length_map, View.mk.injEq, true_and, List.map_cons, List.cons.injEq]
  refine ⟨⟨hflag s0 hm, hflag s1 h1, ?_⟩, ?_⟩
  · rw [List.map_map]
    apply List.map_congr_left
    intro s hs
    exact hflag s (hrest s hs)
  · simp only [List.foldl_cons, recCells_framedStep, List.foldl_map]

/-- the hypotheses are met: a 2-step temperature file with two layers and two cells per slab -/
def exFile : SFile :=
  { cells := 2, steps := [⟨0, 2001, [[1, 2], [3, 4], [5, 6]]⟩, ⟨1120403456, 2001, [[7, 8], [9, 10], [11, 12]]⟩] }

theorem exFile_wf : WF exFile := by
  refine ⟨?_, ?_, ⟨_, _, _, rfl, by decide, by decide⟩⟩
  · intro s hs c hc
    simp only [exFile, List.mem_cons, List.mem_nil_iff, or_false] at hs
    rcases hs with rfl | rfl <;> simp at hc <;> rcases hc with rfl | rfl | rfl <;> rfl
  · intro s hs s' hs'
    simp only [exFile, List.mem_cons, List.mem_nil_iff, or_false] at hs hs'
    rcases hs with rfl | rfl <;> rcases hs' with rfl | rfl <;> rfl

example : (mmDecode .temperature 2 (encode exFile)).map (fun v => (v.nt, v.nz, v.vars)) =
    some (2, 2, [("SURFTEMP", [[1, 2], [7, 8]]), ("AIRTEMP", [[3, 4], [5, 6], [9, 10], [11, 12]])]) := by
  have := mm_decode_encode .temperature exFile exFile_wf
  rw [show exFile.cells = 2 from rfl] at this
  rw [this]; rfl

/-- **one-step files are outside the domain**: no record differs from the first one, so the reader has nothing
to infer the layer count from — the model (like `one3d`, which raises IndexError) rejects the file -/
theorem single_step_rejected :
    mmDecode .one3d 2 (encode { cells := 2, steps := [⟨0, 2001, [[1, 2], [3, 4]]⟩] }) = none := by rfl

end Props.C13
