import PncModel.Generated.UamivLayouts
import PncProofs.UamivLemmas
import PncModel.Camx.Slab
import PncProofs.LanduseThms
import PncProofs.CloudRainLemmas
import PncProofs.BoundaryLemmas

/-!
# C09 — binary files conform to the published layout: property theorems (uamiv family)

`Uamiv.encode` is the reference encoder (and, through the correspondence, the bytes of the library
writer); `refDecode` the independent decoder that uses only record markers and the published
layout.
-/
namespace Props.C09
open Words Camx

/-- **C09 (tiling).** The file is a gap-free sequence of Fortran records whose leading and trailing
markers agree and tile it exactly: parsing by markers alone returns exactly the records written,
and the size is the payload plus two markers per record. -/
theorem tiles (f : Uamiv) :
    parseRecords f.encode.length f.encode = some f.records ∧
    f.encode.length = (f.records.map List.length).sum + 2 * f.records.length :=
  ⟨parse_encode f.records _ (le_refl _), encodeRecs_length f.records⟩

/-- **C09 (header counts).** The counts stored in the header records are the counts of the content:
species count in record 1, nx/ny/nz in record 2, nx/ny again in record 3. -/
theorem header_counts (f : Uamiv) (h : WF f) :
    (f.records.getD 0 []).getD 71 0 = f.species.length ∧
    f.records.getD 1 [] = f.grid ∧
    f.records.getD 2 [] = [1, 1, f.nx, f.ny] ∧
    (f.records.getD 3 []).length = 10 * f.species.length := by
  have hcn : (chars f.name ++ chars f.note).length = 70 := by simp [chars_length, h.name, h.note]
  refine ⟨?_, rfl, rfl, ?_⟩
  · have h0 : f.records.getD 0 [] = chars f.name ++ chars f.note ++ [f.itzon, f.nspec, f.ibdate, f.btime, f.iedate, f.etime] := rfl
    rw [h0, List.getD_eq_getElem?_getD, List.getElem?_append_right (by omega)]
    simp [hcn, Uamiv.nspec]
  · simp only [Uamiv.records, List.cons_append, List.getD_cons_succ, List.getD_cons_zero]
    exact flatten_chars_length f.species h.species

/-- **C09 (independent decoder).** For every well-formed content (any species list, grid size,
layer count, number of steps, any payload words) the independent decoder recovers exactly the
names, times and values that were written. -/
theorem refDecode_encode (f : Uamiv) (h : WF f) : refDecode f.encode = some f := by
  unfold refDecode
  rw [(tiles f).1]
  exact decodeRecords_records f h

/-- a 2-species, 1×2-cell, 2-layer, 1-step file -/
def exFile : Uamiv where
  name := List.replicate 10 65
  note := List.replicate 60 32
  itzon := 0
  ibdate := 19001
  btime := 0
  iedate := 19001
  etime := f32OfNat 1
  grid := [0, 0, 0, 0, 0, 0, 0, 2, 1, 2, 0, 0, 0, 0, 0]
  species := [List.replicate 10 66, List.replicate 10 67]
  steps := [⟨19001, 0, 19001, f32OfNat 1, [[[1, 2], [3, 4]], [[5, 6], [7, 8]]]⟩]

/-- non-vacuity: the example is well-formed content, round-trips, and has the expected size -/
example : refDecode exFile.encode = some exFile ∧ exFile.encode.length = 78 + 17 + 6 + 22 + 6 + 4 * 15 := by
  decide +kernel


/-! ### slab formats (one3d, humidity, vertical diffusivity, temperature, height/pressure) -/

/-- **the records tile the file**: a record walker consumes the encoding of any slab file exactly and returns
one record per slab, in (step, slab) order -/
theorem slab_tiles (f : Slab.SFile) :
    parseRecords (Slab.encode f).length (Slab.encode f) = some (Slab.rows f) :=
  parse_encode (Slab.rows f) _ (Nat.le_refl _)

/-- **every record carries what was written**: the time, the date and the cells of its slab -/
theorem slab_record_content (f : Slab.SFile) (r : List Word) (h : r ∈ Slab.rows f) :
    ∃ s ∈ f.steps, ∃ c ∈ s.slabs, r = s.time :: s.date :: c := by
  simp only [Slab.rows, List.mem_flatten, List.mem_map] at h
  obtain ⟨rs, ⟨s, hs, rfl⟩, hr⟩ := h
  simp only [Slab.stepRows, List.mem_map] at hr
  obtain ⟨c, hc, rfl⟩ := hr
  exact ⟨s, hs, c, hc, rfl⟩


/-! ### cloud/rain files -/

/-- the records tile the file: header, then per step the time record followed by one record per
(layer, variable), in that order -/
theorem cloud_rain_tiles (f : CloudRain.CFile) :
    parseRecords (CloudRain.encode f).length (CloudRain.encode f) = some (CloudRain.records f) :=
  parse_encode (CloudRain.records f) _ (Nat.le_refl _)

/-- the header record declares the grid the data records are cut to, and the number of records is
1 + steps · (1 + slabs per step) -/
theorem cloud_rain_counts (f : CloudRain.CFile) (m : Nat) (h : ∀ s ∈ f.steps, s.slabs.length = m) :
    (CloudRain.records f).head? = some (f.desc ++ [f.nx, f.ny, f.nz]) ∧
    (CloudRain.records f).length = 1 + f.steps.length * (1 + m) := by
  refine ⟨rfl, ?_⟩
  simp only [CloudRain.records, List.length_cons]
  have : ∀ (l : List CloudRain.CStep), (∀ s ∈ l, s.slabs.length = m) →
      ((l.map (fun s => [s.time, s.date] :: s.slabs)).flatten).length = l.length * (1 + m) := by
    intro l
    induction l with
    | nil => intro _; simp
    | cons a as ih =>
      intro hl
      simp only [List.map_cons, List.flatten_cons, List.length_append, List.length_cons, hl a (by simp),
        ih (fun x hx => hl x (by simp [hx]))]
      rw [Nat.succ_mul]
      omega
  rw [this f.steps h]
  omega


/-! ### wind files -/

/-- the records tile the file: per step the header, 2·nz slabs and the one-word closing record -/
theorem wind_tiles (steps : List Wind.WStep) :
    parseRecords (Wind.encode steps).length (Wind.encode steps) = some (Wind.records steps) :=
  parse_encode (Wind.records steps) _ (Nat.le_refl _)

/-- every step contributes its header, its slabs in order and exactly one closing record -/
theorem wind_step_shape (s : Wind.WStep) :
    (Wind.stepRecords s).length = s.slabs.length + 2 ∧ (Wind.stepRecords s).getLast? = some [0] ∧
    ((Wind.stepRecords s).drop 1).take s.slabs.length = s.slabs := by
  refine ⟨by simp [Wind.stepRecords], ?_, by simp [Wind.stepRecords]⟩
  have : Wind.stepRecords s = (Wind.header s :: s.slabs) ++ [[0]] := by
    simp [Wind.stepRecords]
  rw [this, List.getLast?_append]
  simp


/-! ### lateral boundary files -/

/-- the records tile the file: four headers, four boundary definitions, then per step the time record and the
(species, edge) records in order -/
theorem boundary_tiles (f : Boundary.BFile) :
    parseRecords (Boundary.encode f).length (Boundary.encode f) = some (Boundary.records f) :=
  parse_encode (Boundary.records f) _ (Nat.le_refl _)

/-- the number of records is 8 + steps · (1 + 4 · species) when every step carries four edges per species -/
theorem boundary_counts (f : Boundary.BFile) (nspec : Nat) (hh : f.headers.length = 4) (hd : f.defs.length = 4)
    (h : ∀ s ∈ f.steps, s.recs.length = 4 * nspec) :
    (Boundary.records f).length = 8 + f.steps.length * (1 + 4 * nspec) := by
  simp only [Boundary.records, List.length_append, hh, hd]
  have key : ∀ (k : Nat) (l : List Boundary.BStep), (∀ s ∈ l, s.recs.length + 1 = k) →
      ((l.map (fun s => s.hdr :: s.recs)).flatten).length = l.length * k := by
    intro k l
    induction l with
    | nil => intro _; simp
    | cons a as ih =>
      intro hl
      simp only [List.map_cons, List.flatten_cons, List.length_append, List.length_cons,
        ih (fun x hx => hl x (by simp [hx]))]
      have := hl a (by simp)
      rw [Nat.succ_mul]
      omega
  rw [key (1 + 4 * nspec) f.steps (fun s hs => by have := h s hs; omega)]

/-- **C09 (landuse: tiling).** The file the landuse writer emits is a gap-free sequence of records whose markers
agree: the key and data records of the fractions and of every optional field, in file order. -/
theorem landuse_tiles (f : Landuse.LFile) :
    parseRecords (Landuse.write f).length (Landuse.write f) = some (Landuse.records f) := Landuse.write_tiles f

/-- **C09 (landuse: counts).** two records per field in a new-style file, one in an old-style file; the size is the
fractions' field plus one fixed-size field per optional record (which is how the reader counts them) -/
theorem landuse_counts (cells : Nat) (f : Landuse.LFile) (h : Landuse.WF cells f) :
    (Landuse.records f).length = (if f.newstyle then 2 else 1) * (1 + (Landuse.optRecs f).length) ∧
    (Landuse.write f).length = Landuse.fieldSize f.newstyle (f.nland * cells) +
      (Landuse.optRecs f).length * Landuse.fieldSize f.newstyle cells :=
  ⟨Landuse.records_count f, Landuse.write_length cells f h⟩

/-- **C09 (landuse: the reader on reference files).** the reader presents exactly the encoded content -/
theorem landuse_read (cells : Nat) (f : Landuse.LFile) (h : Landuse.WF cells f) :
    Landuse.read cells (Landuse.write f) = some f := Landuse.read_write cells f h

/-- **C09 (wind: the reader on reference files).** the memory-mapped wind reader, given the grid size, presents exactly
the encoded steps — any number of steps (one included), layers, cells ≥ 2, either header variant, any payload -/
theorem wind_read (cells nz h : Nat) (steps : List Wind.WStep) (w : Wind.WFw cells nz h steps) :
    Wind.read cells (Wind.encode steps) = some steps := Wind.read_encode cells nz h steps w

/-- **C09 (cloud/rain: the reader on reference files).** the memory-mapped cloud/rain reader presents exactly the
encoded description, grid and steps, for 3- and 5-variable files that are not ambiguous in size -/
theorem cloud_rain_read (nv : Nat) (f : CloudRain.CFile) (w : CloudRain.WFc nv f) :
    CloudRain.read (CloudRain.encode f) = some f := CloudRain.read_encode nv f w

/-- **C09 (lateral boundary: the reader on reference files).** the memory-mapped boundary reader presents exactly the
encoded records: headers, edge definitions and, per step, the time record and the four edge records of every species -/
theorem boundary_read (nspec nx ny nz : Nat) (f : Boundary.BFile) (w : Boundary.WFb nspec nx ny nz f) :
    Boundary.read (Boundary.encode f) = some f := Boundary.read_encode nspec nx ny nz f w

/-- a one-species boundary file on a 2 x 1 grid with one layer and two time steps -/
def exBoundary : Boundary.BFile where
  headers := [List.replicate 71 0 ++ [1, 0, 0, 0, 0], [0, 0, 0, 0, 0, 0, 0, 2, 1, 1, 0, 0, 0, 0, 0], [1, 1, 2, 1],
    List.replicate 10 65]
  defs := [List.replicate 7 0, List.replicate 7 0, List.replicate 11 0, List.replicate 11 0]
  steps := [⟨[1, 2, 3, 4], [List.replicate 13 5, List.replicate 13 6, List.replicate 14 7, List.replicate 14 8]⟩,
    ⟨[5, 6, 7, 8], [List.replicate 13 9, List.replicate 13 10, List.replicate 14 11, List.replicate 14 12]⟩]

/-- non-vacuity: the example is well-formed and is read back -/
example : Boundary.WFb 1 2 1 1 exBoundary ∧ Boundary.read (Boundary.encode exBoundary) = some exBoundary := by
  have w : Boundary.WFb 1 2 1 1 exBoundary :=
    ⟨⟨_, _, _, _, rfl, by decide, by decide, by decide, by decide, by decide, by decide, by decide, by decide, by decide⟩,
      by decide, by decide, by decide, by decide⟩
  exact ⟨w, boundary_read 1 2 1 1 exBoundary w⟩

/-- non-vacuity: a two-step wind file with a three-word header, and a one-step 3-variable cloud/rain file -/
example : Wind.WFw 2 1 3 [⟨1, 19200, some 0, [[1, 2], [3, 4]]⟩, ⟨2, 19200, some 0, [[5, 6], [7, 8]]⟩] ∧
    CloudRain.WFc 3 ⟨[1, 2], 2, 1, 1, [⟨7, 19200, [[1, 2], [3, 4], [5, 6]]⟩]⟩ := by
  refine ⟨⟨by decide, by decide, by decide, by decide, by decide⟩, ⟨by decide, by decide, by decide⟩⟩

/-- **tie to the source** (regenerated from camxfiles/uamiv/Write.py and Memmap.py on every run): the writer and the
memory-mapped reader of gridded CAMx files declare the same four header records field by field; their payloads (without
the two record markers) are the 76, 15, 4 and 4 words of the model's layout; and the species count and the grid sizes
sit at the word offsets where the model reads them (71 in the first record; 7, 8, 9 in the second, i.e. words 72 and
86..88 of the file) -/
theorem uamiv_layout_matches_source :
    Generated.uamivWriterEmiss = Generated.uamivReaderEmiss ∧ Generated.uamivWriterGrid = Generated.uamivReaderGrid ∧
    Generated.uamivWriterCell = Generated.uamivReaderCell ∧ Generated.uamivWriterTime = Generated.uamivReaderTime ∧
    Generated.uamivWriterEmiss.map (fun l => l.sum - 2) = some 76 ∧ Generated.uamivWriterGrid.map (fun l => l.sum - 2) = some 15 ∧
    Generated.uamivWriterCell.map (fun l => l.sum - 2) = some 4 ∧ Generated.uamivWriterTime.map (fun l => l.sum - 2) = some 4 ∧
    (∀ side ∈ [Generated.uamivWriterEmissFields, Generated.uamivReaderEmissFields], side.bind (·.lookup "nspec") = some 71) ∧
    (∀ side ∈ [Generated.uamivWriterGridFields, Generated.uamivReaderGridFields],
      side.bind (·.lookup "nx") = some 7 ∧ side.bind (·.lookup "ny") = some 8 ∧ side.bind (·.lookup "nz") = some 9) ∧
    ∀ w : List Word, hNspec w = w.getD (1 + 71) 0 ∧ hNx w = w.getD (1 + 76 + 2 + 7) 0 ∧
      hNy w = w.getD (1 + 76 + 2 + 8) 0 ∧ hNz w = max (w.getD (1 + 76 + 2 + 9) 0) 1 := by
  refine ⟨by decide, by decide, by decide, by decide, by decide, by decide, by decide, by decide, by decide, by decide,
    fun w => ⟨rfl, rfl, rfl, rfl⟩⟩

end Props.C09
