import PncModel.File
/-!
# Lemmas about the namespaces of `eval` and `pncexpr` (python `dict` assignment, update, fill-if-free)
-/
namespace PFile
open Arr

theorem get_set_self (e : Env) (k : String) (b : Bound) : (e.set k b).get k = some b := by
  induction e with
  | nil => simp [Env.set, Env.get]
  | cons p e ih =>
    unfold Env.set
    by_cases h : p.1 == k
    · simp [h, Env.get]
    · simp [h, Env.get, ih]

theorem get_set_ne (e : Env) (k k' : String) (b : Bound) (hne : k' ≠ k) : (e.set k b).get k' = e.get k' := by
  induction e with
  | nil =>
    have : (k == k') = false := by simpa using fun h => hne h.symm
    simp [Env.set, Env.get, this]
  | cons p e ih =>
    unfold Env.set
    by_cases h : p.1 == k
    · have hk : p.1 = k := by simpa using h
      have h1 : (k == k') = false := by simpa using fun h => hne h.symm
      have h2 : (p.1 == k') = false := by rw [hk]; exact h1
      simp [h, Env.get, h1, h2]
    · simp only [h, Bool.false_eq_true, if_false, Env.get]
      rw [ih]

theorem get_update_not_mem (bs : List (String × Bound)) (e : Env) (k : String) (h : ∀ p ∈ bs, p.1 ≠ k) :
    (e.update bs).get k = e.get k := by
  induction bs generalizing e with
  | nil => rfl
  | cons p bs ih =>
    simp only [Env.update, List.foldl_cons]
    have := ih (e.set p.1 p.2) (fun q hq => h q (List.mem_cons_of_mem _ hq))
    simp only [Env.update] at this
    rw [this, get_set_ne]
    exact fun hk => h p (List.mem_cons_self) hk.symm

theorem get_update_mem (bs : List (String × Bound)) (e : Env) (k : String) (b : Bound)
    (hnd : (bs.map (·.1)).Nodup) (hm : (k, b) ∈ bs) : (e.update bs).get k = some b := by
  induction bs generalizing e with
  | nil => cases hm
  | cons p bs ih =>
    simp only [Env.update, List.foldl_cons]
    simp only [List.map_cons, List.nodup_cons] at hnd
    rcases List.mem_cons.mp hm with rfl | hm'
    · have := get_update_not_mem bs (e.set k b) k (fun q hq hk => hnd.1 (by
        rw [← hk]; exact List.mem_map_of_mem (f := (·.1)) hq))
      simp only [Env.update] at this
      rw [this, get_set_self]
    · have := ih (e.set p.1 p.2) hnd.2 hm'
      simpa only [Env.update] using this

theorem get_fill_of_some (bs : List (String × Bound)) (e : Env) (k : String) (h : (e.get k).isSome) :
    (e.fill bs).get k = e.get k := by
  induction bs generalizing e with
  | nil => rfl
  | cons p bs ih =>
    simp only [Env.fill, List.foldl_cons]
    by_cases hp : (e.get p.1).isSome
    · simp only [hp, if_true]
      exact ih e h
    · simp only [hp, Bool.false_eq_true, if_false]
      have hne : k ≠ p.1 := by
        intro hk; rw [hk] at h; exact hp h
      have h' : ((e.set p.1 p.2).get k).isSome := by rw [get_set_ne _ _ _ _ hne]; exact h
      have := ih (e.set p.1 p.2) h'
      simp only [Env.fill] at this
      rw [this, get_set_ne _ _ _ _ hne]

/-- the variables the file knows by name are the only `fileVar` bindings -/
def Sound (f : File) (e : Env) : Prop := ∀ k v, e.get k = some (.fileVar v) → f.var? k = some v

theorem sound_set (f : File) (e : Env) (k : String) (b : Bound) (h : Sound f e)
    (hb : ∀ v, b = .fileVar v → f.var? k = some v) : Sound f (e.set k b) := by
  intro k' v hg
  by_cases hk : k' = k
  · subst hk
    rw [get_set_self] at hg
    exact hb v (Option.some.inj hg)
  · rw [get_set_ne _ _ _ _ hk] at hg
    exact h k' v hg

theorem sound_update (f : File) (bs : List (String × Bound)) (e : Env) (h : Sound f e)
    (hb : ∀ p ∈ bs, ∀ v, p.2 = .fileVar v → f.var? p.1 = some v) : Sound f (e.update bs) := by
  induction bs generalizing e with
  | nil => exact h
  | cons p bs ih =>
    simp only [Env.update, List.foldl_cons]
    exact ih _ (sound_set f e p.1 p.2 h (hb p List.mem_cons_self)) (fun q hq => hb q (List.mem_cons_of_mem _ hq))

theorem sound_fill (f : File) (bs : List (String × Bound)) (e : Env) (h : Sound f e)
    (hb : ∀ p ∈ bs, ∀ v, p.2 = .fileVar v → f.var? p.1 = some v) : Sound f (e.fill bs) := by
  induction bs generalizing e with
  | nil => exact h
  | cons p bs ih =>
    simp only [Env.fill, List.foldl_cons]
    by_cases hp : (e.get p.1).isSome
    · simp only [hp, if_true]
      exact ih e h (fun q hq => hb q (List.mem_cons_of_mem _ hq))
    · simp only [hp, Bool.false_eq_true, if_false]
      exact ih _ (sound_set f e p.1 p.2 h (hb p List.mem_cons_self)) (fun q hq => hb q (List.mem_cons_of_mem _ hq))

theorem others_not_fileVar (tag : String) (ns : List String) :
    ∀ p ∈ others tag ns, ∀ v, p.2 = Bound.fileVar v → (f : File) → f.var? p.1 = some v := by
  intro p hp v hv
  simp only [others, List.mem_map] at hp
  obtain ⟨n, _, rfl⟩ := hp
  cases hv

/-- distinct variable names (a dictionary) -/
def NamesNodup (f : File) : Prop := (f.vars.map (·.name)).Nodup

theorem find?_of_mem_nodup (vs : List Var) (hn : (vs.map (·.name)).Nodup) (v : Var) (hv : v ∈ vs) :
    vs.find? (·.name == v.name) = some v := by
  induction vs with
  | nil => cases hv
  | cons w ws ih =>
    simp only [List.map_cons, List.nodup_cons] at hn
    rcases List.mem_cons.mp hv with rfl | hv'
    · simp [List.find?]
    · have hne : (w.name == v.name) = false := by
        have : w.name ≠ v.name := fun h => hn.1 (by rw [h]; exact List.mem_map_of_mem (f := (·.name)) hv')
        simpa using this
      simp only [List.find?, hne]
      exact ih hn.2 hv'

theorem var?_of_mem (f : File) (hn : NamesNodup f) (v : Var) (hv : v ∈ f.vars) : f.var? v.name = some v :=
  find?_of_mem_nodup f.vars hn v hv

theorem mem_of_var? (f : File) (n : String) (v : Var) (h : f.var? n = some v) : v ∈ f.vars ∧ v.name = n := by
  unfold File.var? at h
  exact ⟨List.mem_of_find?_eq_some h, by simpa using List.find?_some h⟩

theorem fileBinds_sound (f : File) (hn : NamesNodup f) :
    ∀ p ∈ fileBinds f, ∀ v, p.2 = Bound.fileVar v → f.var? p.1 = some v := by
  intro p hp v hv
  simp only [fileBinds, List.mem_map] at hp
  obtain ⟨w, hw, rfl⟩ := hp
  simp only [Bound.fileVar.injEq] at hv
  subst hv
  exact var?_of_mem f hn w hw

theorem fileBinds_nodup (f : File) (hn : NamesNodup f) : ((fileBinds f).map (·.1)).Nodup := by
  unfold fileBinds
  rw [List.map_map]
  exact hn

theorem sound_nil (f : File) : Sound f [] := by
  intro k v h
  simp [Env.get] at h

/-- the namespace of `pncexpr` as the source has it now (`Generated.pncexprSteps`) is: the file's variables, the helper
functions, the constants, the file's variables again, the reserved names, the attributes that are still free. A change of
the order of these statements in the source changes the generated list and this equation stops checking. -/
theorem pncexprEnv_closed (f : File) (helpers consts : List String) :
    pncexprEnv f helpers consts =
      (((((Env.update [] (fileBinds f)).update (others "helper" helpers)).update (others "const" consts)).update
        (fileBinds f)).update (others "module" ["ifile", "infile", "np", "datetime"])).fill (others "attr" f.attrs) := by
  simp [pncexprEnv, Generated.pncexprSteps, nsStep, Env.update, others]

theorem pncexprReserved_closed : pncexprReserved = ["ifile", "infile", "np", "datetime"] := by
  simp [pncexprReserved, Generated.pncexprSteps, reservedOf]

theorem evalEnv_closed (f : File) :
    evalEnv f = ((Env.update [] (fileBinds f)).fill (others "attr" f.attrs)).update (others "module" ["np", "self", "outf"]) := by
  simp [evalEnv, Generated.evalSteps, nsStep, Env.update, others]

theorem evalReserved_closed : evalReserved = ["np", "self", "outf"] := by
  simp [evalReserved, Generated.evalSteps, reservedOf]

end PFile
