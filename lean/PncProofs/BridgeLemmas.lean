import PncProofs.UamivLemmas
import PncProofs.PrefixLemmas
import Mathlib.Tactic.Ring

/-!
Bridge between the record-walking reference codec and the fixed-stride memory-mapped reader:
on the encoding of any well-formed content the strides computed from the header counts land
exactly on the fields the encoder wrote.
-/
namespace Camx
open Words

theorem encodeRecs_append (a b : List (List Word)) : encodeRecs (a ++ b) = encodeRecs a ++ encodeRecs b := by
  simp [encodeRecs]

theorem encodeRecs_cons (p : List Word) (ps : List (List Word)) :
    encodeRecs (p :: ps) = frame p ++ encodeRecs ps := by simp [encodeRecs]

/-- chunk `t` of a flattened list of equal-length chunks -/
theorem flatten_drop_take {α} (L : Nat) : ∀ (chunks : List (List α)) (t : Nat) (ht : t < chunks.length),
    (∀ c ∈ chunks, c.length = L) → ((chunks.flatten).drop (t * L)).take L = chunks[t]
  | [], t, ht, _ => by simp at ht
  | c :: cs, 0, _, h => by
    simp only [List.flatten_cons, Nat.zero_mul, List.drop_zero, List.getElem_cons_zero]
    exact List.take_left' (h c (by simp))
  | c :: cs, t + 1, ht, h => by
    have hc : c.length = L := h c (by simp)
    have : (t + 1) * L = c.length + t * L := by rw [hc]; ring
    simp only [List.flatten_cons, List.getElem_cons_succ]
    rw [this, ← List.drop_drop, List.drop_left]
    exact flatten_drop_take L cs t (by simpa using ht) (fun x hx => h x (by simp [hx]))

theorem range_map_getElem {α} (l : List α) (d : α) : (List.range l.length).map (fun i => l.getD i d) = l := by
  apply List.ext_getElem
  · simp
  · intro i h1 h2
    simp only [List.getElem_map, List.getElem_range]
    simp [List.getD_eq_getElem?_getD, List.getElem?_eq_getElem (by simpa using h2)]

theorem take_drop_comm {α} (l : List α) (a b c : Nat) (h : a + b ≤ c) :
    ((l.take c).drop a).take b = (l.drop a).take b := take_drop_take l c a b h

theorem frame_dataRec_extract (spc : List Nat) (d : List Word) (hs : spc.length = 10) :
    ((frame (dataRec spc d)).drop 12).take d.length = d := by
  have hc : (chars spc).length = 10 := by rw [chars_length, hs]
  have : frame (dataRec spc d) = [4 * (dataRec spc d).length, 1] ++ chars spc ++ (d ++ [4 * (dataRec spc d).length]) := by
    simp [frame, dataRec]
  rw [this]
  have h12 : ([4 * (dataRec spc d).length, 1] ++ chars spc).length = 12 := by simp [hc]
  rw [List.drop_left' h12, List.take_left' rfl]

theorem frame_dataRec_length (spc : List Nat) (d : List Word) (hs : spc.length = 10) :
    (frame (dataRec spc d)).length = 13 + d.length := by
  rw [frame_length, dataRec_length spc d hs]; omega

/-- the framed data records of one step, as a list of equal-length chunks -/
def stepChunks (species : List (List Nat)) (data : List (List (List Word))) : List (List Word) :=
  (List.zip species data).flatMap (fun p => p.2.map (fun d => frame (dataRec p.1 d)))

theorem encodeRecs_flatMap_speciesRecords : ∀ (ps : List (List Nat × List (List Word))),
    encodeRecs (ps.flatMap speciesRecords) = (ps.flatMap (fun p => p.2.map (fun d => frame (dataRec p.1 d)))).flatten
  | [] => rfl
  | p :: ps => by
    simp only [List.flatMap_cons, encodeRecs_append, List.flatten_append, encodeRecs_flatMap_speciesRecords ps]
    congr 1
    simp [encodeRecs, speciesRecords, List.map_map, Function.comp_def]

/-- chunk number `s*nz + z` is the record of species `s`, layer `z` -/
theorem stepChunks_getElem (nz : Nat) : ∀ (species : List (List Nat)) (data : List (List (List Word)))
    (s z : Nat) (hs : s < species.length) (hl : data.length = species.length) (hz : z < nz)
    (hnz : ∀ lays ∈ data, lays.length = nz),
    (stepChunks species data)[s * nz + z]? =
      some (frame (dataRec (species.getD s []) ((data.getD s []).getD z [])))
  | [], _, s, _, hs, _, _, _ => by simp at hs
  | _ :: _, [], _, _, _, hl, _, _ => by simp at hl
  | spc :: more, lays :: data, 0, z, _, _, hz, hnz => by
    have hl0 : lays.length = nz := hnz lays (by simp)
    simp only [stepChunks, List.zip_cons_cons, List.flatMap_cons, Nat.zero_mul, Nat.zero_add,
      List.getD_cons_zero]
    rw [List.getElem?_append_left (by simp [hl0]; exact hz)]
    simp [List.getD_eq_getElem?_getD, List.getElem?_eq_getElem (by omega : z < lays.length)]
  | spc :: more, lays :: data, s + 1, z, hs, hl, hz, hnz => by
    have hl0 : lays.length = nz := hnz lays (by simp)
    have ih := stepChunks_getElem nz more data s z (by simpa using hs) (by simpa using hl) hz
      (fun l h => hnz l (by simp [h]))
    simp only [stepChunks, List.zip_cons_cons, List.flatMap_cons, List.getD_cons_succ]
    have : (s + 1) * nz + z = (lays.map (fun d => frame (dataRec spc d))).length + (s * nz + z) := by
      simp [hl0]; ring
    rw [this, List.getElem?_append_right (by omega)]
    simp only [Nat.add_sub_cancel_left]
    exact ih

theorem stepChunks_length (nz : Nat) : ∀ (species : List (List Nat)) (data : List (List (List Word))),
    data.length = species.length → (∀ lays ∈ data, lays.length = nz) →
    (stepChunks species data).length = species.length * nz
  | [], [], _, _ => by simp [stepChunks]
  | [], _ :: _, hl, _ => by simp at hl
  | _ :: _, [], hl, _ => by simp at hl
  | spc :: more, lays :: data, hl, hnz => by
    have ih := stepChunks_length nz more data (by simpa using hl) (fun l h => hnz l (by simp [h]))
    simp only [stepChunks, List.zip_cons_cons, List.flatMap_cons, List.length_append, List.length_map,
      List.length_cons] at ih ⊢
    rw [ih, hnz lays (by simp)]; ring

theorem stepChunks_chunkLen (cells : Nat) (species : List (List Nat)) (data : List (List (List Word)))
    (hs : ∀ s ∈ species, s.length = 10) (hd : ∀ lays ∈ data, ∀ d ∈ lays, d.length = cells) :
    ∀ c ∈ stepChunks species data, c.length = 13 + cells := by
  intro c hc
  simp only [stepChunks, List.mem_flatMap, List.mem_map] at hc
  obtain ⟨p, hp, d, hdm, rfl⟩ := hc
  have hp1 := (List.of_mem_zip hp).1
  have hp2 := (List.of_mem_zip hp).2
  rw [frame_dataRec_length p.1 d (hs p.1 hp1), hd p.2 hp2 d hdm]

end Camx

namespace Camx
open Words

/-- shapes of one step's data -/
def StepOK (nspec nz cells : Nat) (s : Step) : Prop :=
  s.data.length = nspec ∧ ∀ lays ∈ s.data, lays.length = nz ∧ ∀ d ∈ lays, d.length = cells

theorem stepWords_eq (species : List (List Nat)) (s : Step) :
    encodeRecs (stepRecords species s) =
      [16, s.ibdate, s.btime, s.iedate, s.etime, 16] ++ (stepChunks species s.data).flatten := by
  simp only [stepRecords, encodeRecs_cons, frame, List.length_cons, List.length_nil]
  rw [encodeRecs_flatMap_speciesRecords]
  simp [stepChunks]

theorem stepWords_length (species : List (List Nat)) (nz cells : Nat) (s : Step)
    (hs : ∀ x ∈ species, x.length = 10) (hok : StepOK species.length nz cells s) :
    (encodeRecs (stepRecords species s)).length = blockWords species.length nz 1 cells := by
  obtain ⟨hl, hlay⟩ := hok
  rw [stepWords_eq]
  have hcl := stepChunks_chunkLen cells species s.data hs (fun l hl' d hd => (hlay l hl').2 d hd)
  have hn := stepChunks_length nz species s.data hl (fun l hl' => (hlay l hl').1)
  have : ((stepChunks species s.data).flatten).length = (stepChunks species s.data).length * (13 + cells) := by
    generalize stepChunks species s.data = C at hcl
    induction C with
    | nil => simp
    | cons c C ih =>
      simp only [List.flatten_cons, List.length_append, List.length_cons]
      rw [ih (fun x hx => hcl x (by simp [hx])), hcl c (by simp)]; ring
  simp only [List.length_append, List.length_cons, List.length_nil, this, hn, blockWords]
  ring

/-- the fixed-stride read of one encoded time block returns the step -/
theorem readStep_encode (species : List (List Nat)) (nz cells : Nat) (s : Step)
    (hs : ∀ x ∈ species, x.length = 10) (hok : StepOK species.length nz cells s) :
    readStep species.length nz cells (encodeRecs (stepRecords species s)) = s := by
  obtain ⟨hl, hlay⟩ := hok
  rw [stepWords_eq]
  unfold readStep
  simp only [List.getD_cons_succ, List.getD_cons_zero, List.cons_append, List.nil_append,
    List.drop_succ_cons, List.drop_zero]
  have hcl := stepChunks_chunkLen cells species s.data hs (fun l hl' d hd => (hlay l hl').2 d hd)
  have hn := stepChunks_length nz species s.data hl (fun l hl' => (hlay l hl').1)
  have hdata : (List.range species.length).map (fun si => (List.range nz).map (fun z =>
      (((stepChunks species s.data).flatten.drop (si * (nz * (13 + cells)) + z * (13 + cells))).drop 12).take cells))
      = s.data := by
    have hrows : ∀ si, si < species.length → (List.range nz).map (fun z =>
        (((stepChunks species s.data).flatten.drop (si * (nz * (13 + cells)) + z * (13 + cells))).drop 12).take cells)
        = s.data.getD si [] := by
      intro si hsi
      have hsi' : si < s.data.length := by rw [hl]; exact hsi
      have hlaylen : (s.data.getD si []).length = nz := by
        have : s.data.getD si [] = s.data[si] := by simp [List.getD_eq_getElem?_getD, List.getElem?_eq_getElem hsi']
        rw [this]; exact (hlay _ (List.getElem_mem hsi')).1
      conv_rhs => rw [← range_map_getElem (s.data.getD si []) []]
      rw [hlaylen]
      apply List.map_congr_left
      intro z hz
      have hz' : z < nz := by simpa using hz
      have hidx : si * (nz * (13 + cells)) + z * (13 + cells) = (si * nz + z) * (13 + cells) := by ring
      have hlt : si * nz + z < (stepChunks species s.data).length := by
        rw [hn]; nlinarith
      have hget := stepChunks_getElem nz species s.data si z hsi hl hz' (fun l h => (hlay l h).1)
      have hchunk : (stepChunks species s.data)[si * nz + z] =
          frame (dataRec (species.getD si []) ((s.data.getD si []).getD z [])) := by
        have := List.getElem?_eq_getElem hlt
        rw [this] at hget; exact Option.some.inj hget
      have hdlen : ((s.data.getD si []).getD z []).length = cells := by
        have h1 : s.data.getD si [] = s.data[si] := by simp [List.getD_eq_getElem?_getD, List.getElem?_eq_getElem hsi']
        have hz2 : z < (s.data[si]).length := by rw [← h1, hlaylen]; exact hz'
        have h2 : (s.data[si]).getD z [] = (s.data[si])[z] := by simp [List.getD_eq_getElem?_getD, List.getElem?_eq_getElem hz2]
        rw [h1, h2]
        exact (hlay _ (List.getElem_mem hsi')).2 _ (List.getElem_mem hz2)
      have hslen : (species.getD si []).length = 10 := by
        have : species.getD si [] = species[si] := by simp [List.getD_eq_getElem?_getD, List.getElem?_eq_getElem hsi]
        rw [this]; exact hs _ (List.getElem_mem hsi)
      rw [hidx]
      rw [← take_drop_comm _ 12 cells (13 + cells) (by omega)]
      rw [flatten_drop_take (13 + cells) (stepChunks species s.data) (si * nz + z) hlt hcl, hchunk]
      rw [← hdlen]
      exact frame_dataRec_extract _ _ hslen
    conv_rhs => rw [← range_map_getElem s.data []]
    rw [hl]
    apply List.map_congr_left
    intro si hsi
    exact hrows si (by simpa using hsi)
  rw [hdata]

end Camx

namespace Camx
open Words

/-- what the reader should present for content `f` -/
def viewOf (f : Uamiv) : MMView :=
  { nspec := f.nspec, nx := f.nx, ny := f.ny, nz := f.nz,
    hdr := chars f.name ++ chars f.note ++ [f.itzon, f.nspec, f.ibdate, f.btime, f.iedate, f.etime],
    grid := f.grid, species := f.species, steps := f.steps }

/-- header part of the encoding -/
def headWords (f : Uamiv) : List Word :=
  frame (chars f.name ++ chars f.note ++ [f.itzon, f.nspec, f.ibdate, f.btime, f.iedate, f.etime]) ++
  frame f.grid ++ frame [1, 1, f.nx, f.ny] ++ frame (f.species.map chars).flatten

def bodyWords (f : Uamiv) : List Word := (f.steps.map (fun s => encodeRecs (stepRecords f.species s))).flatten

theorem encode_split (f : Uamiv) : f.encode = headWords f ++ bodyWords f := by
  unfold Uamiv.encode Uamiv.records headWords bodyWords
  simp only [List.cons_append, List.nil_append, encodeRecs_cons, List.append_assoc]
  congr 4
  generalize f.steps = ss
  induction ss with
  | nil => rfl
  | cons s ss ih => simp only [List.flatMap_cons, encodeRecs_append, List.map_cons, List.flatten_cons, ih]

theorem headWords_length (f : Uamiv) (h : WF f) : (headWords f).length = 103 + 10 * f.nspec := by
  unfold headWords
  simp only [List.length_append, frame_length, List.length_cons, List.length_nil, chars_length, h.name,
    h.note, h.grid, flatten_chars_length f.species h.species, Uamiv.nspec]
  omega

theorem bodyWords_length (f : Uamiv) (h : WF f) :
    (bodyWords f).length = f.steps.length * blockWords f.nspec f.nz f.nx f.ny := by
  unfold bodyWords
  have hb : ∀ s ∈ f.steps, (encodeRecs (stepRecords f.species s)).length = blockWords f.nspec f.nz f.nx f.ny := by
    intro s hs
    have := stepWords_length f.species f.nz (f.nx * f.ny) s h.species (h.steps s hs)
    rw [this]; simp [blockWords, Uamiv.nspec]
  generalize f.steps = ss at hb
  induction ss with
  | nil => simp
  | cons s ss ih =>
    simp only [List.map_cons, List.flatten_cons, List.length_append, List.length_cons]
    rw [ih (fun x hx => hb x (by simp [hx])), hb s (by simp)]; ring

/-- reading a word of the header part -/
theorem encode_getD_head (f : Uamiv) (i : Nat) (hi : i < (headWords f).length) :
    f.encode.getD i 0 = (headWords f).getD i 0 := by
  rw [encode_split]
  simp only [List.getD_eq_getElem?_getD]
  rw [List.getElem?_append_left hi]

end Camx

namespace Camx
open Words

theorem drop_take_mid {α} (a b c : List α) (n m : Nat) (hn : a.length = n) (hm : b.length = m) :
    ((a ++ (b ++ c)).drop n).take m = b := by
  rw [List.drop_left' hn, List.take_left' hm]

theorem getD_mid {α} (a b : List α) (n i : Nat) (d : α) (hn : a.length = n) :
    (a ++ b).getD (n + i) d = b.getD i d := by
  simp only [List.getD_eq_getElem?_getD]
  rw [List.getElem?_append_right (by omega)]
  simp [hn]

/-- **the memory-mapped reader reads what the encoder wrote**: for every well-formed content with
at least one layer and one time step, the fixed-stride reader applied to the encoding presents
exactly the content (header, grid, species, every step and data word). -/
theorem decodeMM_encode (f : Uamiv) (h : WF f) (hnz : 1 ≤ f.nz) (hnt : f.steps ≠ []) :
    decodeMM f.encode 0 = .ok (viewOf f) := by
  have hname := h.name
  have hnote := h.note
  have hgrid := h.grid
  have hcn : (chars f.name).length = 10 := by rw [chars_length, hname]
  have hcno : (chars f.note).length = 60 := by rw [chars_length, hnote]
  set R0 := chars f.name ++ chars f.note ++ [f.itzon, f.nspec, f.ibdate, f.btime, f.iedate, f.etime] with hR0
  have hR0len : R0.length = 76 := by rw [hR0]; simp [hcn, hcno]
  set SP := (f.species.map chars).flatten with hSP
  have hSPlen : SP.length = 10 * f.nspec := flatten_chars_length f.species h.species
  have hHW : headWords f = [4 * 76] ++ (R0 ++ ([4 * 76, 60] ++ (f.grid ++
      ([60, 16, 1, 1, f.nx, f.ny, 16, 4 * (10 * f.nspec)] ++ (SP ++ [4 * (10 * f.nspec)]))))) := by
    unfold headWords frame
    simp [← hR0, ← hSP, hR0len, hSPlen, hgrid]
  have hHlen := headWords_length f h
  have hBlen := bodyWords_length f h
  have hwlen : f.encode.length = 103 + 10 * f.nspec + f.steps.length * blockWords f.nspec f.nz f.nx f.ny := by
    rw [encode_split, List.length_append, hHlen, hBlen]
  -- header reads
  have hg : ∀ i, i < 15 → f.encode.getD (79 + i) 0 = f.grid.getD i 0 := by
    intro i hi
    rw [encode_getD_head f (79 + i) (by rw [hHlen]; omega), hHW]
    have e1 : ([4 * 76] ++ (R0 ++ ([4 * 76, 60] ++ (f.grid ++ ([60, 16, 1, 1, f.nx, f.ny, 16, 4 * (10 * f.nspec)] ++ (SP ++ [4 * (10 * f.nspec)]))))))
        = ([4 * 76] ++ R0 ++ [4 * 76, 60]) ++ (f.grid ++ ([60, 16, 1, 1, f.nx, f.ny, 16, 4 * (10 * f.nspec)] ++ (SP ++ [4 * (10 * f.nspec)]))) := by
      simp
    rw [e1, getD_mid _ _ 79 i 0 (by simp [hR0len])]
    simp only [List.getD_eq_getElem?_getD]
    rw [List.getElem?_append_left (by omega)]
  have eN : hNspec f.encode = f.nspec := by
    unfold hNspec
    rw [encode_getD_head f 72 (by rw [hHlen]; omega), hHW]
    have : (72 : Nat) = 1 + 71 := rfl
    rw [this, getD_mid [4 * 76] _ 1 71 0 rfl]
    simp only [List.getD_eq_getElem?_getD]
    rw [List.getElem?_append_left (by omega), hR0]
    have h70 : (chars f.name ++ chars f.note).length = 70 := by simp [hcn, hcno]
    rw [List.getElem?_append_right (by omega)]
    simp [h70]
  have eX : hNx f.encode = f.nx := by
    unfold hNx; exact hg 7 (by omega)
  have eY : hNy f.encode = f.ny := by
    unfold hNy; exact hg 8 (by omega)
  have eZ : hNz f.encode = f.nz := by
    unfold hNz
    have : f.encode.getD 88 0 = f.nz := hg 9 (by omega)
    rw [this]; exact Nat.max_eq_left hnz
  have eO : hOff f.encode = 103 + 10 * f.nspec := by unfold hOff dataOffset; rw [eN]
  have eB : hBlk f.encode = blockWords f.nspec f.nz f.nx f.ny := by unfold hBlk; rw [eN, eX, eY, eZ]
  have hbpos : 0 < blockWords f.nspec f.nz f.nx f.ny := by unfold blockWords; omega
  have hntpos : 0 < f.steps.length := by
    cases hst : f.steps with
    | nil => exact absurd hst hnt
    | cons _ _ => simp
  unfold decodeMM
  simp only [Nat.add_zero, eN, eO, eB, hwlen]
  have hsz : 4 * (103 + 10 * f.nspec + f.steps.length * blockWords f.nspec f.nz f.nx f.ny) - 4 * (103 + 10 * f.nspec)
      = 4 * blockWords f.nspec f.nz f.nx f.ny * f.steps.length := by
    rw [Nat.mul_add, Nat.add_sub_cancel_left]; ring
  rw [hsz, Nat.mul_mod_right, Nat.mul_div_cancel_left _ (by omega : 0 < 4 * blockWords f.nspec f.nz f.nx f.ny)]
  have c1 : ¬ 4 * (103 + 10 * f.nspec + f.steps.length * blockWords f.nspec f.nz f.nx f.ny) < 404 := by omega
  have c2 : ¬ 4 * (103 + 10 * f.nspec + f.steps.length * blockWords f.nspec f.nz f.nx f.ny) < 408 + 40 * f.nspec := by omega
  have c3 : ¬ 4 * (103 + 10 * f.nspec + f.steps.length * blockWords f.nspec f.nz f.nx f.ny) < 4 * (103 + 10 * f.nspec) := by omega
  have c5 : ¬ f.steps.length = 0 := by omega
  simp only [c1, c2, c3, c5, if_false, ne_eq, not_true_eq_false]
  congr 1
  unfold mkView viewOf
  simp only [eN, eX, eY, eZ, eO, eB]
  -- the three header slices
  have hs1 : (f.encode.drop 1).take 76 = R0 := by
    rw [encode_split, hHW]
    simp only [List.append_assoc]
    exact drop_take_mid [4 * 76] R0 _ 1 76 rfl hR0len
  have hs2 : (f.encode.drop 79).take 15 = f.grid := by
    rw [encode_split, hHW]
    have e1 : ([4 * 76] ++ (R0 ++ ([4 * 76, 60] ++ (f.grid ++ ([60, 16, 1, 1, f.nx, f.ny, 16, 4 * (10 * f.nspec)] ++ (SP ++ [4 * (10 * f.nspec)])))))) ++ bodyWords f
        = ([4 * 76] ++ R0 ++ [4 * 76, 60]) ++ (f.grid ++ (([60, 16, 1, 1, f.nx, f.ny, 16, 4 * (10 * f.nspec)] ++ (SP ++ [4 * (10 * f.nspec)])) ++ bodyWords f)) := by
      simp
    rw [e1]
    exact drop_take_mid _ f.grid _ 79 15 (by simp [hR0len]) hgrid
  have hs3 : (f.encode.drop 102).take (10 * f.nspec) = SP := by
    rw [encode_split, hHW]
    have e1 : ([4 * 76] ++ (R0 ++ ([4 * 76, 60] ++ (f.grid ++ ([60, 16, 1, 1, f.nx, f.ny, 16, 4 * (10 * f.nspec)] ++ (SP ++ [4 * (10 * f.nspec)])))))) ++ bodyWords f
        = ([4 * 76] ++ R0 ++ [4 * 76, 60] ++ f.grid ++ [60, 16, 1, 1, f.nx, f.ny, 16, 4 * (10 * f.nspec)]) ++ (SP ++ ([4 * (10 * f.nspec)] ++ bodyWords f)) := by
      simp
    rw [e1]
    exact drop_take_mid _ SP _ 102 (10 * f.nspec) (by simp [hR0len, hgrid]) hSPlen
  rw [hs1, hs2, hs3, hSP]
  have hspc := splitEvery_species f.species h.species
  simp only [Uamiv.nspec] at hspc ⊢
  rw [hspc]
  -- the steps
  have hsteps : (List.range f.steps.length).map (fun t =>
      readStep f.species.length f.nz (f.nx * f.ny)
        (((f.encode.drop (103 + 10 * f.species.length)).drop (t * blockWords f.species.length f.nz f.nx f.ny)).take
          (blockWords f.species.length f.nz f.nx f.ny))) = f.steps := by
    have hdrop : f.encode.drop (103 + 10 * f.species.length) = bodyWords f := by
      rw [encode_split]
      exact List.drop_left' (by simpa [Uamiv.nspec] using hHlen)
    rw [hdrop]
    conv_rhs => rw [← List.map_id f.steps]
    have hchunks : ∀ c ∈ f.steps.map (fun s => encodeRecs (stepRecords f.species s)),
        c.length = blockWords f.species.length f.nz f.nx f.ny := by
      intro c hc
      obtain ⟨s, hs, rfl⟩ := List.mem_map.mp hc
      have := stepWords_length f.species f.nz (f.nx * f.ny) s h.species (h.steps s hs)
      rw [this]; simp [blockWords]
    apply List.ext_getElem
    · simp
    · intro t h1 h2
      have ht : t < f.steps.length := by simpa using h2
      simp only [List.getElem_map, List.getElem_range, id]
      unfold bodyWords
      rw [flatten_drop_take _ _ t (by simpa using ht) hchunks]
      simp only [List.getElem_map]
      exact readStep_encode f.species f.nz (f.nx * f.ny) f.steps[t] h.species (h.steps _ (List.getElem_mem ht))
  rw [hsteps]
  simp only [hR0, Uamiv.nspec]

end Camx
