import PncProofs.ArrLemmas
import PncModel.File
/-!
# Lemmas about the zipped (pointwise) selection `Arr.zipSel` / `Arr.pointSel`: shape and element-wise meaning
(property statements: `zip_shape`, `zip_get` in PncProofs/C02.lean; used by `slice_wf` in PncProofs/C01Files.lean)
-/
namespace Arr
variable {α : Type}

/-- every index of every selection list lies inside the corresponding axis of the shape -/
def SelsIn : List (List Nat) → List Nat → Prop
  | s :: rest, n :: sh => (∀ i ∈ s, i < n) ∧ SelsIn rest sh
  | _ :: _, [] => False
  | [], _ => True

theorem inRange_of_shape : ∀ (sels : List (List Nat)) (sh : List Nat) (a : Arr α), hasShape sh a = true →
    SelsIn sels sh → InRange sels a
  | [], _, _, _, _ => by simp [InRange]
  | s :: rest, [], _, _, h => by simp [SelsIn] at h
  | s :: rest, n :: sh, leaf _, h, _ => by simp [hasShape] at h
  | s :: rest, n :: sh, node xs, h, hs => by
    simp only [hasShape, Bool.and_eq_true, beq_iff_eq] at h
    obtain ⟨h1, h2⟩ := hs
    refine ⟨fun i hi => by rw [h.1]; exact h1 i hi, fun x hx => ?_⟩
    exact inRange_of_shape rest sh x (forall_of_hasShapeL sh xs h.2 x hx) h2

theorem mapM_option_mem {β γ} (f : β → Option γ) : ∀ (l : List β) (out : List γ), l.mapM f = some out →
    out.length = l.length ∧ ∀ y ∈ out, ∃ x ∈ l, f x = some y
  | [], out, h => by
    simp only [List.mapM_nil, Option.pure_def, Option.some.injEq] at h
    subst h
    simp
  | x :: l, out, h => by
    rw [List.mapM_cons] at h
    cases hx : f x with
    | none => rw [hx] at h; cases h
    | some b =>
      rw [hx] at h
      cases hl : l.mapM f with
      | none => rw [hl] at h; cases h
      | some bs =>
        rw [hl] at h
        have : out = b :: bs := by cases h; rfl
        subst this
        obtain ⟨h1, h2⟩ := mapM_option_mem f l bs hl
        refine ⟨by simp [h1], fun y hy => ?_⟩
        rcases List.mem_cons.mp hy with rfl | hy'
        · exact ⟨x, by simp, hx⟩
        · obtain ⟨x', hx', hf⟩ := h2 y hy'
          exact ⟨x', List.mem_cons_of_mem _ hx', hf⟩

/-- the selections of a zipped slice whose lists lie inside the axes -/
def ZSelsIn : List Sel → List Nat → Prop
  | Sel.keep s :: rest, n :: sh => (∀ i ∈ s, i < n) ∧ ZSelsIn rest sh
  | Sel.zip s :: rest, n :: sh => (∀ i ∈ s, i < n) ∧ ZSelsIn rest sh
  | _ :: _, [] => False
  | [], _ => True

/-- shape of one point of the zipped selection: kept axes with the selected lengths, zipped axes dropped -/
def pointShape : List Sel → List Nat → List Nat
  | Sel.keep s :: rest, _ :: sh => s.length :: pointShape rest sh
  | Sel.zip _ :: rest, _ :: sh => pointShape rest sh
  | _, sh => sh

/-- shape of the zipped selection: the new axis (length `L`) where the first zipped axis was -/
def zipShape (L : Nat) : List Sel → List Nat → List Nat
  | Sel.keep s :: rest, _ :: sh => s.length :: zipShape L rest sh
  | Sel.zip s :: rest, n :: sh => L :: pointShape (Sel.zip s :: rest) (n :: sh)
  | _, sh => sh

theorem mem_pick (s : List Nat) (xs : List (Arr α)) (x : Arr α) (h : x ∈ pick s xs) : x ∈ xs := by
  unfold pick at h
  obtain ⟨i, _, hi⟩ := List.mem_filterMap.mp h
  exact List.mem_of_getElem? hi

theorem pointSel_shape (p : Nat) : ∀ (ss : List Sel) (sh : List Nat) (a r : Arr α), hasShape sh a = true →
    ZSelsIn ss sh → pointSel p ss a = some r → hasShape (pointShape ss sh) r = true
  | [], sh, a, r, h, _, hr => by
    simp only [pointSel, Option.some.injEq] at hr
    subst hr
    simpa [pointShape] using h
  | _ :: _, [], _, _, _, hz, _ => by cases ‹Sel› <;> simp [ZSelsIn] at hz
  | Sel.keep s :: rest, n :: sh, leaf _, r, h, _, _ => by simp [hasShape] at h
  | Sel.zip s :: rest, n :: sh, leaf _, r, h, _, _ => by simp [hasShape] at h
  | Sel.keep s :: rest, n :: sh, node xs, r, h, hz, hr => by
    simp only [hasShape, Bool.and_eq_true, beq_iff_eq] at h
    obtain ⟨hs, hrest⟩ := hz
    simp only [pointSel, Option.map_eq_some_iff] at hr
    obtain ⟨out, hout, rfl⟩ := hr
    obtain ⟨hlen, hmem⟩ := mapM_option_mem _ _ _ hout
    simp only [pointShape, hasShape, Bool.and_eq_true, beq_iff_eq]
    refine ⟨by rw [hlen]; exact pick_length s xs (fun i hi => by rw [h.1]; exact hs i hi), ?_⟩
    apply hasShapeL_of_forall
    intro y hy
    obtain ⟨x, hx, hfx⟩ := hmem y hy
    exact pointSel_shape p rest sh x y (forall_of_hasShapeL sh xs h.2 x (mem_pick s xs x hx)) hrest hfx
  | Sel.zip s :: rest, n :: sh, node xs, r, h, hz, hr => by
    simp only [hasShape, Bool.and_eq_true, beq_iff_eq] at h
    obtain ⟨_, hrest⟩ := hz
    simp only [pointSel] at hr
    cases hsp : s[p]? with
    | none => rw [hsp] at hr; cases hr
    | some i =>
      rw [hsp] at hr
      simp only at hr
      cases hxi : xs[i]? with
      | none => rw [hxi] at hr; cases hr
      | some x =>
        rw [hxi] at hr
        simp only [pointShape]
        exact pointSel_shape p rest sh x r (forall_of_hasShapeL sh xs h.2 x (List.mem_of_getElem? hxi)) hrest hr

theorem zipSel_shape (L : Nat) : ∀ (ss : List Sel) (sh : List Nat) (a r : Arr α), hasShape sh a = true →
    ZSelsIn ss sh → zipSel L ss a = some r → hasShape (zipShape L ss sh) r = true
  | [], sh, a, r, h, _, hr => by
    simp only [zipSel, Option.some.injEq] at hr
    subst hr
    simpa [zipShape] using h
  | _ :: _, [], _, _, _, hz, _ => by cases ‹Sel› <;> simp [ZSelsIn] at hz
  | Sel.keep s :: rest, n :: sh, leaf _, r, h, _, _ => by simp [hasShape] at h
  | Sel.keep s :: rest, n :: sh, node xs, r, h, hz, hr => by
    simp only [hasShape, Bool.and_eq_true, beq_iff_eq] at h
    obtain ⟨hs, hrest⟩ := hz
    simp only [zipSel, Option.map_eq_some_iff] at hr
    obtain ⟨out, hout, rfl⟩ := hr
    obtain ⟨hlen, hmem⟩ := mapM_option_mem _ _ _ hout
    simp only [zipShape, hasShape, Bool.and_eq_true, beq_iff_eq]
    refine ⟨by rw [hlen]; exact pick_length s xs (fun i hi => by rw [h.1]; exact hs i hi), ?_⟩
    apply hasShapeL_of_forall
    intro y hy
    obtain ⟨x, hx, hfx⟩ := hmem y hy
    exact zipSel_shape L rest sh x y (forall_of_hasShapeL sh xs h.2 x (mem_pick s xs x hx)) hrest hfx
  | Sel.zip s :: rest, n :: sh, a, r, h, hz, hr => by
    simp only [zipSel, Option.map_eq_some_iff] at hr
    obtain ⟨out, hout, rfl⟩ := hr
    obtain ⟨hlen, hmem⟩ := mapM_option_mem _ _ _ hout
    simp only [zipShape, hasShape, Bool.and_eq_true, beq_iff_eq]
    refine ⟨by rw [hlen]; simp, ?_⟩
    apply hasShapeL_of_forall
    intro y hy
    obtain ⟨p, _, hfp⟩ := hmem y hy
    exact pointSel_shape p (Sel.zip s :: rest) (n :: sh) a y h hz hfp


theorem mapM_option_getElem? {β γ} (f : β → Option γ) : ∀ (l : List β) (out : List γ), l.mapM f = some out →
    ∀ (j : Nat), out[j]? = (l[j]?).bind f
  | [], out, h, j => by
    simp only [List.mapM_nil, Option.pure_def, Option.some.injEq] at h
    subst h
    simp
  | x :: l, out, h, j => by
    rw [List.mapM_cons] at h
    cases hx : f x with
    | none => rw [hx] at h; cases h
    | some b =>
      rw [hx] at h
      cases hl : l.mapM f with
      | none => rw [hl] at h; cases h
      | some bs =>
        rw [hl] at h
        have : out = b :: bs := by cases h; rfl
        subst this
        cases j with
        | zero => simp [hx]
        | succ j => simpa using mapM_option_getElem? f l bs hl j

/-- source index of a cell of one point of the zipped selection -/
def pointIdx (p : Nat) : List Sel → List Nat → Option (List Nat)
  | Sel.keep s :: rest, j :: idx => match s[j]?, pointIdx p rest idx with
    | some i, some r => some (i :: r)
    | _, _ => none
  | Sel.zip s :: rest, idx => match s[p]?, pointIdx p rest idx with
    | some i, some r => some (i :: r)
    | _, _ => none
  | [], idx => some idx
  | Sel.keep _ :: _, [] => none

/-- source index of a cell of the zipped selection: the position on the new axis picks the `p`-th entry of every
zipped list, the other positions index the kept lists -/
def zipIdx : List Sel → List Nat → Option (List Nat)
  | Sel.keep s :: rest, j :: idx => match s[j]?, zipIdx rest idx with
    | some i, some r => some (i :: r)
    | _, _ => none
  | Sel.zip s :: rest, p :: idx => pointIdx p (Sel.zip s :: rest) idx
  | [], idx => some idx
  | _ :: _, [] => none

theorem pointSel_get (p : Nat) : ∀ (ss : List Sel) (sh : List Nat) (a r : Arr α) (idx : List Nat),
    hasShape sh a = true → ZSelsIn ss sh → pointSel p ss a = some r →
    get r idx = (pointIdx p ss idx).bind (get a)
  | [], sh, a, r, idx, _, _, hr => by
    simp only [pointSel, Option.some.injEq] at hr
    subst hr
    simp [pointIdx]
  | _ :: _, [], _, _, _, _, hz, _ => by cases ‹Sel› <;> simp [ZSelsIn] at hz
  | Sel.keep s :: rest, n :: sh, leaf _, r, _, h, _, _ => by simp [hasShape] at h
  | Sel.zip s :: rest, n :: sh, leaf _, r, _, h, _, _ => by simp [hasShape] at h
  | Sel.keep s :: rest, n :: sh, node xs, r, idx, h, hz, hr => by
    simp only [hasShape, Bool.and_eq_true, beq_iff_eq] at h
    obtain ⟨hs, hrest⟩ := hz
    simp only [pointSel, Option.map_eq_some_iff] at hr
    obtain ⟨out, hout, rfl⟩ := hr
    cases idx with
    | nil => simp [get, pointIdx]
    | cons j idx =>
      have hsx : ∀ i ∈ s, i < xs.length := fun i hi => by rw [h.1]; exact hs i hi
      simp only [get, pointIdx, mapM_option_getElem? _ _ _ hout j, pick_getElem? s xs hsx]
      cases hsj : s[j]? with
      | none => simp
      | some i =>
        have hi : i < xs.length := hsx i (List.mem_of_getElem? hsj)
        simp only [Option.bind_some, List.getElem?_eq_getElem hi]
        cases hp : pointSel p rest xs[i] with
        | none =>
          -- impossible: every selected child was mapped successfully
          have := mapM_option_getElem? _ _ _ hout j
          rw [pick_getElem? s xs hsx, hsj] at this
          simp only [Option.bind_some, List.getElem?_eq_getElem hi, hp] at this
          have hlen := (mapM_option_mem _ _ _ hout).1
          have hj : j < out.length := by
            rw [hlen, pick_length s xs hsx]
            exact (List.getElem?_eq_some_iff.mp hsj).1
          rw [List.getElem?_eq_getElem hj] at this
          cases this
        | some y =>
          simp only [Option.bind_some]
          rw [pointSel_get p rest sh xs[i] y idx (forall_of_hasShapeL sh xs h.2 _ (List.getElem_mem hi)) hrest hp]
          cases pointIdx p rest idx with
          | none => simp
          | some r => simp [get, List.getElem?_eq_getElem hi]
  | Sel.zip s :: rest, n :: sh, node xs, r, idx, h, hz, hr => by
    simp only [hasShape, Bool.and_eq_true, beq_iff_eq] at h
    obtain ⟨hs, hrest⟩ := hz
    simp only [pointSel] at hr
    cases hsp : s[p]? with
    | none => rw [hsp] at hr; cases hr
    | some i =>
      rw [hsp] at hr
      simp only at hr
      cases hxi : xs[i]? with
      | none => rw [hxi] at hr; cases hr
      | some x =>
        rw [hxi] at hr
        simp only [pointIdx, hsp]
        rw [pointSel_get p rest sh x r idx (forall_of_hasShapeL sh xs h.2 x (List.mem_of_getElem? hxi)) hrest hr]
        cases pointIdx p rest idx with
        | none => simp
        | some q => simp [get, hxi]

/-- every zipped list has the common length `L` -/
def ZLen (L : Nat) : List Sel → Prop
  | Sel.zip s :: rest => s.length = L ∧ ZLen L rest
  | Sel.keep _ :: rest => ZLen L rest
  | [] => True

/-- **zipped selection, element-wise.** The cell at an index of the result of a zipped (pointwise) selection is the
cell of the source whose index takes, on every zipped axis, the entry of that axis' list at the position on the new axis,
and on every other axis the entry of that axis' list at the corresponding position. -/
theorem zipSel_get (L : Nat) : ∀ (ss : List Sel) (sh : List Nat) (a r : Arr α) (idx : List Nat),
    hasShape sh a = true → ZSelsIn ss sh → ZLen L ss → zipSel L ss a = some r →
    get r idx = (zipIdx ss idx).bind (get a)
  | [], sh, a, r, idx, _, _, _, hr => by
    simp only [zipSel, Option.some.injEq] at hr
    subst hr
    simp [zipIdx]
  | _ :: _, [], _, _, _, _, hz, _, _ => by cases ‹Sel› <;> simp [ZSelsIn] at hz
  | Sel.keep s :: rest, n :: sh, leaf _, r, _, h, _, _, _ => by simp [hasShape] at h
  | Sel.keep s :: rest, n :: sh, node xs, r, idx, h, hz, hl, hr => by
    simp only [hasShape, Bool.and_eq_true, beq_iff_eq] at h
    obtain ⟨hs, hrest⟩ := hz
    simp only [zipSel, Option.map_eq_some_iff] at hr
    obtain ⟨out, hout, rfl⟩ := hr
    cases idx with
    | nil => simp [get, zipIdx]
    | cons j idx =>
      have hsx : ∀ i ∈ s, i < xs.length := fun i hi => by rw [h.1]; exact hs i hi
      simp only [get, zipIdx, mapM_option_getElem? _ _ _ hout j, pick_getElem? s xs hsx]
      cases hsj : s[j]? with
      | none => simp
      | some i =>
        have hi : i < xs.length := hsx i (List.mem_of_getElem? hsj)
        simp only [Option.bind_some, List.getElem?_eq_getElem hi]
        cases hp : zipSel L rest xs[i] with
        | none =>
          have := mapM_option_getElem? _ _ _ hout j
          rw [pick_getElem? s xs hsx, hsj] at this
          simp only [Option.bind_some, List.getElem?_eq_getElem hi, hp] at this
          have hlen := (mapM_option_mem _ _ _ hout).1
          have hj : j < out.length := by
            rw [hlen, pick_length s xs hsx]
            exact (List.getElem?_eq_some_iff.mp hsj).1
          rw [List.getElem?_eq_getElem hj] at this
          cases this
        | some y =>
          simp only
          rw [zipSel_get L rest sh xs[i] y idx (forall_of_hasShapeL sh xs h.2 _ (List.getElem_mem hi)) hrest hl hp]
          cases zipIdx rest idx with
          | none => simp
          | some r => simp [get, List.getElem?_eq_getElem hi]
  | Sel.zip s :: rest, n :: sh, a, r, idx, h, hz, hl, hr => by
    simp only [zipSel, Option.map_eq_some_iff] at hr
    obtain ⟨out, hout, rfl⟩ := hr
    cases idx with
    | nil => simp [get, zipIdx]
    | cons p q =>
      simp only [get, zipIdx, mapM_option_getElem? _ _ _ hout p]
      by_cases hp : p < L
      · simp only [List.getElem?_range hp, Option.bind_some]
        cases hy : pointSel p (Sel.zip s :: rest) a with
        | none =>
          have := mapM_option_getElem? _ _ _ hout p
          simp only [List.getElem?_range hp, Option.bind_some, hy] at this
          have hlen := (mapM_option_mem _ _ _ hout).1
          have hj : p < out.length := by rw [hlen]; simpa using hp
          rw [List.getElem?_eq_getElem hj] at this
          cases this
        | some y =>
          simp only
          exact pointSel_get p (Sel.zip s :: rest) (n :: sh) a y q h hz hy
      · have h1 : (List.range L)[p]? = none := by
          rw [List.getElem?_eq_none_iff]; simpa using Nat.le_of_not_lt hp
        have h2 : s[p]? = none := by
          rw [List.getElem?_eq_none_iff, hl.1]; exact Nat.le_of_not_lt hp
        simp [h1, pointIdx, h2]

end Arr
