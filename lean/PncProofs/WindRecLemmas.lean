import PncModel.Camx.WindRecRead
import PncProofs.WindLemmas
import PncProofs.BoundaryLemmas

/-! walking a framed-record file by its markers (`RecordFile.next`) -/
namespace WindRec
open Words Slab

/-- the record at `pos`: what follows `pos` is the frame of `r` and then `rest` -/
def At (ws : List Word) (pos : Nat) (r : List Word) (rest : List Word) : Prop :=
  pos ≤ ws.length ∧ ws.drop pos = frame r ++ rest

theorem at_marker {ws pos r rest} (h : At ws pos r rest) : ws.getD pos 0 = 4 * r.length := by
  have h2 := h.2
  have : ws.getD pos 0 = (ws.drop pos).headD 0 := by
    rw [List.getD_eq_getElem?_getD]
    cases hd : ws.drop pos with
    | nil =>
      have : ws.length ≤ pos := by
        have := congrArg List.length hd; simp at this; omega
      simp [List.getElem?_eq_none this]
    | cons a as =>
      have h0 : (ws.drop pos)[0]? = ws[pos + 0]? := List.getElem?_drop
      rw [hd] at h0; simp at h0
      simp [← h0]
  rw [this, h2]; simp [frame]

theorem at_length {ws pos r rest} (h : At ws pos r rest) : ws.length = pos + (r.length + 2) + rest.length := by
  have := congrArg List.length h.2
  simp only [List.length_drop, List.length_append, frame_length] at this
  have := h.1
  omega

theorem at_next {ws pos r rest} (h : At ws pos r rest) (r' rest' : List Word) (hr : rest = frame r' ++ rest') :
    nextRec ws pos = some (pos + r.length + 2) ∧ At ws (pos + r.length + 2) r' rest' := by
  have hl := at_length h
  have hm := at_marker h
  subst hr
  have hlt : pos + r.length + 2 < ws.length := by
    rw [hl]; simp only [List.length_append, frame_length]; omega
  refine ⟨?_, by omega, ?_⟩
  · unfold nextRec
    simp only [hm, Nat.mul_div_cancel_left _ (show 0 < 4 by omega)]
    rw [if_pos hlt]
  · have : ws.drop (pos + r.length + 2) = (ws.drop pos).drop (r.length + 2) := by
      rw [List.drop_drop, Nat.add_assoc]
    rw [this, h.2, ← frame_length r, List.drop_left]

theorem at_last {ws pos r} (h : At ws pos r []) : nextRec ws pos = none := by
  have hl := at_length h
  have hm := at_marker h
  unfold nextRec
  simp only [hm, Nat.mul_div_cancel_left _ (show 0 < 4 by omega)]
  rw [if_neg (by rw [hl]; simp only [List.length_nil]; omega)]

theorem encodeRecs_cons (p : List Word) (ps : List (List Word)) : encodeRecs (p :: ps) = frame p ++ encodeRecs ps :=
  Wind.encodeRecs_cons' p ps

/-- `n` successful `next()` calls over `rs` when a record follows them -/
theorem advance_over (ws : List Word) (r' rest' : List Word) : ∀ (rs : List (List Word)) (pos : Nat),
    pos ≤ ws.length → ws.drop pos = encodeRecs rs ++ (frame r' ++ rest') →
    advance ws rs.length pos = some (pos + (encodeRecs rs).length) ∧
      At ws (pos + (encodeRecs rs).length) r' rest'
  | [], pos, hp, h => by
    simp only [encodeRecs, List.map_nil, List.flatten_nil, List.nil_append, List.length_nil, Nat.add_zero] at h ⊢
    exact ⟨rfl, hp, h⟩
  | r :: rs, pos, hp, h => by
    rw [encodeRecs_cons, List.append_assoc] at h
    have hat : At ws pos r (encodeRecs rs ++ (frame r' ++ rest')) := ⟨hp, h⟩
    -- the record behind `r`
    obtain ⟨x, xs, hx⟩ : ∃ x xs, encodeRecs rs ++ (frame r' ++ rest') = frame x ++ xs := by
      cases rs with
      | nil => exact ⟨r', rest', by simp [encodeRecs]⟩
      | cons y ys => exact ⟨y, encodeRecs ys ++ (frame r' ++ rest'), by rw [encodeRecs_cons, List.append_assoc]⟩
    obtain ⟨hn, hat'⟩ := at_next hat x xs hx
    have ih := advance_over ws r' rest' rs (pos + r.length + 2) hat'.1 (by rw [hat'.2, ← hx])
    simp only [List.length_cons, advance, hn]
    rw [ih.1]
    have hl : (encodeRecs (r :: rs)).length = (r.length + 2) + (encodeRecs rs).length := by
      rw [encodeRecs_cons, List.length_append, frame_length]
    constructor
    · congr 1; rw [hl]; omega
    · have : pos + (encodeRecs (r :: rs)).length = pos + r.length + 2 + (encodeRecs rs).length := by rw [hl]; omega
      rw [this]; exact ih.2

/-- the first loop of `__gettimestep` over records none of which has the size of a header, up to one that has -/
theorem findHeader_over (ws : List Word) (hb : Nat) (hd rest : List Word) (hhd : 4 * hd.length = hb) :
    ∀ (ds : List (List Word)) (pos n fuel : Nat), pos ≤ ws.length →
      ws.drop pos = encodeRecs ds ++ (frame hd ++ rest) → (∀ d ∈ ds, 4 * d.length ≠ hb) → ds.length + 1 ≤ fuel →
      findHeader ws hb fuel pos n = some (.inr (n + ds.length, pos + (encodeRecs ds).length))
  | [], pos, n, fuel, hp, h, _, hf => by
    obtain ⟨fuel, rfl⟩ : ∃ k, fuel = k + 1 := ⟨fuel - 1, by omega⟩
    simp only [encodeRecs, List.map_nil, List.flatten_nil, List.nil_append] at h
    have hm := at_marker (ws := ws) (pos := pos) ⟨hp, h⟩
    unfold findHeader
    rw [hm, if_pos hhd]
    simp [encodeRecs]
  | d :: ds, pos, n, fuel, hp, h, hall, hf => by
    obtain ⟨fuel, rfl⟩ : ∃ k, fuel = k + 1 := ⟨fuel - 1, by omega⟩
    rw [encodeRecs_cons, List.append_assoc] at h
    have hat : At ws pos d (encodeRecs ds ++ (frame hd ++ rest)) := ⟨hp, h⟩
    obtain ⟨x, xs, hx⟩ : ∃ x xs, encodeRecs ds ++ (frame hd ++ rest) = frame x ++ xs := by
      cases ds with
      | nil => exact ⟨hd, rest, by simp [encodeRecs]⟩
      | cons y ys => exact ⟨y, encodeRecs ys ++ (frame hd ++ rest), by rw [encodeRecs_cons, List.append_assoc]⟩
    obtain ⟨hn, hat'⟩ := at_next hat x xs hx
    have hm := at_marker hat
    unfold findHeader
    rw [hm, if_neg (hall d (by simp)), hn]
    simp only
    rw [findHeader_over ws hb hd rest hhd ds (pos + d.length + 2) (n + 1) fuel hat'.1 (by rw [hat'.2, ← hx])
      (fun y hy => hall y (by simp [hy])) (by simp only [List.length_cons] at hf; omega)]
    have hl : (encodeRecs (d :: ds)).length = (d.length + 2) + (encodeRecs ds).length := by
      rw [encodeRecs_cons, List.length_append, frame_length]
    simp only [List.length_cons, hl]
    congr 3 <;> omega

/-- … and when the file ends before any record has the size of a header -/
theorem findHeader_eof (ws : List Word) (hb : Nat) :
    ∀ (ds : List (List Word)) (pos n fuel : Nat), pos ≤ ws.length → ds ≠ [] →
      ws.drop pos = encodeRecs ds → (∀ d ∈ ds, 4 * d.length ≠ hb) → ds.length ≤ fuel →
      findHeader ws hb fuel pos n = some (.inl (n + ds.length - 1))
  | [], _, _, _, _, hne, _, _, _ => absurd rfl hne
  | [d], pos, n, fuel, hp, _, h, hall, hf => by
    obtain ⟨fuel, rfl⟩ : ∃ k, fuel = k + 1 := ⟨fuel - 1, by simp at hf; omega⟩
    have hat : At ws pos d [] := ⟨hp, by rw [h]; simp [encodeRecs]⟩
    unfold findHeader
    rw [at_marker hat, if_neg (hall d (by simp)), at_last hat]
    simp
  | d :: d2 :: ds, pos, n, fuel, hp, _, h, hall, hf => by
    obtain ⟨fuel, rfl⟩ : ∃ k, fuel = k + 1 := ⟨fuel - 1, by simp at hf; omega⟩
    rw [encodeRecs_cons] at h
    have hat : At ws pos d (encodeRecs (d2 :: ds)) := ⟨hp, h⟩
    obtain ⟨hn, hat'⟩ := at_next hat d2 (encodeRecs ds) (encodeRecs_cons d2 ds)
    unfold findHeader
    rw [at_marker hat, if_neg (hall d (by simp)), hn]
    simp only
    rw [findHeader_eof ws hb (d2 :: ds) (pos + d.length + 2) (n + 1) fuel hat'.1 (by simp)
      (by rw [hat'.2, encodeRecs_cons]) (fun y hy => hall y (by simp [hy])) (by simp only [List.length_cons] at hf ⊢; omega)]
    simp only [List.length_cons]
    congr 2; omega

end WindRec
