import PncModel.Interp
import Mathlib.Tactic.Linarith
import Mathlib.Tactic.Ring
import Mathlib.Tactic.FieldSimp
import Mathlib.Algebra.Order.Field.Basic

namespace Interp

/-- strictly ascending, as a Prop on the list structure -/
def Asc : List ℚ → Prop
  | a :: b :: rest => a < b ∧ Asc (b :: rest)
  | _ => True

theorem isAsc_iff : ∀ l : List ℚ, isAsc l = true ↔ Asc l
  | [] => by simp [isAsc, Asc]
  | [_] => by simp [isAsc, Asc]
  | a :: b :: rest => by simp [isAsc, Asc, isAsc_iff (b :: rest)]

@[simp] theorem sum_nil : sum [] = 0 := rfl
@[simp] theorem sum_cons (a : ℚ) (l : List ℚ) : sum (a :: l) = a + sum l := rfl
@[simp] theorem sum_zeros (n : ℕ) : sum (zeros n) = 0 := by
  induction n with
  | zero => rfl
  | succ n ih => simp [zeros, List.replicate_succ] at *; exact ih

@[simp] theorem dot_zeros (n : ℕ) (l : List ℚ) : dot (zeros n) l = 0 := by
  induction n generalizing l with
  | zero => simp [zeros, dot]
  | succ n ih => cases l with
    | nil => simp [zeros, List.replicate_succ, dot]
    | cons a l => simp [zeros, List.replicate_succ, dot] at *; exact ih l

/-- every column sums to one (extrapolating weights) -/
theorem col_sum : ∀ (xs : List ℚ) (t : ℚ), 2 ≤ xs.length → sum (col xs t) = 1
  | [], _, h => by simp at h
  | [_], _, h => by simp at h
  | [x0, x1], t, _ => by simp [col]
  | x0 :: x1 :: x2 :: rest, t, _ => by
    by_cases h : t ≤ x1
    · simp [col, h]
    · simp [col, h, col_sum (x1 :: x2 :: rest) t (by simp)]

/-- a linear profile is reproduced exactly for every target (extrapolating weights) -/
theorem col_dot_linear (a b : ℚ) : ∀ (xs : List ℚ) (t : ℚ), 2 ≤ xs.length → Asc xs →
    dot (col xs t) (xs.map (fun x => a * x + b)) = a * t + b
  | [], _, h, _ => by simp at h
  | [_], _, h, _ => by simp at h
  | [x0, x1], t, _, hs => by
    have hne : x1 - x0 ≠ 0 := by have := hs.1; intro h; linarith
    simp only [col, dot, List.map]
    field_simp
    ring
  | x0 :: x1 :: x2 :: rest, t, _, hs => by
    have hne : x1 - x0 ≠ 0 := by have := hs.1; intro h; linarith
    by_cases h : t ≤ x1
    · simp only [col, h, if_true, dot, List.map, dot_zeros]
      field_simp
      ring
    · have ih := col_dot_linear a b (x1 :: x2 :: rest) t (by simp) hs.2
      simp only [col, h, if_false, dot, List.map] at ih ⊢
      rw [ih]; ring

/-- inside the source range the extrapolating weights are already non-negative -/
theorem col_nonneg_inside : ∀ (xs : List ℚ) (t : ℚ) (hne : xs ≠ []), Asc xs →
    xs.head hne ≤ t → t ≤ xs.getLast hne → ∀ w ∈ col xs t, 0 ≤ w
  | [_], _, _, _, _, _ => by simp [col]
  | [x0, x1], t, _, hs, h0, h1 => by
    have hpos : 0 < x1 - x0 := by have := hs.1; linarith
    simp only [List.head_cons] at h0
    simp only [List.getLast_cons_cons, List.getLast_singleton] at h1
    intro w hw
    simp only [col, List.mem_cons, List.not_mem_nil, or_false] at hw
    have hf0 : 0 ≤ (t - x0) / (x1 - x0) := div_nonneg (by linarith) hpos.le
    have hf1 : (t - x0) / (x1 - x0) ≤ 1 := by rw [div_le_one hpos]; linarith
    rcases hw with rfl | rfl <;> linarith
  | x0 :: x1 :: x2 :: rest, t, _, hs, h0, h1 => by
    have hpos : 0 < x1 - x0 := by have := hs.1; linarith
    simp only [List.head_cons] at h0
    intro w hw
    by_cases h : t ≤ x1
    · simp only [col, h, if_true, List.mem_cons] at hw
      have hf0 : 0 ≤ (t - x0) / (x1 - x0) := div_nonneg (by linarith) hpos.le
      have hf1 : (t - x0) / (x1 - x0) ≤ 1 := by rw [div_le_one hpos]; linarith
      rcases hw with rfl | rfl | hw
      · linarith
      · linarith
      · have : w = 0 := by
          simp only [zeros] at hw
          exact List.eq_of_mem_replicate hw
        simp [this]
    · simp only [col, h, if_false, List.mem_cons] at hw
      rcases hw with rfl | hw
      · exact le_refl _
      · exact col_nonneg_inside (x1 :: x2 :: rest) t (by simp) hs.2
          (by simp only [List.head_cons]; linarith [not_le.mp h])
          (by simpa [List.getLast_cons] using h1) w hw

/-! clip and renormalise -/

theorem sum_map_div (l : List ℚ) (s : ℚ) : sum (l.map (· / s)) = sum l / s := by
  induction l with
  | nil => simp
  | cons a l ih => simp [ih, add_div]

theorem sum_le_sum_clip (l : List ℚ) : sum l ≤ sum (l.map (max 0)) := by
  induction l with
  | nil => simp
  | cons a l ih => simp only [List.map_cons, sum_cons]; have := le_max_right 0 a; linarith

theorem sum_clip_nonneg (l : List ℚ) : 0 ≤ sum (l.map (max 0)) := by
  induction l with
  | nil => simp
  | cons a l ih => simp only [List.map_cons, sum_cons]; have := le_max_left 0 a; linarith

theorem clipNorm_sum (w : List ℚ) (h : sum w = 1) : sum (clipNorm w) = 1 := by
  unfold clipNorm
  simp only
  rw [sum_map_div]
  have : 0 < sum (w.map (max 0)) := by have := sum_le_sum_clip w; linarith
  exact div_self (ne_of_gt this)

theorem clipNorm_nonneg (w : List ℚ) : ∀ v ∈ clipNorm w, 0 ≤ v := by
  unfold clipNorm
  simp only [List.mem_map, forall_exists_index, and_imp]
  intro v c x _ hc hv
  subst hv; subst hc
  exact div_nonneg (le_max_left 0 x) (sum_clip_nonneg w)

theorem map_max_id (w : List ℚ) (h : ∀ v ∈ w, 0 ≤ v) : w.map (max 0) = w := by
  induction w with
  | nil => rfl
  | cons a w ih =>
    simp only [List.map_cons]
    rw [ih (fun v hv => h v (by simp [hv])), max_eq_right (h a (by simp))]

theorem clipNorm_id (w : List ℚ) (hs : sum w = 1) (h : ∀ v ∈ w, 0 ≤ v) : clipNorm w = w := by
  unfold clipNorm
  simp only
  rw [map_max_id w h, hs]
  simp

end Interp
