import PncProofs.C01
import PncProofs.C04
namespace Props.C01
open Arr PFile Props.C04

/-! ## Lemmas for `stack_wf` (PncProofs/C01Files.lean): shape of a concatenation of several pieces, what a successful
`stackFiles` established, dimension lookups in the stacked file -/

/-- shape of a concatenation of several pieces along axis `k`: the pieces' lengths add up -/
theorem concatAll_shape (k : Nat) (sh : List Nat) (hk : k < sh.length) :
    ∀ (parts : List (Arr Cell × Nat)), parts ≠ [] →
      (∀ p ∈ parts, hasShape (sh.set k p.2) p.1 = true) →
      hasShape (sh.set k ((parts.map (·.2)).foldl (· + ·) 0)) (concatAll k (parts.map (·.1))) = true
  | [], h, _ => absurd rfl h
  | [p], _, hp => by
    simpa [concatAll] using hp p (by simp)
  | p :: q :: rest, _, hp => by
    have ih := concatAll_shape k sh hk (q :: rest) (by simp) (fun r hr => hp r (List.mem_cons_of_mem _ hr))
    have hp1 := hp p (by simp)
    simp only [List.map_cons, concatAll] at ih ⊢
    have hk' : k < (sh.set k p.2).length := by simpa using hk
    have := concat_shape k (sh.set k p.2) (((q :: rest).map (·.2)).foldl (· + ·) 0) p.1
      (concatAll k (q.1 :: rest.map (·.1))) hk' hp1 (by simpa [List.set_set] using ih)
    have hget : (sh.set k p.2).getD k 0 = p.2 := by
      simp [List.getD, List.getElem?_set_self hk]
    rw [hget, List.set_set] at this
    have hsum : ∀ (l : List Nat) (a : Nat), l.foldl (· + ·) a = a + l.foldl (· + ·) 0 := by
      intro l
      induction l with
      | nil => intro a; simp
      | cons x l ih => intro a; simp only [List.foldl_cons]; rw [ih (a + x), ih (0 + x)]; omega
    simp only [List.foldl_cons, List.map_cons] at this ⊢
    rw [hsum _ (0 + p.2 + q.2)]
    rw [hsum _ (0 + q.2)] at this
    have e : 0 + p.2 + q.2 + List.foldl (· + ·) 0 (List.map (·.2) rest) =
        p.2 + (0 + q.2 + List.foldl (· + ·) 0 (List.map (·.2) rest)) := by omega
    rw [e]
    exact this


theorem firstByName_mem : ∀ (l acc : List Var) (v : Var), v ∈ firstByName acc l → v ∈ acc ∨ v ∈ l
  | [], acc, v, h => Or.inl (by simpa [firstByName] using h)
  | x :: l, acc, v, h => by
    unfold firstByName at h
    split at h
    · rcases firstByName_mem l acc v h with h | h
      · exact Or.inl h
      · exact Or.inr (List.mem_cons_of_mem _ h)
    · rcases firstByName_mem l (acc ++ [x]) v h with h | h
      · rcases List.mem_append.mp h with h | h
        · exact Or.inl h
        · exact Or.inr (by simp at h; simp [h])
      · exact Or.inr (List.mem_cons_of_mem _ h)

theorem mapM_except_mem {α β} (f : α → Except String β) : ∀ (l : List α) (out : List β), l.mapM f = .ok out →
    ∀ y ∈ out, ∃ x ∈ l, f x = .ok y
  | [], out, h, y, hy => by
    simp only [List.mapM_nil] at h
    cases h
    cases hy
  | x :: l, out, h, y, hy => by
    rw [List.mapM_cons] at h
    cases hx : f x with
    | error e => rw [hx] at h; cases h
    | ok b =>
      rw [hx] at h
      cases hl : l.mapM f with
      | error e => rw [hl] at h; cases h
      | ok bs =>
        rw [hl] at h
        have : out = b :: bs := by cases h; rfl
        subst this
        rcases List.mem_cons.mp hy with rfl | hy'
        · exact ⟨x, by simp, hx⟩
        · obtain ⟨x', hx', hf⟩ := mapM_except_mem f l bs hl y hy'
          exact ⟨x', List.mem_cons_of_mem _ hx', hf⟩

/-- the pieces `stackVar` concatenates: one per file, the data of the variable of that name -/
theorem parts_of_mapM (n sd : String) : ∀ (fs : List File) (ws : List Var),
    fs.mapM (fun h => h.var? n) = some ws →
    ∃ parts : List (Arr Cell × Nat), parts.map (·.1) = ws.map (·.data) ∧
      parts.map (·.2) = fs.map (·.dimLen sd) ∧
      (∀ p ∈ parts, ∃ h ∈ fs, ∃ w, h.var? n = some w ∧ p = (w.data, h.dimLen sd)) ∧ (fs ≠ [] → parts ≠ [])
  | [], ws, h => by
    simp only [List.mapM_nil, Option.pure_def, Option.some.injEq] at h
    subst h
    exact ⟨[], rfl, rfl, by simp, by simp⟩
  | g :: fs, ws, h => by
    rw [List.mapM_cons] at h
    cases hg : g.var? n with
    | none => rw [hg] at h; cases h
    | some w =>
      rw [hg] at h
      cases hl : fs.mapM (fun h => h.var? n) with
      | none => rw [hl] at h; cases h
      | some ws' =>
        rw [hl] at h
        have : ws = w :: ws' := by cases h; rfl
        subst this
        obtain ⟨parts, h1, h2, h3, _⟩ := parts_of_mapM n sd fs ws' hl
        refine ⟨(w.data, g.dimLen sd) :: parts, by simp [h1], by simp [h2], ?_, by simp⟩
        intro p hp
        rcases List.mem_cons.mp hp with rfl | hp'
        · exact ⟨g, by simp, w, hg, rfl⟩
        · obtain ⟨h', hh', w', hw', e⟩ := h3 p hp'
          exact ⟨h', List.mem_cons_of_mem _ hh', w', hw', e⟩


theorem find?_name_of_mem {α} (nm : α → String) : ∀ (l : List α), (l.map nm).Nodup → ∀ x ∈ l,
    l.find? (fun y => nm y == nm x) = some x
  | [], _, x, hx => by cases hx
  | y :: l, hn, x, hx => by
    simp only [List.map_cons, List.nodup_cons] at hn
    rcases List.mem_cons.mp hx with rfl | hx'
    · simp [List.find?]
    · have hne : (nm y == nm x) = false := by
        have : nm y ≠ nm x := fun h => hn.1 (by rw [h]; exact List.mem_map_of_mem (f := nm) hx')
        simpa using this
      simp only [List.find?, hne]
      exact find?_name_of_mem nm l hn.2 x hx'

/-- same-named variables have the same dimension tuple in every file -/
def Conform (fs : List File) : Prop :=
  ∀ g ∈ fs, ∀ h ∈ fs, ∀ v ∈ g.vars, ∀ w, h.var? v.name = some w → w.dims = v.dims

def DimsNodup (f : File) : Prop := (f.dims.map (·.name)).Nodup

theorem shared_facts (fs : List File) (f0 : File) (sd : String) (d : Dim) (hd : d ∈ sharedDims fs f0 sd) :
    d ∈ f0.dims ∧ d.name ≠ sd ∧ ∀ g ∈ fs, g.dimLen d.name = d.len := by
  unfold sharedDims at hd
  obtain ⟨h1, h2⟩ := List.mem_filter.mp hd
  obtain ⟨h3, h4⟩ := List.mem_filter.mp h1
  refine ⟨h3, by simpa using h4, fun g hg => ?_⟩
  have := List.all_eq_true.mp h2 g hg
  simpa using this

theorem shared_nodup (fs : List File) (f0 : File) (sd : String) (hn : DimsNodup f0) :
    ((sharedDims fs f0 sd).map (·.name)).Nodup := by
  unfold sharedDims
  exact hn.sublist ((List.filter_sublist.trans List.filter_sublist).map _)

/-- in the stacked file a shared dimension is found under its name with its length -/
theorem stacked_dim_shared (fs : List File) (f0 : File) (sd : String) (hn : DimsNodup f0) (sdim : Dim) (vars : List Var)
    (attrs : List String) (d : Dim) (hd : d ∈ sharedDims fs f0 sd) :
    (File.mk (sharedDims fs f0 sd ++ [sdim]) vars attrs).dim? d.name = some d := by
  unfold File.dim?
  simp only
  rw [List.find?_append, find?_name_of_mem (·.name) _ (shared_nodup fs f0 sd hn) d hd]
  rfl

theorem stacked_dim_sd (fs : List File) (f0 : File) (sd : String) (sdim : Dim) (hs : sdim.name = sd) (vars : List Var)
    (attrs : List String) :
    (File.mk (sharedDims fs f0 sd ++ [sdim]) vars attrs).dim? sd = some sdim := by
  unfold File.dim?
  simp only
  rw [List.find?_append]
  have : (sharedDims fs f0 sd).find? (fun x => x.name == sd) = none := by
    rw [List.find?_eq_none]
    intro x hx
    have := (shared_facts fs f0 sd x hx).2.1
    simpa using this
  rw [this]
  simp [List.find?, hs]


/-- what a successful `stack` returns, with the facts its checks established -/
theorem stack_ok (f0 : File) (rest : List File) (sd : String) (r : File)
    (hs : stackFiles (f0 :: rest) sd = .ok r) :
    ∃ vars, (firstByName [] ((f0 :: rest).flatMap (·.vars))).mapM (stackVar (f0 :: rest) sd) = .ok vars ∧
      r = { dims := sharedDims (f0 :: rest) f0 sd ++
              [{ name := sd, len := ((f0 :: rest).map (·.dimLen sd)).foldl (· + ·) 0,
                 unlim := ((f0.dim? sd).map (·.unlim)).getD false }],
            vars := vars, attrs := f0.attrs } ∧
      (∀ g ∈ f0 :: rest, ∀ d ∈ g.dims, d.name ≠ sd → ∃ e ∈ sharedDims (f0 :: rest) f0 sd, e.name = d.name) ∧
      (∀ g ∈ f0 :: rest, (g.dim? sd).isSome = true) := by
  unfold stackFiles at hs
  simp only at hs
  split at hs
  · cases hs
  · split at hs
    · cases hs
    · split at hs
      · cases hs
      · rename_i c1 c2 c3
        split at hs
        · rename_i vars hv
          refine ⟨vars, hv, by cases hs; rfl, ?_, ?_⟩
          · intro g hg d hd hne
            have := c2
            simp only [List.any_eq_true, not_exists, not_and, Bool.and_eq_true, bne_iff_ne, ne_eq,
              Bool.not_eq_eq_eq_not, Bool.not_true] at this
            have h := this g hg d hd hne
            -- h : ¬ (shared.any ..) = false
            have h' : (sharedDims (f0 :: rest) f0 sd).any (fun x => x.name == d.name) = true := by
              cases hh : (sharedDims (f0 :: rest) f0 sd).any (fun x => x.name == d.name) with
              | true => rfl
              | false => exact absurd hh h
            obtain ⟨e, he, hen⟩ := List.any_eq_true.mp h'
            exact ⟨e, he, by simpa using hen⟩
          · intro g hg
            have := c3
            simp only [List.any_eq_true, not_exists, not_and] at this
            have h := this g hg
            cases hh : (g.dim? sd).isSome with
            | true => rfl
            | false => exact absurd (by simpa using hh) h
        · cases hs


/-- a dimension tuple that names `sd` once: the lengths under two length functions that agree off `sd` differ at most at
the position of `sd` -/
theorem map_set_idxOf (sd : String) (f1 f2 : String → Nat) : ∀ (ds : List String),
    (∀ k ∈ ds, k ≠ sd → f1 k = f2 k) → ds.contains sd = true → ¬ (ds.filter (· == sd)).length > 1 →
    ds.map f1 = (ds.map f2).set (ds.idxOf sd) (f1 sd)
  | [], _, hm, _ => by simp at hm
  | x :: ds, hag, hm, hone => by
    by_cases hx : x = sd
    · subst hx
      have hrest : ∀ k ∈ ds, k ≠ x := by
        intro k hk hkx
        apply hone
        subst hkx
        have : (ds.filter (· == k)).length ≥ 1 := by
          have : k ∈ ds.filter (· == k) := List.mem_filter.mpr ⟨hk, by simp⟩
          exact List.length_pos_of_mem this
        simp only [List.filter_cons, beq_self_eq_true, if_true, List.length_cons]
        omega
      have : ds.map f1 = ds.map f2 := List.map_congr_left (fun k hk => hag k (List.mem_cons_of_mem _ hk) (hrest k hk))
      simp [List.idxOf_cons_self, this]
    · have hbeq : (x == sd) = false := by simpa using hx
      have hm' : ds.contains sd = true := by
        simp only [List.contains_cons, Bool.or_eq_true] at hm
        rcases hm with h | h
        · exact absurd (by simpa using h : sd = x).symm hx
        · exact h
      have hone' : ¬ (ds.filter (· == sd)).length > 1 := by
        simpa [List.filter_cons, hbeq] using hone
      have ih := map_set_idxOf sd f1 f2 ds (fun k hk => hag k (List.mem_cons_of_mem _ hk)) hm' hone'
      have hidx : (x :: ds).idxOf sd = ds.idxOf sd + 1 := by
        simp [List.idxOf_cons, hbeq]
      rw [hidx]
      simp only [List.map_cons, List.set_cons_succ]
      rw [← ih, hag x (by simp) hx]

end Props.C01
