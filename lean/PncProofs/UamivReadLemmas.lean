import PncModel.Camx.UamivRead
import PncProofs.BridgeLemmas
import Mathlib.Tactic.Ring
import Mathlib.Tactic.Linarith

/-! the record reader of gridded files: time axis, record positions, agreement with the memory-mapped reader -/
namespace UamivRead
open Words Camx

theorem sint_small (w : Word) (h : w < 2147483648) : sint w = (w : Int) := by
  unfold sint; rw [if_neg (Nat.not_le.mpr h)]

theorem timeadd_zero (d x : Int) (h0 : 0 ≤ x) (h24 : x < 24) : timeadd 24 (d, x) 0 = (d, x) := by
  unfold timeadd
  simp only [Int.add_zero]
  rw [if_neg (by omega), if_neg (by omega)]

theorem timeadd_step (d x s : Int) (h0 : 0 ≤ x + s) (h24 : x + s < 24) : timeadd 24 (d, x) s = (d, x + s) := by
  unfold timeadd
  simp only
  rw [if_neg (by omega), if_neg (by omega)]

/-- a regular axis inside one day: `timerange` yields exactly its `n` instants -/
theorem trange_regular (d s : Int) (hs : 1 ≤ s) : ∀ (n : Nat) (b : Int) (fuel : Nat), 0 ≤ b → b + n * s < 24 → n ≤ fuel →
    trange 24 s (d, b + n * s) fuel (d, b) = some ((List.range n).map (fun j => (d, b + (j : Nat) * s)))
  | 0, b, fuel, _, _, _ => by
    cases fuel <;> simp [trange]
  | n + 1, b, fuel, h0, h24, hf => by
    obtain ⟨fuel, rfl⟩ : ∃ k, fuel = k + 1 := ⟨fuel - 1, by omega⟩
    have hns : (0 : Int) ≤ (n : Int) * s := Int.mul_nonneg (Int.natCast_nonneg n) (by omega)
    have hcast : ((n + 1 : Nat) : Int) * s = (n : Int) * s + s := by push_cast; ring
    have hne : ¬ ((d, b) = (d, b + ((n + 1 : Nat) : Int) * s)) := by
      intro h
      have := (Prod.mk.inj h).2
      rw [hcast] at this; omega
    unfold trange
    rw [if_neg hne, timeadd_step d b s (by omega) (by rw [hcast] at h24; omega)]
    have hstop : b + ((n + 1 : Nat) : Int) * s = (b + s) + (n : Int) * s := by rw [hcast]; ring
    rw [hstop, trange_regular d s hs n (b + s) fuel (by omega) (by rw [hcast] at h24; omega) (by omega)]
    simp only [Option.map_some, Option.some.injEq]
    rw [List.range_succ_eq_map]
    simp only [List.map_cons, List.map_map, Nat.cast_zero, Int.zero_mul, Int.add_zero, List.cons.injEq, true_and]
    apply List.map_congr_left
    intro j _
    simp only [Function.comp, Prod.mk.injEq, true_and]
    push_cast; ring

theorem mapM_some {α β} (f : α → Option β) (g : α → β) : ∀ (l : List α), (∀ x ∈ l, f x = some (g x)) →
    l.mapM f = some (l.map g)
  | [], _ => rfl
  | x :: xs, h => by
    rw [List.mapM_cons, h x (by simp), mapM_some f g xs (fun y hy => h y (by simp [hy]))]
    rfl

/-- word position of the record of (step `i`, species `s`, layer `k`) in a file with standard headers -/
def pos (nspec nz nx ny i s k : Nat) : Nat :=
  103 + 10 * nspec + i * blockWords nspec nz nx ny + 6 + (s * nz + k) * (13 + nx * ny)

theorem pos_bound (nspec nz nx ny T i s k : Nat) (hi : i < T) (hs : s < nspec) (hk : k < nz) :
    pos nspec nz nx ny i s k + 13 + nx * ny ≤ 103 + 10 * nspec + T * blockWords nspec nz nx ny := by
  unfold pos blockWords
  generalize nx * ny = c
  have h1 : s * nz + k + 1 ≤ nspec * nz := by
    have : (s + 1) * nz ≤ nspec * nz := Nat.mul_le_mul_right nz hs
    rw [Nat.succ_mul] at this; omega
  have h2 : (s * nz + k + 1) * (13 + c) ≤ nspec * nz * (13 + c) := Nat.mul_le_mul_right _ h1
  have h3 : (i + 1) * (6 + nspec * nz * (13 + c)) ≤ T * (6 + nspec * nz * (13 + c)) := Nat.mul_le_mul_right _ hi
  rw [Nat.succ_mul] at h2 h3
  omega

/-- what `__readheader` learns from a file with standard headers -/
def stdHdr (ws : List Word) (nspec nx ny nz T : Nat) (d a s : Int) : Hdr :=
  { name := ((ws.drop 1).take 10).map int2asc, nspec := nspec, nx := nx, ny := ny, nl := nz,
    species := Camx.splitEvery 10 nspec (((ws.drop 102).take (10 * nspec)).map int2asc),
    dataStart := 103 + 10 * nspec, start := (d, a), fin := (d, a + (T : Int) * s), step := s, count := T,
    padW := 13 + nx * ny }

theorem fetch_std (ws : List Word) (nspec nx ny nz T : Nat) (d a s : Int) (hs : 1 ≤ s)
    (hlen : ws.length = 103 + 10 * nspec + T * blockWords nspec nz nx ny)
    (i si k : Nat) (hi : i < T) (hsi : si < nspec) (hk : k < nz) :
    fetch ws (stdHdr ws nspec nx ny nz T d a s) (d, a + (i : Int) * s) si (k + 1) =
      some ((ws.drop (pos nspec nz nx ny i si k + 12)).take (nx * ny)) := by
  have hb := pos_bound nspec nz nx ny T i si k hi hsi hk
  have hnspec : 0 < nspec := by omega
  have hnz : 0 < nz := by omega
  unfold fetch stdHdr
  simp only [timediff, Int.sub_self, Int.zero_mul, Int.zero_add]
  have hiT : (i : Int) * s ≤ (T : Int) * s := Int.mul_le_mul_of_nonneg_right (by exact_mod_cast hi.le) (by omega)
  have his : (0 : Int) ≤ (i : Int) * s := Int.mul_nonneg (Int.natCast_nonneg i) (by omega)
  rw [if_neg (by omega)]
  have e1 : a + (i : Int) * s - a = (i : Int) * s := by ring
  rw [e1, Int.mul_tdiv_cancel _ (by omega : s ≠ 0)]
  have e2 : Int.fdiv (Int.fdiv ((i : Int) * ((nspec * nz : Nat) : Int)) (nspec : Int)) (nz : Int) = (i : Int) := by
    have hn0 : (nspec : Int) ≠ 0 := by exact_mod_cast hnspec.ne'
    have hz0 : (nz : Int) ≠ 0 := by exact_mod_cast hnz.ne'
    have : (i : Int) * ((nspec * nz : Nat) : Int) = (nspec : Int) * ((i : Int) * (nz : Int)) := by push_cast; ring
    have hin : Int.fdiv ((nspec : Int) * ((i : Int) * (nz : Int))) (nspec : Int) = (i : Int) * (nz : Int) := by
      rw [Int.fdiv_eq_ediv_of_nonneg _ (Int.natCast_nonneg nspec), Int.mul_ediv_cancel_left _ hn0]
    rw [this, hin, Int.fdiv_eq_ediv_of_nonneg _ (Int.natCast_nonneg nz), Int.mul_ediv_cancel _ hz0]
  rw [e2]
  have e3 : ((103 + 10 * nspec : Nat) : Int) + ((((si * nz + (k + 1 - 1) : Nat) : Int)) + (i : Int) * ((nspec * nz : Nat) : Int)) *
      ((13 + nx * ny : Nat) : Int) + ((i : Int) + 1) * 6 = ((pos nspec nz nx ny i si k : Nat) : Int) := by
    unfold pos blockWords
    rw [Nat.add_sub_cancel]
    push_cast
    ring
  rw [e3]
  rw [if_neg (by
    intro h
    rcases h with h | h
    · exact absurd h (by exact_mod_cast Nat.not_lt_zero _)
    · have : ws.length ≤ pos nspec nz nx ny i si k := by exact_mod_cast h
      omega)]
  simp only [Int.toNat_natCast]
  rw [if_neg (by omega)]

/-- a gridded file with standard header records whose time axis lies inside one day: the four header markers, the
counts, the characters, the begin/end pair of the file header (`a` .. `a + T·s` hours on day `d`), the first time
record (step `s`) and the size of the first data record.  Nothing is asked of the data blocks except their total
size. -/
structure Std (ws : List Word) (nspec nx ny nz T : Nat) (d a s : Int) : Prop where
  len : ws.length = 103 + 10 * nspec + T * blockWords nspec nz nx ny
  m0 : ws.getD 0 0 = 304
  chars : ((((ws.drop 1).take 10).map int2asc) ++ (((ws.drop 11).take 60).map int2asc)).all chrOk = true
  notE : (((ws.drop 1).take 10).map int2asc == nameEMISSIONS) = false
  notA : (((ws.drop 1).take 10).map int2asc == nameAIRQUALITY) = false
  nspecw : ws.getD 72 0 = nspec
  nspec1 : 1 ≤ nspec
  nspecS : nspec < 2147483648
  sd0 : sint (ws.getD 73 0) = d
  st0 : truncF32 (ws.getD 74 0) = a
  ed0 : sint (ws.getD 75 0) = d
  et0 : truncF32 (ws.getD 76 0) = a + (T : Int) * s
  m1 : ws.getD 78 0 = 60
  nxw : ws.getD 86 0 = nx
  nyw : ws.getD 87 0 = ny
  nzw : ws.getD 88 0 = nz
  nxS : nx < 2147483648
  nyS : ny < 2147483648
  nzS : nz < 2147483648
  nz1 : 1 ≤ nz
  m2 : ws.getD 95 0 = 16
  cx : ws.getD 98 0 = nx
  cy : ws.getD 99 0 = ny
  m3 : ws.getD 101 0 = 40 * nspec
  spchars : (((ws.drop 102).take (10 * nspec)).map int2asc).all chrOk = true
  m4 : ws.getD (103 + 10 * nspec) 0 = 16
  step : timediff 2400 (sint (ws.getD (103 + 10 * nspec + 1) 0), truncF32 (ws.getD (103 + 10 * nspec + 2) 0))
    (sint (ws.getD (103 + 10 * nspec + 3) 0), truncF32 (ws.getD (103 + 10 * nspec + 4) 0)) = s
  s1 : 1 ≤ s
  a0 : 0 ≤ a
  aT : a + (T : Int) * s < 24
  T1 : 1 ≤ T
  m5 : ws.getD (103 + 10 * nspec + 6) 0 = 4 * (11 + nx * ny)

theorem block_ge (nspec nz nx ny : Nat) (h1 : 1 ≤ nspec) (h2 : 1 ≤ nz) : 19 + nx * ny ≤ blockWords nspec nz nx ny := by
  unfold blockWords
  have : 1 * (13 + nx * ny) ≤ nspec * nz * (13 + nx * ny) := Nat.mul_le_mul_right _ (Nat.mul_le_mul h1 h2)
  omega

theorem readHeader_std (ws : List Word) (nspec nx ny nz T : Nat) (d a s : Int) (h : Std ws nspec nx ny nz T d a s) :
    readHeader ws = some (stdHdr ws nspec nx ny nz T d a s) := by
  have hB := block_ge nspec nz nx ny h.nspec1 h.nz1
  have hTB : blockWords nspec nz nx ny ≤ T * blockWords nspec nz nx ny := Nat.le_mul_of_pos_left _ h.T1
  have hlen := h.len
  have hnp1 : nextPos ws.length 0 304 = some 78 := by unfold nextPos; rw [if_pos (by omega)]
  have hnp2 : nextPos ws.length 78 60 = some 95 := by unfold nextPos; rw [if_pos (by omega)]
  have hnp3 : nextPos ws.length 95 16 = some 101 := by unfold nextPos; rw [if_pos (by omega)]
  have hnp4 : nextPos ws.length 101 (40 * nspec) = some (103 + 10 * nspec) := by
    unfold nextPos
    have : 40 * nspec / 4 = 10 * nspec := by omega
    rw [this, if_pos (by omega)]
    congr 1; omega
  have hnp5 : nextPos ws.length (103 + 10 * nspec) 16 = some (103 + 10 * nspec + 6) := by
    unfold nextPos; rw [if_pos (by omega)]
  have hsn : sint (nspec : Word) = (nspec : Int) := sint_small nspec h.nspecS
  have hsx : sint (nx : Word) = (nx : Int) := sint_small nx h.nxS
  have hsy : sint (ny : Word) = (ny : Int) := sint_small ny h.nyS
  have hsz : sint (nz : Word) = (nz : Int) := sint_small nz h.nzS
  unfold readHeader
  simp only [h.m0, h.nspecw, h.sd0, h.st0, h.ed0, h.et0, hnp1, h.m1, hnp2, h.m2, hnp3, h.m3, hnp4, h.m4, hnp5, h.m5,
    hsn, hsx, hsy, hsz, h.nxw, h.nyw, h.nzw, h.cx, h.cy, h.chars, h.spchars, h.step, h.notE, h.notA,
    show (78 + 8 = 86) from rfl, show (78 + 9 = 87) from rfl, show (78 + 10 = 88) from rfl,
    show (95 + 3 = 98) from rfl, show (95 + 4 = 99) from rfl, show (101 + 1 = 102) from rfl]
  simp only [Int.toNat_natCast, h.spchars, not_true_eq_false, if_false, ne_eq, or_self, Bool.false_eq_true]
  have hcount : ∀ e : Int, Int.fdiv (timediff e (d, a) (d, a + (T : Int) * s)) s = (T : Int) := by
    intro e
    unfold timediff
    simp only [Int.sub_self, Int.zero_mul, Int.zero_add]
    have : a + (T : Int) * s - a = (T : Int) * s := by ring
    rw [this, Int.fdiv_eq_ediv_of_nonneg _ (by have := h.s1; omega), Int.mul_ediv_cancel _ (by have := h.s1; omega)]
  have hpad : 4 * (11 + nx * ny) / 4 + 2 = 13 + nx * ny := by omega
  have hs0 : ¬ s = 0 := by have := h.s1; omega
  have hn1 : ¬ ((nspec : Int) < 1) := by have := h.nspec1; omega
  have hneg : ¬ ((nx : Int) < 0 ∨ (ny : Int) < 0 ∨ (nz : Int) < 0) := by omega
  rw [if_neg (by omega : ¬ ws.length < 77), if_neg hn1, if_neg (by omega : ¬ ws.length < 78 + 16), if_neg hneg,
    if_neg (by omega : ¬ ws.length < 95 + 5), if_neg (by omega : ¬ ws.length < 102 + 10 * nspec),
    if_neg (by omega : ¬ ¬ 40 * nspec % 4 = 0), if_neg (by omega : ¬ ws.length < 103 + 10 * nspec + 5), if_neg hs0,
    if_neg (by omega : ¬ ¬ 4 * (11 + nx * ny) % 4 = 0)]
  simp only [hcount, hpad, stdHdr, ite_self]

/-- what the record reader presents for a standard file: every slab cut at its position -/
def stdView (ws : List Word) (nspec nx ny nz T : Nat) : RecView :=
  { nspec := nspec, nx := nx, ny := ny, nz := nz, nt := T,
    species := Camx.splitEvery 10 nspec (((ws.drop 102).take (10 * nspec)).map int2asc),
    data := (List.range nspec).map (fun si => (List.range T).map (fun i => (List.range nz).map (fun k =>
      (ws.drop (pos nspec nz nx ny i si k + 12)).take (nx * ny)))) }

theorem read_std (ws : List Word) (nspec nx ny nz T : Nat) (d a s : Int) (h : Std ws nspec nx ny nz T d a s) :
    read ws = some (stdView ws nspec nx ny nz T) := by
  unfold read
  rw [readHeader_std ws nspec nx ny nz T d a s h]
  have hfin : timeadd 24 (d, a + (T : Int) * s) 0 = (d, a + (T : Int) * s) :=
    timeadd_zero d _ (by
      have : (0 : Int) ≤ (T : Int) * s := Int.mul_nonneg (Int.natCast_nonneg T) (by have := h.s1; omega)
      have := h.a0; omega) h.aT
  have hstart : timeadd 24 (d, a) 0 = (d, a) := timeadd_zero d a h.a0 (by
      have : (0 : Int) ≤ (T : Int) * s := Int.mul_nonneg (Int.natCast_nonneg T) (by have := h.s1; omega)
      have := h.aT; omega)
  have htr := trange_regular d s h.s1 T a T h.a0 h.aT (Nat.le_refl T)
  simp only [stdHdr, Int.toNat_natCast, h.notE, Bool.false_eq_true, false_and, if_false, hfin, hstart, htr]
  rw [if_neg (by exact_mod_cast Nat.not_lt_zero T)]
  have hfetch : ∀ si ∈ List.range nspec,
      ((List.range T).map (fun (j : Nat) => ((d, a + (j : Int) * s) : DT))).mapM (fun dt => (List.range nz).mapM (fun ki =>
        fetch ws (stdHdr ws nspec nx ny nz T d a s) dt si (ki + 1))) =
      some ((List.range T).map (fun i => (List.range nz).map (fun k =>
        (ws.drop (pos nspec nz nx ny i si k + 12)).take (nx * ny)))) := by
    intro si hsi
    have hsi' : si < nspec := List.mem_range.mp hsi
    rw [List.mapM_map]
    refine mapM_some _ (fun i => (List.range nz).map (fun k =>
        (ws.drop (pos nspec nz nx ny i si k + 12)).take (nx * ny))) _ ?_
    intro i hi
    have hi' : i < T := List.mem_range.mp hi
    refine mapM_some _ (fun k => (ws.drop (pos nspec nz nx ny i si k + 12)).take (nx * ny)) _ ?_
    intro k hk
    exact fetch_std ws nspec nx ny nz T d a s h.s1 h.len i si k hi' hsi' (List.mem_range.mp hk)
  simp only [stdHdr] at hfetch
  have houter := mapM_some
    (fun s_1 => Option.map
      (fun got => got ++ List.replicate (T - got.length) (List.replicate nz (List.replicate (nx * ny) (0 : Word))))
      (List.mapM (fun dt => List.mapM (fun ki => fetch ws
          { name := List.map int2asc (List.take 10 (List.drop 1 ws)), nspec := nspec, nx := nx, ny := ny, nl := nz,
            species := splitEvery 10 nspec (List.map int2asc (List.take (10 * nspec) (List.drop 102 ws))),
            dataStart := 103 + 10 * nspec, start := (d, a), fin := (d, a + (T : Int) * s), step := s, count := (T : Int),
            padW := 13 + nx * ny } dt s_1 (ki + 1)) (List.range nz))
        (List.map (fun (j : Nat) => ((d, a + (j : Int) * s) : DT)) (List.range T))))
    (fun si => (List.range T).map (fun i => (List.range nz).map (fun k =>
      (ws.drop (pos nspec nz nx ny i si k + 12)).take (nx * ny))))
    (List.range nspec) (by
      intro si hsi
      simp only [hfetch si hsi, Option.map_some, List.length_map, List.length_range, Nat.sub_self,
        List.replicate_zero, List.append_nil])
  rw [houter]
  rfl

/-- the data of the memory-mapped view arranged as the record reader arranges them: [species][step][layer] -/
def bySpecies (m : MMView) : List (List (List (List Word))) :=
  (List.range m.nspec).map (fun si => m.steps.map (fun st => st.data.getD si []))

theorem getD_map_range {β} (f : Nat → β) (n i : Nat) (d : β) (hi : i < n) : ((List.range n).map f).getD i d = f i := by
  rw [List.getD_eq_getElem?_getD, List.getElem?_map, List.getElem?_range hi]
  rfl

/-- the slab the memory-mapped reader cuts out of block `t` is the slab at the record reader's position -/
theorem mm_slab_eq (ws : List Word) (nspec nx ny nz T t si k : Nat) (ht : t < T) (hsi : si < nspec) (hk : k < nz) :
    ((((((ws.drop (103 + 10 * nspec)).drop (t * blockWords nspec nz nx ny)).take (blockWords nspec nz nx ny)).drop 6).drop
      (si * (nz * (13 + nx * ny)) + k * (13 + nx * ny))).drop 12).take (nx * ny) =
    (ws.drop (pos nspec nz nx ny t si k + 12)).take (nx * ny) := by
  have hb := pos_bound nspec nz nx ny (t + 1) t si k (Nat.lt_succ_self t) hsi hk
  have hidx : si * (nz * (13 + nx * ny)) + k * (13 + nx * ny) = (si * nz + k) * (13 + nx * ny) := by ring
  rw [List.drop_drop, List.drop_drop, List.drop_drop]
  have hsucc : (t + 1) * blockWords nspec nz nx ny = t * blockWords nspec nz nx ny + blockWords nspec nz nx ny := by ring
  rw [take_drop_comm _ _ _ _ (by
    unfold pos at hb
    rw [hsucc] at hb
    rw [hidx]; omega)]
  rw [List.drop_drop]
  congr 2
  unfold pos
  rw [hidx]; omega

theorem decodeMM_std (ws : List Word) (nspec nx ny nz T : Nat) (d a s : Int) (h : Std ws nspec nx ny nz T d a s) :
    decodeMM ws 0 = .ok (mkView ws T) := by
  have hB := block_ge nspec nz nx ny h.nspec1 h.nz1
  have hTB : blockWords nspec nz nx ny ≤ T * blockWords nspec nz nx ny := Nat.le_mul_of_pos_left _ h.T1
  have eN : hNspec ws = nspec := h.nspecw
  have eX : hNx ws = nx := h.nxw
  have eY : hNy ws = ny := h.nyw
  have eZ : hNz ws = nz := by unfold hNz; rw [h.nzw]; exact Nat.max_eq_left h.nz1
  have eO : hOff ws = 103 + 10 * nspec := by unfold hOff dataOffset; rw [eN]
  have eB : hBlk ws = blockWords nspec nz nx ny := by unfold hBlk; rw [eN, eX, eY, eZ]
  unfold decodeMM
  simp only [Nat.add_zero, eN, eO, eB, h.len]
  have hsz : 4 * (103 + 10 * nspec + T * blockWords nspec nz nx ny) - 4 * (103 + 10 * nspec)
      = 4 * blockWords nspec nz nx ny * T := by
    rw [Nat.mul_add, Nat.add_sub_cancel_left]; ring
  rw [hsz, Nat.mul_mod_right, Nat.mul_div_cancel_left _ (by omega : 0 < 4 * blockWords nspec nz nx ny)]
  have c1 : ¬ 4 * (103 + 10 * nspec + T * blockWords nspec nz nx ny) < 404 := by omega
  have c2 : ¬ 4 * (103 + 10 * nspec + T * blockWords nspec nz nx ny) < 408 + 40 * nspec := by omega
  have c3 : ¬ 4 * (103 + 10 * nspec + T * blockWords nspec nz nx ny) < 4 * (103 + 10 * nspec) := by omega
  have c5 : ¬ T = 0 := by have := h.T1; omega
  simp only [c1, c2, c3, c5, if_false, ne_eq, not_true_eq_false]

theorem mkView_bySpecies (ws : List Word) (nspec nx ny nz T : Nat) (d a s : Int) (h : Std ws nspec nx ny nz T d a s) :
    bySpecies (mkView ws T) = (stdView ws nspec nx ny nz T).data := by
  have eN : hNspec ws = nspec := h.nspecw
  have eX : hNx ws = nx := h.nxw
  have eY : hNy ws = ny := h.nyw
  have eZ : hNz ws = nz := by unfold hNz; rw [h.nzw]; exact Nat.max_eq_left h.nz1
  have eO : hOff ws = 103 + 10 * nspec := by unfold hOff dataOffset; rw [eN]
  have eB : hBlk ws = blockWords nspec nz nx ny := by unfold hBlk; rw [eN, eX, eY, eZ]
  unfold bySpecies mkView stdView
  simp only [eN, eX, eY, eZ, eO, eB, List.map_map]
  apply List.map_congr_left
  intro si hsi
  have hsi' : si < nspec := List.mem_range.mp hsi
  apply List.map_congr_left
  intro t ht
  have ht' : t < T := List.mem_range.mp ht
  simp only [Function.comp, readStep]
  rw [getD_map_range _ nspec si [] hsi']
  apply List.map_congr_left
  intro k hk
  exact mm_slab_eq ws nspec nx ny nz T t si k ht' hsi' (List.mem_range.mp hk)

/-- **the two readers agree on every file with standard headers and a time axis inside one day** — whatever the data
blocks hold: the record reader and the memory-mapped reader both open the file, present the same counts and the same
words for every (species, step, layer) slab. -/
theorem readers_agree_std (ws : List Word) (nspec nx ny nz T : Nat) (d a s : Int) (h : Std ws nspec nx ny nz T d a s) :
    ∃ v m, read ws = some v ∧ decodeMM ws 0 = .ok m ∧
      v.nspec = m.nspec ∧ v.nx = m.nx ∧ v.ny = m.ny ∧ v.nz = m.nz ∧ v.nt = m.steps.length ∧ v.data = bySpecies m := by
  refine ⟨stdView ws nspec nx ny nz T, mkView ws T, read_std ws nspec nx ny nz T d a s h,
    decodeMM_std ws nspec nx ny nz T d a s h, ?_, ?_, ?_, ?_, ?_, ?_⟩
  · exact h.nspecw.symm
  · exact h.nxw.symm
  · exact h.nyw.symm
  · show nz = hNz ws
    unfold hNz; rw [h.nzw]; exact (Nat.max_eq_left h.nz1).symm
  · simp [stdView, mkView]
  · exact (mkView_bySpecies ws nspec nx ny nz T d a s h).symm

end UamivRead
