import PncProofs.UamivReadLemmas

/-! the record reader on encoded gridded files whose time axis lies inside one day -/
namespace UamivRead
open Words Camx

theorem int2asc_charWord (c : Nat) (h : c < 128) : int2asc (charWord c) = (c : Int) := by
  unfold int2asc
  unfold charWord
  have hw : @LT.lt Nat _ (c * 16777216 + 2105376) 2147483648 := by omega
  rw [sint_small _ hw]
  rw [Int.fdiv_eq_ediv_of_nonneg _ (by omega), Int.fdiv_eq_ediv_of_nonneg _ (by omega), Int.fdiv_eq_ediv_of_nonneg _ (by omega)]
  push_cast
  omega

theorem map_int2asc_chars : ∀ (l : List Nat), (∀ c ∈ l, c < 128) → (chars l).map int2asc = l.map Int.ofNat
  | [], _ => rfl
  | c :: l, h => by
    have ih := map_int2asc_chars l (fun x hx => h x (by simp [hx]))
    unfold chars at ih ⊢
    simp only [List.map_cons, int2asc_charWord c (h c (by simp)), ih]
    rfl

theorem all_chrOk_ofNat : ∀ (l : List Nat), (∀ c ∈ l, c < 128) → (l.map Int.ofNat).all chrOk = true
  | [], _ => rfl
  | c :: l, h => by
    have hc := h c (by simp)
    simp only [List.map_cons, List.all_cons, all_chrOk_ofNat l (fun x hx => h x (by simp [hx])), Bool.and_true]
    unfold chrOk
    simp only [Bool.and_eq_true, decide_eq_true_eq]
    constructor
    · exact Int.natCast_nonneg c
    · show (c : Int) ≤ 1114111
      omega

theorem splitEvery_ofNat : ∀ (species : List (List Nat)), (∀ s ∈ species, s.length = 10) →
    splitEvery 10 species.length ((species.map (·.map Int.ofNat)).flatten) = species.map (·.map Int.ofNat)
  | [], _ => rfl
  | s :: more, h => by
    have hs : (s.map Int.ofNat).length = 10 := by rw [List.length_map]; exact h s (by simp)
    simp only [List.length_cons, List.map_cons, List.flatten_cons, splitEvery]
    rw [List.take_left' hs, List.drop_left' hs, splitEvery_ofNat more (fun x hx => h x (by simp [hx]))]

theorem flatten_map_int2asc : ∀ (species : List (List Nat)), (∀ s ∈ species, ∀ c ∈ s, c < 128) →
    ((species.map chars).flatten).map int2asc = (species.map (·.map Int.ofNat)).flatten
  | [], _ => rfl
  | s :: more, h => by
    simp only [List.map_cons, List.flatten_cons, List.map_append, map_int2asc_chars s (h s (by simp)),
      flatten_map_int2asc more (fun x hx => h x (by simp [hx]))]

/-- a gridded content whose time axis lies inside one day (`a`, `a + s`, … hours of day `d`), with plain ASCII names and
a NAME other than EMISSIONS / AIRQUALITY -/
structure OneDay (f : Uamiv) (d a s : Int) : Prop where
  wf : WF f
  asciiName : ∀ c ∈ f.name, c < 128
  asciiNote : ∀ c ∈ f.note, c < 128
  asciiSpecies : ∀ sp ∈ f.species, ∀ c ∈ sp, c < 128
  notE : (f.name.map Int.ofNat == nameEMISSIONS) = false
  notA : (f.name.map Int.ofNat == nameAIRQUALITY) = false
  nspec1 : 1 ≤ f.nspec
  nspecS : f.nspec < 2147483648
  nxS : f.nx < 2147483648
  nyS : f.ny < 2147483648
  nzS : f.nz < 2147483648
  nz1 : 1 ≤ f.nz
  sd0 : sint f.ibdate = d
  st0 : truncF32 f.btime = a
  ed0 : sint f.iedate = d
  et0 : truncF32 f.etime = a + (f.steps.length : Int) * s
  first : ∃ st rest, f.steps = st :: rest ∧
    timediff 2400 (sint st.ibdate, truncF32 st.btime) (sint st.iedate, truncF32 st.etime) = s
  s1 : 1 ≤ s
  a0 : 0 ≤ a
  aT : a + (f.steps.length : Int) * s < 24

theorem std_of_oneDay (f : Uamiv) (d a s : Int) (h : OneDay f d a s) :
    Std f.encode f.nspec f.nx f.ny f.nz f.steps.length d a s ∧
    (f.encode.drop 102).take (10 * f.nspec) = (f.species.map chars).flatten := by
  have hwf := h.wf
  have hname := hwf.name
  have hnote := hwf.note
  have hgrid := hwf.grid
  have hcn : (chars f.name).length = 10 := by rw [chars_length, hname]
  have hcno : (chars f.note).length = 60 := by rw [chars_length, hnote]
  obtain ⟨st0, rest, hsteps, hfirst⟩ := h.first
  set SP := (f.species.map chars).flatten with hSP
  have hSPlen : SP.length = 10 * f.nspec := flatten_chars_length f.species hwf.species
  -- the first step's words
  obtain ⟨sp0, spRest, hsp⟩ : ∃ sp0 spRest, f.species = sp0 :: spRest := by
    cases hs : f.species with
    | nil => have := h.nspec1; simp [Uamiv.nspec, hs] at this
    | cons a b => exact ⟨a, b, rfl⟩
  have hst0 := hwf.steps st0 (by rw [hsteps]; simp)
  obtain ⟨lay0, layRest, hdata0⟩ : ∃ lay0 layRest, st0.data = lay0 :: layRest := by
    cases hd : st0.data with
    | nil => have := hst0.1; rw [hd, hsp] at this; simp at this
    | cons a b => exact ⟨a, b, rfl⟩
  have hlay0 := hst0.2 lay0 (by rw [hdata0]; simp)
  obtain ⟨d0, dRest, hd0⟩ : ∃ d0 dRest, lay0 = d0 :: dRest := by
    cases hl : lay0 with
    | nil => have := hlay0.1; rw [hl] at this; have := h.nz1; simp at *; omega
    | cons a b => exact ⟨a, b, rfl⟩
  have hd0len : d0.length = f.nx * f.ny := hlay0.2 d0 (by rw [hd0]; simp)
  have hsp0 : sp0.length = 10 := hwf.species sp0 (by rw [hsp]; simp)
  obtain ⟨chunksRest, hchunks⟩ : ∃ r, (stepChunks f.species st0.data).flatten = frame (dataRec sp0 d0) ++ r := by
    refine ⟨?r, ?h⟩
    case h =>
    unfold stepChunks
    rw [hsp, hdata0, hd0]
    simp only [List.zip_cons_cons, List.flatMap_cons, List.map_cons, List.flatten_cons, List.flatten_append,
      List.append_assoc, List.cons_append]
    rfl
  have hdr : (dataRec sp0 d0).length = 11 + f.nx * f.ny := by rw [dataRec_length sp0 d0 hsp0, hd0len]
  -- the whole file as explicit words up to the first data record
  obtain ⟨tail, hfile⟩ : ∃ tail, f.encode = [304] ++ (chars f.name ++ (chars f.note ++ ([f.itzon, f.nspec, f.ibdate, f.btime, f.iedate, f.etime] ++ ([304, 60] ++ (f.grid ++
      ([60, 16, 1, 1, f.nx, f.ny, 16, 40 * f.nspec] ++ (SP ++ ([40 * f.nspec, 16, st0.ibdate, st0.btime, st0.iedate, st0.etime, 16,
        4 * (11 + f.nx * f.ny)] ++ tail)))))))) := by
    refine ⟨?tail, ?h⟩
    case h =>
    rw [encode_split]
    unfold headWords bodyWords
    rw [hsteps, List.map_cons, List.flatten_cons, stepWords_eq, hchunks]
    unfold frame
    simp only [List.length_append, List.length_cons, List.length_nil, hcn, hcno, hgrid, ← hSP, hSPlen, hdr,
      List.append_assoc, List.cons_append, List.nil_append]
    have e4 : 4 * (10 * f.nspec) = 40 * f.nspec := by omega
    rw [e4]
  have hlen : f.encode.length = 103 + 10 * f.nspec + f.steps.length * blockWords f.nspec f.nz f.nx f.ny := by
    rw [encode_split, List.length_append, headWords_length f hwf, bodyWords_length f hwf]
  -- the file regrouped behind each header field
  have hP1 : f.encode = ([304] ++ chars f.name ++ chars f.note) ++ ([f.itzon, f.nspec, f.ibdate, f.btime, f.iedate, f.etime, 304, 60] ++
      (f.grid ++ ([60, 16, 1, 1, f.nx, f.ny, 16, 40 * f.nspec] ++ (SP ++ ([40 * f.nspec, 16, st0.ibdate, st0.btime, st0.iedate, st0.etime, 16,
        4 * (11 + f.nx * f.ny)] ++ tail))))) := by
    rw [hfile]; simp only [List.append_assoc, List.cons_append, List.nil_append]
  have hP1len : ([304] ++ chars f.name ++ chars f.note).length = 71 := by simp [hcn, hcno]
  have hP3 : f.encode = ([304] ++ chars f.name ++ chars f.note ++ [f.itzon, f.nspec, f.ibdate, f.btime, f.iedate, f.etime, 304, 60]) ++
      (f.grid ++ ([60, 16, 1, 1, f.nx, f.ny, 16, 40 * f.nspec] ++ (SP ++ ([40 * f.nspec, 16, st0.ibdate, st0.btime, st0.iedate, st0.etime, 16,
        4 * (11 + f.nx * f.ny)] ++ tail)))) := by
    rw [hfile]; simp only [List.append_assoc, List.cons_append, List.nil_append]
  have hP3len : ([304] ++ chars f.name ++ chars f.note ++ [f.itzon, f.nspec, f.ibdate, f.btime, f.iedate, f.etime, 304, 60]).length = 79 := by
    simp [hcn, hcno]
  have hP4 : f.encode = ([304] ++ chars f.name ++ chars f.note ++ [f.itzon, f.nspec, f.ibdate, f.btime, f.iedate, f.etime, 304, 60] ++ f.grid) ++
      ([60, 16, 1, 1, f.nx, f.ny, 16, 40 * f.nspec] ++ (SP ++ ([40 * f.nspec, 16, st0.ibdate, st0.btime, st0.iedate, st0.etime, 16,
        4 * (11 + f.nx * f.ny)] ++ tail))) := by
    rw [hfile]; simp only [List.append_assoc, List.cons_append, List.nil_append]
  have hP4len : ([304] ++ chars f.name ++ chars f.note ++ [f.itzon, f.nspec, f.ibdate, f.btime, f.iedate, f.etime, 304, 60] ++ f.grid).length = 94 := by
    simp [hcn, hcno, hgrid]
  have hP5 : f.encode = ([304] ++ chars f.name ++ chars f.note ++ [f.itzon, f.nspec, f.ibdate, f.btime, f.iedate, f.etime, 304, 60] ++ f.grid ++
      [60, 16, 1, 1, f.nx, f.ny, 16, 40 * f.nspec]) ++ (SP ++ ([40 * f.nspec, 16, st0.ibdate, st0.btime, st0.iedate, st0.etime, 16,
        4 * (11 + f.nx * f.ny)] ++ tail)) := by
    rw [hfile]; simp only [List.append_assoc, List.cons_append, List.nil_append]
  have hP5len : ([304] ++ chars f.name ++ chars f.note ++ [f.itzon, f.nspec, f.ibdate, f.btime, f.iedate, f.etime, 304, 60] ++ f.grid ++
      [60, 16, 1, 1, f.nx, f.ny, 16, 40 * f.nspec]).length = 102 := by
    simp [hcn, hcno, hgrid]
  have hP6 : f.encode = ([304] ++ chars f.name ++ chars f.note ++ [f.itzon, f.nspec, f.ibdate, f.btime, f.iedate, f.etime, 304, 60] ++ f.grid ++
      [60, 16, 1, 1, f.nx, f.ny, 16, 40 * f.nspec] ++ SP) ++ ([40 * f.nspec, 16, st0.ibdate, st0.btime, st0.iedate, st0.etime, 16,
        4 * (11 + f.nx * f.ny)] ++ tail) := by
    rw [hfile]; simp only [List.append_assoc, List.cons_append, List.nil_append]
  have hP6len : ([304] ++ chars f.name ++ chars f.note ++ [f.itzon, f.nspec, f.ibdate, f.btime, f.iedate, f.etime, 304, 60] ++ f.grid ++
      [60, 16, 1, 1, f.nx, f.ny, 16, 40 * f.nspec] ++ SP).length = 102 + 10 * f.nspec := by
    simp [hcn, hcno, hgrid, hSPlen]; omega
  have g1 : ∀ i, f.encode.getD (71 + i) 0 = ([f.itzon, f.nspec, f.ibdate, f.btime, f.iedate, f.etime, 304, 60] ++
      (f.grid ++ ([60, 16, 1, 1, f.nx, f.ny, 16, 40 * f.nspec] ++ (SP ++ ([40 * f.nspec, 16, st0.ibdate, st0.btime, st0.iedate, st0.etime, 16,
        4 * (11 + f.nx * f.ny)] ++ tail))))).getD i 0 := by
    intro i; rw [hP1]; exact getD_mid _ _ 71 i 0 hP1len
  have g3 : ∀ i, i < 15 → f.encode.getD (79 + i) 0 = f.grid.getD i 0 := by
    intro i hi
    have : f.encode.getD (79 + i) 0 = (f.grid ++ ([60, 16, 1, 1, f.nx, f.ny, 16, 40 * f.nspec] ++ (SP ++ ([40 * f.nspec, 16, st0.ibdate, st0.btime, st0.iedate, st0.etime, 16,
        4 * (11 + f.nx * f.ny)] ++ tail)))).getD i 0 := by
      rw [hP3]; exact getD_mid _ _ 79 i 0 hP3len
    rw [this]
    simp only [List.getD_eq_getElem?_getD]
    rw [List.getElem?_append_left (by omega)]
  have g4 : ∀ i, f.encode.getD (94 + i) 0 = ([60, 16, 1, 1, f.nx, f.ny, 16, 40 * f.nspec] ++ (SP ++ ([40 * f.nspec, 16, st0.ibdate, st0.btime, st0.iedate, st0.etime, 16,
        4 * (11 + f.nx * f.ny)] ++ tail))).getD i 0 := by
    intro i; rw [hP4]; exact getD_mid _ _ 94 i 0 hP4len
  have g6 : ∀ i, f.encode.getD (102 + 10 * f.nspec + i) 0 = ([40 * f.nspec, 16, st0.ibdate, st0.btime, st0.iedate, st0.etime, 16,
        4 * (11 + f.nx * f.ny)] ++ tail).getD i 0 := by
    intro i; rw [hP6]; exact getD_mid _ _ _ i 0 hP6len
  have hnm : (f.encode.drop 1).take 10 = chars f.name := by
    rw [hfile]; exact drop_take_mid [304] (chars f.name) _ 1 10 rfl hcn
  have hnt : (f.encode.drop 11).take 60 = chars f.note := by
    have : f.encode = ([304] ++ chars f.name) ++ (chars f.note ++ ([f.itzon, f.nspec, f.ibdate, f.btime, f.iedate, f.etime] ++ ([304, 60] ++ (f.grid ++
      ([60, 16, 1, 1, f.nx, f.ny, 16, 40 * f.nspec] ++ (SP ++ ([40 * f.nspec, 16, st0.ibdate, st0.btime, st0.iedate, st0.etime, 16,
        4 * (11 + f.nx * f.ny)] ++ tail))))))) := by
      rw [hfile]; simp only [List.append_assoc, List.cons_append, List.nil_append]
    rw [this]; exact drop_take_mid _ (chars f.note) _ 11 60 (by simp [hcn]) hcno
  have hspw : (f.encode.drop 102).take (10 * f.nspec) = SP := by
    rw [hP5]; exact drop_take_mid _ SP _ 102 (10 * f.nspec) hP5len hSPlen
  have hTlen : f.steps.length = rest.length + 1 := by rw [hsteps]; rfl
  refine ⟨?_, hspw⟩
  refine
    { len := hlen, m0 := ?_, chars := ?_, notE := ?_, notA := ?_, nspecw := ?_, nspec1 := h.nspec1, nspecS := h.nspecS,
      sd0 := ?_, st0 := ?_, ed0 := ?_, et0 := ?_, m1 := ?_, nxw := ?_, nyw := ?_, nzw := ?_, nxS := h.nxS, nyS := h.nyS,
      nzS := h.nzS, nz1 := h.nz1, m2 := ?_, cx := ?_, cy := ?_, m3 := ?_, spchars := ?_, m4 := ?_, step := ?_,
      s1 := h.s1, a0 := h.a0, aT := h.aT, T1 := by omega, m5 := ?_ }
  · rw [hfile]; rfl
  · rw [hnm, hnt, map_int2asc_chars _ h.asciiName, map_int2asc_chars _ h.asciiNote, ← List.map_append]
    exact all_chrOk_ofNat _ (by
      intro c hc
      rcases List.mem_append.mp hc with hc | hc
      · exact h.asciiName c hc
      · exact h.asciiNote c hc)
  · rw [hnm, map_int2asc_chars _ h.asciiName]; exact h.notE
  · rw [hnm, map_int2asc_chars _ h.asciiName]; exact h.notA
  · exact (g1 1).trans rfl
  · rw [show (73 : Nat) = 71 + 2 from rfl, g1 2]; exact h.sd0
  · rw [show (74 : Nat) = 71 + 3 from rfl, g1 3]; exact h.st0
  · rw [show (75 : Nat) = 71 + 4 from rfl, g1 4]; exact h.ed0
  · rw [show (76 : Nat) = 71 + 5 from rfl, g1 5]; exact h.et0
  · exact (g1 7).trans rfl
  · exact g3 7 (by omega)
  · exact g3 8 (by omega)
  · exact g3 9 (by omega)
  · exact (g4 1).trans rfl
  · exact (g4 4).trans rfl
  · exact (g4 5).trans rfl
  · exact (g4 7).trans rfl
  · rw [hspw, hSP, flatten_map_int2asc _ h.asciiSpecies]
    rw [← List.map_flatten]
    exact all_chrOk_ofNat _ (by
      intro c hc
      obtain ⟨sp, hsp', hc'⟩ := List.mem_flatten.mp hc
      exact h.asciiSpecies sp hsp' c hc')
  · rw [show 103 + 10 * f.nspec = 102 + 10 * f.nspec + 1 by omega, g6 1]; rfl
  · rw [show 103 + 10 * f.nspec + 1 = 102 + 10 * f.nspec + 2 by omega, show 103 + 10 * f.nspec + 2 = 102 + 10 * f.nspec + 3 by omega,
      show 103 + 10 * f.nspec + 3 = 102 + 10 * f.nspec + 4 by omega, show 103 + 10 * f.nspec + 4 = 102 + 10 * f.nspec + 5 by omega,
      g6 2, g6 3, g6 4, g6 5]
    exact hfirst
  · rw [show 103 + 10 * f.nspec + 6 = 102 + 10 * f.nspec + 7 by omega, g6 7]; rfl

/-- what the content says the record reader should present: counts, names, and every slab by species, step, layer -/
def recViewOf (f : Uamiv) : RecView :=
  { nspec := f.nspec, nx := f.nx, ny := f.ny, nz := f.nz, nt := f.steps.length,
    species := f.species.map (·.map Int.ofNat),
    data := (List.range f.nspec).map (fun si => f.steps.map (fun st => st.data.getD si [])) }

/-- **the record reader recovers the content** of every well-formed gridded file whose time axis lies inside one day
(any step of whole hours, odd or even; any number of species, layers, rows, columns, steps; any payload), and the
memory-mapped reader presents the same content. -/
theorem read_encode (f : Uamiv) (d a s : Int) (h : OneDay f d a s) :
    read f.encode = some (recViewOf f) ∧ decodeMM f.encode 0 = .ok (viewOf f) := by
  obtain ⟨hstd, hspw⟩ := std_of_oneDay f d a s h
  have hmm : decodeMM f.encode 0 = .ok (viewOf f) := decodeMM_encode f h.wf h.nz1 (by
    obtain ⟨st, rest, hs, _⟩ := h.first
    rw [hs]; simp)
  refine ⟨?_, hmm⟩
  rw [read_std f.encode f.nspec f.nx f.ny f.nz f.steps.length d a s hstd]
  have hmk : mkView f.encode f.steps.length = viewOf f := by
    have h1 := decodeMM_std f.encode f.nspec f.nx f.ny f.nz f.steps.length d a s hstd
    rw [hmm] at h1
    exact (Except.ok.inj h1).symm
  have hdata := mkView_bySpecies f.encode f.nspec f.nx f.ny f.nz f.steps.length d a s hstd
  rw [hmk] at hdata
  unfold recViewOf
  congr 1
  show stdView f.encode f.nspec f.nx f.ny f.nz f.steps.length = _
  unfold stdView
  congr 1
  · rw [hspw, flatten_map_int2asc _ h.asciiSpecies]
    exact splitEvery_ofNat f.species h.wf.species
  · exact hdata.symm

end UamivRead
