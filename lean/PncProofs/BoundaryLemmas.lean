import PncModel.Camx.BoundaryRead
import PncProofs.WindLemmas

/-! the memory-mapped lateral-boundary reader undoes the encoder -/
namespace Boundary
open Words Slab

theorem encodeRecs_cons (p : List Word) (ps : List (List Word)) : encodeRecs (p :: ps) = frame p ++ encodeRecs ps :=
  Wind.encodeRecs_cons' p ps

theorem encodeRecs_append (a b : List (List Word)) : encodeRecs (a ++ b) = encodeRecs a ++ encodeRecs b :=
  Wind.encodeRecs_append' a b

theorem drop_frame (p more : List Word) : (frame p ++ more).drop (p.length + 2) = more := by
  rw [← frame_length p, List.drop_left]

theorem payload_frame (p more : List Word) : ((frame p ++ more).drop 1).take p.length = p := by
  have : frame p ++ more = [4 * p.length] ++ (p ++ ([4 * p.length] ++ more)) := by simp [frame]
  rw [this]
  simp

/-- cutting at the positions the payload sizes give returns the records and what follows them -/
theorem cutRecs_encode : ∀ (ps : List (List Word)) (more : List Word),
    cutRecs (ps.map List.length) (encodeRecs ps ++ more) = (ps, more)
  | [], more => by simp [cutRecs, encodeRecs]
  | p :: ps, more => by
    simp only [List.map_cons, cutRecs, encodeRecs_cons, List.append_assoc, drop_frame, payload_frame,
      cutRecs_encode ps more]

theorem framedLen_encode : ∀ (ps : List (List Word)), framedLen (ps.map List.length) = (encodeRecs ps).length
  | [] => by simp [framedLen, encodeRecs]
  | p :: ps => by
    simp only [List.map_cons, framedLen, encodeRecs_cons, List.length_append, frame_length, framedLen_encode ps]

theorem markersOk_encode : ∀ (ps : List (List Word)) (more : List Word),
    markersOk (ps.map List.length) (encodeRecs ps ++ more) = true
  | [], _ => rfl
  | p :: ps, more => by
    simp only [List.map_cons, markersOk, encodeRecs_cons, List.append_assoc, drop_frame, markersOk_encode ps more,
      Bool.and_true, decide_eq_true_eq]
    simp [frame]

/-- a word inside the payload of the first record -/
theorem getD_frame_payload (p more : List Word) (i : Nat) (hi : i < p.length) :
    (frame p ++ more).getD (i + 1) 0 = p.getD i 0 := by
  have : frame p ++ more = (4 * p.length) :: (p ++ ([4 * p.length] ++ more)) := by simp [frame]
  rw [this, List.getD_cons_succ, List.getD_eq_getElem?_getD, List.getD_eq_getElem?_getD, List.getElem?_append_left hi]

/-- a word behind the first record -/
theorem getD_frame_skip (p more : List Word) (j : Nat) :
    (frame p ++ more).getD (p.length + 2 + j) 0 = more.getD j 0 := by
  rw [List.getD_eq_getElem?_getD, List.getD_eq_getElem?_getD,
    List.getElem?_append_right (by rw [frame_length]; omega), frame_length]
  congr 2; omega

/-- the words of one time step -/
def stepRecs (s : BStep) : List (List Word) := s.hdr :: s.recs

theorem stepOf_stepRecs (s : BStep) : stepOf (stepRecs s) = s := by
  cases s; rfl

theorem records_eq (f : BFile) : records f = f.headers ++ f.defs ++ (f.steps.map stepRecs).flatten := rfl

theorem cutSteps_encode (sizes : List Nat) : ∀ (steps : List BStep),
    (∀ s ∈ steps, (stepRecs s).map List.length = sizes) →
    cutSteps sizes steps.length (encodeRecs (steps.map stepRecs).flatten) = steps
  | [], _ => rfl
  | s :: rest, h => by
    have hs := h s (by simp)
    simp only [List.length_cons, cutSteps, List.map_cons, List.flatten_cons, encodeRecs_append]
    rw [← hs, cutRecs_encode, stepOf_stepRecs, hs, cutSteps_encode sizes rest (fun x hx => h x (by simp [hx]))]

theorem steps_length (sizes : List Nat) : ∀ (steps : List BStep),
    (∀ s ∈ steps, (stepRecs s).map List.length = sizes) →
    (encodeRecs (steps.map stepRecs).flatten).length = steps.length * framedLen sizes
  | [], _ => by simp [encodeRecs]
  | s :: rest, h => by
    have hs := h s (by simp)
    simp only [List.map_cons, List.flatten_cons, encodeRecs_append, List.length_append, List.length_cons,
      steps_length sizes rest (fun x hx => h x (by simp [hx]))]
    rw [← framedLen_encode, hs, Nat.succ_mul, Nat.add_comm]

/-- what a file must hold for the reader: the four header records with the counts where the reader looks for them,
four definition records of the sizes the grid gives, at least one time step, every step with a four-word time
record and four records per species of the sizes the grid gives -/
structure WFb (nspec nx ny nz : Nat) (f : BFile) : Prop where
  hdrs : ∃ h0 h1 h2 h3, f.headers = [h0, h1, h2, h3] ∧ h0.length = 76 ∧ h1.length = 15 ∧ h2.length = 4 ∧
    h3.length = 10 * nspec ∧ h0.getD 71 0 = nspec ∧ h1.getD 7 0 = nx ∧ h1.getD 8 0 = ny ∧ layers (h1.getD 9 0) = nz ∧
    projOk (h1.getD 10 0) (h1.getD 1 0) = true
  counts : 1 ≤ nspec ∧ nspec < 2147483648 ∧ 1 ≤ nx ∧ nx < 2147483648 ∧ 1 ≤ ny ∧ ny < 2147483648
  defs : f.defs.map List.length = defSizes nx ny
  nonempty : f.steps ≠ []
  steps : ∀ s ∈ f.steps, (stepRecs s).map List.length = stepSizes nspec nx ny nz

theorem framedLen_pos (nspec nx ny nz : Nat) : 0 < framedLen (stepSizes nspec nx ny nz) := by
  simp [stepSizes, framedLen]

/-- **the memory-mapped lateral-boundary reader recovers the content**: for every well-formed boundary file — any
number of species, any grid, any number of layers and time steps, any payload — the reader presents exactly the
records that were encoded: the four headers, the four edge definitions and, per time step, the time record and
the four edge records of every species. -/
theorem read_encode (nspec nx ny nz : Nat) (f : BFile) (w : WFb nspec nx ny nz f) : read (encode f) = some f := by
  obtain ⟨⟨h0, h1, h2, h3, hh, l0, l1, l2, l3, e0, e1, e2, e3, e4⟩, hcnt, hdefs, hne, hsteps⟩ := w
  obtain ⟨hd, df, st⟩ := f
  simp only at hh hdefs hne hsteps
  subst hh
  have henc : encode ⟨[h0, h1, h2, h3], df, st⟩ =
      encodeRecs [h0, h1, h2, h3] ++ (encodeRecs df ++ encodeRecs (st.map stepRecs).flatten) := by
    simp only [encode, records_eq, encodeRecs_append, List.append_assoc]
  have hexp : encodeRecs [h0, h1, h2, h3] ++ (encodeRecs df ++ encodeRecs (st.map stepRecs).flatten) =
      frame h0 ++ (frame h1 ++ (frame h2 ++ (frame h3 ++ (encodeRecs df ++ encodeRecs (st.map stepRecs).flatten)))) := by
    simp [encodeRecs]
  have hsz : [h0, h1, h2, h3].map List.length = hdrSizes nspec := by simp [hdrSizes, l0, l1, l2, l3]
  have g72 : (encode ⟨[h0, h1, h2, h3], df, st⟩).getD 72 0 = nspec := by
    rw [henc, hexp, getD_frame_payload h0 _ 71 (by omega), e0]
  have gk : ∀ k, k < 15 → (encode ⟨[h0, h1, h2, h3], df, st⟩).getD (79 + k) 0 = h1.getD k 0 := by
    intro k hk
    rw [henc, hexp]
    have : 79 + k = h0.length + 2 + (k + 1) := by omega
    rw [this, getD_frame_skip, getD_frame_payload h1 _ k (by omega)]
  have g86 := gk 7 (by omega)
  have g87 := gk 8 (by omega)
  have g88 := gk 9 (by omega)
  have g89 := gk 10 (by omega)
  have g80 := gk 1 (by omega)
  have hlenH : (encodeRecs [h0, h1, h2, h3]).length = framedLen (hdrSizes nspec) := by rw [← hsz, framedLen_encode]
  have hlenD : (encodeRecs df).length = framedLen (defSizes nx ny) := by rw [← hdefs, framedLen_encode]
  have hlenS := steps_length _ st hsteps
  have hlen : (encode ⟨[h0, h1, h2, h3], df, st⟩).length =
      framedLen (hdrSizes nspec) + framedLen (defSizes nx ny) + st.length * framedLen (stepSizes nspec nx ny nz) := by
    rw [henc, List.length_append, List.length_append, hlenH, hlenD, hlenS]; omega
  have hpos := framedLen_pos nspec nx ny nz
  have hst : 0 < st.length := List.length_pos_iff.mpr hne
  unfold read
  simp only [g72, g86, g87, g88, g89, g80, e1, e2, e3, e4, hcnt, and_self, not_true_eq_false, if_false, hlen]
  rw [if_neg (by omega)]
  rw [henc, ← hsz, cutRecs_encode]
  simp only [← hdefs, markersOk_encode, cutRecs_encode, not_true_eq_false, if_false]
  have hsub : framedLen (List.map List.length [h0, h1, h2, h3]) + framedLen (List.map List.length df) +
      st.length * framedLen (stepSizes nspec nx ny nz) -
      (framedLen (List.map List.length [h0, h1, h2, h3]) + framedLen (List.map List.length df)) =
      st.length * framedLen (stepSizes nspec nx ny nz) := by omega
  rw [hsub, Nat.mul_mod_left, Nat.mul_div_cancel _ hpos]
  rw [if_neg (by omega)]
  have := cutSteps_encode _ st hsteps
  rw [this]

end Boundary
