import PncModel.Camx.Landuse
import PncProofs.WordsLemmas

/-! helper lemmas for the landuse model: positional reads undo the framing -/
namespace Landuse
open Words

theorem encodeRecs_cons (p : List Word) (ps : List (List Word)) : encodeRecs (p :: ps) = frame p ++ encodeRecs ps := by
  simp [encodeRecs]

theorem encodeRecs_append (a b : List (List Word)) : encodeRecs (a ++ b) = encodeRecs a ++ encodeRecs b := by
  simp [encodeRecs]

theorem cut_frame (p rest : List Word) (n : Nat) (hn : p.length = n) : cut n (frame p ++ rest) = (p, rest) := by
  subst hn
  simp [cut, frame]

theorem cutField_enc (ns : Bool) (k d more : List Word) (n : Nat) (hk : k.length = 2) (hd : d.length = n) :
    cutField ns n (encodeRecs (field ns k d) ++ more) = ((if ns then k else [], d), more) := by
  cases ns
  · simp only [field, Bool.false_eq_true, if_false, cutField, encodeRecs_cons]
    have : encodeRecs [] = ([] : List Word) := rfl
    simp only [this, List.append_nil, cut_frame d more n hd]
  · simp only [field, if_true, cutField, encodeRecs_cons]
    have : encodeRecs [] = ([] : List Word) := rfl
    simp only [this, List.append_nil, List.append_assoc, cut_frame k (frame d ++ more) 2 hk, cut_frame d more n hd]

theorem field_length (ns : Bool) (k d : List Word) (hk : k.length = 2) :
    (encodeRecs (field ns k d)).length = fieldSize ns d.length := by
  cases ns <;> simp [field, encodeRecs_cons, encodeRecs, frame, fieldSize, hk] <;> omega

/-- every optional record that a file can hold has a two-word key -/
def KeysOk (l : List (List Word × List Word)) (cells : Nat) : Prop := ∀ p ∈ l, p.1.length = 2 ∧ p.2.length = cells

theorem fieldsOf_length (ns : Bool) (cells : Nat) : ∀ (l : List (List Word × List Word)), KeysOk l cells →
    (encodeRecs (fieldsOf ns l)).length = l.length * fieldSize ns cells := by
  intro l
  induction l with
  | nil => intro _; simp [fieldsOf, encodeRecs]
  | cons p rest ih =>
    intro h
    obtain ⟨k, d⟩ := p
    have hp := h (k, d) (by simp)
    simp only [fieldsOf, encodeRecs_append, List.length_append, List.length_cons]
    rw [field_length ns k d hp.1, hp.2, ih (fun q hq => h q (List.mem_cons_of_mem _ hq))]
    rw [Nat.succ_mul]; omega

theorem cutFields_enc (ns : Bool) (cells : Nat) : ∀ (l : List (List Word × List Word)), KeysOk l cells →
    cutFields ns cells l.length (encodeRecs (fieldsOf ns l)) = l.map (fun p => (if ns then p.1 else [], p.2)) := by
  intro l
  induction l with
  | nil => intro _; rfl
  | cons p rest ih =>
    intro h
    obtain ⟨k, d⟩ := p
    have hp := h (k, d) (by simp)
    simp only [fieldsOf, encodeRecs_append, List.length_cons, cutFields, List.map_cons]
    rw [cutField_enc ns k d _ cells hp.1 hp.2]
    simp only
    rw [ih (fun q hq => h q (List.mem_cons_of_mem _ hq))]

theorem nopt_spec (ns : Bool) (nland cells j : Nat) (hj : j ≤ 2) :
    nopt ns nland cells (fieldSize ns (nland * cells) + j * fieldSize ns cells) = some j := by
  have hpos : 2 ≤ fieldSize ns cells := by unfold fieldSize; omega
  unfold nopt
  simp only
  generalize fieldSize ns (nland * cells) = fl at *
  generalize fieldSize ns cells = ot at *
  have : j = 0 ∨ j = 1 ∨ j = 2 := by omega
  rcases this with rfl | rfl | rfl
  · simp
  · have h1 : ¬ (fl + 1 * ot = fl) := by omega
    rw [if_neg h1, if_pos (by omega)]
  · have h1 : ¬ (fl + 2 * ot = fl) := by omega
    have h2 : ¬ (fl + 2 * ot = fl + ot) := by omega
    rw [if_neg h1, if_neg h2, if_pos rfl]

theorem lucat_ne : lucatKey 26 ≠ lucatKey 11 := by decide

theorem lucat_length (n : Nat) : (lucatKey n).length = 2 := rfl

end Landuse
