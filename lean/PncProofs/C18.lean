import PncModel.Generated.BpchHeaders
import PncModel.Bpch
import PncProofs.WordsLemmas
import Mathlib.Tactic.Linarith
/-
C18 — GEOS-Chem binary punch files.

`Bpch.encode` is the byte layout (the reference encoder of the harness and the library writer are compared
with it on every run), `Bpch.refDecode` the independent decoder.  Theorems, for files with any number of time
steps, tracers per step and layers per tracer: the records tile the file (`tiles`), the decoder recovers
exactly what was encoded (`refDecode_encode`) — in particular the time steps, which the format does not mark,
are recovered by the first-repetition rule (`groupSteps_flatten`) exactly when no tracer occurs twice in a step;
`repeat_breaks_grouping` shows the rule fails otherwise.  `resolve_listed` / `resolve_unlisted`: the scale
factor and unit of a tracer come from the table line of tracer + category offset, else scale 1 and the unit
stored in the file.
-/
namespace Props.C18
open Bpch Words

theorem toBlocks_flatten (bs : List Block) : toBlocks ((bs.map blockRecords).flatten) = some bs := by
  induction bs with
  | nil => rfl
  | cons b bs ih =>
    show toBlocks ([b.hdr1, b.hdr2, b.data] ++ (bs.map blockRecords).flatten) = _
    simp only [List.cons_append, List.nil_append, toBlocks, ih]
    rfl

theorem takeWhile_all {α} (p : α → Bool) : ∀ (l : List α), (∀ x ∈ l, p x = true) → l.takeWhile p = l := by
  intro l
  induction l with
  | nil => intro _; rfl
  | cons a as ih =>
    intro h
    simp only [List.takeWhile_cons, h a (by simp), if_true]
    rw [ih (fun x hx => h x (by simp [hx]))]

theorem takeWhile_stop {α} (p : α → Bool) (y : α) (r : List α) (hy : p y = false) :
    ∀ (l : List α), (∀ x ∈ l, p x = true) → (l ++ y :: r).takeWhile p = l := by
  intro l
  induction l with
  | nil => intro _; simp [List.takeWhile_cons, hy]
  | cons a as ih =>
    intro h
    simp only [List.cons_append, List.takeWhile_cons, h a (by simp), if_true]
    rw [ih (fun x hx => h x (by simp [hx]))]

/-- **the records tile the file**: walking the leading/trailing markers consumes the encoding exactly and
yields the header records and three records per data block, in order -/
theorem tiles (f : File) : parseRecords (encode f).length (encode f) = some (records f) :=
  parse_encode (records f) _ (Nat.le_refl _)

/-- a step sequence the first-repetition rule can recover -/
structure WF (steps : List (List Block)) : Prop where
  nonempty : ∀ s ∈ steps, s ≠ []
  same : ∀ s ∈ steps, ∀ s' ∈ steps, s.map Block.key = s'.map Block.key
  norepeat : ∀ s ∈ steps, ∀ b ∈ s.tail, ∀ a ∈ s.head?, b.key ≠ a.key

theorem chunks_flatten (n : Nat) (hn : 0 < n) : ∀ (steps : List (List Block)) (fuel : Nat),
    (∀ s ∈ steps, s.length = n) → steps.flatten.length ≤ fuel → chunks n steps.flatten fuel = steps := by
  intro steps
  induction steps with
  | nil =>
    intro fuel _ _
    cases fuel with
    | zero => rfl
    | succ k => simp [chunks]
  | cons s rest ih =>
    intro fuel hlen hfuel
    have hs : s.length = n := hlen s (by simp)
    cases fuel with
    | zero =>
      simp only [List.flatten_cons, List.length_append] at hfuel
      omega
    | succ k =>
      simp only [chunks, List.flatten_cons]
      have h1 : ¬ (n = 0 ∨ (s ++ rest.flatten).length < n) := by
        simp only [List.length_append]; omega
      rw [if_neg h1]
      have h2 : (s ++ rest.flatten).take n = s := by rw [← hs, List.take_left]
      have h3 : (s ++ rest.flatten).drop n = rest.flatten := by rw [← hs, List.drop_left]
      rw [h2, h3, ih k (fun x hx => hlen x (by simp [hx])) (by
        simp only [List.flatten_cons, List.length_append] at hfuel; omega)]

theorem firstStep_flatten (s : List Block) (rest : List (List Block)) (h : WF (s :: rest)) :
    firstStep ((s :: rest).flatten) = s := by
  have hne := h.nonempty s (by simp)
  cases s with
  | nil => exact absurd rfl hne
  | cons b tl =>
    simp only [List.flatten_cons, List.cons_append, firstStep]
    congr 1
    have htl : ∀ x ∈ tl, (x.key != b.key) = true := by
      intro x hx
      have := h.norepeat (b :: tl) (by simp) x (by simpa using hx) b (by simp)
      simpa using this
    cases rest with
    | nil =>
      simp only [List.flatten_nil, List.append_nil]
      exact takeWhile_all _ tl htl
    | cons s' rest' =>
      have hne' := h.nonempty s' (by simp)
      cases s' with
      | nil => exact absurd rfl hne'
      | cons b' tl' =>
        have hk : b'.key = b.key := by
          have := h.same (b' :: tl') (by simp) (b :: tl) (by simp)
          simp only [List.map_cons, List.cons.injEq] at this
          exact this.1
        simp only [List.flatten_cons, List.cons_append]
        exact takeWhile_stop _ b' _ (by simp [hk]) tl htl

/-- **time steps are recovered** from the unmarked sequence of blocks by the first-repetition rule -/
theorem groupSteps_flatten (steps : List (List Block)) (h : WF steps) : groupSteps steps.flatten = steps := by
  cases steps with
  | nil => rfl
  | cons s rest =>
    unfold groupSteps
    rw [firstStep_flatten s rest h]
    have hne := h.nonempty s (by simp)
    have hpos : 0 < s.length := List.length_pos_iff.mpr hne
    apply chunks_flatten s.length hpos (s :: rest) _ _ (Nat.le_refl _)
    intro x hx
    have := congrArg List.length (h.same x hx s (by simp))
    simpa using this

/-- **the independent decoder inverts the encoder**: file type, title, and every block of every time step
(names, tracer ids, units, tau0/tau1, dimensions, offsets and data words) are recovered exactly -/
theorem refDecode_encode (f : File) (h : WF f.steps) : refDecode (encode f) = some f := by
  unfold refDecode
  rw [tiles f]
  simp only [records, List.cons_append, List.nil_append, Option.bind_eq_bind, Option.bind_some]
  rw [toBlocks_flatten]
  simp only [Option.bind_some, Option.pure_def, groupSteps_flatten f.steps h]

/-- a block of the given key and data -/
def mkBlock (cat tid : Word) (d : List Word) : Block :=
  ⟨List.replicate 9 0, List.replicate 10 cat ++ [tid] ++ List.replicate 31 0, d⟩

/-- the hypotheses are met: two steps of two tracers with different layer counts -/
example : WF [[mkBlock 1 1 [7, 8], mkBlock 1 2 [9]], [mkBlock 1 1 [10, 11], mkBlock 1 2 [12]]] := by
  refine ⟨by decide, by decide, ?_⟩
  intro s hs b hb a ha
  simp only [List.mem_cons, List.mem_nil_iff, or_false] at hs
  rcases hs with rfl | rfl <;> simp at hb ha <;> subst hb <;> subst ha <;> decide

/-- **the rule needs the hypothesis**: if a tracer occurs twice within a time step the first-repetition rule
cuts the step short and the steps read differ from the steps written -/
theorem repeat_breaks_grouping :
    groupSteps ([[mkBlock 1 1 [7], mkBlock 1 2 [8], mkBlock 1 1 [9]]].flatten) ≠
      [[mkBlock 1 1 [7], mkBlock 1 2 [8], mkBlock 1 1 [9]]] := by decide

/-! ### scale factor and unit -/

/-- a tracer listed under `tracer + offset(category)` gets that line's scale factor and unit (the first such
line, as the tables are read top to bottom) -/
theorem resolve_listed (ts : List TInfo) (ds : List DInfo) (cat : String) (tid : Nat) (d : DInfo) (t : TInfo)
    (hd : ds.find? (fun d => d.category == cat) = some d)
    (ht : ts.find? (fun t => t.id == tid + d.offset) = some t) :
    resolve ts ds cat tid = { name := t.name, scale := t.scale, unit := some t.unit } := by
  simp [resolve, offsetOf, hd, ht]

/-- a category missing from diaginfo has offset 0 -/
theorem resolve_nocat (ts : List TInfo) (ds : List DInfo) (cat : String) (tid : Nat) (t : TInfo)
    (hd : ds.find? (fun d => d.category == cat) = none)
    (ht : ts.find? (fun t => t.id == tid) = some t) :
    resolve ts ds cat tid = { name := t.name, scale := t.scale, unit := some t.unit } := by
  simp [resolve, offsetOf, hd, ht]

/-- a tracer without a table line is never scaled and keeps the unit stored in the file -/
theorem resolve_unlisted (ts : List TInfo) (ds : List DInfo) (cat : String) (tid : Nat)
    (ht : ts.find? (fun t => t.id == tid + offsetOf ds cat) = none) :
    (resolve ts ds cat tid).scale = 1 ∧ (resolve ts ds cat tid).unit = none := by
  unfold resolve
  simp only [ht]
  cases ts.find? (fun t => t.id == tid) <;> simp

/-- **tie to the source** (regenerated from `_datablock_header_type` of geoschemfiles/_bpch.py on every run): the word
offsets at which the model reads category, tracer number, unit, tau0, tau1, dimensions, start and skip in the second
header record of a data block are those of the source's record type -/
theorem header_layout_matches_source :
    Generated.bpchHdr2 = some [0, 10, 11, 21, 23, 25, 35, 38, 41, 42] ∧ Generated.bpchHdr1 = some [0, 5, 7, 8, 9] ∧
    Generated.bpchFileHeaderBytes = some 136 ∧
    ∀ b : Block, b.category = b.hdr2.take 10 ∧ b.tracerid = b.hdr2.getD 10 0 ∧ b.unit = (b.hdr2.drop 11).take 10 ∧
      b.tau0 = (b.hdr2.drop 21).take 2 ∧ b.tau1 = (b.hdr2.drop 23).take 2 ∧ b.dims = (b.hdr2.drop 35).take 3 ∧
      b.start = (b.hdr2.drop 38).take 3 ∧ b.skip = b.hdr2.getD 41 0 := by
  refine ⟨by decide, by decide, by decide, fun b => ⟨rfl, rfl, rfl, rfl, rfl, rfl, rfl, rfl⟩⟩

end Props.C18
