import PncModel.Arl
import Mathlib.Tactic.Linarith
import Mathlib.Tactic.Ring
import Mathlib.Tactic.FieldSimp
import Mathlib.Algebra.Order.Field.Basic
import Mathlib.Algebra.Order.Floor.Defs
import Mathlib.Algebra.Order.Floor.Ring
import Mathlib.Data.Rat.Floor

namespace Arl

theorem trunc0_eq_floor (q : ℚ) (h : 0 ≤ q) : trunc0 q = ⌊q⌋ := by
  unfold trunc0
  rw [Rat.floor_def']
  have hn : 0 ≤ q.num := Rat.num_nonneg.mpr h
  exact Int.tdiv_eq_ediv_of_nonneg hn

/-- one packing step in the non-negative region: half-step error and byte range -/
theorem packElem_ok (s rold x : ℚ) (hs : 0 < s)
    (hlo : -(255 / 2 : ℚ) ≤ (x - rold) * s) (hhi : (x - rold) * s ≤ 255 / 2) :
    let p := packElem s rold x
    |p.2 - x| * s ≤ 1 / 2 ∧ 0 ≤ p.1 ∧ p.1 ≤ 255 := by
  intro p
  have hq : 0 ≤ (x - rold) * s + 255 / 2 := by linarith
  have hic : p.1 = ⌊(x - rold) * s + 255 / 2⌋ := trunc0_eq_floor _ hq
  have h1 := Int.floor_le ((x - rold) * s + 255 / 2)
  have h2 := Int.lt_floor_add_one ((x - rold) * s + 255 / 2)
  have hp2 : p.2 = ((p.1 - 127 : ℤ) : ℚ) / s + rold := rfl
  rw [← hic] at h1 h2
  refine ⟨?_, ?_, ?_⟩
  · have hne : s ≠ 0 := ne_of_gt hs
    have : (p.2 - x) * s = ((p.1 : ℚ) - 127) - (x - rold) * s := by
      rw [hp2]; push_cast; field_simp; ring
    rw [← abs_of_pos hs, ← abs_mul, this, abs_le]
    constructor <;> linarith
  · have : (0 : ℚ) < (p.1 : ℚ) + 1 := by linarith
    have : (0 : ℤ) < p.1 + 1 := by exact_mod_cast this
    omega
  · have : (p.1 : ℚ) ≤ 255 := by linarith
    exact_mod_cast this

end Arl

namespace Arl

/-- post-condition of one packed element: half a step from the input, byte in range -/
def ElemOK (s : ℚ) (x : ℚ) (p : ℤ × ℚ) : Prop := |p.2 - x| * s ≤ 1 / 2 ∧ 0 ≤ p.1 ∧ p.1 ≤ 255

theorem abs_mul_bounds (s a : ℚ) (hs : 0 < s) (c : ℚ) (h : |a| * s ≤ c) : -c ≤ a * s ∧ a * s ≤ c := by
  rw [← abs_of_pos hs, ← abs_mul, abs_le] at h
  exact h

theorem packElem_step (s prev rold x : ℚ) (hs : 0 < s)
    (he : |rold - prev| * s ≤ 1 / 2) (hd : |x - prev| * s ≤ 127) :
    ElemOK s x (packElem s rold x) := by
  obtain ⟨e1, e2⟩ := abs_mul_bounds s _ hs _ he
  obtain ⟨d1, d2⟩ := abs_mul_bounds s _ hs _ hd
  have : (x - rold) * s = (x - prev) * s - (rold - prev) * s := by ring
  exact packElem_ok s rold x hs (by rw [this]; linarith) (by rw [this]; linarith)

theorem packRow_ok (s : ℚ) (hs : 0 < s) : ∀ (xs : List ℚ) (prev rold : ℚ),
    |rold - prev| * s ≤ 1 / 2 → (∀ d ∈ rowDiffs prev xs, |d| * s ≤ 127) →
    List.Forall₂ (ElemOK s) xs (packRow s rold xs)
  | [], _, _, _, _ => by simp [packRow]
  | x :: xs, prev, rold, he, hd => by
    have hx := packElem_step s prev rold x hs he (hd _ (by simp [rowDiffs]))
    simp only [packRow]
    refine List.Forall₂.cons hx ?_
    exact packRow_ok s hs xs x _ hx.1 (fun d hdm => hd d (by simp [rowDiffs, hdm]))

theorem packRows_ok (s : ℚ) (hs : 0 < s) : ∀ (f : List (List ℚ)) (pcol rcol : ℚ),
    |rcol - pcol| * s ≤ 1 / 2 → (∀ d ∈ fieldDiffs pcol f, |d| * s ≤ 127) →
    List.Forall₂ (List.Forall₂ (ElemOK s)) f (packRows s rcol f)
  | [], _, _, _, _ => by simp [packRows]
  | [] :: rest, pcol, rcol, he, hd => by
    simp only [packRows]
    refine List.Forall₂.cons List.Forall₂.nil ?_
    exact packRows_ok s hs rest pcol rcol he (fun d hdm => hd d (by simpa [fieldDiffs] using hdm))
  | (x :: xs) :: rest, pcol, rcol, he, hd => by
    have hx := packElem_step s pcol rcol x hs he (hd _ (by simp [fieldDiffs]))
    simp only [packRows]
    refine List.Forall₂.cons (List.Forall₂.cons hx ?_) ?_
    · exact packRow_ok s hs xs x _ hx.1 (fun d hdm => hd d (by simp [fieldDiffs, hdm]))
    · exact packRows_ok s hs rest x _ hx.1 (fun d hdm => hd d (by simp [fieldDiffs, hdm]))

/-- unpack inverts pack as long as no byte wrapped -/
theorem unpackRow_packRow (s : ℚ) : ∀ (xs : List ℚ) (rold : ℚ),
    (∀ p ∈ packRow s rold xs, 0 ≤ p.1 ∧ p.1 ≤ 255) →
    unpackRow s rold ((packRow s rold xs).map (fun e => toByte e.1)) = (packRow s rold xs).map (·.2)
  | [], _, _ => by simp [packRow, unpackRow]
  | x :: xs, rold, h => by
    simp only [packRow, List.map_cons, unpackRow]
    have hb := h (packElem s rold x) (by simp [packRow])
    have hbyte : toByte (packElem s rold x).1 = (packElem s rold x).1 := by
      unfold toByte; omega
    rw [hbyte]
    have hv : (((packElem s rold x).1 - 127 : ℤ) : ℚ) / s + rold = (packElem s rold x).2 := rfl
    rw [hv, unpackRow_packRow s xs _ (fun p hp => h p (by simp [packRow, hp]))]

theorem unpackRows_packRows (s : ℚ) : ∀ (f : List (List ℚ)) (rcol : ℚ),
    (∀ row ∈ packRows s rcol f, ∀ p ∈ row, 0 ≤ p.1 ∧ p.1 ≤ 255) →
    unpackRows s rcol (bytes (packRows s rcol f)) = recon (packRows s rcol f)
  | [], _, _ => by simp [packRows, unpackRows, bytes, recon]
  | [] :: rest, rcol, h => by
    have ih := unpackRows_packRows s rest rcol (fun row hr => h row (by simp [packRows, hr]))
    simp only [bytes, recon] at ih
    simp [packRows, unpackRows, bytes, recon, ih]
  | (x :: xs) :: rest, rcol, h => by
    have hrow := h (packElem s rcol x :: packRow s (packElem s rcol x).2 xs) (by simp [packRows])
    have hb := hrow (packElem s rcol x) (by simp)
    have hbyte : toByte (packElem s rcol x).1 = (packElem s rcol x).1 := by
      unfold toByte; omega
    have hv : (((packElem s rcol x).1 - 127 : ℤ) : ℚ) / s + rcol = (packElem s rcol x).2 := rfl
    have ih := unpackRows_packRows s rest (packElem s rcol x).2
      (fun row hr => h row (by simp [packRows, hr]))
    have ihr := unpackRow_packRow s xs (packElem s rcol x).2 (fun p hp => hrow p (by simp [hp]))
    simp only [bytes, recon] at ih
    simp only [packRows, bytes, recon, List.map_cons, unpackRows, hbyte, hv, ihr, ih]

end Arl
