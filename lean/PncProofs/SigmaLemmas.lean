import PncProofs.InterpLemmas
import Mathlib.Algebra.Order.Floor.Defs
import Mathlib.Algebra.Order.Floor.Ring
import Mathlib.Data.Rat.Floor

namespace Interp

/-- strictly descending -/
def Desc : List ℚ → Prop
  | a :: b :: rest => a > b ∧ Desc (b :: rest)
  | _ => True

/-- weakly descending -/
def DescW : List ℚ → Prop
  | a :: b :: rest => a ≥ b ∧ DescW (b :: rest)
  | _ => True

theorem Desc.weak : ∀ {l : List ℚ}, Desc l → DescW l
  | [], _ => trivial
  | [_], _ => trivial
  | _ :: b :: rest, h => ⟨le_of_lt h.1, Desc.weak (l := b :: rest) h.2⟩

theorem clamp01_of_nonpos {x : ℚ} (h : x ≤ 0) : clamp01 x = 0 := by
  unfold clamp01; rw [min_eq_right (by linarith)]; exact max_eq_left h
theorem clamp01_of_ge_one {x : ℚ} (h : 1 ≤ x) : clamp01 x = 1 := by
  unfold clamp01; rw [min_eq_left h]; exact max_eq_right (by norm_num)
theorem clamp01_of_mem {x : ℚ} (h0 : 0 ≤ x) (h1 : x ≤ 1) : clamp01 x = x := by
  unfold clamp01; rw [min_eq_right h1]; exact max_eq_right h0

/-- cumulative thickness of the source layers below fractional index `e` -/
def S : List ℚ → ℚ → ℚ
  | s0 :: s1 :: rest, e => (s0 - s1) * clamp01 e + S (s1 :: rest) (e - 1)
  | _, _ => 0

theorem S_nonpos : ∀ (l : List ℚ) (e : ℚ), e ≤ 0 → S l e = 0
  | [], _, _ => rfl
  | [_], _, _ => rfl
  | s0 :: s1 :: rest, e, h => by
    simp only [S, clamp01_of_nonpos h, S_nonpos (s1 :: rest) (e - 1) (by linarith)]; ring

theorem fidx_two (s0 s1 v : ℚ) : fidx [s0, s1] v =
    if v ≥ s0 then 0 else if v ≥ s1 then (s0 - v) / (s0 - s1) else 1 := rfl
theorem fidx_three (s0 s1 s2 : ℚ) (rest : List ℚ) (v : ℚ) : fidx (s0 :: s1 :: s2 :: rest) v =
    if v ≥ s0 then 0 else if v ≥ s1 then (s0 - v) / (s0 - s1)
    else 1 + fidx (s1 :: s2 :: rest) v := rfl
theorem S_cons (s0 s1 : ℚ) (rest : List ℚ) (e : ℚ) :
    S (s0 :: s1 :: rest) e = (s0 - s1) * clamp01 e + S (s1 :: rest) (e - 1) := rfl

theorem fidx_nonneg : ∀ (l : List ℚ) (v : ℚ), Desc l → 0 ≤ fidx l v
  | [], _, _ => by simp [fidx]
  | [_], _, _ => by simp [fidx]
  | [s0, s1], v, h => by
    rw [fidx_two]
    split_ifs with h0 h1
    · exact le_refl _
    · exact div_nonneg (by linarith [not_le.mp h0]) (by linarith [h.1])
    · norm_num
  | s0 :: s1 :: s2 :: rest, v, h => by
    rw [fidx_three]
    split_ifs with h0 h1
    · exact le_refl _
    · exact div_nonneg (by linarith [not_le.mp h0]) (by linarith [h.1])
    · have := fidx_nonneg (s1 :: s2 :: rest) v h.2; linarith

/-- the piecewise-linear index map inverts the cumulative thickness -/
theorem S_fidx : ∀ (l : List ℚ) (v : ℚ) (hne : l ≠ []), Desc l →
    l.getLast hne ≤ v → v ≤ l.head hne → S l (fidx l v) = l.head hne - v
  | [s0], v, _, _, h1, h0 => by
    simp only [List.getLast_singleton, List.head_cons] at h1 h0
    simp only [S, List.head_cons]; linarith
  | [s0, s1], v, _, hd, h1, h0 => by
    simp only [List.getLast_cons_cons, List.getLast_singleton] at h1
    simp only [List.head_cons] at h0 ⊢
    have hpos : 0 < s0 - s1 := by linarith [hd.1]
    rw [fidx_two]
    split_ifs with c0
    · rw [S_cons, clamp01_of_nonpos (le_refl (0 : ℚ))]; simp only [S]; linarith
    · have hlt := not_le.mp c0
      have he0 : 0 ≤ (s0 - v) / (s0 - s1) := div_nonneg (by linarith) hpos.le
      have he1 : (s0 - v) / (s0 - s1) ≤ 1 := by rw [div_le_one hpos]; linarith
      rw [S_cons, clamp01_of_mem he0 he1]
      simp only [S]
      field_simp
      ring
  | s0 :: s1 :: s2 :: rest, v, _, hd, h1, h0 => by
    simp only [List.head_cons] at h0 ⊢
    have hpos : 0 < s0 - s1 := by linarith [hd.1]
    rw [fidx_three]
    split_ifs with c0 c1
    · rw [S_cons, clamp01_of_nonpos (le_refl (0 : ℚ)), S_nonpos _ _ (by norm_num)]; linarith
    · have hlt := not_le.mp c0
      have he0 : 0 ≤ (s0 - v) / (s0 - s1) := div_nonneg (by linarith) hpos.le
      have he1 : (s0 - v) / (s0 - s1) ≤ 1 := by rw [div_le_one hpos]; linarith
      rw [S_cons, clamp01_of_mem he0 he1, S_nonpos _ _ (by linarith)]
      field_simp
      ring
    · have hf := fidx_nonneg (s1 :: s2 :: rest) v hd.2
      have ih := S_fidx (s1 :: s2 :: rest) v (by simp) hd.2
        (by simpa [List.getLast_cons] using h1) (by simp only [List.head_cons]; linarith [not_le.mp c1])
      simp only [List.head_cons] at ih
      rw [S_cons, clamp01_of_ge_one (by linarith)]
      have : 1 + fidx (s1 :: s2 :: rest) v - 1 = fidx (s1 :: s2 :: rest) v := by ring
      rw [this, ih]; ring

/-- the coefficient written with clamps -/
def clampCoeff (b t : ℚ) (lay : ℤ) : ℚ := clamp01 (t - lay) - clamp01 (b - lay)

theorem floorZ_eq (q : ℚ) : floorZ q = ⌊q⌋ := by unfold floorZ; rw [Rat.floor_def']
theorem ceilZ_eq (q : ℚ) : ceilZ q = ⌈q⌉ := by
  unfold ceilZ
  have := floorZ_eq (-q)
  unfold floorZ at this
  rw [this, Int.floor_neg]; ring

/-- what the code's loop writes equals the clamp formula whenever `b ≤ t` -/
theorem codeCoeff_eq_clamp (b t : ℚ) (lay : ℤ) (h : b ≤ t) : codeCoeff b t lay = clampCoeff b t lay := by
  unfold codeCoeff clampCoeff
  rw [floorZ_eq, ceilZ_eq]
  split_ifs with hc
  · obtain ⟨h1, h2⟩ := hc
    have hb : b < (lay : ℚ) + 1 := by
      have := Int.lt_floor_add_one b
      have : ((⌊b⌋ : ℤ) : ℚ) ≤ lay := by exact_mod_cast h1
      linarith
    have ht : (lay : ℚ) < t := Int.lt_ceil.mp h2
    have e1 : clamp01 (t - lay) = min (t - lay) 1 := by
      unfold clamp01; rw [min_comm]; exact max_eq_right (le_min (by linarith) (by norm_num))
    have e2 : clamp01 (b - lay) = max (b - lay) 0 := by
      unfold clamp01; rw [min_eq_right (by linarith), max_comm]
    rw [e1, e2]
  · rw [not_and_or] at hc
    rcases hc with hc | hc
    · have hlt : lay + 1 ≤ ⌊b⌋ := by omega
      have : ((lay : ℚ) + 1) ≤ b := by
        have h1 : (((lay + 1 : ℤ)) : ℚ) ≤ ((⌊b⌋ : ℤ) : ℚ) := by exact_mod_cast hlt
        have := Int.floor_le b
        push_cast at h1; linarith
      rw [clamp01_of_ge_one (by linarith), clamp01_of_ge_one (by linarith)]; ring
    · have hge : ⌈t⌉ ≤ lay := by omega
      have : t ≤ (lay : ℚ) := by
        have h1 : ((⌈t⌉ : ℤ) : ℚ) ≤ (lay : ℚ) := by exact_mod_cast hge
        have := Int.le_ceil t
        linarith
      rw [clamp01_of_nonpos (by linarith), clamp01_of_nonpos (by linarith)]; ring

/-- column with the clamp formula -/
def clampCol (b t : ℚ) : ℕ → ℤ → List ℚ
  | 0, _ => []
  | n + 1, l0 => clampCoeff b t l0 :: clampCol b t n (l0 + 1)

theorem coeffCol_eq_clampCol (b t : ℚ) (h : b ≤ t) : ∀ (n : ℕ) (l0 : ℤ),
    coeffCol b t n l0 = clampCol b t n l0
  | 0, _ => rfl
  | n + 1, l0 => by simp only [coeffCol, clampCol, codeCoeff_eq_clamp b t l0 h, coeffCol_eq_clampCol b t h n]

/-- thickness-weighted sum of one column = difference of cumulative thicknesses -/
theorem dot_thick_clampCol (b t : ℚ) : ∀ (l : List ℚ) (l0 : ℤ),
    dot (thick l) (clampCol b t (l.length - 1) l0) = S l (t - l0) - S l (b - l0)
  | [], _ => by simp [thick, dot, S, clampCol]
  | [_], _ => by simp [thick, dot, S, clampCol]
  | s0 :: s1 :: rest, l0 => by
    have ih := dot_thick_clampCol b t (s1 :: rest) (l0 + 1)
    simp only [List.length_cons, Nat.add_sub_cancel] at ih ⊢
    simp only [thick, clampCol, dot, S, clampCoeff]
    rw [ih]
    push_cast
    have e1 : t - (↑l0 + 1) = t - ↑l0 - 1 := by ring
    have e2 : b - (↑l0 + 1) = b - ↑l0 - 1 := by ring
    rw [e1, e2]; ring

end Interp

namespace Interp

/-! ### monotonicity and end values of the index map -/

theorem Desc.last_le_head : ∀ (l : List ℚ) (hne : l ≠ []), DescW l → l.getLast hne ≤ l.head hne
  | [_], _, _ => by simp
  | a :: b :: rest, _, h => by
    have := Desc.last_le_head (b :: rest) (by simp) h.2
    simp only [List.getLast_cons_cons, List.head_cons] at this ⊢
    linarith [h.1]

theorem Desc.last_lt_head : ∀ (a b : ℚ) (rest : List ℚ), Desc (a :: b :: rest) →
    (a :: b :: rest).getLast (by simp) < a := by
  intro a b rest h
  have := Desc.last_le_head (b :: rest) (by simp) (Desc.weak h.2)
  simp only [List.getLast_cons_cons, List.head_cons] at this ⊢
  linarith [h.1]

theorem fidx_head : ∀ (l : List ℚ) (hne : l ≠ []), fidx l (l.head hne) = 0
  | [_], _ => by simp [fidx]
  | [s0, s1], _ => by rw [fidx_two]; simp
  | s0 :: s1 :: s2 :: rest, _ => by rw [fidx_three]; simp

theorem fidx_last : ∀ (l : List ℚ) (hne : l ≠ []), Desc l → 2 ≤ l.length →
    fidx l (l.getLast hne) = (l.length - 1 : ℕ)
  | [_], _, _, h => by simp at h
  | [s0, s1], _, hd, _ => by
    have hpos : 0 < s0 - s1 := by linarith [hd.1]
    simp only [List.getLast_cons_cons, List.getLast_singleton]
    rw [fidx_two, if_neg (by linarith [hd.1]), if_pos (le_refl _)]
    simp [div_self (ne_of_gt hpos)]
  | s0 :: s1 :: s2 :: rest, _, hd, _ => by
    have hl1 := Desc.last_lt_head s1 s2 rest hd.2
    have ih := fidx_last (s1 :: s2 :: rest) (by simp) hd.2 (by simp)
    simp only [List.getLast_cons_cons] at hl1 ih ⊢
    rw [fidx_three, if_neg (by linarith [hd.1]), if_neg (by linarith), ih]
    simp only [List.length_cons]
    push_cast; ring

theorem fidx_le_one_seg (s0 s1 v : ℚ) (h : s0 > s1) (h1 : v ≥ s1) : (s0 - v) / (s0 - s1) ≤ 1 := by
  rw [div_le_one (by linarith)]; linarith

/-- lower sigma ⇒ higher (or equal) fractional index -/
theorem fidx_antitone : ∀ (l : List ℚ) (v w : ℚ), Desc l → w ≤ v → fidx l v ≤ fidx l w
  | [], _, _, _, _ => by simp [fidx]
  | [_], _, _, _, _ => by simp [fidx]
  | [s0, s1], v, w, hd, hvw => by
    have hpos : 0 < s0 - s1 := by linarith [hd.1]
    rw [fidx_two, fidx_two]
    by_cases a1 : v ≥ s0 <;> by_cases a2 : v ≥ s1 <;> by_cases b1 : w ≥ s0 <;> by_cases b2 : w ≥ s1 <;>
      simp only [a1, a2, b1, b2, if_true, if_false] <;>
      first
        | exact le_refl _
        | linarith
        | exact div_nonneg (by linarith) hpos.le
        | exact div_le_div_of_nonneg_right (by linarith) hpos.le
        | exact fidx_le_one_seg s0 s1 v hd.1 a2
  | s0 :: s1 :: s2 :: rest, v, w, hd, hvw => by
    have hpos : 0 < s0 - s1 := by linarith [hd.1]
    have hnn := fidx_nonneg (s1 :: s2 :: rest) w hd.2
    have ih := fidx_antitone (s1 :: s2 :: rest) v w hd.2 hvw
    rw [fidx_three, fidx_three]
    by_cases a1 : v ≥ s0 <;> by_cases a2 : v ≥ s1 <;> by_cases b1 : w ≥ s0 <;> by_cases b2 : w ≥ s1 <;>
      simp only [a1, a2, b1, b2, if_true, if_false] <;>
      first
        | exact le_refl _
        | linarith
        | exact div_nonneg (by linarith) hpos.le
        | exact div_le_div_of_nonneg_right (by linarith) hpos.le
        | (have := fidx_le_one_seg s0 s1 v hd.1 a2; linarith)

/-! ### telescoping over consecutive pairs -/

theorem pairs_map_cons (f : ℚ → ℚ) (a b : ℚ) (rest : List ℚ) :
    pairs ((a :: b :: rest).map f) = (f a, f b) :: pairs ((b :: rest).map f) := rfl

theorem telescope (g : ℚ → ℚ) : ∀ (es : List ℚ) (hne : es ≠ []),
    sum ((pairs es).map (fun p => g p.2 - g p.1)) = g (es.getLast hne) - g (es.head hne)
  | [_], _ => by simp [pairs]
  | a :: b :: rest, _ => by
    have ih := telescope g (b :: rest) (by simp)
    simp only [pairs, List.map_cons, sum_cons, ih, List.getLast_cons_cons, List.head_cons]
    ring

theorem coeffCol_getD (b t : ℚ) : ∀ (n : ℕ) (l0 : ℤ) (i : ℕ), i < n →
    (coeffCol b t n l0).getD i 0 = codeCoeff b t (l0 + i)
  | 0, _, _, h => by simp at h
  | n + 1, l0, 0, _ => by simp [coeffCol]
  | n + 1, l0, i + 1, h => by
    simp only [coeffCol, List.getD_cons_succ]
    rw [coeffCol_getD b t n (l0 + 1) i (by omega)]
    congr 1; push_cast; ring

/-- weighted cumulative sum: Σ_l data_l · dp_l · clamp01 (e - l) -/
def T : List ℚ → List ℚ → ℚ → ℚ
  | s0 :: s1 :: rest, d :: ds, e => d * ((s0 - s1) * clamp01 e) + T (s1 :: rest) ds (e - 1)
  | _, _, _ => 0

theorem T_nonpos : ∀ (l ds : List ℚ) (e : ℚ), e ≤ 0 → T l ds e = 0
  | [], _, _, _ => by simp [T]
  | [_], _, _, _ => by simp [T]
  | _ :: _ :: _, [], _, _ => by simp [T]
  | s0 :: s1 :: rest, d :: ds, e, h => by
    simp only [T, clamp01_of_nonpos h, T_nonpos (s1 :: rest) ds (e - 1) (by linarith)]; ring

theorem T_full : ∀ (l ds : List ℚ) (e : ℚ), ((l.length - 1 : ℕ) : ℚ) ≤ e → T l ds e = dot ds (thick l)
  | [], ds, _, _ => by cases ds <;> simp [T, thick, dot]
  | [_], ds, _, _ => by cases ds <;> simp [T, thick, dot]
  | _ :: _ :: _, [], _, _ => by simp [T, dot]
  | s0 :: s1 :: rest, d :: ds, e, h => by
    simp only [List.length_cons, Nat.add_sub_cancel] at h
    push_cast at h
    have hn : (0 : ℚ) ≤ (rest.length : ℚ) := by exact_mod_cast Nat.zero_le _
    have ih := T_full (s1 :: rest) ds (e - 1) (by
      simp only [List.length_cons, Nat.add_sub_cancel]; linarith)
    simp only [T, thick, dot, ih, clamp01_of_ge_one (by linarith : (1 : ℚ) ≤ e)]
    ring

theorem dot_fdp_clampCol (b t : ℚ) : ∀ (l ds : List ℚ) (l0 : ℤ),
    dot ds (List.zipWith (· * ·) (thick l) (clampCol b t (l.length - 1) l0))
      = T l ds (t - l0) - T l ds (b - l0)
  | [], ds, _ => by cases ds <;> simp [thick, dot, T, clampCol]
  | [_], ds, _ => by cases ds <;> simp [thick, dot, T, clampCol]
  | _ :: _ :: _, [], _ => by simp [dot, T]
  | s0 :: s1 :: rest, d :: ds, l0 => by
    have ih := dot_fdp_clampCol b t (s1 :: rest) ds (l0 + 1)
    simp only [List.length_cons, Nat.add_sub_cancel] at ih ⊢
    simp only [thick, clampCol, List.zipWith_cons_cons, dot, T, clampCoeff]
    rw [ih]
    push_cast
    have e1 : t - (↑l0 + 1) = t - ↑l0 - 1 := by ring
    have e2 : b - (↑l0 + 1) = b - ↑l0 - 1 := by ring
    rw [e1, e2]; ring

theorem sum_zipWith_eq_dot : ∀ (a b : List ℚ), sum (List.zipWith (· * ·) a b) = dot a b
  | [], _ => by simp [dot]
  | _ :: _, [] => by simp [dot]
  | a :: as, b :: bs => by simp [dot, sum_zipWith_eq_dot as bs]

theorem dot_replicate_left (c : ℚ) : ∀ (n : ℕ) (l : List ℚ), l.length ≤ n →
    dot (List.replicate n c) l = c * sum l
  | _, [], _ => by cases ‹ℕ› <;> simp [dot, List.replicate_succ]
  | 0, _ :: _, h => by simp at h
  | n + 1, a :: l, h => by
    simp only [List.replicate_succ, dot, sum_cons]
    rw [dot_replicate_left c n l (by simpa using h)]; ring

end Interp
