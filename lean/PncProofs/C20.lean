import PncModel.Generated.ArlHeaders
import PncProofs.ArlLemmas

/-!
# C20 — ARL packed-bit: property theorems

Reading of the property over exact arithmetic (`ℚ`), scale `s = 2^(7-NEXP)`, one quantisation
step `= 1/s`:

* full statement (FALSE for the code as it is, see the counterexamples):
  `∀ f, rmax f * s ≤ 128 → every element of unpack (bytes (pack f))` is within one step of `f`,
  no byte wraps;
* proved: the same with `rmax f * s ≤ 127` (all neighbour differences at most 127 steps), and then
  even within *half* a step; `unpack` inverts `pack` whenever no byte wrapped; first element exact;
  checksum is the byte sum modulo 255.
-/
namespace Props.C20
open Arl

/-- **C20 (partial).** If every neighbour difference (in packing order) is at most 127 steps, every
packed integer is a byte (no wrap-around) and every reconstructed element is within half a
quantisation step of the input. -/
theorem bound_partial (s : ℚ) (hs : 0 < s) (f : List (List ℚ))
    (hd : ∀ d ∈ fieldDiffs (var1 f) f, |d| * s ≤ 127) :
    List.Forall₂ (List.Forall₂ (ElemOK s)) f (pack s f) :=
  packRows_ok s hs f (var1 f) (var1 f) (by simp) hd

/-- **C20.** `unpack` inverts `pack` (returns the running reconstruction the packer tracked)
whenever no packed integer left the byte range. -/
theorem unpack_inverts (s : ℚ) (f : List (List ℚ))
    (h : ∀ row ∈ pack s f, ∀ p ∈ row, 0 ≤ p.1 ∧ p.1 ≤ 255) :
    unpack s (var1 f) (bytes (pack s f)) = recon (pack s f) :=
  unpackRows_packRows s f (var1 f) h

theorem forall₂_right_mem {α β} {R : α → β → Prop} {l₁ : List α} {l₂ : List β}
    (h : List.Forall₂ R l₁ l₂) : ∀ b ∈ l₂, ∃ a ∈ l₁, R a b := by
  induction h with
  | nil => simp
  | cons hab _ ih =>
    intro b hb
    rcases List.mem_cons.mp hb with rfl | hb
    · exact ⟨_, by simp, hab⟩
    · obtain ⟨a, ha, hr⟩ := ih b hb
      exact ⟨a, by simp [ha], hr⟩

/-- bytes are in range under the hypothesis of `bound_partial` -/
theorem bytes_in_range (s : ℚ) (hs : 0 < s) (f : List (List ℚ))
    (hd : ∀ d ∈ fieldDiffs (var1 f) f, |d| * s ≤ 127) :
    ∀ row ∈ pack s f, ∀ p ∈ row, 0 ≤ p.1 ∧ p.1 ≤ 255 := by
  have h := bound_partial s hs f hd
  intro row hr p hp
  obtain ⟨frow, _, hfr⟩ := forall₂_right_mem h row hr
  obtain ⟨x, _, hx⟩ := forall₂_right_mem hfr p hp
  exact hx.2

/-- **C20 (partial), end to end**: what the decoder returns is within half a step of the input. -/
theorem roundtrip_partial (s : ℚ) (hs : 0 < s) (f : List (List ℚ))
    (hd : ∀ d ∈ fieldDiffs (var1 f) f, |d| * s ≤ 127) :
    List.Forall₂ (List.Forall₂ (fun x u => |u - x| * s ≤ 1 / 2)) f
      (unpack s (var1 f) (bytes (pack s f))) := by
  rw [unpack_inverts s f (bytes_in_range s hs f hd)]
  have h := bound_partial s hs f hd
  unfold recon
  rw [List.forall₂_map_right_iff]
  refine h.imp ?_
  intro row prow hrow
  rw [List.forall₂_map_right_iff]
  exact hrow.imp (fun _ _ h => h.1)

/-- **C20.** the first element is reproduced exactly (any field, any scale) -/
theorem first_exact (s : ℚ) (x : ℚ) (xs : List ℚ) (rest : List (List ℚ)) :
    (recon (pack s ((x :: xs) :: rest))).head?.bind List.head? = some x := by
  have h127 : trunc0 (255 / 2 : ℚ) = 127 := by decide +kernel
  simp [pack, var1, packRows, recon, packElem, h127]

/-- **C20.** the recorded checksum is the byte sum modulo 255 and lies in [0, 255) -/
theorem checksum (b : List (List ℤ)) :
    ksum b = (b.map List.sum).sum % 255 ∧ 0 ≤ ksum b ∧ ksum b < 255 := by
  refine ⟨rfl, ?_, ?_⟩ <;> unfold ksum <;> omega

/-- The full statement ("within one step whenever the exponent rule `rmax·s < 128` holds") is
FALSE for the algorithm as coded: `INT()` truncates toward zero, so a scaled difference in
(-128.5, -127.5) is packed as byte 0 and the error is 5/4 of a step. Witness replayed on the real
code by the check (known finding C20/pack2d/negative-truncation). -/
theorem counterexample_trunc :
    let f : List (List ℚ) := [[0, 1 / 2, -509 / 4]]
    let s := scaleOf 7
    rmax f * s < 128 ∧ nexpOf (rmax f) = 7 ∧
    bytes (pack s f) = [[127, 128, 0]] ∧
    unpack s (var1 f) (bytes (pack s f)) = [[0, 1, -126]] ∧
    maxErrSteps s f (unpack s (var1 f) (bytes (pack s f))) = 5 / 4 := by
  decide +kernel

/-- ... and the accumulated error then drives the next packed integer to -1, which is stored as
byte 255: wrap-around, error 257 steps. -/
theorem counterexample_wrap :
    let f : List (List ℚ) := [[0, 1 / 2, -509 / 4, -255]]
    let s := scaleOf 7
    rmax f * s < 128 ∧ nexpOf (rmax f) = 7 ∧
    (pack s f).map (·.map (·.1)) = [[127, 128, 0, -1]] ∧
    bytes (pack s f) = [[127, 128, 0, 255]] ∧
    unpack s (var1 f) (bytes (pack s f)) = [[0, 1, -126, 2]] := by
  decide +kernel

/-- non-vacuity of `bound_partial`: a 2×3 field with differences up to 127 steps meets the
hypotheses (and a positive scale exists). -/
example : let f : List (List ℚ) := [[0, 127, 64], [-100, 27, 27]]
    (0 : ℚ) < scaleOf 7 ∧ ∀ d ∈ fieldDiffs (var1 f) f, |d| * scaleOf 7 ≤ 127 := by
  decide +kernel


/-! ### file layout: fixed-length records -/

/-- data records of different (time, index) never overlap and lie inside the file: record `k` of period `t`
starts after the period's index record and ends before the next record starts -/
theorem layout_disjoint (ncell nrec nt t k : Nat) (hk : k < nrec) (ht : t < nt) :
    Arl.recOffset ncell nrec t k + Arl.recl ncell ≤ Arl.fileBytes ncell nt nrec ∧
    (t * (1 + nrec)) * Arl.recl ncell + Arl.recl ncell ≤ Arl.recOffset ncell nrec t k ∧
    (k + 1 < nrec → Arl.recOffset ncell nrec t k + Arl.recl ncell = Arl.recOffset ncell nrec t (k + 1)) := by
  unfold Arl.recOffset Arl.fileBytes
  generalize Arl.recl ncell = L
  refine ⟨?_, ?_, ?_⟩
  · have h1 : (t * (1 + nrec) + 1 + k) + 1 ≤ nt * (1 + nrec) := by
      have : (t + 1) * (1 + nrec) ≤ nt * (1 + nrec) := Nat.mul_le_mul_right _ ht
      have e : (t + 1) * (1 + nrec) = t * (1 + nrec) + (1 + nrec) := Nat.succ_mul _ _
      omega
    calc (t * (1 + nrec) + 1 + k) * L + L = ((t * (1 + nrec) + 1 + k) + 1) * L := by rw [Nat.succ_mul]
      _ ≤ (nt * (1 + nrec)) * L := Nat.mul_le_mul_right _ h1
      _ = nt * ((1 + nrec) * L) := Nat.mul_assoc _ _ _
  · calc t * (1 + nrec) * L + L = (t * (1 + nrec) + 1) * L := by rw [Nat.succ_mul]
      _ ≤ (t * (1 + nrec) + 1 + k) * L := Nat.mul_le_mul_right _ (by omega)
  · intro _
    have : t * (1 + nrec) + 1 + (k + 1) = (t * (1 + nrec) + 1 + k) + 1 := by omega
    rw [this, Nat.succ_mul]

/-- the size of a file is the number of its records times the record length -/
theorem layout_size (ncell nt nrec : Nat) :
    Arl.fileBytes ncell nt nrec = (nt * (1 + nrec)) * (50 + ncell) := by
  unfold Arl.fileBytes Arl.recl
  rw [Nat.mul_assoc]

/-- **tie to the source** (regenerated from `thdtype` / `vhdtype` of noaafiles/_arl.py on every run): the label in front
of every record is 50 bytes (10 + 2 + 2 + 4 + 4 + 14 + 14), label and fixed header of the index record are 158, and the
model's record length is label + one byte per cell -/
theorem label_matches_source :
    Generated.arlLabelBytes = some 50 ∧ Generated.arlIndexBytes = some 158 ∧ Generated.arlLabelWidths = [10, 2, 2, 4, 4, 14, 14] ∧
    ∀ n, Arl.recl n = Generated.arlLabelBytes.getD 0 + n := by
  refine ⟨by decide, by decide, by decide, fun n => ?_⟩
  simp [Arl.recl, Generated.arlLabelBytes]

/-- **the scale is representable**: the exponent `pack2d` records is at least -120, so the scale `2^(7 - NEXP)` never
exceeds `2^127`, the largest power of two a float32 holds (below that the bytes were all zero: repaired, see
known_findings) -/
theorem nexp_floor (r : ℚ) : -120 ≤ nexpOf r := by
  unfold nexpOf
  split
  · decide
  · exact le_max_right _ _

theorem scale_finite (r : ℚ) : scaleOf (nexpOf r) ≤ (2 : ℚ) ^ 127 ∨ 7 - nexpOf r < 0 := by
  have h := nexp_floor r
  by_cases hneg : 7 - nexpOf r < 0
  · exact Or.inr hneg
  · left
    unfold scaleOf pow2
    rw [if_pos (by omega)]
    apply pow_le_pow_right₀ (by norm_num)
    omega

/-- non-vacuity: a difference of `2^-122` (a nearly constant field of magnitude 1e-30) gets the exponent -120, not -121 -/
example : nexpOf (1 / (2 : ℚ) ^ 122) = -120 ∧ nexpOf (1 / (2 : ℚ) ^ 100) = -99 := by
  decide +kernel

end Props.C20
