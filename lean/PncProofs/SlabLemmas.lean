import PncModel.Camx.Slab
import PncProofs.WordsLemmas
import Mathlib.Tactic.Linarith
/- Lemmas for the slab formats: chunking a flattened list of equal-length pieces, framed records. -/
namespace Slab
open Words

theorem chunk_flatten {α} (n : Nat) (hn : 0 < n) : ∀ (ps : List (List α)) (fuel : Nat),
    (∀ p ∈ ps, p.length = n) → ps.flatten.length ≤ fuel → chunk n ps.flatten fuel = ps := by
  intro ps
  induction ps with
  | nil =>
    intro fuel _ _
    cases fuel with
    | zero => rfl
    | succ k => simp [chunk]
  | cons s rest ih =>
    intro fuel hlen hfuel
    have hs : s.length = n := hlen s (by simp)
    cases fuel with
    | zero =>
      simp only [List.flatten_cons, List.length_append] at hfuel
      omega
    | succ k =>
      simp only [chunk, List.flatten_cons]
      have h1 : ¬ (n = 0 ∨ (s ++ rest.flatten).length < n) := by
        simp only [List.length_append]; omega
      rw [if_neg h1]
      have h2 : (s ++ rest.flatten).take n = s := by rw [← hs, List.take_left]
      have h3 : (s ++ rest.flatten).drop n = rest.flatten := by rw [← hs, List.drop_left]
      rw [h2, h3, ih k (fun x hx => hlen x (by simp [hx])) (by
        simp only [List.flatten_cons, List.length_append] at hfuel; omega)]

theorem recTD_frame (t d : Word) (c : List Word) : recTD (frame (t :: d :: c)) = (t, d) := by
  simp [recTD, frame]

theorem recCells_frame (t d : Word) (c : List Word) : recCells (frame (t :: d :: c)) = c := by
  simp [recCells, frame]

theorem frame_markers (p : List Word) : (frame p).head? = (frame p).getLast? := by
  have : frame p = ([4 * p.length] ++ p) ++ [4 * p.length] := rfl
  rw [this, List.getLast?_append]
  simp

theorem frame_len (t d : Word) (c : List Word) : (frame (t :: d :: c)).length = c.length + 4 := by
  simp [frame]

end Slab
