import PncProofs.PrefixLemmas
import PncProofs.C13
import PncProofs.BoundaryPrefix
import PncProofs.WindPrefix
import PncProofs.C09

/-!
# C14 — truncated binary files are never silently misread (uamiv memory-mapped reader)
-/
namespace Props.C14
open Words Camx

/-- **C14.** For every file `w` the memory-mapped uamiv reader accepts and every prefix of it
(`m` whole words plus `extra` < 4 bytes, i.e. every byte offset at which the file can be cut),
opening the prefix either raises or presents exactly the first `k` complete time steps of the
full file, with identical header, grid, species list and dimension counts. -/
theorem prefix_safe (w : List Word) (m extra : Nat) (hx : extra < 4) (hm : 4 * m + extra ≤ 4 * w.length)
    (v0 : MMView) (h0 : decodeMM w 0 = .ok v0) :
    (∃ e, decodeMM (w.take m) extra = .error e) ∨
    (∃ k, k ≤ v0.steps.length ∧ decodeMM (w.take m) extra = .ok { v0 with steps := v0.steps.take k }) :=
  Camx.prefix_safe w m extra hx hm v0 h0

/-- a cut that is not on a word boundary always raises (once the header is complete the
"Partial time output" check fires; before that numpy.memmap refuses the header) -/
theorem odd_cut_raises (w : List Word) (extra : Nat) (h1 : 0 < extra) (h2 : extra < 4) :
    ∃ e, decodeMM w extra = .error e := by
  unfold decodeMM
  by_cases c1 : 4 * w.length + extra < 404
  · exact ⟨.mmapErr, by simp [c1]⟩
  by_cases c2 : 4 * w.length + extra < 408 + 40 * hNspec w
  · exact ⟨.mmapErr, by simp [c1, c2]⟩
  by_cases c3 : 4 * w.length + extra < 4 * hOff w
  · exact ⟨.partialTime, by simp [c1, c2, c3]⟩
  refine ⟨.partialTime, ?_⟩
  have hb : 0 < hBlk w := by unfold hBlk blockWords; omega
  have : (4 * w.length + extra - 4 * hOff w) % (4 * hBlk w) ≠ 0 := by
    intro h
    have h4 : (4 * w.length + extra - 4 * hOff w) % 4 = 0 := by
      have := Nat.mod_mod_of_dvd (4 * w.length + extra - 4 * hOff w) (Dvd.intro (hBlk w) rfl : 4 ∣ 4 * hBlk w)
      rw [h] at this; simpa using this.symm
    omega
  simp [c1, c2, c3, this]


/-! ### slab formats (one3d, humidity, vertical diffusivity, temperature, height/pressure) -/

section slab
open Slab Props.C13

theorem take_flatten_uniform {α} (n : Nat) : ∀ (ps : List (List α)) (q : Nat), (∀ p ∈ ps, p.length = n) →
    ps.flatten.take (q * n) = (ps.take q).flatten := by
  intro ps
  induction ps with
  | nil => intro q _; simp
  | cons a as ih =>
    intro q h
    cases q with
    | zero => simp
    | succ q =>
      have ha : a.length = n := h a (by simp)
      simp only [List.flatten_cons, List.take_succ_cons]
      rw [Nat.succ_mul, Nat.add_comm, List.take_append, ha]
      have : n + q * n - n = q * n := by omega
      rw [this, ih q (fun p hp => h p (by simp [hp]))]
      have : a.take (n + q * n) = a := by
        apply List.take_of_length_le; omega
      rw [this]

theorem takeWhile_take_length {α} (p : α → Bool) : ∀ (l : List α) (q : Nat),
    ((l.take q).takeWhile p).length = min (l.takeWhile p).length q := by
  intro l
  induction l with
  | nil => intro q; simp
  | cons a as ih =>
    intro q
    cases q with
    | zero => simp
    | succ q =>
      simp only [List.take_succ_cons, List.takeWhile_cons]
      by_cases hp : p a = true
      · simp only [hp, if_true, List.length_cons, ih q]
        omega
      · simp [hp]

theorem leading_take (l : List (List Word)) (q : Nat) : leading (l.take q) = min (leading l) q := by
  cases l with
  | nil => simp [leading]
  | cons r rest =>
    cases q with
    | zero => simp [leading]
    | succ q =>
      simp only [List.take_succ_cons, leading, takeWhile_take_length]
      omega

/-- **C14 for the slab formats**: for every well-formed file and EVERY word offset `n` at which it can be cut,
the memory-mapped reader either rejects the prefix or the prefix is exactly the first `j ≥ 2` complete time
steps and the reader presents exactly those steps (any grid, layer count, payload; all three layouts).
(Cuts inside a word cannot be mapped as float32 at all: numpy raises — checked by the correspondence.) -/
theorem slab_prefix_safe (k : Kind) (f : SFile) (h : WF f) (n : Nat) (hn : n ≤ (encode f).length) :
    mmDecode k f.cells ((encode f).take n) = none ∨
    ∃ j, 2 ≤ j ∧ j ≤ f.steps.length ∧ (encode f).take n = encode { f with steps := f.steps.take j } ∧
      mmDecode k f.cells ((encode f).take n) = viewOf k { f with steps := f.steps.take j } := by
  obtain ⟨s0, s1, rest, hst, hne, hm⟩ := h.two
  have hsame : ∀ s ∈ f.steps, s.slabs.length = s0.slabs.length :=
    fun s hs => h.same s hs s0 (by rw [hst]; simp)
  have hL : 0 < f.cells + 4 := by omega
  have hlenpre : ((encode f).take n).length = n := by simp [List.length_take, hn]
  by_cases hmod : n % (f.cells + 4) = 0
  · -- a whole number q of records
    obtain ⟨q, hq⟩ : ∃ q, n = q * (f.cells + 4) := ⟨n / (f.cells + 4), by
      have := Nat.div_add_mod n (f.cells + 4); rw [hmod] at this; rw [Nat.mul_comm]; omega⟩
    have hrows : ∀ p ∈ (f.steps.map framedStep).flatten, p.length = f.cells + 4 := by
      intro p hp
      obtain ⟨fs, hfs, hp'⟩ := List.mem_flatten.mp hp
      obtain ⟨s, hs, rfl⟩ := List.mem_map.mp hfs
      obtain ⟨c, hc, rfl⟩ := mem_framedStep hp'
      rw [frame_len, h.cells s hs c hc]
    have hpre : (encode f).take n = (((f.steps.map framedStep).flatten).take q).flatten := by
      rw [encode_eq, hq]
      exact take_flatten_uniform (f.cells + 4) _ q hrows
    -- the number of records in the file
    have htot := flatten_length f.steps s0.slabs.length hsame
    have hnsteps : f.steps.length = rest.length + 2 := by rw [hst]; simp
    by_cases hdec : mmDecode k f.cells ((encode f).take n) = none
    · exact Or.inl hdec
    · right
      -- unfold the guards that were passed
      have hchunk : chunk (f.cells + 4) ((encode f).take n) ((encode f).take n).length =
          ((f.steps.map framedStep).flatten).take q := by
        rw [hpre]
        apply chunk_flatten (f.cells + 4) hL _ _ _ (Nat.le_refl _)
        intro p hp
        exact hrows p (List.mem_of_mem_take hp)
      have hlead : leading (((f.steps.map framedStep).flatten).take q) = min s0.slabs.length q := by
        rw [leading_take, leading_eq f h s0 s1 rest hst hne hm]
      have hqle : q ≤ ((f.steps.map framedStep).flatten).length := by
        have : n ≤ ((f.steps.map framedStep).flatten).length * (f.cells + 4) := by
          have hl : (encode f).length = ((f.steps.map framedStep).flatten).length * (f.cells + 4) := by
            rw [encode_eq]
            have : ∀ (ps : List (List Word)), (∀ p ∈ ps, p.length = f.cells + 4) →
                ps.flatten.length = ps.length * (f.cells + 4) := by
              intro ps
              induction ps with
              | nil => intro _; simp
              | cons a as ih =>
                intro hp
                simp only [List.flatten_cons, List.length_append, List.length_cons, hp a (by simp),
                  ih (fun x hx => hp x (by simp [hx]))]
                rw [Nat.succ_mul]; omega
            exact this _ hrows
          rw [← hl]; exact hn
        rw [hq] at this
        exact Nat.le_of_mul_le_mul_right this hL
      have hrl : (((f.steps.map framedStep).flatten).take q).length = q := by
        rw [List.length_take]; omega
      -- the guards
      have hguard : ¬ (min s0.slabs.length q = 0 ∨ min s0.slabs.length q = q ∨ q % (min s0.slabs.length q) ≠ 0) := by
        intro hg
        apply hdec
        unfold mmDecode
        rw [if_neg (by rw [hlenpre]; simpa using hmod), hchunk]
        unfold mmRows
        simp only [hlead, hrl]
        rw [if_pos hg]
      have hq1 : s0.slabs.length < q := by
        by_contra hc
        apply hguard
        right; left
        omega
      have hmin : min s0.slabs.length q = s0.slabs.length := by omega
      rw [hmin] at hguard
      have hdiv : q % s0.slabs.length = 0 := by
        by_contra hc
        exact hguard (Or.inr (Or.inr hc))
      obtain ⟨j, hj⟩ : ∃ j, q = j * s0.slabs.length := ⟨q / s0.slabs.length, by
        have := Nat.div_add_mod q s0.slabs.length; rw [hdiv] at this; rw [Nat.mul_comm]; omega⟩
      have hj2 : 2 ≤ j := by
        by_contra hc
        have : j = 0 ∨ j = 1 := by omega
        rcases this with rfl | rfl <;> simp at hj <;> omega
      have hjle : j ≤ f.steps.length := by
        rw [htot, hj] at hqle
        rw [Nat.mul_comm] at hqle
        exact Nat.le_of_mul_le_mul_left hqle hm
      -- the prefix is the encoding of the first j steps
      have hsteps : (((f.steps.map framedStep).flatten).take q) = ((f.steps.take j).map framedStep).flatten := by
        rw [hj]
        have := take_flatten_uniform s0.slabs.length (f.steps.map framedStep) j (by
          intro p hp
          obtain ⟨s, hs, rfl⟩ := List.mem_map.mp hp
          rw [framedStep_length, hsame s hs])
        rw [this, List.map_take]
      have henc : (encode f).take n = encode { f with steps := f.steps.take j } := by
        rw [hpre, hsteps, encode_eq]
      refine ⟨j, hj2, hjle, henc, ?_⟩
      rw [henc]
      -- well-formedness of the truncated file
      have hwf : WF { f with steps := f.steps.take j } := by
        refine ⟨?_, ?_, ?_⟩
        · intro s hs c hc
          exact h.cells s (List.mem_of_mem_take hs) c hc
        · intro s hs s' hs'
          exact h.same s (List.mem_of_mem_take hs) s' (List.mem_of_mem_take hs')
        · refine ⟨s0, s1, rest.take (j - 2), ?_, hne, hm⟩
          show f.steps.take j = _
          rw [hst]
          obtain ⟨j', rfl⟩ : ∃ j', j = j' + 2 := ⟨j - 2, by omega⟩
          simp
      exact mm_decode_encode k { f with steps := f.steps.take j } hwf
  · left
    unfold mmDecode
    rw [if_pos (by rw [hlenpre]; simpa using hmod)]

end slab

/-- **C14 (lateral boundary files).** For every well-formed boundary file and every cut point in words, the
memory-mapped reader either rejects the prefix or the prefix is exactly the encoding of the same headers and edge
definitions with the leading `k ≥ 1` time steps, and that is what the reader presents: never a partial step, never a
step with other content.  (A cut inside a word is rejected by numpy before the reader sees any step: the byte length
is then no multiple of the block size.) -/
theorem boundary_prefix_safe (nspec nx ny nz : Nat) (f : Boundary.BFile) (w : Boundary.WFb nspec nx ny nz f) (n : Nat) :
    Boundary.read ((Boundary.encode f).take n) = none ∨
    ∃ k, 1 ≤ k ∧ k ≤ f.steps.length ∧ (Boundary.encode f).take n = Boundary.encode { f with steps := f.steps.take k } ∧
      Boundary.read ((Boundary.encode f).take n) = some { f with steps := f.steps.take k } :=
  Boundary.read_prefix nspec nx ny nz f w n

/-- non-vacuity: in the two-step example both outcomes occur — the file cut after its first step is read as that step,
the file cut one word later is rejected -/
example : Boundary.read ((Boundary.encode Props.C09.exBoundary).take (157 + 68)) =
      some { Props.C09.exBoundary with steps := Props.C09.exBoundary.steps.take 1 } ∧
    Boundary.read ((Boundary.encode Props.C09.exBoundary).take (157 + 69)) = none := by
  constructor <;> decide +kernel

/-- **C14 (wind files).** For every well-formed wind file and every cut point in words, the memory-mapped reader
rejects a prefix that does not hold the first time step completely and otherwise presents exactly the leading whole
time steps of the file — `n / (words per step)` of them, identical to those of the full file. -/
theorem wind_prefix_safe (cells nz h : Nat) (steps : List Wind.WStep) (w : Wind.WFw cells nz h steps) (n : Nat) :
    Wind.read cells ((Wind.encode steps).take n) =
      if n < (h + 2) + (cells + 2) * (2 * nz) + 3 then none
      else some (steps.take (n / ((h + 2) + (cells + 2) * (2 * nz) + 3))) :=
  Wind.read_prefix cells nz h steps w n

/-- in particular what a prefix presents is a prefix of what the full file presents, and it is never empty -/
theorem wind_prefix_steps (cells nz h : Nat) (steps : List Wind.WStep) (w : Wind.WFw cells nz h steps) (n : Nat)
    (got : List Wind.WStep) (hgot : Wind.read cells ((Wind.encode steps).take n) = some got) :
    ∃ k, 1 ≤ k ∧ got = steps.take k := by
  rw [wind_prefix_safe cells nz h steps w n] at hgot
  split at hgot
  · exact absurd hgot (by simp)
  · rename_i hn
    refine ⟨n / ((h + 2) + (cells + 2) * (2 * nz) + 3), ?_, (Option.some.inj hgot).symm⟩
    exact (Nat.one_le_div_iff (by omega)).mpr (by omega)

/-- non-vacuity: the two-step example (16 words per step) cut after 15, 16, 31 and 32 words -/
example :
    let steps : List Wind.WStep := [⟨1, 19200, some 0, [[1, 2], [3, 4]]⟩, ⟨2, 19200, some 0, [[5, 6], [7, 8]]⟩]
    Wind.read 2 ((Wind.encode steps).take 15) = none ∧ Wind.read 2 ((Wind.encode steps).take 16) = some (steps.take 1) ∧
    Wind.read 2 ((Wind.encode steps).take 31) = some (steps.take 1) ∧ Wind.read 2 ((Wind.encode steps).take 32) = some steps := by
  decide +kernel

end Props.C14
