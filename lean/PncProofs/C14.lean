import PncProofs.PrefixLemmas

/-!
# C14 — truncated binary files are never silently misread (uamiv memory-mapped reader)
-/
namespace Props.C14
open Words Camx

/-- **C14.** For every file `w` the memory-mapped uamiv reader accepts and every prefix of it
(`m` whole words plus `extra` < 4 bytes, i.e. every byte offset at which the file can be cut),
opening the prefix either raises or presents exactly the first `k` complete time steps of the
full file, with identical header, grid, species list and dimension counts. -/
theorem prefix_safe (w : List Word) (m extra : Nat) (hx : extra < 4) (hm : 4 * m + extra ≤ 4 * w.length)
    (v0 : MMView) (h0 : decodeMM w 0 = .ok v0) :
    (∃ e, decodeMM (w.take m) extra = .error e) ∨
    (∃ k, k ≤ v0.steps.length ∧ decodeMM (w.take m) extra = .ok { v0 with steps := v0.steps.take k }) :=
  Camx.prefix_safe w m extra hx hm v0 h0

/-- a cut that is not on a word boundary always raises (once the header is complete the
"Partial time output" check fires; before that numpy.memmap refuses the header) -/
theorem odd_cut_raises (w : List Word) (extra : Nat) (h1 : 0 < extra) (h2 : extra < 4) :
    ∃ e, decodeMM w extra = .error e := by
  unfold decodeMM
  by_cases c1 : 4 * w.length + extra < 404
  · exact ⟨.mmapErr, by simp [c1]⟩
  by_cases c2 : 4 * w.length + extra < 408 + 40 * hNspec w
  · exact ⟨.mmapErr, by simp [c1, c2]⟩
  by_cases c3 : 4 * w.length + extra < 4 * hOff w
  · exact ⟨.partialTime, by simp [c1, c2, c3]⟩
  refine ⟨.partialTime, ?_⟩
  have hb : 0 < hBlk w := by unfold hBlk blockWords; omega
  have : (4 * w.length + extra - 4 * hOff w) % (4 * hBlk w) ≠ 0 := by
    intro h
    have h4 : (4 * w.length + extra - 4 * hOff w) % 4 = 0 := by
      have := Nat.mod_mod_of_dvd (4 * w.length + extra - 4 * hOff w) (Dvd.intro (hBlk w) rfl : 4 ∣ 4 * hBlk w)
      rw [h] at this; simpa using this.symm
    omega
  simp [c1, c2, c3, this]

end Props.C14
