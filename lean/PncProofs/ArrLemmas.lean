import PncModel.Arr
import Mathlib.Tactic.Linarith

namespace Arr
variable {α : Type}

theorem pick_eq_map (s : List Nat) (xs : List (Arr α)) (h : ∀ i ∈ s, i < xs.length) :
    pick s xs = s.attach.map (fun i => xs[i.1]'(h i.1 i.2)) := by
  unfold pick
  induction s with
  | nil => rfl
  | cons i s ih =>
    have hi : i < xs.length := h i (by simp)
    simp only [List.filterMap_cons, List.getElem?_eq_getElem hi, List.attach_cons, List.map_cons,
      List.map_map]
    rw [ih (fun j hj => h j (by simp [hj]))]
    simp [Function.comp]

theorem pick_length (s : List Nat) (xs : List (Arr α)) (h : ∀ i ∈ s, i < xs.length) :
    (pick s xs).length = s.length := by
  rw [pick_eq_map s xs h]; simp

theorem pick_getElem? (s : List Nat) (xs : List (Arr α)) (h : ∀ i ∈ s, i < xs.length) (j : Nat) :
    (pick s xs)[j]? = (s[j]?).bind (fun i => xs[i]?) := by
  unfold pick
  induction s generalizing j with
  | nil => simp
  | cons i s ih =>
    have hi : i < xs.length := h i (by simp)
    simp only [List.filterMap_cons, List.getElem?_eq_getElem hi]
    cases j with
    | zero => simp [List.getElem?_eq_getElem hi]
    | succ j => simpa using ih (fun k hk => h k (by simp [hk])) j

/-- index through the selection: position `j` on axis `k` of the result is position `sels[k][j]`
of the source (axes beyond the selector list are passed through) -/
def mapIdx : List (List Nat) → List Nat → Option (List Nat)
  | s :: rest, j :: idx => match s[j]?, mapIdx rest idx with
    | some i, some r => some (i :: r)
    | _, _ => none
  | [], idx => some idx
  | _ :: _, [] => none

/-- all indices of the selection are inside the array (what the file level guarantees) -/
def InRange : List (List Nat) → Arr α → Prop
  | s :: rest, node xs => (∀ i ∈ s, i < xs.length) ∧ ∀ x ∈ xs, InRange rest x
  | _ :: _, leaf _ => False
  | [], _ => True

/-- **orthogonal selection, element-wise**: the element at `idx` of the result is the element of
the source at the per-axis selected indices, in the same order -/
theorem orth_get : ∀ (sels : List (List Nat)) (a : Arr α) (idx : List Nat), InRange sels a →
    get (orth sels a) idx = (mapIdx sels idx).bind (get a)
  | [], a, idx, _ => by simp [orth, mapIdx]
  | s :: rest, leaf _, _, h => by simp [InRange] at h
  | s :: rest, node xs, [], _ => by simp [orth, mapIdx, get]
  | s :: rest, node xs, j :: idx, h => by
    obtain ⟨hs, hx⟩ := h
    simp only [orth, get, List.getElem?_map, pick_getElem? s xs hs, mapIdx]
    cases hsj : s[j]? with
    | none => simp
    | some i =>
      have hi : i < xs.length := hs i (List.mem_of_getElem? hsj)
      simp only [Option.bind_some, List.getElem?_eq_getElem hi, Option.map_some]
      rw [orth_get rest xs[i] idx (hx _ (List.getElem_mem hi))]
      cases mapIdx rest idx with
      | none => simp
      | some r => simp [get, List.getElem?_eq_getElem hi]

theorem pick_range (xs : List (Arr α)) : pick (List.range xs.length) xs = xs := by
  apply List.ext_getElem?
  intro j
  rw [pick_getElem? _ _ (by intro i hi; simpa using hi)]
  by_cases hj : j < xs.length
  · simp [List.getElem?_range hj]
  · simp [List.getElem?_eq_none (by simpa using hj : (List.range xs.length).length ≤ j),
      List.getElem?_eq_none (by omega : xs.length ≤ j)]

mutual
/-- **untouched variables**: selecting every index of every axis is the identity -/
theorem orth_full_id : ∀ (sh : List Nat) (a : Arr α), hasShape sh a = true →
    orth (sh.map List.range) a = a
  | [], a, _ => by simp [orth]
  | n :: rest, leaf _, h => by simp [hasShape] at h
  | n :: rest, node xs, h => by
    simp only [hasShape, Bool.and_eq_true, beq_iff_eq] at h
    obtain ⟨hl, hr⟩ := h
    simp only [List.map_cons, orth]
    rw [← hl, pick_range xs, orth_full_idL rest xs hr]
theorem orth_full_idL : ∀ (sh : List Nat) (xs : List (Arr α)), hasShapeL sh xs = true →
    xs.map (orth (sh.map List.range)) = xs
  | _, [], _ => rfl
  | sh, x :: xs, h => by
    simp only [hasShapeL, Bool.and_eq_true] at h
    simp only [List.map_cons]
    rw [orth_full_id sh x h.1, orth_full_idL sh xs h.2]
end

theorem hasShapeL_of_forall (sh : List Nat) (xs : List (Arr α)) (h : ∀ x ∈ xs, hasShape sh x = true) :
    hasShapeL sh xs = true := by
  induction xs with
  | nil => rfl
  | cons x xs ih =>
    simp only [hasShapeL, Bool.and_eq_true]
    exact ⟨h x (by simp), ih (fun y hy => h y (by simp [hy]))⟩

theorem forall_of_hasShapeL (sh : List Nat) (xs : List (Arr α)) (h : hasShapeL sh xs = true) :
    ∀ x ∈ xs, hasShape sh x = true := by
  induction xs with
  | nil => simp
  | cons x xs ih =>
    simp only [hasShapeL, Bool.and_eq_true] at h
    intro y hy
    rcases List.mem_cons.mp hy with rfl | hy
    · exact h.1
    · exact ih h.2 y hy

/-- shape after an orthogonal selection -/
def selShape : List (List Nat) → List Nat → List Nat
  | s :: rest, _ :: sh => s.length :: selShape rest sh
  | _, sh => sh

/-- **shape**: the result of an in-range orthogonal selection has the selected lengths -/
theorem orth_shape : ∀ (sels : List (List Nat)) (sh : List Nat) (a : Arr α), hasShape sh a = true →
    InRange sels a → hasShape (selShape sels sh) (orth sels a) = true
  | [], sh, a, h, _ => by simpa [orth, selShape] using h
  | s :: rest, [], leaf _, _, hr => by simp [InRange] at hr
  | s :: rest, [], node _, h, _ => by simp [hasShape] at h
  | s :: rest, n :: sh, leaf _, h, _ => by simp [hasShape] at h
  | s :: rest, n :: sh, node xs, h, hr => by
    simp only [hasShape, Bool.and_eq_true, beq_iff_eq] at h
    obtain ⟨hs, hx⟩ := hr
    simp only [orth, selShape, hasShape, Bool.and_eq_true, beq_iff_eq, List.length_map]
    refine ⟨pick_length s xs hs, ?_⟩
    apply hasShapeL_of_forall
    intro y hy
    obtain ⟨x, hxm, rfl⟩ := List.mem_map.mp hy
    have hxin : x ∈ xs := by
      unfold pick at hxm
      obtain ⟨i, _, hi⟩ := List.mem_filterMap.mp hxm
      exact List.mem_of_getElem? hi
    exact orth_shape rest sh x (forall_of_hasShapeL sh xs h.2 x hxin) (hx x hxin)

end Arr

namespace PySlice

theorem normInt_lt (n : Nat) (i : Int) (k : Nat) (h : normInt n i = some k) : k < n := by
  unfold normInt at h
  split at h
  · injection h with h; omega
  · split at h
    · injection h with h; omega
    · cases h

theorem rangeList_lt (n : Nat) (s e st : Int) (hs0 : -1 ≤ s) (hsn : s ≤ n) (he0 : -1 ≤ e) (hen : e ≤ n)
    (hpos : st > 0 → 0 ≤ s) (hneg : st < 0 → s ≤ (n : Int) - 1) :
    ∀ k ∈ rangeList s e st, k < n := by
  intro k hk
  unfold rangeList at hk
  split at hk
  · rename_i hst
    simp only [List.mem_map, List.mem_range] at hk
    obtain ⟨j, hj, rfl⟩ := hk
    split at hj
    · rename_i hes
      have h0 := hpos hst
      have hj' : (j : Int) < (e - s + st - 1) / st := by
        have : ((e - s + st - 1) / st).toNat = ((e - s + st - 1) / st).toNat := rfl
        omega
      have : st * (j : Int) < e - s := by
        have h1 : st * ((j : Int) + 1) ≤ st * ((e - s + st - 1) / st) :=
          Int.mul_le_mul_of_nonneg_left (by omega) (by omega)
        have h2 : st * ((e - s + st - 1) / st) ≤ e - s + st - 1 := Int.mul_ediv_self_le (by omega)
        nlinarith
      have hnn : 0 ≤ s + st * (j : Int) := by
        have : 0 ≤ st * (j : Int) := Int.mul_nonneg (by omega) (by omega)
        omega
      omega
    · simp at hj
  · split at hk
    · rename_i _ hst
      simp only [List.mem_map, List.mem_range] at hk
      obtain ⟨j, hj, rfl⟩ := hk
      have hsn' := hneg hst
      split at hj
      · rename_i hse
        have hj' : (j : Int) < (s - e + -st - 1) / -st := by omega
        have hgt : (-st) * (j : Int) < s - e := by
          have h1 : (-st) * ((j : Int) + 1) ≤ (-st) * ((s - e + -st - 1) / -st) :=
            Int.mul_le_mul_of_nonneg_left (by omega) (by omega)
          have h2 : (-st) * ((s - e + -st - 1) / -st) ≤ s - e + -st - 1 := Int.mul_ediv_self_le (by omega)
          nlinarith
        have hle : st * (j : Int) ≤ 0 := Int.mul_nonpos_of_nonpos_of_nonneg (by omega) (by omega)
        have hnn : 0 ≤ s + st * (j : Int) := by nlinarith
        omega
      · simp at hj
    · simp at hk

end PySlice
