import PncProofs.SigmaLemmas

/-!
# C17 — interpolation weights and mass-conserving sigma regridding: property theorems

Reading (over `ℚ`).  `weightsAsc ex xs t` is one column of `getinterpweights` for an ascending
source (`interp1d` sorts; a descending source is the reversed case, handled by `weights`).
`sigma2coeff src dst` is the coefficient matrix as a list of columns; `thick` the layer
thicknesses; `conserveVals` what `interpSigma(interptype='conserve')` computes for one column
of data.
-/
namespace Props.C17
open Interp

/-- **C17.** weights sum to one for every target, with and without extrapolation -/
theorem sum_one (ex : Bool) (xs : List ℚ) (t : ℚ) (h : 2 ≤ xs.length) :
    sum (weightsAsc ex xs t) = 1 := by
  unfold weightsAsc
  cases ex
  · simp only [Bool.false_eq_true, if_false]; exact clipNorm_sum _ (col_sum xs t h)
  · simp only [if_true]; exact col_sum xs t h

/-- **C17.** weights are non-negative when not extrapolating -/
theorem nonneg (xs : List ℚ) (t : ℚ) : ∀ w ∈ weightsAsc false xs t, 0 ≤ w := by
  unfold weightsAsc
  simp only [Bool.false_eq_true, if_false]
  exact clipNorm_nonneg _

/-- **C17.** extrapolating weights reproduce every linear profile at every target -/
theorem linear_exact (a b : ℚ) (xs : List ℚ) (t : ℚ) (h : 2 ≤ xs.length) (hs : Asc xs) :
    dot (weightsAsc true xs t) (xs.map (fun x => a * x + b)) = a * t + b := by
  unfold weightsAsc; simp only [if_true]; exact col_dot_linear a b xs t h hs

/-- **C17.** non-extrapolating weights reproduce every linear profile for targets inside the
source range -/
theorem linear_exact_inside (a b : ℚ) (xs : List ℚ) (t : ℚ) (hne : xs ≠ []) (h : 2 ≤ xs.length)
    (hs : Asc xs) (h0 : xs.head hne ≤ t) (h1 : t ≤ xs.getLast hne) :
    dot (weightsAsc false xs t) (xs.map (fun x => a * x + b)) = a * t + b := by
  unfold weightsAsc
  simp only [Bool.false_eq_true, if_false]
  rw [clipNorm_id _ (col_sum xs t h) (col_nonneg_inside xs t hne hs h0 h1)]
  exact col_dot_linear a b xs t h hs

/-- **C17.** a target equal to a source node gets the unit weight vector of that node; stated
through linear exactness for *all* profiles being the node value: here as the concrete
identity on the first and the inner/last nodes. -/
theorem identity_head (ex : Bool) (x0 x1 : ℚ) (rest : List ℚ) (hs : Asc (x0 :: x1 :: rest)) :
    weightsAsc ex (x0 :: x1 :: rest) x0 = 1 :: zeros (rest.length + 1) := by
  have hle : x0 ≤ x1 := le_of_lt hs.1
  have hcol : col (x0 :: x1 :: rest) x0 = 1 :: zeros (rest.length + 1) := by
    cases rest with
    | nil => simp [col, zeros]
    | cons x2 r => simp [col, hle, zeros, List.replicate_succ]
  unfold weightsAsc
  cases ex
  · simp only [Bool.false_eq_true, if_false, hcol]
    apply clipNorm_id
    · simp
    · intro v hv
      simp only [List.mem_cons, zeros] at hv
      rcases hv with rfl | hv
      · norm_num
      · rw [List.eq_of_mem_replicate hv]
  · simp only [if_true, hcol]

/-- the unit vector at position `k` of length `n` -/
def unit : ℕ → ℕ → List ℚ
  | 0, _ => []
  | n + 1, 0 => 1 :: zeros n
  | n + 1, k + 1 => 0 :: unit n k

theorem col_at_node : ∀ (xs : List ℚ) (k : ℕ) (hk : k < xs.length), 2 ≤ xs.length → Asc xs →
    col xs (xs[k]) = unit xs.length k
  | [], _, hk, _, _ => by simp at hk
  | [_], _, _, h, _ => by simp at h
  | [x0, x1], 0, _, _, hs => by
    have : x1 - x0 ≠ 0 := by have := hs.1; intro h; linarith
    simp [col, unit, zeros]
  | [x0, x1], 1, _, _, hs => by
    have : x1 - x0 ≠ 0 := by have := hs.1; intro h; linarith
    simp [col, unit, zeros, div_self this]
  | [_, _], k + 2, hk, _, _ => by simp at hk
  | x0 :: x1 :: x2 :: rest, 0, _, _, hs => by
    have hle : x0 ≤ x1 := le_of_lt hs.1
    simp [col, unit, zeros, hle, List.replicate_succ]
  | x0 :: x1 :: x2 :: rest, 1, _, _, hs => by
    have : x1 - x0 ≠ 0 := by have := hs.1; intro h; linarith
    simp [col, unit, zeros, div_self this, List.replicate_succ]
  | x0 :: x1 :: x2 :: rest, k + 2, hk, _, hs => by
    have hk' : k + 1 < (x1 :: x2 :: rest).length := by simpa using hk
    have hlt : x1 < (x1 :: x2 :: rest)[k + 1] := by
      have : ∀ (l : List ℚ) (a : ℚ) (i : ℕ) (hi : i + 1 < (a :: l).length), Asc (a :: l) → a < (a :: l)[i + 1] := by
        intro l
        induction l with
        | nil => intro a i hi; simp at hi
        | cons b l ih =>
          intro a i hi hs
          cases i with
          | zero => exact hs.1
          | succ i =>
            have := ih b i (by simpa using hi) hs.2
            simp only [List.getElem_cons_succ] at this ⊢
            linarith [hs.1]
      exact this _ _ _ (by simpa using hk) hs.2
    have ih := col_at_node (x1 :: x2 :: rest) (k + 1) (by simpa using hk) (by simp) hs.2
    have hnot : ¬ (x0 :: x1 :: x2 :: rest)[k + 2] ≤ x1 := by
      simp only [List.getElem_cons_succ] at hlt ⊢; linarith
    simp only [col, hnot, if_false]
    simp only [List.getElem_cons_succ] at ih ⊢
    rw [ih]; simp [unit]

/-- **C17.** identity: a target that equals source node `k` gets the unit weight vector `e_k`
(hence interpolating onto the source coordinate is the identity matrix) -/
theorem identity (ex : Bool) (xs : List ℚ) (k : ℕ) (hk : k < xs.length) (h : 2 ≤ xs.length)
    (hs : Asc xs) : weightsAsc ex xs (xs[k]) = unit xs.length k := by
  have hcol := col_at_node xs k hk h hs
  have hsum := col_sum xs (xs[k]) h
  unfold weightsAsc
  cases ex
  · simp only [Bool.false_eq_true, if_false]
    apply (clipNorm_id _ hsum _).trans hcol
    rw [hcol]
    have : ∀ (n k : ℕ), ∀ v ∈ unit n k, (0 : ℚ) ≤ v := by
      intro n
      induction n with
      | zero => intro k v hv; simp [unit] at hv
      | succ n ih =>
        intro k v hv
        cases k with
        | zero =>
          simp only [unit, List.mem_cons, zeros] at hv
          rcases hv with rfl | hv
          · norm_num
          · rw [List.eq_of_mem_replicate hv]
        | succ k =>
          simp only [unit, List.mem_cons] at hv
          rcases hv with rfl | hv
          · exact le_refl _
          · exact ih k v hv
    exact this _ _
  · simp only [if_true]; exact hcol

/-! ### sigma regridding -/

/-- all target edges lie within the source range -/
def InRange (src dst : List ℚ) (hne : src ≠ []) : Prop :=
  ∀ d ∈ dst, src.getLast hne ≤ d ∧ d ≤ src.head hne

/-- **C17.** thickness: the thickness-weighted column sums of the coefficient matrix are the
target layer thicknesses (so the normaliser `ndp` of `interpSigma` is `dp'`). -/
theorem thickness (src : List ℚ) (hne : src ≠ []) (hs : Desc src) : ∀ (dst : List ℚ), Desc dst →
    InRange src dst hne → (sigma2coeff src dst).map (dot (thick src)) = thick dst
  | [], _, _ => by simp [sigma2coeff, pairs, thick]
  | [_], _, _ => by simp [sigma2coeff, pairs, thick]
  | d0 :: d1 :: rest, hd, hr => by
    have ih := thickness src hne hs (d1 :: rest) hd.2 (fun d hd' => hr d (by simp [hd']))
    unfold sigma2coeff at ih ⊢
    rw [pairs_map_cons, List.map_cons, List.map_cons, ih]
    simp only [thick]
    congr 1
    have hmono : fidx src d0 ≤ fidx src d1 := fidx_antitone src d0 d1 hs (le_of_lt hd.1)
    rw [coeffCol_eq_clampCol _ _ hmono, dot_thick_clampCol]
    obtain ⟨a0, b0⟩ := hr d0 (by simp)
    obtain ⟨a1, b1⟩ := hr d1 (by simp)
    simp only [Int.cast_zero, sub_zero]
    rw [S_fidx src d1 hne hs a1 b1, S_fidx src d0 hne hs a0 b0]; ring

/-- the fractional edges of a weakly descending target are weakly ascending -/
theorem edges_mono (src : List ℚ) (hs : Desc src) : ∀ (dst : List ℚ), DescW dst →
    ∀ p ∈ pairs (dst.map (fidx src)), p.1 ≤ p.2
  | [], _ => by simp [pairs]
  | [_], _ => by simp [pairs]
  | d0 :: d1 :: rest, hd => by
    intro p hp
    rw [pairs_map_cons] at hp
    rcases List.mem_cons.mp hp with rfl | hp
    · exact fidx_antitone src d0 d1 hs hd.1
    · exact edges_mono src hs (d1 :: rest) hd.2 p hp

/-- **C17.** cover: when source and target share top and bottom, every source layer is
distributed over the target layers with total weight one. -/
theorem cover (src dst : List ℚ) (hsne : src ≠ []) (hdne : dst ≠ []) (hs : Desc src) (hd : DescW dst)
    (hlen : 2 ≤ src.length)
    (htop : dst.head hdne = src.head hsne) (hbot : dst.getLast hdne = src.getLast hsne)
    (l : ℕ) (hl : l < src.length - 1) :
    sum ((sigma2coeff src dst).map (fun c => c.getD l 0)) = 1 := by
  unfold sigma2coeff
  rw [List.map_map]
  have hmono := edges_mono src hs dst hd
  have hfun : ∀ p ∈ pairs (dst.map (fidx src)),
      ((fun c : List ℚ => c.getD l 0) ∘ fun (x : ℚ × ℚ) => coeffCol x.1 x.2 (src.length - 1) 0) p
        = (fun p : ℚ × ℚ => clamp01 (p.2 - l) - clamp01 (p.1 - l)) p := by
    intro p hp
    simp only [Function.comp]
    rw [coeffCol_getD _ _ _ _ _ hl, codeCoeff_eq_clamp _ _ _ (hmono p hp)]
    simp [clampCoeff]
  have hmap : (pairs (dst.map (fidx src))).map
      ((fun c : List ℚ => c.getD l 0) ∘ fun (x : ℚ × ℚ) => coeffCol x.1 x.2 (src.length - 1) 0)
      = (pairs (dst.map (fidx src))).map (fun p : ℚ × ℚ => clamp01 (p.2 - l) - clamp01 (p.1 - l)) :=
    List.map_congr_left hfun
  have hne' : dst.map (fidx src) ≠ [] := by simpa using hdne
  have htel := telescope (fun e => clamp01 (e - l)) (dst.map (fidx src)) hne'
  show sum ((pairs (dst.map (fidx src))).map
      ((fun c : List ℚ => c.getD l 0) ∘ fun (x : ℚ × ℚ) => coeffCol x.1 x.2 (src.length - 1) 0)) = 1
  rw [hmap, htel]
  have hlast : (dst.map (fidx src)).getLast hne' = fidx src (dst.getLast hdne) := by
    rw [List.getLast_map]
  have hhead : (dst.map (fidx src)).head hne' = fidx src (dst.head hdne) := by
    rw [List.head_map]
  rw [hlast, hhead, htop, hbot, fidx_head, fidx_last src hsne hs hlen]
  have h1 : (1 : ℚ) ≤ ((src.length - 1 : ℕ) : ℚ) - l := by
    have : (l : ℚ) + 1 ≤ ((src.length - 1 : ℕ) : ℚ) := by exact_mod_cast hl
    linarith
  have h2 : (0 : ℚ) - l ≤ 0 := by
    have : (0 : ℚ) ≤ l := by exact_mod_cast Nat.zero_le l
    linarith
  rw [clamp01_of_ge_one h1, clamp01_of_nonpos h2]; ring

/-- mass flux into the target layers: Σ_j Σ_l data_l·dp_l·coeff[l,j] = Σ_l data_l·dp_l -/
theorem flux (src dst : List ℚ) (data : List ℚ) (hsne : src ≠ []) (hdne : dst ≠ [])
    (hs : Desc src) (hd : DescW dst) (hlen : 2 ≤ src.length)
    (htop : dst.head hdne = src.head hsne) (hbot : dst.getLast hdne = src.getLast hsne) :
    sum ((sigma2coeff src dst).map (fun c => dot data (List.zipWith (· * ·) (thick src) c)))
      = dot data (thick src) := by
  unfold sigma2coeff
  rw [List.map_map]
  have hmono := edges_mono src hs dst hd
  have hmap : (pairs (dst.map (fidx src))).map
      ((fun c => dot data (List.zipWith (· * ·) (thick src) c)) ∘
        fun (x : ℚ × ℚ) => coeffCol x.1 x.2 (src.length - 1) 0)
      = (pairs (dst.map (fidx src))).map (fun p : ℚ × ℚ => T src data p.2 - T src data p.1) := by
    apply List.map_congr_left
    intro p hp
    simp only [Function.comp]
    rw [coeffCol_eq_clampCol _ _ (hmono p hp), dot_fdp_clampCol]
    simp
  have hne' : dst.map (fidx src) ≠ [] := by simpa using hdne
  have htel := telescope (fun e => T src data e) (dst.map (fidx src)) hne'
  show sum ((pairs (dst.map (fidx src))).map
      ((fun c => dot data (List.zipWith (· * ·) (thick src) c)) ∘
        fun (x : ℚ × ℚ) => coeffCol x.1 x.2 (src.length - 1) 0)) = _
  rw [hmap, htel, List.getLast_map, List.head_map, htop, hbot, fidx_head,
    fidx_last src hsne hs hlen, T_full src data _ (le_refl _), T_nonpos src data 0 (le_refl _)]
  ring

/-- what `interpSigma(interptype='conserve')` computes for one data column (plain division) -/
def conserveVals (src dst data : List ℚ) : List ℚ :=
  (sigma2coeff src dst).map (fun c =>
    dot data (List.zipWith (· * ·) (thick src) c) / sum (List.zipWith (· * ·) (thick src) c))

theorem dot_map_div_thick : ∀ (cols : List (List ℚ)) (th : List ℚ) (f g : List ℚ → ℚ),
    cols.map g = th → (∀ x ∈ th, x ≠ 0) →
    dot (cols.map (fun c => f c / g c)) th = sum (cols.map f)
  | [], th, _, _, h, _ => by simp at h; subst h; simp [dot]
  | c :: cols, [], _, _, h, _ => by simp at h
  | c :: cols, x :: th, f, g, h, hnz => by
    simp only [List.map_cons, List.cons.injEq] at h
    obtain ⟨h1, h2⟩ := h
    have hx : x ≠ 0 := hnz x (by simp)
    simp only [List.map_cons, dot, sum_cons]
    rw [dot_map_div_thick cols th f g h2 (fun y hy => hnz y (by simp [hy])), h1]
    field_simp

theorem thick_ne_zero : ∀ (l : List ℚ), Desc l → ∀ x ∈ thick l, x ≠ 0
  | [], _ => by simp [thick]
  | [_], _ => by simp [thick]
  | a :: b :: rest, h => by
    intro x hx
    simp only [thick, List.mem_cons] at hx
    rcases hx with rfl | hx
    · have := h.1; intro h0; linarith
    · exact thick_ne_zero (b :: rest) h.2 x hx

/-- **C17.** mass: between sigma grids that share top and bottom the thickness-weighted column
integral is preserved: Σ_j new_j·dp'_j = Σ_l old_l·dp_l. -/
theorem mass (src dst data : List ℚ) (hsne : src ≠ []) (hdne : dst ≠ [])
    (hs : Desc src) (hd : Desc dst) (hlen : 2 ≤ src.length)
    (htop : dst.head hdne = src.head hsne) (hbot : dst.getLast hdne = src.getLast hsne) :
    dot (conserveVals src dst data) (thick dst) = dot data (thick src) := by
  have hr : InRange src dst hsne := by
    intro d hdm
    have hw := Desc.weak hd
    constructor
    · rw [← hbot]
      -- every element is ≥ the last one
      have : ∀ (l : List ℚ) (hne : l ≠ []), DescW l → ∀ d ∈ l, l.getLast hne ≤ d := by
        intro l
        induction l with
        | nil => intro hne; exact absurd rfl hne
        | cons a l ih =>
          intro hne hw d hdm
          cases l with
          | nil => simp at hdm; simp [hdm]
          | cons b l =>
            rcases List.mem_cons.mp hdm with rfl | hdm
            · have := Desc.last_le_head (d :: b :: l) hne hw; simpa using this
            · simpa [List.getLast_cons] using ih (by simp) hw.2 d hdm
      exact this dst hdne hw d hdm
    · rw [← htop]
      have : ∀ (l : List ℚ) (hne : l ≠ []), DescW l → ∀ d ∈ l, d ≤ l.head hne := by
        intro l
        induction l with
        | nil => intro hne; exact absurd rfl hne
        | cons a l ih =>
          intro hne hw d hdm
          cases l with
          | nil => simp at hdm; simp [hdm]
          | cons b l =>
            rcases List.mem_cons.mp hdm with rfl | hdm
            · simp
            · have := ih (by simp) hw.2 d hdm
              simp only [List.head_cons] at this ⊢; linarith [hw.1]
      exact this dst hdne hw d hdm
  have hth := thickness src hsne hs dst hd hr
  have hth' : (sigma2coeff src dst).map (fun c => sum (List.zipWith (· * ·) (thick src) c)) = thick dst := by
    rw [← hth]; apply List.map_congr_left; intro c _; exact sum_zipWith_eq_dot _ _
  unfold conserveVals
  rw [dot_map_div_thick (sigma2coeff src dst) (thick dst)
    (fun c => dot data (List.zipWith (· * ·) (thick src) c))
    (fun c => sum (List.zipWith (· * ·) (thick src) c)) hth' (thick_ne_zero dst hd)]
  exact flux src dst data hsne hdne hs (Desc.weak hd) hlen htop hbot

theorem thick_length : ∀ (l : List ℚ), (thick l).length = l.length - 1
  | [] => rfl
  | [_] => rfl
  | a :: b :: rest => by simp [thick, thick_length (b :: rest)]

/-- **C17.** a constant field stays constant: every entry of `conserveVals` for constant data `c`
is `c` wherever the normaliser is non-zero (which `thickness` gives for a strictly descending
target inside the source range). -/
theorem const (src : List ℚ) (c : ℚ) (col : List ℚ)
    (hnz : sum (List.zipWith (· * ·) (thick src) col) ≠ 0) :
    dot (List.replicate (src.length - 1) c) (List.zipWith (· * ·) (thick src) col)
      / sum (List.zipWith (· * ·) (thick src) col) = c := by
  rw [dot_replicate_left c _ _ (by
    rw [List.length_zipWith, thick_length]; exact Nat.min_le_left _ _)]
  field_simp

/-! ### descending sources (interp1d sorts them: the reversed case) -/

theorem sum_append (a b : List ℚ) : sum (a ++ b) = sum a + sum b := by
  induction a with
  | nil => simp
  | cons x a ih => simp [ih, add_assoc]

theorem sum_reverse (l : List ℚ) : sum l.reverse = sum l := by
  induction l with
  | nil => rfl
  | cons a l ih => simp [sum_append, ih, add_comm]

/-- **C17.** sum-to-one and non-negativity also for a descending source -/
theorem sum_one_any (ex : Bool) (xs : List ℚ) (t : ℚ) (h : 2 ≤ xs.length) :
    sum (weights ex xs t) = 1 := by
  unfold weights
  split_ifs
  · exact sum_one ex xs t h
  · rw [sum_reverse]; exact sum_one ex xs.reverse t (by simpa using h)

theorem nonneg_any (xs : List ℚ) (t : ℚ) : ∀ w ∈ weights false xs t, 0 ≤ w := by
  unfold weights
  split_ifs
  · exact nonneg xs t
  · intro w hw; exact nonneg xs.reverse t w (List.mem_reverse.mp hw)

theorem col_length : ∀ (xs : List ℚ) (t : ℚ), 2 ≤ xs.length → (col xs t).length = xs.length
  | [x0, x1], t, _ => by simp [col]
  | x0 :: x1 :: x2 :: rest, t, _ => by
    unfold col
    split
    · simp [zeros]
    · simp only [List.length_cons]
      rw [col_length (x1 :: x2 :: rest) t (by simp)]
      simp
  | [], _, h => by simp at h
  | [_], _, h => by simp at h

theorem weightsAsc_length (ex : Bool) (xs : List ℚ) (t : ℚ) (h : 2 ≤ xs.length) :
    (weightsAsc ex xs t).length = xs.length := by
  unfold weightsAsc
  cases ex
  · simp [clipNorm, col_length xs t h]
  · simp [col_length xs t h]

theorem weights_length (ex : Bool) (xs : List ℚ) (t : ℚ) (h : 2 ≤ xs.length) :
    (weights ex xs t).length = xs.length := by
  unfold weights
  split_ifs
  · exact weightsAsc_length ex xs t h
  · rw [List.length_reverse, weightsAsc_length ex xs.reverse t (by simpa using h), List.length_reverse]

theorem dot_const (c : ℚ) : ∀ (w xs : List ℚ), w.length = xs.length → dot w (xs.map (fun _ => c)) = sum w * c
  | [], [], _ => by simp [dot, sum]
  | a :: as, b :: bs, h => by
    have ih := dot_const c as bs (by simpa using h)
    simp only [List.map_cons, dot, ih, sum, List.foldr_cons]
    ring
  | [], _ :: _, h => by simp at h
  | _ :: _, [], h => by simp at h

/-- **C17 (application along a dimension).** `interpDimension` / the linear `interpSigma` compute
`(weights * data[:, None]).sum(0)` for every column; with extrapolation on an ascending coordinate this reproduces
every linear profile at every target, and without extrapolation at every target inside the source range — whatever
the other columns hold (each column has its own weights). -/
theorem apply_linear (a b : ℚ) (xs nxs : List ℚ) (h : 2 ≤ xs.length) (hs : Asc xs) :
    linearApply true xs nxs (xs.map (fun x => a * x + b)) = nxs.map (fun t => a * t + b) := by
  unfold linearApply weightMatrix
  rw [List.map_map]
  apply List.map_congr_left
  intro t _
  simp only [Function.comp, List.length_map]
  have hw : weights true xs t = weightsAsc true xs t := by
    unfold weights; rw [if_pos ((isAsc_iff xs).mpr hs)]
  have hl : (weightsAsc true xs t).length = xs.length := weightsAsc_length true xs t h
  rw [hw, ← hl, List.take_length]
  exact linear_exact a b xs t h hs

/-- a constant field stays constant under linear interpolation (any direction, with or without extrapolation) -/
theorem apply_const (ex : Bool) (c : ℚ) (xs nxs : List ℚ) (h : 2 ≤ xs.length) :
    linearApply ex xs nxs (xs.map (fun _ => c)) = nxs.map (fun _ => c) := by
  unfold linearApply weightMatrix
  rw [List.map_map]
  apply List.map_congr_left
  intro t _
  simp only [Function.comp, List.length_map]
  have hsum := sum_one_any ex xs t h
  have hl : (weights ex xs t).length = xs.length := weights_length ex xs t h
  rw [← hl, List.take_length]
  rw [dot_const c _ _ hl, hsum]; ring

/-! ### non-vacuity: concrete grids meeting the hypotheses -/

example : Asc [0, 1, 3, 7] ∧ 2 ≤ ([0, 1, 3, 7] : List ℚ).length := by
  simp [Asc]; norm_num

example : Desc [1, 1 / 2, 1 / 4, 0] ∧ Desc [1, 3 / 4, 1 / 8, 0] := by
  simp [Desc]; norm_num

example : sigma2coeff [1, 1 / 2, 1 / 4, 0] [1, 3 / 4, 1 / 8, 0]
    = [[1 / 2, 0, 0], [1 / 2, 1, 1 / 2], [0, 0, 1 / 2]] := by
  decide +kernel

/-- **C17 (variables on the lowest levels only).** The weights of a variable stored on the lowest `n ≥ 2` levels, taken
from those `n` nodes, sum to one for every target — also above the `n`-th node. -/
theorem reduced_sum_one (ex : Bool) (xs : List ℚ) (n : Nat) (t : ℚ) (hn : 2 ≤ n) (hx : n ≤ xs.length) :
    sum (weightsAsc ex (xs.take n) t) = 1 :=
  sum_one ex (xs.take n) t (by rw [List.length_take]; omega)

/-- the first rows of the weights of the full grid are not such weights: for a target above the reduced top they sum
to less than one (what the repaired `interpSigma` of GEOS-Chem files used) -/
theorem reduced_rows_counterexample :
    sum ((weightsAsc false [0, 1, 2, 3] (5 / 2)).take 2) = 0 ∧ sum (weightsAsc false ([0, 1, 2, 3].take 2) (5 / 2)) = 1 := by
  constructor <;> decide +kernel


/-! ## one source level (`getinterpweights([x], …)`, repaired code) -/

/-- **C17 (one level).** With a single source level every target — on the level, beside it, with or without
extrapolation — takes the level's value with weight one: non-negative, summing to one, the identity when the target is
the source. The code used to return NaN there (`fixed: property=C17 4710796`). -/
theorem one_level (ex : Bool) (x t : ℚ) : weights ex [x] t = [1] := by
  unfold weights weightsAsc
  have hc : col [x] t = [1] := rfl
  cases ex <;> simp [isAsc, hc, clipNorm, Interp.sum]

theorem one_level_apply (ex : Bool) (x d : ℚ) (nxs : List ℚ) :
    linearApply ex [x] nxs [d] = nxs.map (fun _ => d) := by
  unfold linearApply weightMatrix
  rw [List.map_map]
  apply List.map_congr_left
  intro t _
  simp [one_level, dot]

example : weights false [3] 3 = [1] ∧ weights true [3] 10 = [1] ∧ linearApply false [3] [3, 5] [7] = [7, 7] := by
  decide +kernel

end Props.C17
