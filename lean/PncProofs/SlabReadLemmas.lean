import PncModel.Camx.SlabRead
import Mathlib.Tactic.Ring
import Mathlib.Tactic.Linarith

/-! lemmas for the record-based slab readers: the time axis they reconstruct -/
namespace SlabRead
open Words Slab

/-- the time axis the readers walk: `i` steps after the start -/
def iter (start : DT) (step : Int) : Nat → DT
  | 0 => start
  | i + 1 => timeadd 2400 (iter start step i) step

theorem succ_mul_int (i : Nat) (s : Int) : ((i + 1 : Nat) : Int) * s = (i : Int) * s + s := by
  push_cast; ring

/-- along the axis the time difference to the start grows by exactly one step, and the HHMM part stays a time
of day -/
theorem iter_spec (start : DT) (step : Int) (h0 : 0 ≤ start.2 ∧ start.2 < 2400) (hs : 0 < step ∧ step ≤ 2400) :
    ∀ i : Nat, timediff start (iter start step i) = (i : Int) * step ∧
      0 ≤ (iter start step i).2 ∧ (iter start step i).2 < 2400 := by
  intro i
  induction i with
  | zero => simp [iter, timediff]; exact h0
  | succ i ih =>
    obtain ⟨hd, hlo, hhi⟩ := ih
    rw [succ_mul_int]
    generalize (i : Int) * step = q at *
    simp only [iter, timeadd]
    generalize iter start step i = x at *
    obtain ⟨xd, xt⟩ := x
    simp only [timediff] at *
    split
    · refine ⟨?_, ?_, ?_⟩ <;> simp only <;> omega
    · refine ⟨?_, ?_, ?_⟩ <;> simp only <;> omega

theorem iter_ne (start : DT) (step : Int) (h0 : 0 ≤ start.2 ∧ start.2 < 2400) (hs : 0 < step ∧ step ≤ 2400)
    (i j : Nat) (hij : i ≠ j) : iter start step i ≠ iter start step j := by
  intro h
  have hi := (iter_spec start step h0 hs i).1
  have hj := (iter_spec start step h0 hs j).1
  rw [h, hj] at hi
  have : (j : Int) = i := by
    have hpos := hs.1
    exact Int.eq_of_mul_eq_mul_right (by omega) hi
  omega

theorem tdiv_mul (i : Nat) (s : Int) (hs : 0 < s) : Int.tdiv ((i : Int) * s) s = i := by
  exact Int.mul_tdiv_cancel _ (by omega)

/-- `mapM` over `Option` when every element succeeds -/
theorem mapM_some {α β} (f : α → Option β) (g : α → β) : ∀ (l : List α), (∀ x ∈ l, f x = some (g x)) →
    l.mapM f = some (l.map g) := by
  intro l
  induction l with
  | nil => intro _; rfl
  | cons a rest ih =>
    intro h
    simp only [List.mapM_cons, h a (by simp), ih (fun x hx => h x (List.mem_cons_of_mem _ hx)), List.map_cons]
    rfl

theorem mapM_some_map {α β γ} (h : γ → α) (f : α → Option β) (g : γ → β) : ∀ (l : List γ),
    (∀ x ∈ l, f (h x) = some (g x)) → (l.map h).mapM f = some (l.map g) := by
  intro l
  induction l with
  | nil => intro _; rfl
  | cons a rest ih =>
    intro hl
    simp only [List.map_cons, List.mapM_cons, hl a (by simp), ih (fun x hx => hl x (List.mem_cons_of_mem _ hx))]
    rfl

/-- what the proofs need to know about the records: a table of `T` steps of `L * stride` records, record
`(i, j)` carrying the time of step `i` and the cells `cellsOf i j` -/
structure Table (rs : List (List Word)) (T L stride : Nat) (dt : Nat → DT) (cellsOf : Nat → Nat → List Word) : Prop where
  len : rs.length = T * (L * stride)
  row : ∀ i j, i < T → j < L * stride →
    ∃ r, rs[i * (L * stride) + j]? = some r ∧ recDT r = dt i ∧ recCells r = cellsOf i j

section
variable {rs : List (List Word)} {T L stride : Nat} {start : DT} {step : Int} {cellsOf : Nat → Nat → List Word}

theorem countLayers_spec (tb : Table rs T L stride (iter start step) cellsOf)
    (h0 : 0 ≤ start.2 ∧ start.2 < 2400) (hs : 0 < step ∧ step ≤ 2400) (hT : 2 ≤ T) (hst : 1 ≤ stride) :
    ∀ (d n fuel : Nat), n + d = L → 1 ≤ n → d + 1 ≤ fuel → countLayers stride start rs fuel n = some L := by
  intro d
  induction d with
  | zero =>
    intro n fuel hn h1 hf
    have hnL : n = L := by omega
    subst hnL
    obtain ⟨fuel, rfl⟩ : ∃ k, fuel = k + 1 := ⟨fuel - 1, by omega⟩
    obtain ⟨r, hr, hdt, _⟩ := tb.row 1 0 (by omega) (by
      have : 1 ≤ n * stride := Nat.mul_le_mul h1 hst
      omega)
    have hidx : n * stride = 1 * (n * stride) + 0 := by omega
    unfold countLayers
    rw [hidx, hr]
    have hd := (iter_spec start step h0 hs 1).1
    simp only [hdt, hd]
    have : ((1 : Nat) : Int) * step ≠ 0 := by simp; omega
    rw [if_pos this]
  | succ d ih =>
    intro n fuel hn h1 hf
    obtain ⟨fuel, rfl⟩ : ∃ k, fuel = k + 1 := ⟨fuel - 1, by omega⟩
    have hlt : n * stride < L * stride := by
      have : n + 1 ≤ L := by omega
      calc n * stride < (n + 1) * stride := by rw [Nat.succ_mul]; omega
        _ ≤ L * stride := Nat.mul_le_mul_right _ this
    obtain ⟨r, hr, hdt, _⟩ := tb.row 0 (n * stride) (by omega) hlt
    have hidx : n * stride = 0 * (L * stride) + n * stride := by omega
    unfold countLayers
    rw [hidx, hr]
    have hd : timediff start (recDT r) = 0 := by
      rw [hdt]; simp [iter, timediff]
    simp only [hd, ne_eq, not_true_eq_false, if_false]
    exact ih (n + 1) fuel (by omega) (by omega) (by omega)

theorem nsteps_iter (h0 : 0 ≤ start.2 ∧ start.2 < 2400) (hs : 0 < step ∧ step ≤ 2400) (j : Nat) :
    nsteps start step (iter start step j) = j := by
  unfold nsteps
  rw [(iter_spec start step h0 hs j).1, tdiv_mul j step hs.1]

theorem recIndex_iter (h0 : 0 ≤ start.2 ∧ start.2 < 2400) (hs : 0 < step ∧ step ≤ 2400) (j k hp : Nat) :
    recIndex start step L stride (iter start step j) k hp = ((j * (L * stride) + ((k - 1) * stride + hp) : Nat) : Int) := by
  unfold recIndex
  rw [nsteps_iter h0 hs j]
  push_cast
  ring

theorem walk_spec (h0 : 0 ≤ start.2 ∧ start.2 < 2400) (hs : 0 < step ∧ step ≤ 2400)
    (kseek hp : Nat) (chk : Bool) (hk : (kseek - 1) * stride + hp < L * stride) :
    ∀ (d j fuel : Nat), j + d = T → d + 1 ≤ fuel →
      walk start step L stride (T * (L * stride)) kseek hp chk fuel (iter start step j) = some (iter start step T) := by
  intro d
  induction d with
  | zero =>
    intro j fuel hj hf
    have : j = T := by omega
    subst this
    obtain ⟨fuel, rfl⟩ : ∃ k, fuel = k + 1 := ⟨fuel - 1, by omega⟩
    unfold walk
    simp only [recIndex_iter h0 hs]
    have : ¬ ((((j * (L * stride) + ((kseek - 1) * stride + hp) : Nat) : Int)) < ((j * (L * stride) : Nat) : Int)) := by
      push_cast; omega
    rw [if_pos (Or.inr (fun h => this h.2))]
  | succ d ih =>
    intro j fuel hj hf
    obtain ⟨fuel, rfl⟩ : ∃ k, fuel = k + 1 := ⟨fuel - 1, by omega⟩
    unfold walk
    simp only [recIndex_iter h0 hs]
    have hnn : ¬ (timediff start (iter start step j) < 0) := by
      rw [(iter_spec start step h0 hs j).1]
      have : (0 : Int) ≤ (j : Int) * step := Int.mul_nonneg (by omega) (by omega)
      omega
    have hin : (((j * (L * stride) + ((kseek - 1) * stride + hp) : Nat) : Int)) < ((T * (L * stride) : Nat) : Int) := by
      have h1 : (j + 1) * (L * stride) ≤ T * (L * stride) := Nat.mul_le_mul_right _ (by omega)
      rw [Nat.succ_mul] at h1
      exact_mod_cast (by omega : j * (L * stride) + ((kseek - 1) * stride + hp) < T * (L * stride))
    have hge : (0 : Int) ≤ ((j * (L * stride) + ((kseek - 1) * stride + hp) : Nat) : Int) := by positivity
    simp only [hnn, and_false, false_or, hge, hin, and_self, not_true_eq_false, if_false]
    exact ih (j + 1) fuel (by omega) (by omega)

theorem trange_spec (h0 : 0 ≤ start.2 ∧ start.2 < 2400) (hs : 0 < step ∧ step ≤ 2400) :
    ∀ (d i fuel : Nat), i + d = T → d + 1 ≤ fuel →
      trange 2400 step (iter start step T) fuel (iter start step i) =
        some ((List.range d).map (fun k => iter start step (i + k))) := by
  intro d
  induction d with
  | zero =>
    intro i fuel hi hf
    have : i = T := by omega
    subst this
    obtain ⟨fuel, rfl⟩ : ∃ k, fuel = k + 1 := ⟨fuel - 1, by omega⟩
    simp [trange]
  | succ d ih =>
    intro i fuel hi hf
    obtain ⟨fuel, rfl⟩ : ∃ k, fuel = k + 1 := ⟨fuel - 1, by omega⟩
    unfold trange
    have hne : iter start step i ≠ iter start step T := iter_ne start step h0 hs i T (by omega)
    simp only [hne, if_false]
    have : timeadd 2400 (iter start step i) step = iter start step (i + 1) := rfl
    rw [this, ih (i + 1) fuel (by omega) (by omega)]
    simp only [Option.map_some, Option.some.injEq]
    rw [List.range_succ_eq_map]
    simp only [List.map_cons, List.map_map, Nat.add_zero]
    congr 1
    apply List.map_congr_left
    intro k _
    simp only [Function.comp]
    congr 1
    omega

theorem timediff_shift (a b x : DT) : timediff b x = timediff a x - timediff a b := by
  unfold timediff; omega

theorem fetch_spec (tb : Table rs T L stride (iter start step) cellsOf)
    (h0 : 0 ≤ start.2 ∧ start.2 < 2400) (hs : 0 < step ∧ step ≤ 2400) (fin : DT)
    (hfin : timediff start fin = ((T : Int) - 1) * step) (i ki v : Nat) (hi : i < T) (hk : ki < L) (hv : v < stride) :
    fetch start fin step L stride rs (iter start step i) (ki + 1) v = some (cellsOf i (ki * stride + v)) := by
  unfold fetch
  have hd := (iter_spec start step h0 hs i).1
  have h1 : ¬ (timediff fin (iter start step i) > 0) := by
    rw [timediff_shift start fin, hd, hfin]
    have : ((i : Int) - ((T : Int) - 1)) * step ≤ 0 := Int.mul_nonpos_of_nonpos_of_nonneg (by omega) (by omega)
    have e : (i : Int) * step - ((T : Int) - 1) * step = ((i : Int) - ((T : Int) - 1)) * step := by ring
    omega
  have h2 : ¬ (timediff start (iter start step i) < 0) := by
    rw [hd]
    have : (0 : Int) ≤ (i : Int) * step := Int.mul_nonneg (by omega) (by omega)
    omega
  have hj : ki * stride + v < L * stride := by
    have : (ki + 1) * stride ≤ L * stride := Nat.mul_le_mul_right _ (by omega)
    rw [Nat.succ_mul] at this
    omega
  obtain ⟨r, hr, _, hc⟩ := tb.row i (ki * stride + v) hi hj
  simp only [h1, h2, or_self, if_false, recIndex_iter h0 hs, Nat.add_sub_cancel]
  have hnn : ¬ (((i * (L * stride) + (ki * stride + v) : Nat) : Int) < 0) := by omega
  simp only [hnn, if_false, Int.toNat_natCast, hr, Option.map_some, hc]

end

/-- the content the record reader presents for a table of records on a regular time axis -/
def tableView (T L stride : Nat) (dt : Nat → DT) (cellsOf : Nat → Nat → List Word) : RView :=
  { nt := T, nz := L, times := (List.range T).map dt,
    vars := (List.range stride).map (fun v =>
      (List.range T).flatMap (fun i => (List.range L).map (fun k => cellsOf i (k * stride + v)))) }

theorem pos_table (T L stride : Nat) (hT : 2 ≤ T) (hL : 1 ≤ L) (hst : 1 ≤ stride) : L ≤ T * (L * stride) ∧ T ≤ T * (L * stride) := by
  have h1 : 1 ≤ L * stride := Nat.mul_le_mul hL hst
  have h2 : L ≤ L * stride := Nat.le_mul_of_pos_right _ (by omega)
  have h3 : L * stride ≤ T * (L * stride) := Nat.le_mul_of_pos_left _ (by omega)
  have h4 : T ≤ T * (L * stride) := Nat.le_mul_of_pos_right _ (by omega)
  omega

theorem timeadd_noroll (a : DT) (s : Int) (h : a.2 + s < 2400) : timeadd 2400 a s = (a.1, a.2 + s) := by
  unfold timeadd
  rw [if_neg (by omega)]

/-- **the record reader on a regular table.** -/
theorem readRows_spec (hp : Bool) (rs : List (List Word)) (T L : Nat) (start : DT) (step : Int)
    (cellsOf : Nat → Nat → List Word)
    (tb : Table rs T L (if hp then 2 else 1) (iter start step) cellsOf)
    (h0 : 0 ≤ start.2 ∧ start.2 < 2400) (hs : 0 < step ∧ step ≤ 2400) (heven : step % 2 = 0)
    (hT : 2 ≤ T) (hL : 1 ≤ L) :
    readRows hp rs = some (tableView T L (if hp then 2 else 1) (iter start step) cellsOf) := by
  generalize hstr : (if hp then 2 else 1 : Nat) = stride at tb ⊢
  have hst : 1 ≤ stride := by cases hp <;> simp at hstr <;> omega
  obtain ⟨hLf, hTf⟩ := pos_table T L stride hT hL hst
  cases rs with
  | nil => have := tb.len; simp at this; omega
  | cons r0 tl =>
    have hlen := tb.len
    obtain ⟨r0', hr0', hdt0, _⟩ := tb.row 0 0 (by omega) (Nat.mul_pos (by omega) (by omega))
    simp only [Nat.zero_mul, Nat.add_zero, List.getElem?_cons_zero, Option.some.injEq] at hr0'
    subst hr0'
    have hstart : recDT r0 = start := hdt0
    obtain ⟨r1, hr1, hdt1, _⟩ := tb.row 1 0 (by omega) (Nat.mul_pos (by omega) (by omega))
    simp only [Nat.one_mul, Nat.add_zero] at hr1
    have hstep : timediff start (recDT r1) = step := by
      rw [hdt1, (iter_spec start step h0 hs 1).1]; simp
    have hcount := countLayers_spec tb h0 hs hT hst (L - 1) 1 (r0 :: tl).length (by omega) (by omega) (by rw [hlen]; omega)
    have hkseek : ((if hp = true then L else 1) - 1) * stride + (if hp = true then 1 else 0) < L * stride := by
      cases hp
      · simp only [Bool.false_eq_true, if_false, Nat.sub_self, Nat.zero_mul, Nat.add_zero]
        exact Nat.mul_pos (show 0 < L by omega) (show 0 < stride by omega)
      · simp only [if_true] at hstr ⊢
        subst hstr
        omega
    have hwalk := walk_spec (T := T) (L := L) (stride := stride) (start := start) (step := step) h0 hs
      (if hp then L else 1) (if hp then 1 else 0) hp hkseek (T - 1) 1 (r0 :: tl).length (by omega) (by rw [hlen]; omega)
    have hfin : timeadd 2400 (iter start step T) (-step) = ((iter start step T).1, (iter start step T).2 - step) := by
      unfold timeadd
      have := (iter_spec start step h0 hs T).2
      rw [if_neg (by omega)]
      rfl
    have hfd : timediff start ((iter start step T).1, (iter start step T).2 - step) = ((T : Int) - 1) * step := by
      have := (iter_spec start step h0 hs T).1
      unfold timediff at this ⊢
      simp only at this ⊢
      have e : ((T : Int) - 1) * step = (T : Int) * step - step := by ring
      omega
    have hcnt : Int.tdiv (((T : Int) - 1) * step) step + 1 = T := by
      rw [Int.mul_tdiv_cancel _ (by omega)]; omega
    have hstop : (if hp = true then timeadd 2400 (timeadd 2400 ((iter start step T).1, (iter start step T).2 - step) step) 0
        else timeadd 2400 (((iter start step T).1, (iter start step T).2 - step).1,
          ((iter start step T).1, (iter start step T).2 - step).2 + step) 0) = iter start step T := by
      have hX := (iter_spec start step h0 hs T).2
      generalize iter start step T = X at hX ⊢
      obtain ⟨xd, xt⟩ := X
      simp only at hX
      cases hp
      · simp only [Bool.false_eq_true, if_false]
        rw [timeadd_noroll _ _ (by simp only; omega)]
        simp only [Prod.mk.injEq, true_and]; omega
      · simp only [if_true]
        rw [timeadd_noroll (xd, xt - step) step (by simp only; omega)]
        rw [timeadd_noroll _ _ (by simp only; omega)]
        simp only [Prod.mk.injEq, true_and]; omega
    have hstart0 : timeadd 2400 start 0 = iter start step 0 := by
      unfold timeadd
      rw [if_neg (by omega)]
      simp [iter]
    have htr := trange_spec (T := T) (start := start) (step := step) h0 hs T 0 ((r0 :: tl).length + 1 + T) (by omega) (by rw [hlen]; omega)
    rw [hlen] at hcount hwalk htr
    unfold readRows
    simp only [hstr, hstart, hlen, hcount, hr1, hstep]
    rw [hdt1, hwalk]
    simp only [hfin, hfd, hcnt]
    have hnneg : ¬ ((T : Int) < 0) := by omega
    have heod : ¬ (hp = true ∧ step % 2 = 1) := by omega
    simp only [hnneg, if_false, heod, hstop, hstart0, Int.toNat_natCast]
    rw [htr]
    simp only [List.length_map, List.length_range, Nat.zero_add, gt_iff_lt, lt_self_iff_false, if_false]
    -- every slab is fetched from the record the table names
    have hslabs : ∀ v, v < stride →
        (List.flatMap (fun dt => List.map (fun ki => (dt, ki + 1)) (List.range L))
            (List.map (fun k => iter start step k) (List.range T))).mapM
          (fun p => fetch start ((iter start step T).1, (iter start step T).2 - step) step L stride (r0 :: tl) p.1 p.2 v) =
        some ((List.range T).flatMap (fun i => (List.range L).map (fun k => cellsOf i (k * stride + v)))) := by
      intro v hv
      have e1 : (List.flatMap (fun dt => List.map (fun ki => (dt, ki + 1)) (List.range L))
            (List.map (fun k => iter start step k) (List.range T))) =
          ((List.range T).flatMap (fun i => (List.range L).map (fun k => (i, k)))).map
            (fun p : Nat × Nat => (iter start step p.1, p.2 + 1)) := by
        simp [List.flatMap_map, List.map_flatMap, Function.comp_def]
      rw [e1, mapM_some_map (fun p : Nat × Nat => (iter start step p.1, p.2 + 1)) _
        (fun p : Nat × Nat => cellsOf p.1 (p.2 * stride + v))]
      · simp [List.map_flatMap, Function.comp_def]
      · intro p hpm
        simp only [List.mem_flatMap, List.mem_range, List.mem_map] at hpm
        obtain ⟨i, hi, k, hk, rfl⟩ := hpm
        exact fetch_spec tb h0 hs _ hfd i k v hi hk hv
    rw [mapM_some _ (fun v => (List.range T).flatMap (fun i => (List.range L).map (fun k => cellsOf i (k * stride + v)))) _
      (fun v hv => hslabs v (List.mem_range.mp hv))]
    simp only [tableView, Int.toNat_natCast, List.map_map, Option.some.injEq, RView.mk.injEq, true_and]
    apply List.map_congr_left
    intro v _
    simp only [Function.comp]
    have hl : ((List.range T).flatMap (fun i => (List.range L).map (fun k => cellsOf i (k * stride + v)))).length = T * L := by
      simp only [List.length_flatMap, List.length_map, List.length_range]
      generalize T = n
      induction n with
      | zero => simp
      | succ n ih => rw [List.range_succ, List.map_append, List.sum_append, ih, Nat.succ_mul]; simp
    rw [hl, Nat.sub_self]
    simp

/-! ### the temperature record reader -/

theorem flatMap_congr_mem {α β} (l : List α) (g1 g2 : α → List β) (h : ∀ x ∈ l, g1 x = g2 x) : l.flatMap g1 = l.flatMap g2 := by
  induction l with
  | nil => rfl
  | cons a rest ih =>
    simp only [List.flatMap_cons, h a (by simp), ih (fun x hx => h x (List.mem_cons_of_mem _ hx))]

theorem firstDiff_spec {rs : List (List Word)} {T m : Nat} {start : DT} {step : Int} {cellsOf : Nat → Nat → List Word}
    (tb : Table rs T m 1 (iter start step) cellsOf)
    (h0 : 0 ≤ start.2 ∧ start.2 < 2400) (hs : 0 < step ∧ step ≤ 2400) (hT : 2 ≤ T) :
    ∀ (d n fuel : Nat), n + d = m → 1 ≤ n → d + 1 ≤ fuel → firstDiff start rs fuel n = some m := by
  intro d
  induction d with
  | zero =>
    intro n fuel hn h1 hf
    have hnm : n = m := by omega
    subst hnm
    obtain ⟨fuel, rfl⟩ : ∃ k, fuel = k + 1 := ⟨fuel - 1, by omega⟩
    obtain ⟨r, hr, hdt, _⟩ := tb.row 1 0 (by omega) (by omega)
    have hidx : n = 1 * (n * 1) + 0 := by omega
    unfold firstDiff
    rw [hidx, hr]
    simp only [Nat.mul_one, Nat.one_mul, Nat.add_zero]
    have hne : recDT r ≠ start := by
      rw [hdt]
      exact iter_ne start step h0 hs 1 0 (by omega)
    rw [if_pos hne]
  | succ d ih =>
    intro n fuel hn h1 hf
    obtain ⟨fuel, rfl⟩ : ∃ k, fuel = k + 1 := ⟨fuel - 1, by omega⟩
    obtain ⟨r, hr, hdt, _⟩ := tb.row 0 n (by omega) (by omega)
    have hidx : n = 0 * (m * 1) + n := by omega
    unfold firstDiff
    rw [hidx, hr]
    have hd : ¬ (recDT r ≠ start) := by rw [hdt]; simp [iter]
    simp only [hd, if_false]
    rw [← hidx]
    exact ih (n + 1) fuel (by omega) (by omega) (by omega)

/-- what the temperature record reader presents for a table of `T` steps of `m` records -/
def tempView (T m : Nat) (dt : Nat → DT) (cellsOf : Nat → Nat → List Word) : RView :=
  { nt := T, nz := m - 1, times := (List.range T).map dt,
    vars := [(List.range T).map (fun i => cellsOf i 0),
             (List.range T).flatMap (fun i => (List.range (m - 1)).map (fun k => cellsOf i (1 + k)))] }

theorem readTempRows_spec (rs : List (List Word)) (T m : Nat) (start : DT) (step : Int)
    (cellsOf : Nat → Nat → List Word)
    (tb : Table rs T m 1 (iter start step) cellsOf)
    (h0 : 0 ≤ start.2 ∧ start.2 < 2400) (hs : 0 < step ∧ step ≤ 2400) (heven : step % 2 = 0)
    (hT : 2 ≤ T) (hm : 2 ≤ m) :
    readTempRows rs = some (tempView T m (iter start step) cellsOf) := by
  have hlen := tb.len
  rw [Nat.mul_one] at hlen
  have hmT : m ≤ T * m := Nat.le_mul_of_pos_left _ (by omega)
  have hTm : T ≤ T * m := Nat.le_mul_of_pos_right _ (by omega)
  cases rs with
  | nil => simp at hlen; omega
  | cons r0 tl =>
    obtain ⟨r0', hr0', hdt0, _⟩ := tb.row 0 0 (by omega) (by omega)
    simp only [Nat.zero_mul, Nat.add_zero, List.getElem?_cons_zero, Option.some.injEq] at hr0'
    subst hr0'
    have hstart : recDT r0 = start := hdt0
    obtain ⟨r1, hr1, hdt1, _⟩ := tb.row 1 0 (by omega) (by omega)
    simp only [Nat.one_mul, Nat.add_zero, Nat.mul_one] at hr1
    obtain ⟨rl, hrl, hdtl, _⟩ := tb.row (T - 1) (m - 1) (by omega) (by omega)
    have hlast : (r0 :: tl).getLast? = some rl := by
      rw [List.getLast?_eq_getElem?, hlen]
      have : (T - 1) * (m * 1) + (m - 1) = T * m - 1 := by
        rw [Nat.mul_one]
        have : (T - 1 + 1) * m = T * m := by congr 1; omega
        rw [Nat.succ_mul] at this
        omega
      rw [← this]; exact hrl
    have hfirst := firstDiff_spec tb h0 hs hT (m - 1) 1 (r0 :: tl).length (by omega) (by omega) (by rw [hlen]; omega)
    have hstep : timediff start (recDT r1) = step := by
      rw [hdt1, (iter_spec start step h0 hs 1).1]; simp
    have hdl : timediff start (recDT rl) = ((T - 1 : Nat) : Int) * step := by
      rw [hdtl]; exact (iter_spec start step h0 hs (T - 1)).1
    have hcnt : Int.fdiv (((T - 1 : Nat) : Int) * step) step + 1 = T := by
      rw [Int.mul_fdiv_cancel _ (by omega)]; omega
    have hstop : timeadd 2400 (timeadd 2400 (recDT rl) step) 0 = iter start step T := by
      rw [hdtl]
      have e : timeadd 2400 (iter start step (T - 1)) step = iter start step T := by
        have : T = (T - 1) + 1 := by omega
        conv_rhs => rw [this]
        rfl
      rw [e]
      have hX := (iter_spec start step h0 hs T).2
      rw [timeadd_noroll _ _ (by omega)]
      simp
    have hstart0 : timeadd 2400 start 0 = iter start step 0 := by
      rw [timeadd_noroll _ _ (by omega)]; simp [iter]
    have htr := trange_spec (T := T) (start := start) (step := step) h0 hs T 0 ((r0 :: tl).length + 1 + T) (by omega) (by rw [hlen]; omega)
    unfold readTempRows
    simp only [hstart, hfirst, hr1, hlast, hstep, hdl, hcnt]
    have hnneg : ¬ ((T : Int) < 0) := by omega
    have hodd : ¬ (step % 2 = 1) := by omega
    have hdiv : (r0 :: tl).length / m = T := by rw [hlen]; exact Nat.mul_div_cancel _ (by omega)
    have hmod : (r0 :: tl).length % m = 0 := by rw [hlen]; exact Nat.mul_mod_left _ _
    simp only [hnneg, if_false, hodd, hmod, hdiv, ne_eq, not_true_eq_false, gt_iff_lt, lt_self_iff_false, or_self,
      hstop, hstart0, htr, Int.toNat_natCast, Nat.sub_self, List.replicate_zero, List.append_nil, Nat.zero_mul,
      Nat.zero_add, tempView, Option.some.injEq, RView.mk.injEq, true_and, List.cons.injEq, and_true]
    refine ⟨?_, ?_⟩
    · apply List.map_congr_left
      intro i hi
      obtain ⟨r, hr, _, hc⟩ := tb.row i 0 (List.mem_range.mp hi) (by omega)
      simp only [Nat.mul_one, Nat.add_zero] at hr
      rw [List.getD_eq_getElem?_getD, hr]
      exact hc
    · apply flatMap_congr_mem
      intro i hi
      apply List.map_congr_left
      intro k hk
      obtain ⟨r, hr, _, hc⟩ := tb.row i (1 + k) (List.mem_range.mp hi) (by have := List.mem_range.mp hk; omega)
      simp only [Nat.mul_one] at hr
      rw [List.getD_eq_getElem?_getD, Nat.add_assoc, hr]
      exact hc

end SlabRead
