import PncModel.Ioapi
import PncProofs.CalLemmas
import PncProofs.C02
/-
Lemmas about the IOAPI metadata model (used by C10 and C11): what the variable bookkeeping leaves alone,
what `getVarlist` / `updatetflag` / `updatemeta` establish.
-/
namespace Ioapi
open Cal TimeDec

/-- the part of the state the variable bookkeeping never touches -/
structure Frame where
  grid : Bool
  nT : Nat
  nL : Nat
  nR : Nat
  nC : Nat
  nP : Nat
  nrows : Nat
  ncols : Nat
  nlays : Nat
  vglvls : List Rat
  sdate : Int
  stime : Int
  tstep : Int
  xorig : Rat
  yorig : Rat
  xcell : Rat
  ycell : Rat

def frame (s : St) : Frame :=
  ⟨s.grid, s.nT, s.nL, s.nR, s.nC, s.nP, s.nrows, s.ncols, s.nlays, s.vglvls, s.sdate, s.stime, s.tstep,
   s.xorig, s.yorig, s.xcell, s.ycell⟩

@[simp] theorem frame_add2Varlist (s : St) (ks : List String) : frame (add2Varlist s ks) = frame s := rfl
@[simp] theorem vars_add2Varlist (s : St) (ks : List String) : (add2Varlist s ks).vars = s.vars := rfl
@[simp] theorem tflag_add2Varlist (s : St) (ks : List String) : (add2Varlist s ks).tflag = s.tflag := rfl
@[simp] theorem varDim_add2Varlist (s : St) (ks : List String) : (add2Varlist s ks).varDim = s.varDim := rfl

@[simp] theorem frame_putVar (s : St) (v : DVar) : frame (putVar s v) = frame s := rfl
@[simp] theorem tflag_putVar (s : St) (v : DVar) : (putVar s v).tflag = s.tflag := rfl
@[simp] theorem varDim_putVar (s : St) (v : DVar) : (putVar s v).varDim = s.varDim := rfl

@[simp] theorem frame_putTflag (s : St) (w : Nat) (r : List (Int × Int)) : frame (putTflag s w r) = frame s := rfl
@[simp] theorem tflag_putTflag (s : St) (w : Nat) (r : List (Int × Int)) : (putTflag s w r).tflag = some (w, r) := rfl
@[simp] theorem vars_putTflag (s : St) (w : Nat) (r : List (Int × Int)) : (putTflag s w r).vars = s.vars := rfl

@[simp] theorem frame_putAll (s : St) (vs : List DVar) : frame (putAll s vs) = frame s := by
  induction vs generalizing s with
  | nil => rfl
  | cons v vs ih => simp [putAll, List.foldl] at *; rw [ih]; rfl

@[simp] theorem tflag_putAll (s : St) (vs : List DVar) : (putAll s vs).tflag = s.tflag := by
  induction vs generalizing s with
  | nil => rfl
  | cons v vs ih => simp [putAll, List.foldl] at *; rw [ih]; rfl

@[simp] theorem frame_getVarlist (s : St) : frame (getVarlist s) = frame s := rfl
@[simp] theorem vars_getVarlist (s : St) : (getVarlist s).vars = s.vars := rfl
@[simp] theorem tflag_getVarlist (s : St) : (getVarlist s).tflag = s.tflag := rfl

theorem frame_eq {a b : St} (h : frame a = frame b) :
    a.grid = b.grid ∧ a.nT = b.nT ∧ a.nL = b.nL ∧ a.nR = b.nR ∧ a.nC = b.nC ∧ a.nP = b.nP ∧ a.nrows = b.nrows ∧
    a.ncols = b.ncols ∧ a.nlays = b.nlays ∧ a.vglvls = b.vglvls ∧ a.sdate = b.sdate ∧ a.stime = b.stime ∧
    a.tstep = b.tstep ∧ a.xorig = b.xorig ∧ a.yorig = b.yorig ∧ a.xcell = b.xcell ∧ a.ycell = b.ycell := by
  simp only [frame, Frame.mk.injEq] at h
  exact h


/-! ### what `getVarlist` establishes -/

/-- `listable` only looks at the variables -/
theorem listable_congr {a b : St} (h : a.vars = b.vars) (k : String) : listable a k = listable b k := by
  unfold listable; rw [h]

theorem listable_hasVar {s : St} {k : String} (h : listable s k = true) : hasVar s k = true := by
  unfold listable at h
  unfold hasVar
  simp only [Bool.and_eq_true, List.any_eq_true, decide_eq_true_eq] at h ⊢
  obtain ⟨⟨v, hv, hk⟩, _⟩ := h
  exact ⟨v, hv, hk.1⟩

/-- variable bookkeeping normal form: what `getVarlist` leaves behind -/
structure Norm (q : St) : Prop where
  nvars : q.nvars = q.varlist.length
  varDim : q.varDim = max q.varlist.length 1
  listed : ∀ k ∈ q.varlist, listable q k = true

theorem norm_getVarlist (s : St) : Norm (getVarlist s) := by
  refine ⟨rfl, rfl, ?_⟩
  intro k hk
  simp only [getVarlist] at hk
  rw [listable_congr (vars_getVarlist s)]
  exact (List.mem_filter.mp hk).2

/-- on a normal form, `_add2Varlist(['TFLAG'])` changes nothing but (re)states NVARS -/
theorem add2Varlist_tflag_norm (q : St) (h : Norm q) (tf : Option (Nat × List (Int × Int))) :
    (add2Varlist { q with tflag := tf } ["TFLAG"]).varlist = q.varlist ∧
    (add2Varlist { q with tflag := tf } ["TFLAG"]).nvars = q.varlist.length := by
  have hk : q.varlist.filter (present { q with tflag := tf }) = q.varlist := by
    apply List.filter_eq_self.mpr
    intro k hk
    have := listable_hasVar (h.listed k hk)
    simp only [present, Bool.or_eq_true]
    left
    simpa [hasVar] using this
  simp only [add2Varlist, hk]
  simp


/-! ### time flags -/

/-- a well-formed flag in the year range Python's `datetime` (and `strptime('%Y%j')`) accepts -/
def GoodFlag (d t : Int) : Prop := validFlag d t = true ∧ 1000 ≤ d / 1000 ∧ d / 1000 ≤ 9999

theorem goodFlag_strptimeOk {d t : Int} (h : GoodFlag d t) :
    strptimeOk (if d < 1 then 1970001 else d) t = true := by
  obtain ⟨hv, h1, h2⟩ := h
  unfold validFlag at hv
  simp only [decide_eq_true_eq] at hv
  obtain ⟨hy, hj1, hj2, ht0, hh, hm, hs⟩ := hv
  have hlen := yearLen_pos (d / 1000)
  have hd : ¬ d < 1 := by omega
  simp only [hd, if_false, strptimeOk, decide_eq_true_eq]
  refine ⟨by omega, by omega, by omega, by omega, by omega, by omega, by omega, by omega, by omega⟩

theorem goodFlag_fix {d t : Int} (h : GoodFlag d t) : fixDate d = d := by
  unfold fixDate
  have := h.2.1
  split <;> omega

theorem synthRows_spec (s : St) (h : GoodFlag s.sdate s.stime) :
    (synthRows s).length = s.nT ∧ (∀ r ∈ (synthRows s).head?, r = (s.sdate, s.stime)) := by
  have hok := goodFlag_strptimeOk h
  have hd : ¬ s.sdate < 1 := by have := h.2.1; omega
  simp only [hd, if_false] at hok
  unfold synthRows synthFlags attrTimes
  simp only [hd, if_false, hok, Bool.not_true, Bool.false_eq_true, if_false, Except.map]
  constructor
  · simp
  · intro r hr
    cases hn : s.nT with
    | zero => simp [hn] at hr
    | succ n =>
      simp [hn, List.range_succ_eq_map] at hr
      rw [← hr]
      exact encJ_decJ _ _ h.1

/-! ### `updatetflag` on a normal form -/

/-- the equalities of the property that do not involve TFLAG -/
structure Dimsok (q : St) : Prop where
  nlays : q.nlays = q.nL
  rc : q.grid = true → q.nrows = q.nR ∧ q.ncols = q.nC
  vg : q.vglvls.length = q.nL + 1

theorem coherent_of_parts (q : St) (hN : Norm q) (hD : Dimsok q) (hn : 1 ≤ q.varlist.length)
    (rows : List (Int × Int)) (w : Nat) (hw : w = q.varlist.length) (ht : q.tflag = some (w, rows))
    (hl : rows.length = q.nT) (hh : ∀ r ∈ rows.head?, r = (q.sdate, q.stime)) : Coherent q := by
  refine ⟨hN.nvars, ?_, ⟨rows, ?_, hl, hh⟩, hN.listed, hD.nlays, hD.rc, hD.vg⟩
  · rw [hN.varDim]; omega
  · rw [ht, hw]

theorem updatetflag_cases (q : St) (force : Bool) :
    (updatetflag q force = q ∧ ∃ rows, q.tflag = some (q.nvars, rows) ∧ force = false) ∨
    (∃ d t, updatetflag q force =
        { add2Varlist { q with tflag := none } ["TFLAG"] with
          tflag := some (q.varDim, synthRows q), sdate := d, stime := t } ∧
        ((synthRows q).head? = some (d, t) ∨ ((synthRows q).head? = none ∧ d = q.sdate ∧ t = q.stime))) := by
  unfold updatetflag
  by_cases hf : force = true
  · right
    simp only [hf, Bool.true_or, if_true]
    cases hr : (synthRows q).head? with
    | none => exact ⟨q.sdate, q.stime, by simp [add2Varlist], Or.inr ⟨rfl, rfl, rfl⟩⟩
    | some r => exact ⟨r.1, r.2, by simp, Or.inl rfl⟩
  · have hf' : force = false := by simpa using hf
    cases htf : q.tflag with
    | none =>
      right
      simp only [hf', Bool.false_or, if_true]
      cases hr : (synthRows q).head? with
      | none => exact ⟨q.sdate, q.stime, by simp [add2Varlist], Or.inr ⟨rfl, rfl, rfl⟩⟩
      | some r => exact ⟨r.1, r.2, by simp, Or.inl rfl⟩
    | some wr =>
      obtain ⟨w, rows⟩ := wr
      by_cases hw : w = q.nvars
      · left
        simp [hf', hw]
      · right
        have : (w != q.nvars) = true := by simpa using hw
        simp only [hf', Bool.false_or, this, if_true]
        cases hr : (synthRows q).head? with
        | none => exact ⟨q.sdate, q.stime, by simp [add2Varlist], Or.inr ⟨rfl, rfl, rfl⟩⟩
        | some r => exact ⟨r.1, r.2, by simp, Or.inl rfl⟩


theorem coherent_updatetflag (q : St) (force : Bool) (hN : Norm q) (hD : Dimsok q) (hn : 1 ≤ q.varlist.length)
    (hstart : GoodFlag q.sdate q.stime)
    (hkeep : force = false → ∀ w rows, q.tflag = some (w, rows) →
      rows.length = q.nT ∧ ∀ r ∈ rows.head?, r = (q.sdate, q.stime)) :
    Coherent (updatetflag q force) := by
  rcases updatetflag_cases q force with ⟨heq, rows, ht, hf⟩ | ⟨d, t, heq, hdt⟩
  · rw [heq]
    obtain ⟨hl, hh⟩ := hkeep hf _ _ ht
    exact coherent_of_parts q hN hD hn rows q.nvars hN.nvars ht hl hh
  · rw [heq]
    obtain ⟨hvl, hnv⟩ := add2Varlist_tflag_norm q hN none
    obtain ⟨hlen, hhead⟩ := synthRows_spec q hstart
    refine coherent_of_parts _ ⟨?_, ?_, ?_⟩ ⟨?_, ?_, ?_⟩ ?_ (synthRows q) q.varDim ?_ rfl ?_ ?_
    · simp only [hvl, hnv]
    · simp only [hvl]; exact hN.varDim
    · intro k hk
      simp only [hvl] at hk
      have := hN.listed k hk
      rw [← this]
      exact listable_congr rfl k
    · exact hD.nlays
    · exact hD.rc
    · exact hD.vg
    · simp only [hvl]; exact hn
    · simp only [hvl]; rw [hN.varDim]; omega
    · exact hlen
    · intro r hr
      rcases hdt with h1 | ⟨h1, _, _⟩
      · rw [h1] at hr
        simp at hr
        rw [hr]
      · rw [h1] at hr
        simp at hr

/-- `updatetflag` keeps the normal form and the non-TFLAG equalities -/
theorem norm_updatetflag (q : St) (force : Bool) (hN : Norm q) :
    Norm (updatetflag q force) ∧ (updatetflag q force).varlist = q.varlist ∧
    (updatetflag q force).vars = q.vars ∧ (updatetflag q force).varDim = q.varDim := by
  rcases updatetflag_cases q force with ⟨heq, _⟩ | ⟨d, t, heq, _⟩
  · rw [heq]; exact ⟨hN, rfl, rfl, rfl⟩
  · rw [heq]
    obtain ⟨hvl, hnv⟩ := add2Varlist_tflag_norm q hN none
    refine ⟨⟨?_, ?_, ?_⟩, hvl, rfl, rfl⟩
    · simp only [hvl, hnv]
    · simp only [hvl]; exact hN.varDim
    · intro k hk
      simp only [hvl] at hk
      have := hN.listed k hk
      rw [← this]
      exact listable_congr rfl k


/-! ### `updatemeta` is a normaliser -/

/-- the count attributes `updatemeta` refreshes -/
def attrs (q : St) : St :=
  { q with nlays := q.nL, ncols := if q.grid then q.nC else q.ncols, nrows := if q.grid then q.nR else q.nrows }

theorem updatemeta_def (p : St) : updatemeta p = updatetflag (attrs (getVarlist p)) := rfl

theorem norm_attrs (q : St) (h : Norm q) : Norm (attrs q) :=
  ⟨h.nvars, h.varDim, fun k hk => by rw [← h.listed k hk]; exact listable_congr rfl k⟩

theorem dimsok_attrs (q : St) (hv : q.vglvls.length = q.nL + 1) : Dimsok (attrs q) := by
  refine ⟨rfl, ?_, hv⟩
  intro hg
  have hg' : q.grid = true := hg
  simp [attrs, hg']

theorem varlist_updatemeta (p : St) : (updatemeta p).varlist = (getVarlist p).varlist := by
  rw [updatemeta_def]
  exact (norm_updatetflag _ false (norm_attrs _ (norm_getVarlist p))).2.1

/-- **`updatemeta()` establishes the property** on any state with at least one listable variable, the right
number of level edges and a TFLAG that (if it survives) has one row per step starting at SDATE/STIME. -/
theorem coherent_updatemeta (p : St) (hn : 1 ≤ (getVarlist p).varlist.length)
    (hv : p.vglvls.length = p.nL + 1) (hstart : GoodFlag p.sdate p.stime)
    (hkeep : ∀ w rows, p.tflag = some (w, rows) →
      rows.length = p.nT ∧ ∀ r ∈ rows.head?, r = (p.sdate, p.stime)) :
    Coherent (updatemeta p) := by
  rw [updatemeta_def]
  exact coherent_updatetflag _ false (norm_attrs _ (norm_getVarlist p)) (dimsok_attrs _ hv) hn hstart
    (fun _ w rows ht => hkeep w rows ht)


/-! ### what `updatetflag` / `updatemeta` do to the rest of the state -/

theorem frame_updatetflag (q : St) (f : Bool) (hstart : GoodFlag q.sdate q.stime) :
    frame (updatetflag q f) = frame q := by
  rcases updatetflag_cases q f with ⟨heq, _⟩ | ⟨d, t, heq, hdt⟩
  · rw [heq]
  · rw [heq]
    obtain ⟨_, hhead⟩ := synthRows_spec q hstart
    have hd : d = q.sdate ∧ t = q.stime := by
      rcases hdt with h1 | ⟨_, h2, h3⟩
      · have := hhead (d, t) (by rw [h1]; simp)
        simp only [Prod.mk.injEq] at this
        exact this
      · exact ⟨h2, h3⟩
    simp only [frame, hd.1, hd.2]
    rfl

/-- whatever TFLAG `updatetflag` leaves has one row per step and starts at SDATE/STIME -/
theorem tflag_updatetflag (q : St) (f : Bool) (hstart : GoodFlag q.sdate q.stime)
    (hkeep : f = false → ∀ w rows, q.tflag = some (w, rows) →
      rows.length = q.nT ∧ ∀ r ∈ rows.head?, r = (q.sdate, q.stime)) :
    ∃ w rows, (updatetflag q f).tflag = some (w, rows) ∧ rows.length = q.nT ∧
      ∀ r ∈ rows.head?, r = (q.sdate, q.stime) := by
  rcases updatetflag_cases q f with ⟨heq, rows, ht, hf⟩ | ⟨d, t, heq, _⟩
  · rw [heq]
    exact ⟨_, rows, ht, hkeep hf _ _ ht⟩
  · rw [heq]
    obtain ⟨hlen, hhead⟩ := synthRows_spec q hstart
    exact ⟨_, _, rfl, hlen, hhead⟩

theorem tflag_updatetflag_none (q : St) (f : Bool) (h : q.tflag = none) :
    (updatetflag q f).tflag = some (q.varDim, synthRows q) := by
  rcases updatetflag_cases q f with ⟨_, rows, ht, _⟩ | ⟨d, t, heq, _⟩
  · rw [h] at ht; cases ht
  · rw [heq]

/-- the state without the three count attributes `updatemeta` refreshes -/
def core (s : St) : Bool × Nat × Nat × Nat × Nat × Nat × List Rat × Int × Int × Int × Rat × Rat × Rat × Rat :=
  (s.grid, s.nT, s.nL, s.nR, s.nC, s.nP, s.vglvls, s.sdate, s.stime, s.tstep, s.xorig, s.yorig, s.xcell, s.ycell)

theorem core_of_frame {a b : St} (h : frame a = frame b) : core a = core b := by
  obtain ⟨h1, h2, h3, h4, h5, h6, _, _, _, h10, h11, h12, h13, h14, h15, h16, h17⟩ := frame_eq h
  simp only [core, h1, h2, h3, h4, h5, h6, h10, h11, h12, h13, h14, h15, h16, h17]

theorem core_eq {a b : St} (h : core a = core b) :
    a.grid = b.grid ∧ a.nT = b.nT ∧ a.nL = b.nL ∧ a.nR = b.nR ∧ a.nC = b.nC ∧ a.nP = b.nP ∧
    a.vglvls = b.vglvls ∧ a.sdate = b.sdate ∧ a.stime = b.stime ∧ a.tstep = b.tstep ∧ a.xorig = b.xorig ∧
    a.yorig = b.yorig ∧ a.xcell = b.xcell ∧ a.ycell = b.ycell := by
  simp only [core, Prod.mk.injEq] at h
  exact h

theorem core_updatemeta (p : St) (hstart : GoodFlag p.sdate p.stime) : core (updatemeta p) = core p := by
  rw [updatemeta_def]
  have h1 : core (updatetflag (attrs (getVarlist p)) false) = core (attrs (getVarlist p)) :=
    core_of_frame (frame_updatetflag _ false hstart)
  rw [h1]
  rfl

theorem tflag_updatemeta (p : St) (hstart : GoodFlag p.sdate p.stime)
    (hkeep : ∀ w rows, p.tflag = some (w, rows) →
      rows.length = p.nT ∧ ∀ r ∈ rows.head?, r = (p.sdate, p.stime)) :
    ∃ w rows, (updatemeta p).tflag = some (w, rows) ∧ rows.length = p.nT ∧
      ∀ r ∈ rows.head?, r = (p.sdate, p.stime) := by
  rw [updatemeta_def]
  exact tflag_updatetflag (attrs (getVarlist p)) false hstart (fun _ w rows ht => hkeep w rows ht)


/-! ### the pre-states of the operations -/

@[simp] theorem frame_setVarlist (s : St) (l : List String) : frame (setVarlist s l) = frame s := rfl
@[simp] theorem frame_setVars (s : St) (l : List DVar) : frame (setVars s l) = frame s := rfl
@[simp] theorem frame_setVarDim (s : St) (n : Nat) : frame (setVarDim s n) = frame s := rfl
@[simp] theorem frame_dropVar (s : St) (k : String) : frame (dropVar s k) = frame s := rfl
@[simp] theorem tflag_setVarlist (s : St) (l : List String) : (setVarlist s l).tflag = s.tflag := rfl
@[simp] theorem tflag_setVars (s : St) (l : List DVar) : (setVars s l).tflag = s.tflag := rfl
@[simp] theorem tflag_setVarDim (s : St) (n : Nat) : (setVarDim s n).tflag = s.tflag := rfl
@[simp] theorem tflag_dropVar (s : St) (k : String) : (dropVar s k).tflag = s.tflag := rfl
@[simp] theorem frame_setVglvls (s : St) (l : List Rat) : frame (setVglvls s l) = { frame s with vglvls := l } := rfl
@[simp] theorem tflag_setVglvls (s : St) (l : List Rat) : (setVglvls s l).tflag = s.tflag := rfl
@[simp] theorem tflag_setNlays (s : St) (n : Nat) : (setNlays s n).tflag = s.tflag := rfl
@[simp] theorem tflag_setGeo (s : St) (vg : List Rat) (xo yo : Rat) (sd st ts : Int) :
    (setGeo s vg xo yo sd st ts).tflag = s.tflag := rfl
@[simp] theorem frame_setGeo (s : St) (vg : List Rat) (xo yo : Rat) (sd st ts : Int) :
    frame (setGeo s vg xo yo sd st ts) =
      { frame s with vglvls := vg, xorig := xo, yorig := yo, sdate := sd, stime := st, tstep := ts } := rfl
@[simp] theorem tflag_setDim (s : St) (d : Dm) (n : Nat) : (setDim s d n).tflag = s.tflag := by cases d <;> rfl
@[simp] theorem frame_shell (s : St) : frame (shell s) = frame s := rfl
@[simp] theorem tflag_shell (s : St) : (shell s).tflag = none := rfl

theorem frame_copyVarsInto (o src : St) (g : List (Int × Int) → List (Int × Int)) :
    frame (copyVarsInto o src g) = frame o := by
  unfold copyVarsInto
  cases src.tflag with
  | none => simp
  | some wr => simp

theorem tflag_copyVarsInto (o src : St) (g : List (Int × Int) → List (Int × Int)) :
    (copyVarsInto o src g).tflag = match src.tflag with
      | some (w, r) => some (w, g r)
      | none => o.tflag := by
  unfold copyVarsInto
  cases src.tflag with
  | none => simp
  | some wr => simp

theorem frame_subsetPre (s : St) (keys : List String) : frame (subsetPre s keys) = frame s := by
  simp [subsetPre]

theorem tflag_subsetPre (s : St) (keys : List String) : (subsetPre s keys).tflag = none := by
  simp [subsetPre]

theorem frame_renamePre (s : St) (v : DVar) (o n : String) : frame (renamePre s v o n) = frame s := by
  simp [renamePre, frame_copyVarsInto]

theorem tflag_renamePre (s : St) (v : DVar) (o n : String) : (renamePre s v o n).tflag = s.tflag := by
  simp only [renamePre, tflag_add2Varlist, tflag_setVarlist, tflag_dropVar, tflag_putVar, tflag_copyVarsInto,
    tflag_shell]
  cases s.tflag with
  | none => rfl
  | some wr => rfl

theorem frame_evalInPre (s : St) (nv : DVar) : frame (evalInPre s nv) = frame s := by
  simp [evalInPre]

theorem tflag_evalInPre (s : St) (nv : DVar) : (evalInPre s nv).tflag = s.tflag := by
  simp [evalInPre]

theorem frame_evalOutPre (s : St) (nv : DVar) (src : String) :
    frame (evalOutPre s nv src) = frame (opSubset s [src]) := by
  simp [evalOutPre]

theorem tflag_evalOutPre (s : St) (nv : DVar) (src : String) :
    (evalOutPre s nv src).tflag = (opSubset s [src]).tflag := by
  simp [evalOutPre]


/-! ### windows and picked sub-lists -/

theorem mem_of_mapM_some {α β} (f : α → Option β) : ∀ (l : List α) (i : List β), l.mapM f = some i →
    ∀ k ∈ i, ∃ v ∈ l, f v = some k := by
  intro l
  induction l with
  | nil =>
    intro i h k hk
    simp at h
    subst h
    cases hk
  | cons a as ih =>
    intro i h k hk
    rw [List.mapM_cons] at h
    cases hfa : f a with
    | none => simp [hfa] at h
    | some b =>
      cases hrest : as.mapM f with
      | none => simp [hfa, hrest] at h
      | some bs =>
        simp [hfa, hrest] at h
        subst h
        rcases List.mem_cons.mp hk with rfl | hk'
        · exact ⟨a, by simp, hfa⟩
        · obtain ⟨v, hv, hfv⟩ := ih bs hrest k hk'
          exact ⟨v, by simp [hv], hfv⟩

theorem winIdx_lt (n : Nat) (w : Win) (i : List Nat) (h : winIdx n w = some i) : ∀ k ∈ i, k < n := by
  cases w with
  | int v =>
    simp only [winIdx, Option.map_eq_some_iff] at h
    obtain ⟨k, hk, rfl⟩ := h
    intro j hj
    simp at hj
    rw [hj]
    exact PySlice.normInt_lt n v k hk
  | slc a b =>
    simp only [winIdx, Option.some.injEq] at h
    subst h
    exact Props.C02.sliceIndices_lt n a b 1
  | sl a b st =>
    simp only [winIdx] at h
    split at h
    · cases h
    · simp only [Option.some.injEq] at h
      subst h
      exact Props.C02.sliceIndices_lt n a b st
  | lst l =>
    simp only [winIdx] at h
    intro k hk
    obtain ⟨v, _, hv⟩ := mem_of_mapM_some (PySlice.normInt n) l i h k hk
    exact PySlice.normInt_lt n v k hv

theorem idxOf_some (n : Nat) (w : Option Win) (i : List Nat) (h : idxOf n w = some (some i)) :
    i ≠ [] ∧ ∀ k ∈ i, k < n := by
  cases w with
  | none => simp [idxOf] at h
  | some w =>
    simp only [idxOf] at h
    cases hw : winIdx n w with
    | none => simp [hw] at h
    | some j =>
      cases j with
      | nil => simp [hw] at h
      | cons a as =>
        simp [hw] at h
        subst h
        exact ⟨by simp, winIdx_lt n w _ hw⟩

theorem pickL_cons {α} (k : Nat) (i : List Nat) (l : List α) (h : k < l.length) :
    pickL (k :: i) l = l[k] :: pickL i l := by
  simp [pickL, List.filterMap_cons, List.getElem?_eq_getElem h]

theorem pickL_length {α} (i : List Nat) (l : List α) (h : ∀ k ∈ i, k < l.length) :
    (pickL i l).length = i.length := by
  induction i with
  | nil => rfl
  | cons k i ih =>
    rw [pickL_cons k i l (h k (by simp))]
    simp [ih (fun j hj => h j (by simp [hj]))]

theorem pickL_map {α β} (f : α → β) (i : List Nat) (l : List α) : pickL i (l.map f) = (pickL i l).map f := by
  induction i with
  | nil => rfl
  | cons k i ih =>
    simp only [pickL, List.filterMap_cons, List.getElem?_map] at ih ⊢
    cases hk : l[k]? with
    | none => simp [ih]
    | some a => simp [ih]

theorem every2_length : ∀ (l : List Rat), (every2 l).length = (l.length + 1) / 2
  | [] => by simp [every2]
  | [_] => by simp [every2]
  | _ :: _ :: rest => by
    simp only [every2, List.length_cons, every2_length rest]
    omega

/-- the number of values a function returns depends only on the number it is given -/
theorem applyFn_length (f : FnK) (l : List Rat) : (applyFn f l).length = fnLen f l.length := by
  unfold fnLen
  cases f with
  | mean => cases l <;> simp [applyFn, List.range_succ_eq_map]
  | sum => simp [applyFn]
  | min => cases l <;> simp [applyFn, List.range_succ_eq_map]
  | max => cases l <;> simp [applyFn, List.range_succ_eq_map]
  | id => simp [applyFn]
  | first2 => simp [applyFn]
  | rev => simp [applyFn]
  | every2 => simp [applyFn, every2_length]
  | ends =>
    cases l with
    | nil => rfl
    | cons a rest => simp [applyFn, ends, List.range_succ_eq_map]

end Ioapi
