import PncProofs.ArrLemmas

/-!
Element-wise specification of `mapFibers` (apply a 1-D function along an axis): the element at a
multi-index of the result is the corresponding element of the function applied to the 1-D fiber
through that index.
-/
namespace Arr
variable {α : Type}

/-- the cells at multi-index `idx` of every sub-array in the list -/
def cellsAt (xs : List (Arr α)) (idx : List Nat) : List α := xs.filterMap (fun x => get x idx)

/-- the output length of `g` depends only on the input length -/
def Uniform (g : List α → List α) (glen : Nat → Nat) : Prop := ∀ l, (g l).length = glen l.length

def AllPos (sh : List Nat) : Prop := ∀ n ∈ sh, 0 < n

/-- `idx` is a valid multi-index for shape `sh` -/
def Valid : List Nat → List Nat → Prop
  | [], [] => True
  | i :: idx, n :: sh => i < n ∧ Valid idx sh
  | _, _ => False

theorem leaves_eq_cellsAt (xs : List (Arr α)) : leaves xs = cellsAt xs [] := by
  unfold leaves cellsAt
  congr 1
  funext x
  cases x <;> simp [get]

theorem cellsAt_column (xs : List (Arr α)) (j : Nat) (idx : List Nat) :
    cellsAt (column j xs) idx = cellsAt xs (j :: idx) := by
  unfold cellsAt column
  rw [List.filterMap_filterMap]
  congr 1
  funext x
  cases x with
  | leaf c => simp [get]
  | node ys =>
    simp only [get]
    cases ys[j]? <;> simp

theorem column_length (sh : List Nat) (m j : Nat) (hj : j < m) (xs : List (Arr α))
    (h : ∀ x ∈ xs, hasShape (m :: sh) x = true) : (column j xs).length = xs.length := by
  unfold column
  induction xs with
  | nil => rfl
  | cons x xs ih =>
    have hx := h x (by simp)
    cases x with
    | leaf c => simp [hasShape] at hx
    | node ys =>
      simp only [hasShape, Bool.and_eq_true, beq_iff_eq] at hx
      have : j < ys.length := by omega
      simp only [List.filterMap_cons, List.getElem?_eq_getElem this, List.length_cons]
      rw [ih (fun y hy => h y (by simp [hy]))]

theorem column_shape (sh : List Nat) (m j : Nat) (xs : List (Arr α))
    (h : ∀ x ∈ xs, hasShape (m :: sh) x = true) : ∀ y ∈ column j xs, hasShape sh y = true := by
  intro y hy
  unfold column at hy
  obtain ⟨x, hx, hxy⟩ := List.mem_filterMap.mp hy
  have hsx := h x hx
  cases x with
  | leaf c => simp at hxy
  | node ys =>
    simp only [hasShape, Bool.and_eq_true, beq_iff_eq] at hsx
    simp only at hxy
    exact forall_of_hasShapeL sh ys hsx.2 y (List.mem_of_getElem? hxy)

theorem leaves_length (xs : List (Arr α)) (h : ∀ x ∈ xs, hasShape [] x = true) :
    (leaves xs).length = xs.length := by
  unfold leaves
  induction xs with
  | nil => rfl
  | cons x xs ih =>
    have hx := h x (by simp)
    cases x with
    | leaf c => simp [ih (fun y hy => h y (by simp [hy]))]
    | node ys => simp [hasShape] at hx

/-- length of the new axis produced by `pointwise` -/
theorem pointwise_length (g : List α → List α) (glen : Nat → Nat) (hu : Uniform g glen) :
    ∀ (sh : List Nat) (xs : List (Arr α)), (∀ x ∈ xs, hasShape sh x = true) → AllPos sh →
      (pointwise g sh xs).length = glen xs.length
  | [], xs, h, _ => by
    simp only [pointwise, List.length_map]
    rw [hu, leaves_length xs h]
  | m :: r, xs, h, hp => by
    have hm : 0 < m := hp m (by simp)
    simp only [pointwise, List.length_map, List.length_range]
    have : ((List.range m).map (fun j => pointwise g r (column j xs))).headD []
        = pointwise g r (column 0 xs) := by
      cases m with
      | zero => omega
      | succ m => simp [List.range_succ_eq_map]
    rw [this, pointwise_length g glen hu r (column 0 xs) (column_shape r m 0 xs h)
      (fun n hn => hp n (by simp [hn])), column_length r m 0 hm xs h]

theorem filterMap_getElem?_rows {β} (i L : Nat) (hi : i < L) :
    ∀ (res : List (List β)) (j : Nat), (∀ r ∈ res, r.length = L) →
      (res.filterMap (fun r => r[i]?))[j]? = (res[j]?).bind (fun r => r[i]?)
  | [], j, _ => by simp
  | row :: rest, j, h => by
    have hr : i < row.length := by rw [h row (by simp)]; exact hi
    simp only [List.filterMap_cons, List.getElem?_eq_getElem hr]
    cases j with
    | zero => simp [List.getElem?_eq_getElem hr]
    | succ j => simpa using filterMap_getElem?_rows i L hi rest j (fun r hr' => h r (by simp [hr']))

/-- **pointwise, element-wise**: position `i` of the new axis, at inner index `idx`, is element `i`
of `g` applied to the cells of all sub-arrays at `idx` -/
theorem pointwise_get (g : List α → List α) (glen : Nat → Nat) (hu : Uniform g glen) :
    ∀ (sh : List Nat) (xs : List (Arr α)) (idx : List Nat) (i : Nat),
      (∀ x ∈ xs, hasShape sh x = true) → AllPos sh → Valid idx sh →
      ((pointwise g sh xs)[i]?).bind (fun y => get y idx) = (g (cellsAt xs idx))[i]?
  | [], xs, [], i, _, _, _ => by
    simp only [pointwise, List.getElem?_map, leaves_eq_cellsAt]
    cases (g (cellsAt xs []))[i]? <;> simp [get]
  | [], xs, _ :: _, i, _, _, hv => by simp [Valid] at hv
  | m :: r, xs, [], i, _, _, hv => by simp [Valid] at hv
  | m :: r, xs, j :: idx, i, h, hp, hv => by
    obtain ⟨hjm, hv'⟩ := hv
    have hpr : AllPos r := fun n hn => hp n (by simp [hn])
    have hlen := pointwise_length g glen hu (m :: r) xs h hp
    have hcol : ∀ row ∈ (List.range m).map (fun j' => pointwise g r (column j' xs)),
        row.length = glen xs.length := by
      intro row hrow
      obtain ⟨j', hj', rfl⟩ := List.mem_map.mp hrow
      have hj'm : j' < m := by simpa using hj'
      rw [pointwise_length g glen hu r (column j' xs) (column_shape r m j' xs h) hpr,
        column_length r m j' hj'm xs h]
    have hcells : (g (cellsAt xs (j :: idx))).length = glen xs.length := by
      rw [hu]
      congr 1
      rw [← cellsAt_column]
      -- every element of the column has a cell at a valid index
      have hcs := column_shape r m j xs h
      have hcl := column_length r m j hjm xs h
      rw [← hcl]
      unfold cellsAt
      have : ∀ (ys : List (Arr α)), (∀ y ∈ ys, hasShape r y = true) →
          (ys.filterMap (fun x => get x idx)).length = ys.length := by
        intro ys hys
        induction ys with
        | nil => rfl
        | cons y ys ih =>
          have hy := hys y (by simp)
          have hsome : ∃ c, get y idx = some c := by
            have : ∀ (sh : List Nat) (a : Arr α) (idx : List Nat), hasShape sh a = true → Valid idx sh →
                ∃ c, get a idx = some c := by
              intro sh
              induction sh with
              | nil =>
                intro a idx ha hv
                cases idx with
                | nil => cases a with
                  | leaf c => exact ⟨c, rfl⟩
                  | node _ => simp [hasShape] at ha
                | cons _ _ => simp [Valid] at hv
              | cons n sh ih2 =>
                intro a idx ha hv
                cases idx with
                | nil => simp [Valid] at hv
                | cons t idx =>
                  cases a with
                  | leaf _ => simp [hasShape] at ha
                  | node zs =>
                    simp only [hasShape, Bool.and_eq_true, beq_iff_eq] at ha
                    obtain ⟨ht, hv2⟩ := hv
                    have htl : t < zs.length := by omega
                    simp only [get, List.getElem?_eq_getElem htl]
                    exact ih2 zs[t] idx (forall_of_hasShapeL sh zs ha.2 _ (List.getElem_mem htl)) hv2
            exact this r y idx hy hv'
          obtain ⟨c, hc⟩ := hsome
          simp only [List.filterMap_cons, hc, List.length_cons]
          rw [ih (fun z hz => hys z (by simp [hz]))]
      exact this _ hcs
    simp only [pointwise]
    rw [List.getElem?_map]
    have hL : (((List.range m).map (fun j' => pointwise g r (column j' xs))).headD []).length
        = glen xs.length := by
      have := hlen
      simp only [pointwise, List.length_map, List.length_range] at this
      exact this
    rw [hL]
    by_cases hi : i < glen xs.length
    · rw [List.getElem?_range hi]
      simp only [Option.map_some, Option.bind_some, get]
      rw [filterMap_getElem?_rows i (glen xs.length) hi _ j hcol]
      rw [List.getElem?_map, List.getElem?_range hjm]
      simp only [Option.map_some, Option.bind_some]
      have ih := pointwise_get g glen hu r (column j xs) idx i (column_shape r m j xs h) hpr hv'
      rw [cellsAt_column] at ih
      rw [← ih]
      cases (pointwise g r (column j xs))[i]? <;> rfl
    · have h1 : (List.range (glen xs.length))[i]? = none :=
        List.getElem?_eq_none (by simpa using Nat.le_of_not_lt hi)
      rw [h1]
      simp only [Option.map_none, Option.bind_none]
      symm
      exact List.getElem?_eq_none (by rw [hcells]; exact Nat.le_of_not_lt hi)

/-- the 1-D fiber of `a` along axis `k` (length `n`) through multi-index `idx` -/
def fiber (a : Arr α) (k n : Nat) (idx : List Nat) : List α :=
  (List.range n).filterMap (fun t => get a (idx.set k t))

theorem range_filterMap_getElem {β γ} (xs : List β) (f : β → Option γ) :
    (List.range xs.length).filterMap (fun t => (xs[t]?).bind f) = xs.filterMap f := by
  induction xs with
  | nil => rfl
  | cons x xs ih =>
    rw [List.length_cons, List.range_succ_eq_map, List.filterMap_cons]
    simp only [List.getElem?_cons_zero, Option.bind_some, List.filterMap_map, Function.comp_def,
      List.getElem?_cons_succ, List.filterMap_cons]
    rw [ih]

theorem get_node (xs : List (Arr α)) (i : Nat) (idx : List Nat) :
    get (node xs) (i :: idx) = (xs[i]?).bind (fun x => get x idx) := by
  simp only [get]; cases xs[i]? <;> rfl

/-- **apply along an axis, element-wise**: the element at `idx` of the result is element
`idx[k]` of `g` applied to the fiber of the source along axis `k` through `idx` -/
theorem mapFibers_get (g : List α → List α) (glen : Nat → Nat) (hu : Uniform g glen) :
    ∀ (sh : List Nat) (k : Nat) (a : Arr α) (idx : List Nat),
      hasShape sh a = true → AllPos sh → k < sh.length →
      Valid idx (sh.set k (glen (sh.getD k 0))) →
      get (mapFibers g sh k a) idx = (g (fiber a k (sh.getD k 0) idx))[idx.getD k 0]?
  | [], _, _, _, _, _, hk, _ => by simp at hk
  | n :: rest, _, leaf _, _, h, _, _, _ => by simp [hasShape] at h
  | n :: rest, 0, node xs, [], _, _, _, hv => by simp [Valid] at hv
  | n :: rest, 0, node xs, i :: idx, h, hp, _, hv => by
    simp only [hasShape, Bool.and_eq_true, beq_iff_eq] at h
    simp only [List.set_cons_zero, List.getD_cons_zero, Valid] at hv
    have hpr : AllPos rest := fun m hm => hp m (by simp [hm])
    have hxs := forall_of_hasShapeL rest xs h.2
    simp only [mapFibers, get_node, List.getD_cons_zero]
    rw [pointwise_get g glen hu rest xs idx i hxs hpr hv.2]
    congr 2
    unfold fiber cellsAt
    simp only [List.set_cons_zero, get_node]
    rw [← h.1]
    exact (range_filterMap_getElem xs (fun x => get x idx)).symm
  | n :: rest, k + 1, node xs, [], _, _, _, hv => by simp [Valid] at hv
  | n :: rest, k + 1, node xs, i :: idx, h, hp, hk, hv => by
    simp only [hasShape, Bool.and_eq_true, beq_iff_eq] at h
    simp only [List.set_cons_succ, List.getD_cons_succ, Valid] at hv
    have hpr : AllPos rest := fun m hm => hp m (by simp [hm])
    have hil : i < xs.length := by rw [h.1]; exact hv.1
    have hxi := forall_of_hasShapeL rest xs h.2 xs[i] (List.getElem_mem hil)
    simp only [mapFibers, get_node, List.getElem?_map, List.getElem?_eq_getElem hil, Option.map_some,
      Option.bind_some, List.getD_cons_succ]
    rw [mapFibers_get g glen hu rest k xs[i] idx hxi hpr (by simpa using hk) hv.2]
    congr 2
    unfold fiber
    simp only [List.set_cons_succ, get_node, List.getElem?_eq_getElem hil, Option.bind_some]

/-! ### shape of the result -/

/-- every sub-array `pointwise` produces has the shape of the inputs -/
theorem pointwise_shape (g : List α → List α) (glen : Nat → Nat) (hu : Uniform g glen) :
    ∀ (sh : List Nat) (xs : List (Arr α)), (∀ x ∈ xs, hasShape sh x = true) → AllPos sh →
      ∀ y ∈ pointwise g sh xs, hasShape sh y = true
  | [], xs, _, _ => by
    intro y hy
    simp only [pointwise, List.mem_map] at hy
    obtain ⟨c, _, rfl⟩ := hy
    rfl
  | m :: r, xs, h, hp => by
    intro y hy
    have hm : 0 < m := hp m (by simp)
    have hpr : AllPos r := fun n hn => hp n (by simp [hn])
    simp only [pointwise, List.mem_map, List.mem_range] at hy
    obtain ⟨i, hi, rfl⟩ := hy
    -- all the per-position results have the same length
    have hlen : ∀ j, j < m → (pointwise g r (column j xs)).length = glen xs.length := by
      intro j hj
      rw [pointwise_length g glen hu r (column j xs) (column_shape r m j xs h) hpr, column_length r m j hj xs h]
    have hhead : ((List.range m).map (fun j => pointwise g r (column j xs))).headD [] = pointwise g r (column 0 xs) := by
      cases m with
      | zero => omega
      | succ m => simp [List.range_succ_eq_map]
    rw [hhead, hlen 0 hm] at hi
    simp only [hasShape, Bool.and_eq_true, beq_iff_eq]
    constructor
    · -- one element per position of the next axis
      rw [List.filterMap_map]
      have : ∀ (l : List Nat), (∀ j ∈ l, j < m) →
          (l.filterMap ((fun r' : List (Arr α) => r'[i]?) ∘ fun j => pointwise g r (column j xs))).length = l.length := by
        intro l
        induction l with
        | nil => intro _; rfl
        | cons j l ih =>
          intro hl
          have hj := hl j (by simp)
          have hij : i < (pointwise g r (column j xs)).length := by rw [hlen j hj]; exact hi
          simp only [List.filterMap_cons, Function.comp, List.getElem?_eq_getElem hij, List.length_cons]
          rw [← ih (fun k hk => hl k (by simp [hk]))]
      rw [this (List.range m) (fun j hj => List.mem_range.mp hj), List.length_range]
    · apply hasShapeL_of_forall
      intro z hz
      obtain ⟨rr, hrr, hz'⟩ := List.mem_filterMap.mp hz
      obtain ⟨j, hj, rfl⟩ := List.mem_map.mp hrr
      exact pointwise_shape g glen hu r (column j xs) (column_shape r m j xs h) hpr z (List.mem_of_getElem? hz')

/-- **shape of `mapFibers`**: the axis the function runs along takes the function's output length, every other
axis keeps its length -/
theorem mapFibers_hasShape (g : List α → List α) (glen : Nat → Nat) (hu : Uniform g glen) :
    ∀ (sh : List Nat) (k : Nat) (a : Arr α), hasShape sh a = true → AllPos sh → k < sh.length →
      hasShape (sh.set k (glen (sh.getD k 0))) (mapFibers g sh k a) = true
  | [], k, _, _, _, hk => by simp at hk
  | n :: rest, 0, leaf c, h, _, _ => by simp [hasShape] at h
  | n :: rest, k + 1, leaf c, h, _, _ => by simp [hasShape] at h
  | n :: rest, 0, node xs, h, hp, _ => by
    simp only [hasShape, Bool.and_eq_true, beq_iff_eq] at h
    have hall := forall_of_hasShapeL rest xs h.2
    have hpr : AllPos rest := fun m hm => hp m (by simp [hm])
    simp only [mapFibers, List.set_cons_zero, List.getD_cons_zero, hasShape, Bool.and_eq_true, beq_iff_eq]
    refine ⟨?_, ?_⟩
    · rw [pointwise_length g glen hu rest xs hall hpr, h.1]
    · exact hasShapeL_of_forall rest _ (pointwise_shape g glen hu rest xs hall hpr)
  | n :: rest, k + 1, node xs, h, hp, hk => by
    simp only [hasShape, Bool.and_eq_true, beq_iff_eq] at h
    have hall := forall_of_hasShapeL rest xs h.2
    have hpr : AllPos rest := fun m hm => hp m (by simp [hm])
    have hk' : k < rest.length := by simpa using hk
    simp only [mapFibers, List.set_cons_succ, List.getD_cons_succ, hasShape, Bool.and_eq_true, beq_iff_eq,
      List.length_map]
    refine ⟨h.1, ?_⟩
    apply hasShapeL_of_forall
    intro y hy
    obtain ⟨x, hx, rfl⟩ := List.mem_map.mp hy
    exact mapFibers_hasShape g glen hu rest k x (hall x hx) hpr hk'

end Arr
