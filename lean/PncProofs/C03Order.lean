import PncProofs.C03
import Mathlib.Order.Basic
import Mathlib.Algebra.Order.Ring.Rat
import Mathlib.Tactic.Ring

/-!
# C03 — "the result does not depend on the order in which dimensions are named"

Two statements. `apply_kwperm`: one call with the same dimension → function pairs in any keyword order answers the same, for
every function (the axes of a variable are processed in the order of its dimension tuple). `reduce_commute`: for `sum`,
`min` and `max` reducing along one axis and then another equals reducing in the other order (a double fold of a
commutative operation), for any rank, any two axes, masked cells included.
-/
open PFile Arr
namespace Props.C03


/-- under distinct keys a keyword list is looked up by membership -/
theorem find?_key_of_mem {β} : ∀ (l : List (String × β)), (l.map (·.1)).Nodup → ∀ p ∈ l, l.find? (·.1 == p.1) = some p
  | [], _, _, hp => by cases hp
  | q :: l, hn, p, hp => by
    simp only [List.map_cons, List.nodup_cons] at hn
    rw [List.find?_cons]
    by_cases hq : (q.1 == p.1) = true
    · rw [hq]
      rcases List.mem_cons.mp hp with rfl | hm
      · rfl
      · exfalso
        apply hn.1
        have : q.1 = p.1 := by simpa using hq
        rw [this]
        exact List.mem_map.mpr ⟨p, hm, rfl⟩
    · have hq' : (q.1 == p.1) = false := by simpa using hq
      rw [hq']
      rcases List.mem_cons.mp hp with rfl | hm
      · simp at hq
      · exact find?_key_of_mem l hn.2 p hm

/-- **the order in which the dimensions are named does not matter (lookup).** -/
theorem fnOf_perm (fns fns' : List (String × Fn)) (hp : fns.Perm fns') (hn : (fns.map (·.1)).Nodup) (k : String) :
    fnOf fns k = fnOf fns' k := by
  have hn' : (fns'.map (·.1)).Nodup := (hp.map _).nodup_iff.mp hn
  unfold fnOf
  cases h : fns.find? (·.1 == k) with
  | some p =>
    have hmem := List.mem_of_find?_eq_some h
    have hk : p.1 = k := by simpa using List.find?_some h
    have := find?_key_of_mem fns' hn' p (hp.mem_iff.mp hmem)
    rw [hk] at this
    rw [this]
  | none =>
    have hall : ∀ p ∈ fns', ¬ ((p.1 == k) = true) := by
      intro p hp'
      exact (List.find?_eq_none.mp h) p (hp.mem_iff.mpr hp')
    rw [List.find?_eq_none.mpr hall]

theorem applyVar_congr (f : File) (fns fns' : List (String × Fn)) (h : ∀ k, fnOf fns k = fnOf fns' k) (v : Var) :
    applyVar f fns v = applyVar f fns' v := by
  have ha : applyAxis fns v.dims = applyAxis fns' v.dims := by
    funext acc ax
    unfold applyAxis
    rw [h]
  unfold applyVar
  simp only [ha, h]

/-- **C03 (the order of naming).** `applyAlongDimensions(**{d₁: f₁, …})` with the same dimension → function pairs given
in any order (distinct dimension names, as the keys of a dictionary are) answers the same: the same error, or the same
file. This holds for every function, commuting or not, because the axes of a variable are processed in the order of its
dimension tuple (last to first), never in the order of the keywords. -/
theorem apply_kwperm (f : File) (fns fns' : List (String × Fn)) (hp : fns.Perm fns') (hn : (fns.map (·.1)).Nodup) :
    applyFile f fns = applyFile f fns' := by
  have h := fnOf_perm fns fns' hp hn
  unfold applyFile
  rw [hp.any_eq, hp.any_eq, hp.any_eq]
  have hv : f.vars.map (applyVar f fns) = f.vars.map (applyVar f fns') :=
    List.map_congr_left (fun v _ => applyVar_congr f fns fns' h v)
  simp only [hv, h]


/-! ## two reductions in either order -/


/-! ### reducers as folds of a commutative operation with identity `none` (a masked cell) -/

/-- fold of a cell operation over a list, from the identity `none` -/
def foldC (op : Cell → Cell → Cell) (l : List Cell) : Cell := l.foldr op none

/-- what makes the double fold independent of the order: associative, commutative, `none` neutral -/
structure CommOp (op : Cell → Cell → Cell) : Prop where
  assoc : ∀ a b c, op (op a b) c = op a (op b c)
  comm : ∀ a b, op a b = op b a
  none_left : ∀ a, op none a = a

theorem foldC_map_op {β} (op : Cell → Cell → Cell) (h : CommOp op) (f g : β → Cell) : ∀ (l : List β),
    foldC op (l.map (fun s => op (f s) (g s))) = op (foldC op (l.map f)) (foldC op (l.map g))
  | [] => by simp [foldC, h.none_left]
  | s :: l => by
    have ih := foldC_map_op op h f g l
    simp only [foldC, List.map_cons, List.foldr_cons] at ih ⊢
    rw [ih]
    -- (f s ∘ g s) ∘ (F ∘ G) = (f s ∘ F) ∘ (g s ∘ G)
    rw [h.assoc, h.assoc]
    congr 1
    rw [← h.assoc, ← h.assoc, h.comm (g s)]

theorem foldC_map_none {β} (op : Cell → Cell → Cell) (h : CommOp op) : ∀ (l : List β), foldC op (l.map (fun _ => none)) = none
  | [] => rfl
  | _ :: l => by
    have ih := foldC_map_none op h l
    simp only [foldC, List.map_cons, List.foldr_cons] at ih ⊢
    rw [ih, h.none_left]

/-- **the double fold does not depend on the order of the two folds** -/
theorem foldC_swap {β γ} (op : Cell → Cell → Cell) (h : CommOp op) (M : β → γ → Cell) (S : List γ) : ∀ (T : List β),
    foldC op (T.map (fun t => foldC op (S.map (M t)))) = foldC op (S.map (fun s => foldC op (T.map (fun t => M t s))))
  | [] => by
    simp only [List.map_nil]
    exact (foldC_map_none op h S).symm
  | t :: T => by
    have ih := foldC_swap op h M S T
    have hA := foldC_map_op op h (M t) (fun s => foldC op (T.map (fun t => M t s))) S
    simp only [foldC, List.map_cons, List.foldr_cons] at ih hA ⊢
    rw [ih, ← hA]

/-! ### sum, min and max are such folds (on non-empty lists) -/

def addC : Cell → Cell → Cell
  | none, b => b
  | a, none => a
  | some x, some y => some (x + y)

def minC : Cell → Cell → Cell
  | none, b => b
  | a, none => a
  | some x, some y => some (if y < x then y else x)

def maxC : Cell → Cell → Cell
  | none, b => b
  | a, none => a
  | some x, some y => some (if y > x then y else x)

theorem addC_comm : CommOp addC := by
  refine ⟨?_, ?_, ?_⟩
  · intro a b c
    cases a <;> cases b <;> cases c <;> simp [addC, add_assoc]
  · intro a b
    cases a <;> cases b <;> simp [addC, add_comm]
  · intro a
    cases a <;> rfl

theorem if_lt_eq_min (x y : ℚ) : (if y < x then y else x) = min x y := by
  rcases lt_or_ge y x with h | h
  · rw [if_pos h, min_eq_right (le_of_lt h)]
  · rw [if_neg (not_lt.mpr h), min_eq_left h]

theorem if_gt_eq_max (x y : ℚ) : (if y > x then y else x) = max x y := by
  rcases lt_or_ge x y with h | h
  · rw [if_pos h, max_eq_right (le_of_lt h)]
  · rw [if_neg (not_lt.mpr h), max_eq_left h]

theorem minC_comm : CommOp minC := by
  refine ⟨?_, ?_, ?_⟩
  · intro a b c
    cases a <;> cases b <;> cases c <;> simp only [minC, if_lt_eq_min, min_assoc]
  · intro a b
    cases a <;> cases b <;> simp only [minC, if_lt_eq_min, min_comm]
  · intro a
    cases a <;> rfl

theorem maxC_comm : CommOp maxC := by
  refine ⟨?_, ?_, ?_⟩
  · intro a b c
    cases a <;> cases b <;> cases c <;> simp only [maxC, if_gt_eq_max, max_assoc]
  · intro a b
    cases a <;> cases b <;> simp only [maxC, if_gt_eq_max, max_comm]
  · intro a
    cases a <;> rfl

theorem rsum_foldl (u : List ℚ) (acc : ℚ) : u.foldl (· + ·) acc = acc + rsum u := by
  unfold rsum
  induction u generalizing acc with
  | nil => simp
  | cons x u ih =>
    simp only [List.foldl_cons]
    rw [ih (acc + x), ih (0 + x)]
    ring

theorem rsum_cons (x : ℚ) (u : List ℚ) : rsum (x :: u) = x + rsum u := by
  have := rsum_foldl u (0 + x)
  unfold rsum at this ⊢
  simp only [List.foldl_cons]
  rw [this]
  ring

theorem unmasked_none (l : List Cell) : unmasked (none :: l) = unmasked l := rfl
theorem unmasked_some (x : ℚ) (l : List Cell) : unmasked (some x :: l) = x :: unmasked l := rfl

theorem foldC_add (l : List Cell) :
    foldC addC l = if (unmasked l).isEmpty then none else some (rsum (unmasked l)) := by
  induction l with
  | nil => rfl
  | cons c l ih =>
    unfold foldC at ih ⊢
    rw [List.foldr_cons, ih]
    cases c with
    | none =>
      rw [unmasked_none]
      cases h : (unmasked l).isEmpty <;> simp [addC]
    | some x =>
      rw [unmasked_some]
      cases h : (unmasked l).isEmpty
      · simp [addC, rsum_cons]
      · have : unmasked l = [] := by simpa using h
        simp [addC, this, rsum]

/-- `sum` along a fibre (masked cells excluded, an all-masked fibre masked) is the fold of `addC` -/
theorem sum_apply_eq (l : List Cell) (hl : l ≠ []) : Fn.sum.apply l = [foldC addC l] := by
  rw [foldC_add]
  unfold Fn.apply
  simp only
  have : (!l.isEmpty) = true := by
    cases l with
    | nil => exact absurd rfl hl
    | cons _ _ => rfl
  cases h : (unmasked l).isEmpty <;> simp [this]

theorem minfn_eq : (fun (x y : ℚ) => if y < x then y else x) = fun x y => min x y := by
  funext x y
  exact if_lt_eq_min x y

theorem maxfn_eq : (fun (x y : ℚ) => if y > x then y else x) = fun x y => max x y := by
  funext x y
  exact if_gt_eq_max x y

theorem foldl_min_assoc (r : List ℚ) : ∀ (x a : ℚ),
    r.foldl (fun x y => min x y) (min x a) = min x (r.foldl (fun x y => min x y) a) := by
  induction r with
  | nil => intro x a; rfl
  | cons b r ih =>
    intro x a
    simp only [List.foldl_cons]
    rw [← ih x (min a b), min_assoc]

theorem foldl_max_assoc (r : List ℚ) : ∀ (x a : ℚ),
    r.foldl (fun x y => max x y) (max x a) = max x (r.foldl (fun x y => max x y) a) := by
  induction r with
  | nil => intro x a; rfl
  | cons b r ih =>
    intro x a
    simp only [List.foldl_cons]
    rw [← ih x (max a b), max_assoc]

theorem foldC_min (l : List Cell) :
    foldC minC l = (match unmasked l with
      | [] => none
      | a :: r => some (r.foldl (fun x y => if y < x then y else x) a)) := by
  induction l with
  | nil => rfl
  | cons c l ih =>
    unfold foldC at ih ⊢
    rw [List.foldr_cons, ih]
    cases c with
    | none =>
      rw [unmasked_none]
      cases unmasked l <;> rfl
    | some x =>
      rw [unmasked_some]
      cases h : unmasked l with
      | nil => rfl
      | cons a r =>
        simp only [minC, List.foldl_cons, minfn_eq, if_lt_eq_min]
        rw [foldl_min_assoc r x a]

theorem foldC_max (l : List Cell) :
    foldC maxC l = (match unmasked l with
      | [] => none
      | a :: r => some (r.foldl (fun x y => if y > x then y else x) a)) := by
  induction l with
  | nil => rfl
  | cons c l ih =>
    unfold foldC at ih ⊢
    rw [List.foldr_cons, ih]
    cases c with
    | none =>
      rw [unmasked_none]
      cases unmasked l <;> rfl
    | some x =>
      rw [unmasked_some]
      cases h : unmasked l with
      | nil => rfl
      | cons a r =>
        simp only [maxC, List.foldl_cons, maxfn_eq, if_gt_eq_max]
        rw [foldl_max_assoc r x a]

theorem min_apply_eq (l : List Cell) : Fn.min.apply l = [foldC minC l] := by
  rw [foldC_min]
  unfold Fn.apply
  simp only
  cases unmasked l <;> rfl

theorem max_apply_eq (l : List Cell) : Fn.max.apply l = [foldC maxC l] := by
  rw [foldC_max]
  unfold Fn.apply
  simp only
  cases unmasked l <;> rfl

/-! ### arrays: cells at valid indices, extensionality -/

theorem get_some_of_valid {α} : ∀ (sh : List Nat) (a : Arr α) (idx : List Nat), hasShape sh a = true → Valid idx sh →
    ∃ c, get a idx = some c
  | [], .leaf c, [], _, _ => ⟨c, rfl⟩
  | [], .leaf _, _ :: _, _, hv => by simp [Valid] at hv
  | [], .node _, _, h, _ => by simp [hasShape] at h
  | _ :: _, .leaf _, _, h, _ => by simp [hasShape] at h
  | _ :: _, .node _, [], _, hv => by simp [Valid] at hv
  | n :: rest, .node xs, i :: idx, h, hv => by
    simp only [hasShape, Bool.and_eq_true, beq_iff_eq] at h
    simp only [Valid] at hv
    have hil : i < xs.length := by rw [h.1]; exact hv.1
    have hx := forall_of_hasShapeL rest xs h.2 xs[i] (List.getElem_mem hil)
    obtain ⟨c, hc⟩ := get_some_of_valid rest xs[i] idx hx hv.2
    refine ⟨c, ?_⟩
    rw [get_node, List.getElem?_eq_getElem hil]
    exact hc

/-- two arrays of one shape with the same cell at every valid index are equal -/
theorem ext_get {α} : ∀ (sh : List Nat) (a b : Arr α), hasShape sh a = true → hasShape sh b = true →
    (∀ idx, Valid idx sh → get a idx = get b idx) → a = b
  | [], .leaf x, .leaf y, _, _, h => by
    have h0 : some x = some y := h [] (by simp [Valid])
    rw [Option.some.inj h0]
  | [], .node _, _, ha, _, _ => by simp [hasShape] at ha
  | [], .leaf _, .node _, _, hb, _ => by simp [hasShape] at hb
  | _ :: _, .leaf _, _, ha, _, _ => by simp [hasShape] at ha
  | _ :: _, .node _, .leaf _, _, hb, _ => by simp [hasShape] at hb
  | n :: rest, .node xs, .node ys, ha, hb, h => by
    simp only [hasShape, Bool.and_eq_true, beq_iff_eq] at ha hb
    congr 1
    apply List.ext_getElem (by rw [ha.1, hb.1])
    intro i h1 h2
    have hx := forall_of_hasShapeL rest xs ha.2 xs[i] (List.getElem_mem h1)
    have hy := forall_of_hasShapeL rest ys hb.2 ys[i] (List.getElem_mem h2)
    apply ext_get rest xs[i] ys[i] hx hy
    intro idx hv
    have := h (i :: idx) (by simp only [Valid]; exact ⟨by rw [← ha.1]; exact h1, hv⟩)
    rw [get_node, get_node, List.getElem?_eq_getElem h1, List.getElem?_eq_getElem h2] at this
    exact this

/-! ### one reduction, cell by cell -/

theorem valid_length : ∀ (idx sh : List Nat), Valid idx sh → idx.length = sh.length
  | [], [], _ => rfl
  | [], _ :: _, h => by simp [Valid] at h
  | _ :: _, [], h => by simp [Valid] at h
  | _ :: idx, _ :: sh, h => by
    simp only [Valid] at h
    simp [valid_length idx sh h.2]

theorem valid_getD_lt : ∀ (idx sh : List Nat) (k : Nat), Valid idx sh → k < sh.length → idx.getD k 0 < sh.getD k 0
  | [], [], _, _, hk => by simp at hk
  | [], _ :: _, _, h, _ => by simp [Valid] at h
  | _ :: _, [], _, h, _ => by simp [Valid] at h
  | i :: idx, n :: sh, 0, h, _ => by
    simp only [Valid] at h
    simpa using h.1
  | i :: idx, n :: sh, k + 1, h, hk => by
    simp only [Valid] at h
    simpa using valid_getD_lt idx sh k h.2 (by simpa using hk)

/-- replacing the entry of a valid index at an axis whose length was changed by one inside the original length -/
theorem valid_set : ∀ (idx sh : List Nat) (k m t : Nat), Valid idx (sh.set k m) → k < sh.length → t < sh.getD k 0 →
    Valid (idx.set k t) sh
  | [], [], _, _, _, _, hk, _ => by simp at hk
  | [], _ :: _, k, _, _, h, _, _ => by cases k <;> simp [Valid] at h
  | _ :: _, [], _, _, _, _, hk, _ => by simp at hk
  | i :: idx, n :: sh, 0, m, t, h, _, ht => by
    simp only [List.set_cons_zero, Valid] at h ⊢
    exact ⟨by simpa using ht, h.2⟩
  | i :: idx, n :: sh, k + 1, m, t, h, hk, ht => by
    simp only [List.set_cons_succ, Valid] at h ⊢
    exact ⟨h.1, valid_set idx sh k m t h.2 (by simpa using hk) (by simpa using ht)⟩

/-- the cell at an index (a masked cell outside the array) -/
def cellAt (a : Arr Cell) (idx : List Nat) : Cell := (get a idx).getD none

theorem filterMap_eq_map_getD {β γ} (dflt : γ) (f : β → Option γ) : ∀ (l : List β), (∀ x ∈ l, ∃ c, f x = some c) →
    l.filterMap f = l.map (fun x => (f x).getD dflt)
  | [], _ => rfl
  | x :: l, h => by
    obtain ⟨c, hc⟩ := h x (by simp)
    rw [List.filterMap_cons, hc, List.map_cons, hc, filterMap_eq_map_getD dflt f l (fun y hy => h y (by simp [hy]))]
    rfl

/-- **a reduction along one axis, cell by cell**: for a function that answers the fold of `op` on non-empty fibres, the
cell of the result at a valid index is the fold over the cells of the fibre through that index -/
theorem reduce_get (g : List Cell → List Cell) (op : Cell → Cell → Cell) (hu : Uniform g (fun _ => 1))
    (hg : ∀ l, l ≠ [] → g l = [foldC op l]) (sh : List Nat) (k : Nat) (a : Arr Cell) (idx : List Nat)
    (hs : hasShape sh a = true) (hp : AllPos sh) (hk : k < sh.length) (hv : Valid idx (sh.set k 1)) :
    get (mapFibers g sh k a) idx = some (foldC op ((List.range (sh.getD k 0)).map (fun t => cellAt a (idx.set k t)))) := by
  rw [mapFibers_get g (fun _ => 1) hu sh k a idx hs hp hk hv]
  have hk0 : idx.getD k 0 = 0 := by
    have := valid_getD_lt idx (sh.set k 1) k hv (by simpa using hk)
    have h1 : (sh.set k 1).getD k 0 = 1 := by simp [List.getD, List.getElem?_set_self hk]
    omega
  have hn : 0 < sh.getD k 0 := by
    apply hp
    rw [List.getD_eq_getElem?_getD, List.getElem?_eq_getElem hk]
    exact List.getElem_mem hk
  have hfib : fiber a k (sh.getD k 0) idx = (List.range (sh.getD k 0)).map (fun t => cellAt a (idx.set k t)) := by
    unfold fiber cellAt
    apply filterMap_eq_map_getD
    intro t ht
    exact get_some_of_valid sh a _ hs (valid_set idx sh k 1 t hv hk (by simpa using ht))
  rw [hfib, hk0, hg _ (by
    intro h
    have := congrArg List.length h
    simp only [List.length_map, List.length_range, List.length_nil] at this
    omega)]
  rfl

/-! ### two reductions commute -/

theorem allPos_set (sh : List Nat) (k m : Nat) (hp : AllPos sh) (hm : 0 < m) : AllPos (sh.set k m) := by
  intro n hn
  rcases List.mem_or_eq_of_mem_set hn with h | h
  · exact hp n h
  · rw [h]; exact hm

theorem getD_set_ne (sh : List Nat) (i j m : Nat) (hij : i ≠ j) : (sh.set j m).getD i 0 = sh.getD i 0 := by
  simp only [List.getD_eq_getElem?_getD]
  rw [List.getElem?_set_ne (fun e => hij e.symm)]

/-- the cells of `reduce j` then `reduce i`, as a double fold over the cells of the array -/
theorem reduce_reduce_get (g : List Cell → List Cell) (op : Cell → Cell → Cell) (hu : Uniform g (fun _ => 1))
    (hg : ∀ l, l ≠ [] → g l = [foldC op l]) (sh : List Nat) (i j : Nat) (a : Arr Cell) (idx : List Nat)
    (hs : hasShape sh a = true) (hp : AllPos sh) (hi : i < sh.length) (hj : j < sh.length) (hij : i ≠ j)
    (hv : Valid idx ((sh.set j 1).set i 1)) :
    get (mapFibers g (sh.set j 1) i (mapFibers g sh j a)) idx =
      some (foldC op ((List.range (sh.getD i 0)).map (fun t =>
        foldC op ((List.range (sh.getD j 0)).map (fun s => cellAt a ((idx.set i t).set j s)))))) := by
  have hsb : hasShape (sh.set j 1) (mapFibers g sh j a) = true := mapFibers_hasShape g (fun _ => 1) hu sh j a hs hp hj
  have hpb : AllPos (sh.set j 1) := allPos_set sh j 1 hp (by omega)
  have hib : i < (sh.set j 1).length := by simpa using hi
  rw [reduce_get g op hu hg (sh.set j 1) i _ idx hsb hpb hib hv, getD_set_ne sh i j 1 hij]
  congr 2
  apply List.map_congr_left
  intro t ht
  have hvt : Valid (idx.set i t) (sh.set j 1) :=
    valid_set idx (sh.set j 1) i 1 t hv hib (by rw [getD_set_ne sh i j 1 hij]; simpa using ht)
  unfold cellAt
  rw [reduce_get g op hu hg sh j a (idx.set i t) hs hp hj hvt]
  rfl

/-- **C03 (commuting reducers).** For `sum`, `min` and `max` — each excluding masked cells, an all-masked fibre giving a
masked cell —, any array of any rank without an empty axis and any two different axes `i`, `j`: reducing along `j` and then
along `i` gives the same array as reducing along `i` and then along `j`. (With `apply_kwperm`: whichever way the two
dimensions are named, in one call or in two, the result is one and the same.) -/
theorem reduce_commute_of (g : List Cell → List Cell) (op : Cell → Cell → Cell) (hop : CommOp op) (hu : Uniform g (fun _ => 1))
    (hg : ∀ l, l ≠ [] → g l = [foldC op l]) (sh : List Nat) (i j : Nat) (a : Arr Cell)
    (hs : hasShape sh a = true) (hp : AllPos sh) (hi : i < sh.length) (hj : j < sh.length) (hij : i ≠ j) :
    mapFibers g (sh.set j 1) i (mapFibers g sh j a) = mapFibers g (sh.set i 1) j (mapFibers g sh i a) := by
  have hsL : hasShape ((sh.set j 1).set i 1) (mapFibers g (sh.set j 1) i (mapFibers g sh j a)) = true :=
    mapFibers_hasShape g (fun _ => 1) hu (sh.set j 1) i _ (mapFibers_hasShape g (fun _ => 1) hu sh j a hs hp hj)
      (allPos_set sh j 1 hp (by omega)) (by simpa using hi)
  have hsR : hasShape ((sh.set i 1).set j 1) (mapFibers g (sh.set i 1) j (mapFibers g sh i a)) = true :=
    mapFibers_hasShape g (fun _ => 1) hu (sh.set i 1) j _ (mapFibers_hasShape g (fun _ => 1) hu sh i a hs hp hi)
      (allPos_set sh i 1 hp (by omega)) (by simpa using hj)
  have hcomm : (sh.set i 1).set j 1 = (sh.set j 1).set i 1 := List.set_comm _ _ hij
  rw [hcomm] at hsR
  apply ext_get _ _ _ hsL hsR
  intro idx hv
  rw [reduce_reduce_get g op hu hg sh i j a idx hs hp hi hj hij hv,
    reduce_reduce_get g op hu hg sh j i a idx hs hp hj hi (fun e => hij e.symm) (by rw [hcomm]; exact hv)]
  congr 1
  rw [foldC_swap op hop (fun t s => cellAt a ((idx.set i t).set j s))]
  congr 1
  apply List.map_congr_left
  intro s _
  congr 1
  apply List.map_congr_left
  intro t _
  rw [List.set_comm _ _ hij]

theorem reduce_commute (fn : Fn) (hfn : fn = .sum ∨ fn = .min ∨ fn = .max) (sh : List Nat) (i j : Nat) (a : Arr Cell)
    (hs : hasShape sh a = true) (hp : AllPos sh) (hi : i < sh.length) (hj : j < sh.length) (hij : i ≠ j) :
    mapFibers fn.apply (sh.set j 1) i (mapFibers fn.apply sh j a) =
      mapFibers fn.apply (sh.set i 1) j (mapFibers fn.apply sh i a) := by
  rcases hfn with rfl | rfl | rfl
  · exact reduce_commute_of _ addC addC_comm (fn_uniform .sum) sum_apply_eq sh i j a hs hp hi hj hij
  · exact reduce_commute_of _ minC minC_comm (fn_uniform .min) (fun l _ => min_apply_eq l) sh i j a hs hp hi hj hij
  · exact reduce_commute_of _ maxC maxC_comm (fn_uniform .max) (fun l _ => max_apply_eq l) sh i j a hs hp hi hj hij

/-- non-vacuity, and the reason for "commuting": on a 2 × 2 array with one masked cell the two orders of `sum` agree
(the theorem) and the two orders of `mean` differ -/
example :
    let a : Arr Cell := .node [.node [.leaf (some 1), .leaf none], .node [.leaf (some 3), .leaf (some 5)]]
    hasShape [2, 2] a = true ∧
    flatten (mapFibers Fn.sum.apply [2, 1] 0 (mapFibers Fn.sum.apply [2, 2] 1 a)) = [some 9] ∧
    flatten (mapFibers Fn.sum.apply [1, 2] 1 (mapFibers Fn.sum.apply [2, 2] 0 a)) = [some 9] ∧
    flatten (mapFibers Fn.mean.apply [2, 1] 0 (mapFibers Fn.mean.apply [2, 2] 1 a)) ≠
      flatten (mapFibers Fn.mean.apply [1, 2] 1 (mapFibers Fn.mean.apply [2, 2] 0 a)) := by
  decide +kernel

end Props.C03
