import PncProofs.BoundaryLemmas

/-! prefixes of a lateral-boundary file: rejected, or the encoding of the leading time steps -/
namespace Boundary
open Words Slab

theorem getD_take {α} (l : List α) (n i : Nat) (d : α) (h : i < n) : (l.take n).getD i d = l.getD i d := by
  rw [List.getD_eq_getElem?_getD, List.getD_eq_getElem?_getD, List.getElem?_take, if_pos h]

/-- a file shorter than the smallest possible header region is rejected whatever it holds -/
theorem read_short (ws : List Word) (h : ws.length < 149) : read ws = none := by
  unfold read
  simp only
  split
  · rfl
  · rename_i hc
    split
    · rfl
    · rw [if_pos]
      simp only [hdrSizes, defSizes, framedLen]
      have hc' := Classical.not_not.mp hc
      obtain ⟨a1, _, a3, _, a5, _⟩ := hc'
      have a1' : @LE.le Nat _ 1 (ws.getD 72 0) := a1
      have a3' : @LE.le Nat _ 1 (ws.getD 86 0) := a3
      have a5' : @LE.le Nat _ 1 (ws.getD 87 0) := a5
      omega

/-- the leading `k` steps of the step region -/
theorem take_steps (sizes : List Nat) : ∀ (steps : List BStep) (k : Nat),
    (∀ s ∈ steps, (stepRecs s).map List.length = sizes) →
    (encodeRecs (steps.map stepRecs).flatten).take (k * framedLen sizes) =
      encodeRecs ((steps.take k).map stepRecs).flatten
  | [], k, _ => by simp [encodeRecs]
  | s :: rest, 0, _ => by simp [encodeRecs]
  | s :: rest, k + 1, h => by
    have hs := h s (by simp)
    have hl : (encodeRecs (stepRecs s)).length = framedLen sizes := by rw [← hs, framedLen_encode]
    simp only [List.map_cons, List.flatten_cons, encodeRecs_append, List.take_succ_cons]
    rw [Nat.succ_mul, Nat.add_comm, ← hl, List.take_length_add_append, hl,
      take_steps sizes rest k (fun x hx => h x (by simp [hx]))]

/-- **prefixes of a lateral-boundary file**: for every well-formed boundary file and every cut point (in words), the
reader either rejects the prefix, or the prefix is itself the complete encoding of the same headers and
definitions with the leading `k ≥ 1` time steps — which `read_encode` shows is then read as exactly those steps.
Nothing else is possible: no partial step, no step with other content. -/
theorem read_prefix (nspec nx ny nz : Nat) (f : BFile) (w : WFb nspec nx ny nz f) (n : Nat) :
    read ((encode f).take n) = none ∨
    ∃ k, 1 ≤ k ∧ k ≤ f.steps.length ∧ (encode f).take n = encode { f with steps := f.steps.take k } ∧
      read ((encode f).take n) = some { f with steps := f.steps.take k } := by
  have w0 := w
  obtain ⟨⟨h0, h1, h2, h3, hh, l0, l1, l2, l3, e0, e1, e2, e3, e4⟩, hcnt, hdefs, hne, hsteps⟩ := w
  obtain ⟨hd, df, st⟩ := f
  simp only at hh hdefs hne hsteps
  subst hh
  have henc : encode ⟨[h0, h1, h2, h3], df, st⟩ =
      encodeRecs [h0, h1, h2, h3] ++ (encodeRecs df ++ encodeRecs (st.map stepRecs).flatten) := by
    simp only [encode, records_eq, encodeRecs_append, List.append_assoc]
  have hexp : encodeRecs [h0, h1, h2, h3] ++ (encodeRecs df ++ encodeRecs (st.map stepRecs).flatten) =
      frame h0 ++ (frame h1 ++ (frame h2 ++ (frame h3 ++ (encodeRecs df ++ encodeRecs (st.map stepRecs).flatten)))) := by
    simp [encodeRecs]
  have hsz : [h0, h1, h2, h3].map List.length = hdrSizes nspec := by simp [hdrSizes, l0, l1, l2, l3]
  have g72 : (encode ⟨[h0, h1, h2, h3], df, st⟩).getD 72 0 = nspec := by
    rw [henc, hexp, getD_frame_payload h0 _ 71 (by omega), e0]
  have gk : ∀ k, k < 15 → (encode ⟨[h0, h1, h2, h3], df, st⟩).getD (79 + k) 0 = h1.getD k 0 := by
    intro k hk
    rw [henc, hexp]
    have : 79 + k = h0.length + 2 + (k + 1) := by omega
    rw [this, getD_frame_skip, getD_frame_payload h1 _ k (by omega)]
  have hlenH : (encodeRecs [h0, h1, h2, h3]).length = framedLen (hdrSizes nspec) := by rw [← hsz, framedLen_encode]
  have hlenD : (encodeRecs df).length = framedLen (defSizes nx ny) := by rw [← hdefs, framedLen_encode]
  have hlenS := steps_length _ st hsteps
  have hpos := framedLen_pos nspec nx ny nz
  generalize hblock : framedLen (stepSizes nspec nx ny nz) = block at *
  generalize hoff : framedLen (hdrSizes nspec) + framedLen (defSizes nx ny) = off at *
  have hlen : (encode ⟨[h0, h1, h2, h3], df, st⟩).length = off + st.length * block := by
    rw [henc, List.length_append, List.length_append, hlenH, hlenD, hlenS]; omega
  have hoff149 : 149 ≤ off := by
    rw [← hoff]; simp only [hdrSizes, defSizes, framedLen]; omega
  have hst0 : 0 < st.length := List.length_pos_iff.mpr hne
  by_cases hn : n < off
  · -- inside the header region
    left
    by_cases h90 : n < 149
    · exact read_short _ (by rw [List.length_take]; omega)
    · unfold read
      simp only [getD_take _ n _ 0 (show 72 < n by omega), getD_take _ n _ 0 (show 86 < n by omega),
        getD_take _ n _ 0 (show 87 < n by omega), getD_take _ n _ 0 (show 88 < n by omega),
        getD_take _ n _ 0 (show 89 < n by omega), getD_take _ n _ 0 (show 80 < n by omega),
        g72, gk 7 (by omega), gk 8 (by omega), gk 9 (by omega), gk 10 (by omega), gk 1 (by omega),
        e1, e2, e3, e4, hcnt, and_self, not_true_eq_false, if_false, hoff]
      rw [if_pos (by rw [List.length_take]; omega)]
  · have hn' : off ≤ n := by omega
    by_cases hwhole : (n - off) % block = 0 ∧ 1 ≤ (n - off) / block
    · -- a whole number of steps
      right
      obtain ⟨hm, hk⟩ := hwhole
      generalize hkk : (n - off) / block = k at *
      have hnk : n = off + k * block := by
        have := Nat.div_add_mod (n - off) block
        rw [hm, hkk, Nat.mul_comm] at this; omega
      have htake : (encode ⟨[h0, h1, h2, h3], df, st⟩).take n = encode ⟨[h0, h1, h2, h3], df, st.take k⟩ := by
        have henc' : encode ⟨[h0, h1, h2, h3], df, st.take k⟩ =
            encodeRecs [h0, h1, h2, h3] ++ (encodeRecs df ++ encodeRecs ((st.take k).map stepRecs).flatten) := by
          simp only [encode, records_eq, encodeRecs_append, List.append_assoc]
        rw [henc, henc', hnk, ← hoff, ← hlenH, Nat.add_assoc, List.take_length_add_append, ← hlenD,
          List.take_length_add_append, ← hblock, take_steps _ st k hsteps]
      have hkmin : (st.take k).length = min k st.length := List.length_take
      refine ⟨min k st.length, by omega, Nat.min_le_right _ _, ?_, ?_⟩
      · rw [htake]
        have : st.take (min k st.length) = st.take k := by
          rcases Nat.le_total k st.length with h | h
          · rw [Nat.min_eq_left h]
          · rw [Nat.min_eq_right h, List.take_of_length_le h, List.take_of_length_le (Nat.le_refl _)]
        rw [this]
      · rw [htake]
        have hst : st.take (min k st.length) = st.take k := by
          rcases Nat.le_total k st.length with h | h
          · rw [Nat.min_eq_left h]
          · rw [Nat.min_eq_right h, List.take_of_length_le h, List.take_of_length_le (Nat.le_refl _)]
        rw [hst]
        refine read_encode nspec nx ny nz _ ⟨⟨h0, h1, h2, h3, rfl, l0, l1, l2, l3, e0, e1, e2, e3, e4⟩, hcnt, hdefs, ?_, ?_⟩
        · intro hnil
          have hnil' : st.take k = [] := hnil
          have : (st.take k).length = 0 := by rw [hnil']; rfl
          omega
        · intro s hs
          exact hsteps s (List.mem_of_mem_take hs)
    · -- not a whole number of steps (or none): rejected, unless the cut is behind the end of the file
      by_cases hend : (encode ⟨[h0, h1, h2, h3], df, st⟩).length ≤ n
      · right
        refine ⟨st.length, by omega, Nat.le_refl _, ?_, ?_⟩
        · rw [List.take_of_length_le hend, List.take_of_length_le (Nat.le_refl _)]
        · rw [List.take_of_length_le hend, List.take_of_length_le (Nat.le_refl _)]
          exact read_encode nspec nx ny nz _ w0
      · left
        have hlt : n < off + st.length * block := by omega
        unfold read
        simp only [getD_take _ n _ 0 (show 72 < n by omega), getD_take _ n _ 0 (show 86 < n by omega),
          getD_take _ n _ 0 (show 87 < n by omega), getD_take _ n _ 0 (show 88 < n by omega),
          getD_take _ n _ 0 (show 89 < n by omega), getD_take _ n _ 0 (show 80 < n by omega),
          g72, gk 7 (by omega), gk 8 (by omega), gk 9 (by omega), gk 10 (by omega), gk 1 (by omega),
          e1, e2, e3, e4, hcnt, and_self, not_true_eq_false, if_false, hoff, hblock]
        have hl : ((encode ⟨[h0, h1, h2, h3], df, st⟩).take n).length = n := by
          rw [List.length_take, hlen]; omega
        rw [hl, if_neg (by omega)]
        split
        · rfl
        · rw [if_pos]
          by_cases hmod : (n - off) % block = 0
          · right
            have : ¬ 1 ≤ (n - off) / block := fun h => hwhole ⟨hmod, h⟩
            exact Nat.lt_one_iff.mp (Nat.not_le.mp this)
          · left; exact hmod

end Boundary
