import PncModel.Camx.WindRead
import PncProofs.SlabLemmas

/-! the memory-mapped wind reader undoes the encoder -/
namespace Wind
open Words Slab

/-- the words of one time step -/
def stepWords (s : WStep) : List Word := encodeRecs (stepRecords s)

theorem encodeRecs_cons' (p : List Word) (ps : List (List Word)) : encodeRecs (p :: ps) = frame p ++ encodeRecs ps := by
  simp [encodeRecs]

theorem encodeRecs_append' (a b : List (List Word)) : encodeRecs (a ++ b) = encodeRecs a ++ encodeRecs b := by
  simp [encodeRecs]

theorem encodeRecs_eq_flatten (ps : List (List Word)) : encodeRecs ps = (ps.map frame).flatten := rfl

theorem encode_cons (s : WStep) (rest : List WStep) : encode (s :: rest) = stepWords s ++ encode rest := by
  simp [encode, records, stepWords, encodeRecs_append']

theorem stepWords_eq (s : WStep) :
    stepWords s = frame (header s) ++ ((s.slabs.map frame).flatten ++ frame [0]) := by
  simp [stepWords, stepRecords, encodeRecs_cons', encodeRecs_append', encodeRecs_eq_flatten, encodeRecs]

/-- what a file must satisfy for the reader: at least one step, every step with `2 nz` slabs of `cells` words and a
header of `h` words; grids of at least two cells (a one-cell data record has the size of the closing record) -/
structure WFw (cells nz h : Nat) (steps : List WStep) : Prop where
  nonempty : steps ≠ []
  cells2 : 2 ≤ cells
  nz1 : 1 ≤ nz
  hdr : h = 2 ∨ h = 3
  shape : ∀ s ∈ steps, s.slabs.length = 2 * nz ∧ (∀ c ∈ s.slabs, c.length = cells) ∧ (header s).length = h

theorem frames_length (cells : Nat) : ∀ (rows : List (List Word)), (∀ c ∈ rows, c.length = cells) →
    ((rows.map frame).flatten).length = (cells + 2) * rows.length
  | [], _ => by simp
  | c :: rest, h => by
    have hc := h c (by simp)
    simp only [List.map_cons, List.flatten_cons, List.length_append, frame_length, hc, List.length_cons,
      frames_length cells rest (fun x hx => h x (by simp [hx]))]
    rw [Nat.mul_succ]; omega

theorem stepWords_length (cells nz h : Nat) (s : WStep) (hs : s.slabs.length = 2 * nz)
    (hc : ∀ c ∈ s.slabs, c.length = cells) (hh : (header s).length = h) :
    (stepWords s).length = (h + 2) + (cells + 2) * (2 * nz) + 3 := by
  rw [stepWords_eq]
  simp only [List.length_append, frame_length, hh, frames_length cells s.slabs hc, hs, List.length_cons, List.length_nil]
  omega

/-- counting the data records of the first step -/
theorem countData_frames (cells : Nat) (hc2 : 2 ≤ cells) (more : List Word) :
    ∀ (rows : List (List Word)) (n fuel : Nat), (∀ c ∈ rows, c.length = cells) → rows.length + 1 ≤ fuel →
      countData (4 * cells) fuel ((rows.map frame).flatten ++ (frame [0] ++ more)) n = some (n + rows.length)
  | [], n, fuel, _, hf => by
    obtain ⟨fuel, rfl⟩ : ∃ k, fuel = k + 1 := ⟨fuel - 1, by simp at hf; omega⟩
    have hne : ¬ ((4 : Nat) * 1 = 4 * cells) := by omega
    simp [countData, frame, hne]
  | c :: rest, n, fuel, h, hf => by
    obtain ⟨fuel, rfl⟩ : ∃ k, fuel = k + 1 := ⟨fuel - 1, by simp at hf; omega⟩
    have hc := h c (by simp)
    have hdrop : ((frame c ++ (rest.map frame).flatten) ++ (frame [0] ++ more)).drop (4 * cells / 4 + 2) =
        (rest.map frame).flatten ++ (frame [0] ++ more) := by
      rw [Nat.mul_div_cancel_left _ (show 0 < 4 by omega), List.append_assoc]
      have : (frame c).length = cells + 2 := by rw [frame_length, hc]
      rw [← this, List.drop_left]
    unfold countData
    simp only [List.map_cons, List.flatten_cons]
    have hhead : ((frame c ++ (rest.map frame).flatten) ++ (frame [0] ++ more)).headD 0 = 4 * cells := by
      simp [frame, hc]
    have hne : ((frame c ++ (rest.map frame).flatten) ++ (frame [0] ++ more)).isEmpty = false := by simp [frame]
    rw [hne, hhead]
    simp only [Bool.false_eq_true, if_false, if_true]
    rw [hdrop, countData_frames cells hc2 more rest (n + 1) fuel (fun x hx => h x (by simp [hx])) (by
      simp only [List.length_cons] at hf; omega)]
    simp only [List.length_cons]
    congr 1; omega

theorem dataRow_frame (c : List Word) : dataRow (frame c) = some c := by
  unfold dataRow
  rw [if_pos (frame_markers c)]
  simp [frame]

theorem mapM_dataRow (rows : List (List Word)) : (rows.map frame).mapM dataRow = some rows := by
  induction rows with
  | nil => rfl
  | cons c rest ih => simp only [List.map_cons, List.mapM_cons, dataRow_frame, ih]; rfl

/-- cutting one encoded step at the fixed positions gives the step back -/
theorem parseStep_stepWords (cells nz h : Nat) (s : WStep) (hs : s.slabs.length = 2 * nz)
    (hc : ∀ c ∈ s.slabs, c.length = cells) (hh : (header s).length = h) (h23 : h = 2 ∨ h = 3) :
    parseStep h cells nz (stepWords s) = some s := by
  unfold parseStep
  rw [stepWords_eq]
  have hfl : (frame (header s)).length = h + 2 := by rw [frame_length, hh]
  have htake : (frame (header s) ++ ((s.slabs.map frame).flatten ++ frame [0])).take (h + 2) = frame (header s) := by
    rw [← hfl, List.take_left]
  have hdrop : (frame (header s) ++ ((s.slabs.map frame).flatten ++ frame [0])).drop (h + 2) =
      (s.slabs.map frame).flatten ++ frame [0] := by
    rw [← hfl, List.drop_left]
  have hbl : ((s.slabs.map frame).flatten).length = (cells + 2) * (2 * nz) := by
    rw [frames_length cells s.slabs hc, hs]
  have hblock : ((s.slabs.map frame).flatten ++ frame [0]).take ((cells + 2) * (2 * nz)) = (s.slabs.map frame).flatten := by
    rw [← hbl, List.take_left]
  simp only [htake, hdrop, hblock, hbl, ne_eq, not_true_eq_false, if_false]
  rw [chunk_flatten (cells + 2) (by omega) (s.slabs.map frame) _ (by
      intro p hp
      obtain ⟨c, hcm, rfl⟩ := List.mem_map.mp hp
      rw [frame_length, hc c hcm]) (by rw [hbl])]
  rw [mapM_dataRow]
  simp only [Option.some.injEq]
  obtain ⟨t, d, g, sl⟩ := s
  cases g with
  | none =>
    simp only [header] at hh
    have : h = 2 := by simpa using hh.symm
    subst this
    simp [header, frame]
  | some g =>
    simp only [header] at hh
    have : h = 3 := by simpa using hh.symm
    subst this
    simp [header, frame]

theorem readSteps_encode (cells nz h : Nat) (h23 : h = 2 ∨ h = 3) :
    ∀ (steps : List WStep), (∀ s ∈ steps, s.slabs.length = 2 * nz ∧ (∀ c ∈ s.slabs, c.length = cells) ∧ (header s).length = h) →
      readSteps h cells nz ((h + 2) + (cells + 2) * (2 * nz) + 3) steps.length (encode steps) = some steps
  | [], _ => rfl
  | s :: rest, hall => by
    obtain ⟨hs, hc, hh⟩ := hall s (by simp)
    have hl := stepWords_length cells nz h s hs hc hh
    simp only [List.length_cons, readSteps, encode_cons]
    have htake : (stepWords s ++ encode rest).take ((h + 2) + (cells + 2) * (2 * nz) + 3) = stepWords s := by
      rw [← hl, List.take_left]
    have hdrop : (stepWords s ++ encode rest).drop ((h + 2) + (cells + 2) * (2 * nz) + 3) = encode rest := by
      rw [← hl, List.drop_left]
    rw [htake, hdrop, parseStep_stepWords cells nz h s hs hc hh h23,
      readSteps_encode cells nz h h23 rest (fun x hx => hall x (by simp [hx]))]

theorem encode_length (cells nz h : Nat) : ∀ (steps : List WStep),
    (∀ s ∈ steps, s.slabs.length = 2 * nz ∧ (∀ c ∈ s.slabs, c.length = cells) ∧ (header s).length = h) →
    (encode steps).length = steps.length * ((h + 2) + (cells + 2) * (2 * nz) + 3)
  | [], _ => by simp [encode, records, encodeRecs]
  | s :: rest, hall => by
    obtain ⟨hs, hc, hh⟩ := hall s (by simp)
    have h1 := stepWords_length cells nz h s hs hc hh
    have h2 := encode_length cells nz h rest (fun x hx => hall x (by simp [hx]))
    rw [encode_cons, List.length_append, h1, h2, List.length_cons]
    generalize (h + 2) + (cells + 2) * (2 * nz) + 3 = W
    rw [Nat.succ_mul, Nat.add_comm]

/-- **the memory-mapped wind reader recovers the content**: for every well-formed wind file — any number of time
steps (one included), any number of layers, any grid of at least two cells, either header variant, any payload —
the reader given the grid size presents exactly the steps that were encoded: times, dates and the U, V slab of
every layer. -/
theorem read_encode (cells nz h : Nat) (steps : List WStep) (w : WFw cells nz h steps) :
    read cells (encode steps) = some steps := by
  obtain ⟨hne, hc2, hnz, h23, hall⟩ := w
  obtain ⟨s, rest, rfl⟩ : ∃ s rest, steps = s :: rest := by
    cases steps with
    | nil => exact absurd rfl hne
    | cons s rest => exact ⟨s, rest, rfl⟩
  obtain ⟨hs, hc, hh⟩ := hall s (by simp)
  have hfl : (frame (header s)).length = h + 2 := by rw [frame_length, hh]
  have henc : encode (s :: rest) = frame (header s) ++ ((s.slabs.map frame).flatten ++ (frame [0] ++ encode rest)) := by
    rw [encode_cons, stepWords_eq]; simp [List.append_assoc]
  have hhw : hdrWords (encode (s :: rest)) = some h := by
    rw [henc]
    unfold hdrWords
    rcases h23 with rfl | rfl
    · simp [frame, hh]
    · simp [frame, hh]
  have hrest : (encode (s :: rest)).drop (h + 2) = (s.slabs.map frame).flatten ++ (frame [0] ++ encode rest) := by
    rw [henc, ← hfl, List.drop_left]
  obtain ⟨c0, cs, hsl⟩ : ∃ c0 cs, s.slabs = c0 :: cs := by
    cases hsl : s.slabs with
    | nil => rw [hsl] at hs; simp at hs; omega
    | cons c cs => exact ⟨c, cs, rfl⟩
  have hc0 : c0.length = cells := hc c0 (by rw [hsl]; simp)
  have hhead : ((s.slabs.map frame).flatten ++ (frame [0] ++ encode rest)).headD 0 = 4 * cells := by
    rw [hsl]; simp [frame, hc0]
  have hcnt := countData_frames cells hc2 (encode rest) s.slabs 0
    ((s.slabs.map frame).flatten ++ (frame [0] ++ encode rest)).length hc (by
      simp only [List.length_append, frames_length cells s.slabs hc, frame_length, List.length_cons, List.length_nil]
      have : s.slabs.length ≤ (cells + 2) * s.slabs.length := Nat.le_mul_of_pos_left _ (by omega)
      omega)
  have hbl : ((s.slabs.map frame).flatten).length = 2 * nz * (cells + 2) := by
    rw [frames_length cells s.slabs hc, hs, Nat.mul_comm]
  have hdummy : (((s.slabs.map frame).flatten ++ (frame [0] ++ encode rest)).drop (2 * nz * (cells + 2))).headD 0 = 4 := by
    rw [← hbl, List.drop_left]; simp [frame]
  have hlen := encode_length cells nz h (s :: rest) hall
  unfold read
  simp only [hhw, hrest, hhead, ne_eq, not_true_eq_false, if_false, hcnt, Nat.zero_add, hs]
  have hnz' : (2 * nz + 1) / 2 = nz := by omega
  simp only [hnz', hdummy]
  have h3 : (4 + 8) / 4 = 3 := rfl
  rw [h3, hlen, Nat.mul_div_cancel _ (by omega)]
  rw [if_neg (by simp)]
  exact readSteps_encode cells nz h h23 (s :: rest) hall

end Wind
