import PncProofs.ArrLemmas
import PncModel.File
import PncProofs.NamesLemmas
import PncProofs.C01

/-!
# C06 — file arithmetic, eval and mask follow masked-array semantics: property theorems
-/
namespace Props.C06
open Arr PFile Props.C01

theorem zipCellsL_getElem? (g : Cell → Cell → Cell) : ∀ (xs ys : List (Arr Cell)) (i : Nat),
    xs.length = ys.length →
    (zipCellsL g xs ys)[i]? = match xs[i]?, ys[i]? with
      | some x, some y => some (zipCells g x y)
      | _, _ => none
  | [], [], i, _ => by simp [zipCellsL]
  | [], _ :: _, _, h => by simp at h
  | _ :: _, [], _, h => by simp at h
  | x :: xs, y :: ys, 0, _ => by simp [zipCellsL]
  | x :: xs, y :: ys, i + 1, h => by
    simp only [zipCellsL, List.getElem?_cons_succ]
    exact zipCellsL_getElem? g xs ys i (by simpa using h)

/-- **C06 (elementwise).** Every cell of the result of a cell-wise combination is the combination
of the operands' cells at the same multi-index — for two arrays of one shape, any rank. -/
theorem zip_get (g : Cell → Cell → Cell) : ∀ (sh : List Nat) (a b : Arr Cell) (idx : List Nat),
    hasShape sh a = true → hasShape sh b = true →
    Arr.get (zipCells g a b) idx = match Arr.get a idx, Arr.get b idx with
      | some x, some y => some (g x y)
      | _, _ => none
  | [], .leaf x, .leaf y, [], _, _ => by simp [zipCells, Arr.get]
  | [], .leaf x, .leaf y, _ :: _, _, _ => by simp [zipCells, Arr.get]
  | [], .node _, _, _, h, _ => by simp [hasShape] at h
  | [], .leaf _, .node _, _, _, h => by simp [hasShape] at h
  | _ :: _, .leaf _, _, _, h, _ => by simp [hasShape] at h
  | _ :: _, .node _, .leaf _, _, _, h => by simp [hasShape] at h
  | n :: sh, .node xs, .node ys, [], _, _ => by simp [zipCells, Arr.get]
  | n :: sh, .node xs, .node ys, i :: idx, ha, hb => by
    simp only [hasShape, Bool.and_eq_true, beq_iff_eq] at ha hb
    have hl : xs.length = ys.length := by omega
    simp only [zipCells, Arr.get]
    rw [zipCellsL_getElem? g xs ys i hl]
    cases hx : xs[i]? with
    | none => simp
    | some x =>
      cases hy : ys[i]? with
      | none => simp
      | some y =>
        simp only
        exact zip_get g sh x y idx (forall_of_hasShapeL sh xs ha.2 x (List.mem_of_getElem? hx))
          (forall_of_hasShapeL sh ys hb.2 y (List.mem_of_getElem? hy))

/-- **C06 (operator cell semantics).** A cell of `a op b` is masked iff an operand cell is masked or
the numpy result is not finite (division/modulo by zero, 0 to a negative power); otherwise it is
the exact arithmetic result. -/
theorem op_masked_operand (op : Op) (isInt dom : Bool) (b : Cell) :
    op.cell isInt none b dom = none ∧ ∀ a, op.cell isInt a none dom = none := by
  refine ⟨rfl, fun a => ?_⟩
  cases a <;> rfl

theorem op_add_mul (x y : ℚ) (isInt dom : Bool) :
    Op.add.cell isInt (some x) (some y) dom = some (x + y) ∧
    Op.sub.cell isInt (some x) (some y) dom = some (x - y) ∧
    Op.mul.cell isInt (some x) (some y) dom = some (x * y) := ⟨rfl, rfl, rfl⟩

theorem op_div_zero (x : ℚ) (isInt dom : Bool) : Op.div.cell isInt (some x) (some 0) dom = none := by
  simp [Op.cell]

theorem op_div (x y : ℚ) (hy : y ≠ 0) (isInt dom : Bool) :
    Op.div.cell isInt (some x) (some y) dom = some (x / y) := by
  simp [Op.cell, hy]

/-- **C06 (coordinate variables pass through).** -/
theorem coords_passthrough (op : Op) (f1 f2 : File) (coords : List String) (v : Var)
    (h : coords.contains v.name = true) : binopVar op f1 f2 coords v = v := by
  unfold binopVar
  rw [if_pos h]

/-- a variable missing in the right operand is copied from the left -/
theorem missing_right_copied (op : Op) (f1 f2 : File) (coords : List String) (v : Var)
    (h : f2.var? v.name = none) : binopVar op f1 f2 coords v = v := by
  unfold binopVar
  split
  · rfl
  · rw [h]

theorem maskHit_iff (m : MaskSpec) (w : Cell) (x : ℚ) :
    maskHit m w x = true ↔
      (w = some 1 ∨ w = some 2 ∨ (∃ g, m.greater = some g ∧ x > g) ∨ (∃ g, m.greaterEq = some g ∧ x ≥ g) ∨
       (∃ g, m.less = some g ∧ x < g) ∨ (∃ g, m.lessEq = some g ∧ x ≤ g) ∨ (∃ g, m.equal = some g ∧ g = x)) := by
  unfold maskHit
  cases m.greater <;> cases m.greaterEq <;> cases m.less <;> cases m.lessEq <;> cases m.equal <;>
    simp [or_assoc]

/-- **C06 (mask, exactness).** A cell is masked afterwards iff it was masked before or satisfies
one of the given predicates (or the `where` array is true or masked there); an unmasked cell keeps its value exactly. -/
theorem mask_exact (m : MaskSpec) (w : Cell) (x : ℚ) :
    (maskCell m w (some x) = none ↔
      (w = some 1 ∨ w = some 2 ∨ (∃ g, m.greater = some g ∧ x > g) ∨ (∃ g, m.greaterEq = some g ∧ x ≥ g) ∨
       (∃ g, m.less = some g ∧ x < g) ∨ (∃ g, m.lessEq = some g ∧ x ≤ g) ∨ (∃ g, m.equal = some g ∧ g = x))) ∧
    (∀ y, maskCell m w (some x) = some y → y = x) ∧ maskCell m w none = none := by
  refine ⟨?_, ?_, rfl⟩
  · rw [← maskHit_iff]
    unfold maskCell
    cases hh : maskHit m w x <;> simp [hh]
  · intro y h
    unfold maskCell at h
    cases hh : maskHit m w x
    · simp [hh] at h; exact h.symm
    · simp [hh] at h

/-- non-vacuity / a worked example: (masked, 3) // (2, 0) for masked integer operands -/
example : Op.floordiv.cell true none (some 2) true = none ∧
    Op.floordiv.cell true (some 3) (some 0) true = none ∧
    Op.floordiv.cell true (some 3) (some 0) false = some 0 ∧
    Op.floordiv.cell true (some (-7)) (some 2) false = some (-4) ∧
    Op.mod.cell true (some (-7)) (some 2) false = some 1 := by
  decide +kernel

/-- an index that lies inside a shape -/
def InShape : List Nat → List Nat → Prop
  | [], [] => True
  | i :: idx, n :: sh => i < n ∧ InShape idx sh
  | _, _ => False

/-- the cell of a tabulated array -/
theorem get_build {α} : ∀ (sh : List Nat) (f : List Nat → α) (idx : List Nat), InShape idx sh →
    Arr.get (Arr.build sh f) idx = some (f idx)
  | [], f, [], _ => rfl
  | [], _, _ :: _, h => by simp [InShape] at h
  | _ :: _, _, [], h => by simp [InShape] at h
  | n :: sh, f, i :: idx, h => by
    obtain ⟨hi, hrest⟩ := h
    simp only [Arr.build, Arr.get]
    rw [List.getElem?_map, List.getElem?_range hi]
    simp only [Option.map_some]
    exact get_build sh (fun idx => f (i :: idx)) idx hrest

/-- **C06 (a one-step / one-layer right operand).** The right operand stretched to the left shape has, at every index
of the left shape, the cell of the right operand at that index with the axes of length one read at 0 — its value or its
missing-ness, which `zipCells` then combines with the left cell like any other pair of cells. -/
theorem bcast_cell (sv sw : List Nat) (a : Arr Cell) (idx : List Nat) (h : InShape idx sv) :
    Arr.get (bcast sv sw a) idx =
      some ((Arr.get a (List.zipWith (fun i n => if n == 1 then 0 else i) idx sw)).getD (none : Cell)) := by
  unfold bcast
  exact get_build sv _ idx h

/-- a right operand of the same shape is taken as it is -/
theorem rightData_same (f1 f2 : File) (v w : Var) (h : f1.shapeOf v = f2.shapeOf w) :
    rightData f1 f2 v w = w.data := by
  unfold rightData
  simp [h]

/-- non-vacuity: a 2 x 3 left shape against a 1 x 3 right operand whose middle cell is missing -/
example : bcastOk [2, 3] [1, 3] = true ∧ bcastOk [1, 3] [2, 3] = false ∧
    Arr.get (bcast [2, 3] [1, 3] (.node [.node [.leaf (some 5), .leaf none, .leaf (some 7)]])) [1, 1] = some none ∧
    Arr.get (bcast [2, 3] [1, 3] (.node [.node [.leaf (some 5), .leaf none, .leaf (some 7)]])) [1, 2] = some (some 7) := by
  decide +kernel

/-! ## `eval`: the new variable is the expression evaluated cell by cell on the file's arrays -/

mutual
theorem mapCells_get {α} (g : α → α) : ∀ (a : Arr α) (idx : List Nat),
    Arr.get (mapCells g a) idx = (Arr.get a idx).map g
  | .leaf x, [] => by simp [mapCells, Arr.get]
  | .leaf x, _ :: _ => by simp [mapCells, Arr.get]
  | .node xs, [] => by simp [mapCells, Arr.get]
  | .node xs, i :: idx => by
    simp only [mapCells, Arr.get]
    rw [mapCellsL_getElem? g xs i]
    cases hx : xs[i]? with
    | none => simp
    | some x => simpa using mapCells_get g x idx
theorem mapCellsL_getElem? {α} (g : α → α) : ∀ (xs : List (Arr α)) (i : Nat),
    (mapCellsL g xs)[i]? = (xs[i]?).map (mapCells g)
  | [], i => by simp [mapCellsL]
  | x :: xs, 0 => by simp [mapCellsL]
  | x :: xs, i + 1 => by simpa [mapCellsL] using mapCellsL_getElem? g xs i
end

/-- an index inside the shape of an array names a cell -/
theorem get_some_of_inShape {α} : ∀ (sh : List Nat) (a : Arr α) (idx : List Nat), hasShape sh a = true → InShape idx sh →
    ∃ c, Arr.get a idx = some c
  | [], .leaf x, [], _, _ => ⟨x, rfl⟩
  | [], .leaf _, _ :: _, _, h => by simp [InShape] at h
  | [], .node _, _, h, _ => by simp [hasShape] at h
  | _ :: _, .leaf _, _, h, _ => by simp [hasShape] at h
  | _ :: _, .node _, [], _, h => by simp [InShape] at h
  | n :: sh, .node xs, i :: idx, ha, hi => by
    simp only [hasShape, Bool.and_eq_true, beq_iff_eq] at ha
    obtain ⟨hlt, hrest⟩ := hi
    have hx : i < xs.length := by omega
    simp only [Arr.get, List.getElem?_eq_getElem hx]
    exact get_some_of_inShape sh xs[i] idx (forall_of_hasShapeL sh xs ha.2 _ (List.getElem_mem hx)) hrest

/-- the specification: the value of an expression at one multi-index, from the cells of the file's variables at that
index (`none` when a name is not a variable of the file) -/
def cellSpec (f : File) (idx : List Nat) : Expr → Option Cell
  | .var n => (f.var? n).bind (fun v => Arr.get v.data idx)
  | .lit q => some (some q)
  | .neg a => (cellSpec f idx a).map (fun c => c.map (fun x => -x))
  | .mlt a q => (cellSpec f idx a).map (fun c => match c with
      | some x => if x < q then none else some x
      | none => none)
  | .minv a => cellSpec f idx a
  | .bin op a b => match cellSpec f idx a, cellSpec f idx b with
    | some x, some y => some (op.cell false x y)
    | _, _ => none

/-- **C06 (eval).** For an expression over variables of one shape, the array `eval` computes has that shape and, at every
index of the shape, the value obtained by combining the variables' cells at that index: operators act cell by cell with
masked-array semantics (`op_masked_operand`, `op_add_mul`, `op_div`, `op_div_zero`), a literal is itself everywhere,
`masked_less` masks the cells below the bound, nothing else is masked or changed. -/
theorem eval_pointwise (f : File) (sh : List Nat) (s : Arr Cell) (hs : hasShape sh s = true)
    (e : Expr) (hv : ∀ n ∈ e.vars, ∀ v, f.var? n = some v → hasShape sh v.data = true)
    (r : Arr Cell) (he : e.eval f s = some r) :
    hasShape sh r = true ∧ ∀ idx, InShape idx sh → some (Arr.get r idx) = (cellSpec f idx e).map some := by
  induction e generalizing r with
  | var n =>
    simp only [Expr.eval] at he
    cases hn : f.var? n with
    | none => rw [hn] at he; cases he
    | some v =>
      rw [hn] at he
      simp only [Option.map_some, Option.some.injEq] at he
      subst he
      have hsv := hv n (by simp [Expr.vars]) v hn
      refine ⟨hsv, fun idx hi => ?_⟩
      obtain ⟨c, hc⟩ := get_some_of_inShape sh v.data idx hsv hi
      simp [cellSpec, hn, hc]
  | lit q =>
    simp only [Expr.eval, Option.some.injEq] at he
    subst he
    refine ⟨mapCells_hasShape _ sh s hs, fun idx hi => ?_⟩
    obtain ⟨c, hc⟩ := get_some_of_inShape sh s idx hs hi
    simp [cellSpec, constLike, mapCells_get, hc]
  | neg a ih =>
    simp only [Expr.eval] at he
    cases ha : a.eval f s with
    | none => rw [ha] at he; cases he
    | some ra =>
      rw [ha] at he
      simp only [Option.map_some, Option.some.injEq] at he
      subst he
      obtain ⟨hsa, hga⟩ := ih (fun n hn => hv n (by simpa [Expr.vars] using hn)) ra ha
      refine ⟨mapCells_hasShape _ sh ra hsa, fun idx hi => ?_⟩
      have := hga idx hi
      obtain ⟨c, hc⟩ := get_some_of_inShape sh ra idx hsa hi
      rw [hc] at this
      cases hs' : cellSpec f idx a with
      | none => rw [hs'] at this; cases this
      | some c' =>
        rw [hs'] at this
        simp only [Option.map_some, Option.some.injEq] at this
        simp [cellSpec, mapCells_get, hc, hs', this]
  | mlt a q ih =>
    simp only [Expr.eval] at he
    cases ha : a.eval f s with
    | none => rw [ha] at he; cases he
    | some ra =>
      rw [ha] at he
      simp only [Option.map_some, Option.some.injEq] at he
      subst he
      obtain ⟨hsa, hga⟩ := ih (fun n hn => hv n (by simpa [Expr.vars] using hn)) ra ha
      refine ⟨mapCells_hasShape _ sh ra hsa, fun idx hi => ?_⟩
      have := hga idx hi
      obtain ⟨c, hc⟩ := get_some_of_inShape sh ra idx hsa hi
      rw [hc] at this
      cases hs' : cellSpec f idx a with
      | none => rw [hs'] at this; cases this
      | some c' =>
        rw [hs'] at this
        simp only [Option.map_some, Option.some.injEq] at this
        subst this
        simp only [cellSpec, mapCells_get, hc, hs', Option.map_some]
        cases c <;> rfl
  | minv a ih =>
    simp only [Expr.eval] at he
    obtain ⟨hsa, hga⟩ := ih (fun n hn => hv n (by simpa [Expr.vars] using hn)) r he
    exact ⟨hsa, fun idx hi => by simpa [cellSpec] using hga idx hi⟩
  | bin op a b iha ihb =>
    simp only [Expr.eval] at he
    cases ha : a.eval f s with
    | none => rw [ha] at he; cases he
    | some ra =>
      cases hb : b.eval f s with
      | none => rw [ha, hb] at he; cases he
      | some rb =>
        rw [ha, hb] at he
        simp only [Option.some.injEq] at he
        subst he
        obtain ⟨hsa, hga⟩ := iha (fun n hn => hv n (by simp only [Expr.vars, List.mem_append]; exact Or.inl hn)) ra ha
        obtain ⟨hsb, hgb⟩ := ihb (fun n hn => hv n (by simp only [Expr.vars, List.mem_append]; exact Or.inr hn)) rb hb
        refine ⟨zipCells_hasShape _ sh ra rb hsa hsb, fun idx hi => ?_⟩
        rw [zip_get _ sh ra rb idx hsa hsb]
        have h1 := hga idx hi
        have h2 := hgb idx hi
        obtain ⟨c1, hc1⟩ := get_some_of_inShape sh ra idx hsa hi
        obtain ⟨c2, hc2⟩ := get_some_of_inShape sh rb idx hsb hi
        rw [hc1] at h1
        rw [hc2] at h2
        cases hs1 : cellSpec f idx a with
        | none => rw [hs1] at h1; cases h1
        | some d1 =>
          cases hs2 : cellSpec f idx b with
          | none => rw [hs2] at h2; cases h2
          | some d2 =>
            rw [hs1] at h1
            rw [hs2] at h2
            simp only [Option.map_some, Option.some.injEq] at h1 h2
            simp [cellSpec, hc1, hc2, hs1, hs2, h1, h2]

/-- non-vacuity: `A * 2 - B` on a file with a masked cell in `B` -/
example :
    let f : File := ⟨[⟨"x", 2, false⟩], [⟨"A", ["x"], .node [.leaf (some 3), .leaf (some 4)], [], false, false⟩,
      ⟨"B", ["x"], .node [.leaf none, .leaf (some 1)], [], true, false⟩], []⟩
    let e : Expr := .bin .sub (.bin .mul (.var "A") (.lit 2)) (.var "B")
    (e.eval f (.node [.leaf (some 3), .leaf (some 4)])).map (fun r => (Arr.get r [0], Arr.get r [1])) =
      some (some none, some (some 7)) ∧
    cellSpec f [1] e = some (some 7) ∧ cellSpec f [0] e = some none := by
  decide +kernel

/-! ## the expression front ends: what the names of an expression mean -/

/-- **`pncexpr`: a name of one of the file's variables means that variable**, whatever helper functions and physical
constants carry the same name (`g`, `c`, `h`, `k`, `R`, `e`, `pi`, `hour`, `bar` …); the reserved names are the exception -/
theorem pncexpr_resolves (f : File) (helpers consts : List String) (hn : NamesNodup f) (n : String) (v : Var)
    (hv : f.var? n = some v) (hr : n ∉ pncexprReserved) :
    (pncexprEnv f helpers consts).get n = some (.fileVar v) := by
  obtain ⟨hmem, hname⟩ := mem_of_var? f n v hv
  rw [pncexprReserved_closed] at hr
  rw [pncexprEnv_closed]
  rw [get_fill_of_some]
  all_goals rw [get_update_not_mem _ _ _ (by
    intro p hp
    simp only [others, List.mem_map] at hp
    obtain ⟨m, hm, rfl⟩ := hp
    exact fun h => hr (h ▸ hm))]
  all_goals rw [get_update_mem (fileBinds f) _ n (.fileVar v) (fileBinds_nodup f hn) (by
    simp only [fileBinds, List.mem_map]
    exact ⟨v, hmem, by rw [hname]⟩)]
  rfl

/-- `pncexpr`: no name means a variable that is not the file's variable of that name -/
theorem pncexpr_sound (f : File) (helpers consts : List String) (hn : NamesNodup f) :
    Sound f (pncexprEnv f helpers consts) := by
  rw [pncexprEnv_closed]
  refine sound_fill f _ _ (sound_update f _ _ (sound_update f _ _ (sound_update f _ _ (sound_update f _ _
    (sound_update f _ _ (sound_nil f) (fileBinds_sound f hn)) ?_) ?_) (fileBinds_sound f hn)) ?_) ?_
  all_goals exact fun p hp v hv => others_not_fileVar _ _ p hp v hv f

/-- `eval`: the same, with its reserved names -/
theorem eval_resolves (f : File) (hn : NamesNodup f) (n : String) (v : Var)
    (hv : f.var? n = some v) (hr : n ∉ evalReserved) : (evalEnv f).get n = some (.fileVar v) := by
  obtain ⟨hmem, hname⟩ := mem_of_var? f n v hv
  rw [evalReserved_closed] at hr
  rw [evalEnv_closed]
  rw [get_update_not_mem _ _ _ (by
    intro p hp
    simp only [others, List.mem_map] at hp
    obtain ⟨m, hm, rfl⟩ := hp
    exact fun h => hr (h ▸ hm))]
  have h1 : (Env.update [] (fileBinds f)).get n = some (.fileVar v) :=
    get_update_mem (fileBinds f) _ n (.fileVar v) (fileBinds_nodup f hn) (by
      simp only [fileBinds, List.mem_map]
      exact ⟨v, hmem, by rw [hname]⟩)
  rw [get_fill_of_some _ _ _ (by rw [h1]; rfl), h1]

theorem eval_sound (f : File) (hn : NamesNodup f) : Sound f (evalEnv f) := by
  rw [evalEnv_closed]
  refine sound_update f _ _ (sound_fill f _ _ (sound_update f _ _ (sound_nil f) (fileBinds_sound f hn)) ?_) ?_
  all_goals exact fun p hp v hv => others_not_fileVar _ _ p hp v hv f

/-- an expression evaluated through a namespace that resolves the file's names to the file's variables (and nothing
else to a variable) is the expression evaluated on the file's arrays -/
theorem evalIn_eq_eval (f : File) (env : Env) (s : Arr Cell) (e : Expr) (hs : Sound f env)
    (hr : ∀ n ∈ e.vars, ∀ v, f.var? n = some v → env.get n = some (.fileVar v)) :
    e.evalIn env s = e.eval f s := by
  induction e with
  | var n =>
    simp only [Expr.evalIn, Expr.eval]
    cases hv : f.var? n with
    | some v => rw [hr n (by simp [Expr.vars]) v hv]; rfl
    | none =>
      cases hg : env.get n with
      | none => rfl
      | some b =>
        cases b with
        | other w => rfl
        | fileVar w => rw [hs n w hg] at hv; cases hv
  | lit q => rfl
  | neg a ih =>
    simp only [Expr.evalIn, Expr.eval]
    rw [ih (fun n hn => hr n (by simpa [Expr.vars] using hn))]
  | mlt a q ih =>
    simp only [Expr.evalIn, Expr.eval]
    rw [ih (fun n hn => hr n (by simpa [Expr.vars] using hn))]
  | minv a ih =>
    simp only [Expr.evalIn, Expr.eval]
    rw [ih (fun n hn => hr n (by simpa [Expr.vars] using hn))]
  | bin op a b iha ihb =>
    simp only [Expr.evalIn, Expr.eval]
    rw [iha (fun n hn => hr n (by simp only [Expr.vars, List.mem_append]; exact Or.inl hn)),
      ihb (fun n hn => hr n (by simp only [Expr.vars, List.mem_append]; exact Or.inr hn))]

/-- **C06 (the expression front ends)**: `pncexpr` evaluates an expression on the file's arrays — the names of the
expression mean the file's variables, not the helper functions or the physical constants of the same name -/
theorem pncexpr_eq_eval (f : File) (helpers consts : List String) (s : Arr Cell) (e : Expr) (hn : NamesNodup f)
    (hr : ∀ n ∈ e.vars, n ∉ pncexprReserved) :
    e.evalIn (pncexprEnv f helpers consts) s = e.eval f s :=
  evalIn_eq_eval f _ s e (pncexpr_sound f helpers consts hn)
    (fun n hm v hv => pncexpr_resolves f helpers consts hn n v hv (hr n hm))

theorem evalns_eq_eval (f : File) (s : Arr Cell) (e : Expr) (hn : NamesNodup f)
    (hr : ∀ n ∈ e.vars, n ∉ evalReserved) : e.evalIn (evalEnv f) s = e.eval f s :=
  evalIn_eq_eval f _ s e (eval_sound f hn) (fun n hm v hv => eval_resolves f hn n v hv (hr n hm))

/-- the order matters: with the constants bound after the variables (the order before the repair), `g` of a file that has
a variable `g` is the constant -/
theorem constants_last_counterexample :
    let f : File := ⟨[⟨"x", 1, false⟩], [⟨"g", ["x"], .node [.leaf (some 2)], [], false, false⟩], []⟩
    (((Env.update [] (fileBinds f)).update (others "const" ["g"])).get "g") = some (.other "const") ∧
    (pncexprEnv f [] ["g"]).get "g" = some (.fileVar ⟨"g", ["x"], .node [.leaf (some 2)], [], false, false⟩) := by
  intro f
  constructor <;> rfl

/-! ## `eval` / `pncexpr` as operations on the file -/

theorem firstVar_mem_vars : ∀ (e : Expr) (n : String), e.firstVar = some n → n ∈ e.vars
  | .var m, n, h => by simp only [Expr.firstVar, Option.some.injEq] at h; simp [Expr.vars, h]
  | .lit _, _, h => by simp [Expr.firstVar] at h
  | .neg a, n, h => firstVar_mem_vars a n h
  | .mlt a _, n, h => firstVar_mem_vars a n h
  | .minv a, n, h => firstVar_mem_vars a n h
  | .bin _ a b, n, h => by
    simp only [Expr.firstVar] at h
    simp only [Expr.vars, List.mem_append]
    cases ha : a.firstVar with
    | some m => rw [ha] at h; simp only [Option.some.injEq] at h; exact Or.inl (firstVar_mem_vars a n (h ▸ ha))
    | none => rw [ha] at h; exact Or.inr (firstVar_mem_vars b n h)

theorem find?_replace_last (vs : List Var) (t : String) (nv : Var) (hnv : nv.name = t) :
    (vs.filter (fun v => v.name != t) ++ [nv]).find? (·.name == t) = some nv := by
  rw [List.find?_append]
  have : (vs.filter (fun v => v.name != t)).find? (·.name == t) = none := by
    rw [List.find?_eq_none]
    intro x hx
    have := (List.mem_filter.mp hx).2
    simpa using this
  rw [this]
  simp [List.find?, hnv]

theorem find?_replace_other (vs : List Var) (t n : String) (nv : Var) (hnv : nv.name = t) (hne : n ≠ t) :
    (vs.filter (fun v => v.name != t) ++ [nv]).find? (·.name == n) = vs.find? (·.name == n) := by
  rw [List.find?_append, List.find?_filter]
  have h1 : ([nv].find? (·.name == n)) = none := by
    have : (nv.name == n) = false := by rw [hnv]; simpa using fun h => hne h.symm
    simp [List.find?, this]
  rw [h1, Option.or_none]
  congr 1
  funext a
  by_cases ha : a.name = n
  · have : a.name ≠ t := fun h => hne (ha ▸ h)
    simp [ha, hne]
  · simp [ha]

/-- **C06 (eval, in place).** `eval('t = expr', inplace=True)` and `pncexpr` keep the dimensions, the global attributes
and every other variable; the variable `t` they create holds the expression evaluated in the namespace. -/
theorem evalInto_spec (env : Env) (f g : File) (t : String) (e : Expr) (h : evalInto env f t e = .ok g) :
    g.dims = f.dims ∧ g.attrs = f.attrs ∧ (∀ n, n ≠ t → g.var? n = f.var? n) ∧
    ∃ tv dat, e.firstVar.bind (boundVar env) = some tv ∧ e.evalIn env tv.data = some dat ∧
      g.var? t = some { tv with name := t, data := dat, attrs := evalAttrs tv, isInt := false } := by
  unfold evalInto at h
  cases htv : e.firstVar.bind (boundVar env) with
  | none => rw [htv] at h; cases h
  | some tv =>
    rw [htv] at h
    simp only at h
    cases hd : e.evalIn env tv.data with
    | none => rw [hd] at h; cases h
    | some dat =>
      rw [hd] at h
      simp only [Except.ok.injEq] at h
      subst h
      refine ⟨rfl, rfl, fun n hne => ?_, tv, dat, rfl, hd, ?_⟩
      · exact find?_replace_other f.vars t n _ rfl hne
      · exact find?_replace_last f.vars t _ rfl

/-- **C06 (an eval assignment creates variables equal to evaluating the expression on the file's arrays).** For a file
with distinct variable names and an expression over variables of one shape `sh` (none of them called `np`, `self` or
`outf`), `f.eval('t = expr', inplace=True)` succeeds only with a file whose variable `t` has shape `sh` and holds, at every
index, the cell-by-cell value of the expression on the file's variables. -/
theorem eval_creates (f g : File) (hn : NamesNodup f) (t : String) (e : Expr) (sh : List Nat)
    (hv : ∀ n ∈ e.vars, n ∉ evalReserved ∧ ∀ v, f.var? n = some v → hasShape sh v.data = true)
    (h : evalInto (evalEnv f) f t e = .ok g) :
    ∃ nv, g.var? t = some nv ∧ hasShape sh nv.data = true ∧
      ∀ idx, InShape idx sh → some (Arr.get nv.data idx) = (cellSpec f idx e).map some := by
  obtain ⟨_, _, _, tv, dat, htv, hd, hg⟩ := evalInto_spec _ f g t e h
  rw [evalns_eq_eval f tv.data e hn (fun n hm => (hv n hm).1)] at hd
  -- the variable that lends its shape is a variable of the file named in the expression
  have hshape : hasShape sh tv.data = true := by
    cases hf : e.firstVar with
    | none => rw [hf] at htv; cases htv
    | some m =>
      rw [hf] at htv
      simp only [Option.bind_some, boundVar] at htv
      cases hgm : (evalEnv f).get m with
      | none => rw [hgm] at htv; cases htv
      | some b =>
        rw [hgm] at htv
        cases b with
        | other w => cases htv
        | fileVar w =>
          simp only [Option.some.injEq] at htv
          subst htv
          exact (hv m (firstVar_mem_vars e m hf)).2 w (eval_sound f hn m w hgm)
  obtain ⟨hs, hc⟩ := eval_pointwise f sh tv.data hshape e (fun n hm => (hv n hm).2) dat hd
  exact ⟨_, hg, hs, hc⟩

/-- the same for `pncexpr`, whatever helper functions and physical constants share names with the file's variables -/
theorem pncexpr_creates (f g : File) (helpers consts : List String) (hn : NamesNodup f) (t : String) (e : Expr)
    (sh : List Nat)
    (hv : ∀ n ∈ e.vars, n ∉ pncexprReserved ∧ ∀ v, f.var? n = some v → hasShape sh v.data = true)
    (h : evalInto (pncexprEnv f helpers consts) f t e = .ok g) :
    ∃ nv, g.var? t = some nv ∧ hasShape sh nv.data = true ∧
      ∀ idx, InShape idx sh → some (Arr.get nv.data idx) = (cellSpec f idx e).map some := by
  obtain ⟨_, _, _, tv, dat, htv, hd, hg⟩ := evalInto_spec _ f g t e h
  rw [pncexpr_eq_eval f helpers consts tv.data e hn (fun n hm => (hv n hm).1)] at hd
  have hshape : hasShape sh tv.data = true := by
    cases hf : e.firstVar with
    | none => rw [hf] at htv; cases htv
    | some m =>
      rw [hf] at htv
      simp only [Option.bind_some, boundVar] at htv
      cases hgm : (pncexprEnv f helpers consts).get m with
      | none => rw [hgm] at htv; cases htv
      | some b =>
        rw [hgm] at htv
        cases b with
        | other w => cases htv
        | fileVar w =>
          simp only [Option.some.injEq] at htv
          subst htv
          exact (hv m (firstVar_mem_vars e m hf)).2 w (pncexpr_sound f helpers consts hn m w hgm)
  obtain ⟨hs, hc⟩ := eval_pointwise f sh tv.data hshape e (fun n hm => (hv n hm).2) dat hd
  exact ⟨_, hg, hs, hc⟩

/-- non-vacuity: `pncexpr('N = V * g', f)` on a file that has a variable `g`, with scipy's `g` in the namespace -/
example :
    let f : File := ⟨[⟨"x", 2, false⟩], [⟨"g", ["x"], .node [.leaf (some 1), .leaf (some 2)], [], false, false⟩,
      ⟨"V", ["x"], .node [.leaf (some 10), .leaf (some 20)], [], false, false⟩], []⟩
    (match evalInto (pncexprEnv f [] ["g"]) f "N" (.bin .mul (.var "V") (.var "g")) with
      | .ok r => (r.var? "N").map (fun v => (Arr.get v.data [0], Arr.get v.data [1]))
      | .error _ => none) = some (some (some 10), some (some 40)) := by
  decide +kernel

end Props.C06
