import PncProofs.ArrLemmas
import PncModel.File

/-!
# C06 — file arithmetic, eval and mask follow masked-array semantics: property theorems
-/
namespace Props.C06
open Arr PFile

theorem zipCellsL_getElem? (g : Cell → Cell → Cell) : ∀ (xs ys : List (Arr Cell)) (i : Nat),
    xs.length = ys.length →
    (zipCellsL g xs ys)[i]? = match xs[i]?, ys[i]? with
      | some x, some y => some (zipCells g x y)
      | _, _ => none
  | [], [], i, _ => by simp [zipCellsL]
  | [], _ :: _, _, h => by simp at h
  | _ :: _, [], _, h => by simp at h
  | x :: xs, y :: ys, 0, _ => by simp [zipCellsL]
  | x :: xs, y :: ys, i + 1, h => by
    simp only [zipCellsL, List.getElem?_cons_succ]
    exact zipCellsL_getElem? g xs ys i (by simpa using h)

/-- **C06 (elementwise).** Every cell of the result of a cell-wise combination is the combination
of the operands' cells at the same multi-index — for two arrays of one shape, any rank. -/
theorem zip_get (g : Cell → Cell → Cell) : ∀ (sh : List Nat) (a b : Arr Cell) (idx : List Nat),
    hasShape sh a = true → hasShape sh b = true →
    Arr.get (zipCells g a b) idx = match Arr.get a idx, Arr.get b idx with
      | some x, some y => some (g x y)
      | _, _ => none
  | [], .leaf x, .leaf y, [], _, _ => by simp [zipCells, Arr.get]
  | [], .leaf x, .leaf y, _ :: _, _, _ => by simp [zipCells, Arr.get]
  | [], .node _, _, _, h, _ => by simp [hasShape] at h
  | [], .leaf _, .node _, _, _, h => by simp [hasShape] at h
  | _ :: _, .leaf _, _, _, h, _ => by simp [hasShape] at h
  | _ :: _, .node _, .leaf _, _, _, h => by simp [hasShape] at h
  | n :: sh, .node xs, .node ys, [], _, _ => by simp [zipCells, Arr.get]
  | n :: sh, .node xs, .node ys, i :: idx, ha, hb => by
    simp only [hasShape, Bool.and_eq_true, beq_iff_eq] at ha hb
    have hl : xs.length = ys.length := by omega
    simp only [zipCells, Arr.get]
    rw [zipCellsL_getElem? g xs ys i hl]
    cases hx : xs[i]? with
    | none => simp
    | some x =>
      cases hy : ys[i]? with
      | none => simp
      | some y =>
        simp only
        exact zip_get g sh x y idx (forall_of_hasShapeL sh xs ha.2 x (List.mem_of_getElem? hx))
          (forall_of_hasShapeL sh ys hb.2 y (List.mem_of_getElem? hy))

/-- **C06 (operator cell semantics).** A cell of `a op b` is masked iff an operand cell is masked or
the numpy result is not finite (division/modulo by zero, 0 to a negative power); otherwise it is
the exact arithmetic result. -/
theorem op_masked_operand (op : Op) (isInt dom : Bool) (b : Cell) :
    op.cell isInt none b dom = none ∧ ∀ a, op.cell isInt a none dom = none := by
  refine ⟨rfl, fun a => ?_⟩
  cases a <;> rfl

theorem op_add_mul (x y : ℚ) (isInt dom : Bool) :
    Op.add.cell isInt (some x) (some y) dom = some (x + y) ∧
    Op.sub.cell isInt (some x) (some y) dom = some (x - y) ∧
    Op.mul.cell isInt (some x) (some y) dom = some (x * y) := ⟨rfl, rfl, rfl⟩

theorem op_div_zero (x : ℚ) (isInt dom : Bool) : Op.div.cell isInt (some x) (some 0) dom = none := by
  simp [Op.cell]

theorem op_div (x y : ℚ) (hy : y ≠ 0) (isInt dom : Bool) :
    Op.div.cell isInt (some x) (some y) dom = some (x / y) := by
  simp [Op.cell, hy]

/-- **C06 (coordinate variables pass through).** -/
theorem coords_passthrough (op : Op) (f1 f2 : File) (coords : List String) (v : Var)
    (h : coords.contains v.name = true) : binopVar op f1 f2 coords v = v := by
  unfold binopVar
  rw [if_pos h]

/-- a variable missing in the right operand is copied from the left -/
theorem missing_right_copied (op : Op) (f1 f2 : File) (coords : List String) (v : Var)
    (h : f2.var? v.name = none) : binopVar op f1 f2 coords v = v := by
  unfold binopVar
  split
  · rfl
  · rw [h]

theorem maskHit_iff (m : MaskSpec) (w : Cell) (x : ℚ) :
    maskHit m w x = true ↔
      (w = some 1 ∨ w = some 2 ∨ (∃ g, m.greater = some g ∧ x > g) ∨ (∃ g, m.greaterEq = some g ∧ x ≥ g) ∨
       (∃ g, m.less = some g ∧ x < g) ∨ (∃ g, m.lessEq = some g ∧ x ≤ g) ∨ (∃ g, m.equal = some g ∧ g = x)) := by
  unfold maskHit
  cases m.greater <;> cases m.greaterEq <;> cases m.less <;> cases m.lessEq <;> cases m.equal <;>
    simp [or_assoc]

/-- **C06 (mask, exactness).** A cell is masked afterwards iff it was masked before or satisfies
one of the given predicates (or the `where` array is true or masked there); an unmasked cell keeps its value exactly. -/
theorem mask_exact (m : MaskSpec) (w : Cell) (x : ℚ) :
    (maskCell m w (some x) = none ↔
      (w = some 1 ∨ w = some 2 ∨ (∃ g, m.greater = some g ∧ x > g) ∨ (∃ g, m.greaterEq = some g ∧ x ≥ g) ∨
       (∃ g, m.less = some g ∧ x < g) ∨ (∃ g, m.lessEq = some g ∧ x ≤ g) ∨ (∃ g, m.equal = some g ∧ g = x))) ∧
    (∀ y, maskCell m w (some x) = some y → y = x) ∧ maskCell m w none = none := by
  refine ⟨?_, ?_, rfl⟩
  · rw [← maskHit_iff]
    unfold maskCell
    cases hh : maskHit m w x <;> simp [hh]
  · intro y h
    unfold maskCell at h
    cases hh : maskHit m w x
    · simp [hh] at h; exact h.symm
    · simp [hh] at h

/-- non-vacuity / a worked example: (masked, 3) // (2, 0) for masked integer operands -/
example : Op.floordiv.cell true none (some 2) true = none ∧
    Op.floordiv.cell true (some 3) (some 0) true = none ∧
    Op.floordiv.cell true (some 3) (some 0) false = some 0 ∧
    Op.floordiv.cell true (some (-7)) (some 2) false = some (-4) ∧
    Op.mod.cell true (some (-7)) (some 2) false = some 1 := by
  decide +kernel

/-- an index that lies inside a shape -/
def InShape : List Nat → List Nat → Prop
  | [], [] => True
  | i :: idx, n :: sh => i < n ∧ InShape idx sh
  | _, _ => False

/-- the cell of a tabulated array -/
theorem get_build {α} : ∀ (sh : List Nat) (f : List Nat → α) (idx : List Nat), InShape idx sh →
    Arr.get (Arr.build sh f) idx = some (f idx)
  | [], f, [], _ => rfl
  | [], _, _ :: _, h => by simp [InShape] at h
  | _ :: _, _, [], h => by simp [InShape] at h
  | n :: sh, f, i :: idx, h => by
    obtain ⟨hi, hrest⟩ := h
    simp only [Arr.build, Arr.get]
    rw [List.getElem?_map, List.getElem?_range hi]
    simp only [Option.map_some]
    exact get_build sh (fun idx => f (i :: idx)) idx hrest

/-- **C06 (a one-step / one-layer right operand).** The right operand stretched to the left shape has, at every index
of the left shape, the cell of the right operand at that index with the axes of length one read at 0 — its value or its
missing-ness, which `zipCells` then combines with the left cell like any other pair of cells. -/
theorem bcast_cell (sv sw : List Nat) (a : Arr Cell) (idx : List Nat) (h : InShape idx sv) :
    Arr.get (bcast sv sw a) idx =
      some ((Arr.get a (List.zipWith (fun i n => if n == 1 then 0 else i) idx sw)).getD (none : Cell)) := by
  unfold bcast
  exact get_build sv _ idx h

/-- a right operand of the same shape is taken as it is -/
theorem rightData_same (f1 f2 : File) (v w : Var) (h : f1.shapeOf v = f2.shapeOf w) :
    rightData f1 f2 v w = w.data := by
  unfold rightData
  simp [h]

/-- non-vacuity: a 2 x 3 left shape against a 1 x 3 right operand whose middle cell is missing -/
example : bcastOk [2, 3] [1, 3] = true ∧ bcastOk [1, 3] [2, 3] = false ∧
    Arr.get (bcast [2, 3] [1, 3] (.node [.node [.leaf (some 5), .leaf none, .leaf (some 7)]])) [1, 1] = some none ∧
    Arr.get (bcast [2, 3] [1, 3] (.node [.node [.leaf (some 5), .leaf none, .leaf (some 7)]])) [1, 2] = some (some 7) := by
  decide +kernel

end Props.C06
