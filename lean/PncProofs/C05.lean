import PncModel.Handles
import Mathlib.Data.List.Nodup
import Mathlib.Data.List.Sublists
import Mathlib.Tactic.Linarith

/-!
# C05 (handles) — closing or dropping any file object never invalidates another open file

`Handles.step` is the model of the code as it is now (`Generated.closeGuarded` is re-extracted from
`core/_files.py` on every run).  The invariant `Live` says that every Python object that still
believes it is open owns a slot of the C library table that maps to its own file, and that no two
such objects share a slot.
-/
namespace Props.C05
open Handles

def openSlots (objs : List Obj) : List Nat := (objs.filter (·.pyOpen)).map (·.slot)

structure Live (s : State) : Prop where
  slotsNodup : (s.table.map (·.1)).Nodup
  owns : ∀ o ∈ s.objs, o.pyOpen = true → (o.slot, o.file) ∈ s.table
  distinct : (openSlots s.objs).Nodup

theorem lowestFree_not_mem (t : List (Nat × Nat)) : ∀ p ∈ t, p.1 ≠ lowestFree t := by
  intro p hp heq
  unfold lowestFree at heq
  cases hf : (List.range (t.length + 1)).find? (fun s => !(t.any (·.1 == s))) with
  | some s0 =>
    rw [hf] at heq
    simp only [Option.getD_some] at heq
    have := List.find?_some hf
    simp only [Bool.not_eq_true', List.any_eq_false, beq_iff_eq] at this
    exact this p hp heq
  | none =>
    -- impossible: t.length + 1 candidates, at most t.length taken
    rw [List.find?_eq_none] at hf
    have hall : ∀ s ∈ List.range (t.length + 1), s ∈ t.map (·.1) := by
      intro s hs
      have := hf s hs
      simp only [Bool.not_eq_true', Bool.not_eq_false, List.any_eq_true, beq_iff_eq] at this
      obtain ⟨q, hq, hqs⟩ := this
      exact List.mem_map.mpr ⟨q, hq, hqs⟩
    have hsub : List.range (t.length + 1) ⊆ t.map (·.1) := hall
    have hnd : (List.range (t.length + 1)).Nodup := List.nodup_range
    have hle := (List.subperm_of_subset hnd hsub).length_le
    simp at hle

theorem live_init : Live init := ⟨by simp [init], by simp [init], by simp [init, openSlots]⟩

theorem openSlots_set_closed : ∀ (objs : List Obj) (i : Nat) (o : Obj), objs[i]? = some o →
    (openSlots (objs.set i { o with pyOpen := false })).Sublist (openSlots objs)
  | [], _, _, h => by simp at h
  | x :: xs, 0, o, h => by
    simp only [List.getElem?_cons_zero, Option.some.injEq] at h
    subst h
    simp only [List.set_cons_zero, openSlots, List.filter_cons, Bool.false_eq_true, if_false]
    split
    · exact List.Sublist.cons _ (List.Sublist.refl _)
    · exact List.Sublist.refl _
  | x :: xs, i + 1, o, h => by
    simp only [List.getElem?_cons_succ] at h
    have ih := openSlots_set_closed xs i o h
    simp only [List.set_cons_succ, openSlots, List.filter_cons] at ih ⊢
    split
    · simp only [List.map_cons]; exact List.Sublist.cons₂ _ ih
    · exact ih

theorem mem_set_closed {objs : List Obj} {i : Nat} {o o' : Obj} (hi : objs[i]? = some o)
    (hm : o' ∈ objs.set i { o with pyOpen := false }) (hopen : o'.pyOpen = true) : o' ∈ objs := by
  rcases List.mem_or_eq_of_mem_set hm with h | h
  · exact h
  · subst h; simp at hopen

theorem slot_ne_of_set_closed : ∀ (objs : List Obj) (i : Nat) (o o' : Obj), objs[i]? = some o →
    o.pyOpen = true → (openSlots objs).Nodup → o' ∈ objs.set i { o with pyOpen := false } →
    o'.pyOpen = true → o'.slot ≠ o.slot
  | [], _, _, _, hi, _, _, _, _ => by simp at hi
  | x :: xs, 0, o, o', hi, hopo, hnd, hm, ho' => by
    simp only [List.getElem?_cons_zero, Option.some.injEq] at hi
    subst hi
    simp only [List.set_cons_zero, List.mem_cons] at hm
    rcases hm with hm | hm
    · subst hm; simp at ho'
    · simp only [openSlots, List.filter_cons, hopo, if_true, List.map_cons, List.nodup_cons] at hnd
      intro he
      apply hnd.1
      rw [← he]
      exact List.mem_map.mpr ⟨o', List.mem_filter.mpr ⟨hm, ho'⟩, rfl⟩
  | x :: xs, i + 1, o, o', hi, hopo, hnd, hm, ho' => by
    simp only [List.getElem?_cons_succ] at hi
    simp only [List.set_cons_succ, List.mem_cons] at hm
    simp only [openSlots, List.filter_cons] at hnd
    rcases hm with hm | hm
    · subst hm
      simp only [ho', if_true, List.map_cons, List.nodup_cons] at hnd
      intro he
      apply hnd.1
      rw [he]
      exact List.mem_map.mpr ⟨o, List.mem_filter.mpr ⟨List.mem_of_getElem? hi, hopo⟩, rfl⟩
    · have hnd' : (openSlots xs).Nodup := by
        unfold openSlots
        split at hnd
        · exact (List.nodup_cons.mp hnd).2
        · exact hnd
      exact slot_ne_of_set_closed xs i o o' hi hopo hnd' hm ho'

theorem openSlots_set_dropped : ∀ (objs : List Obj) (i : Nat) (o : Obj), objs[i]? = some o →
    openSlots (objs.set i { o with dropped := true }) = openSlots objs
  | [], _, _, h => by simp at h
  | x :: xs, 0, o, h => by
    simp only [List.getElem?_cons_zero, Option.some.injEq] at h
    subst h
    simp only [List.set_cons_zero, openSlots, List.filter_cons]
    split <;> simp
  | x :: xs, i + 1, o, h => by
    simp only [List.getElem?_cons_succ] at h
    have := openSlots_set_dropped xs i o h
    simp only [openSlots, List.set_cons_succ, List.filter_cons] at this ⊢
    split <;> simp [this]

/-- guarded close keeps the invariant -/
theorem live_close (s : State) (i : Nat) (h : Live s) : Live (closeObj true s i) := by
  unfold closeObj
  cases hi : s.objs[i]? with
  | none => simpa using h
  | some o =>
    simp only
    by_cases hop : o.pyOpen = true
    · simp only [hop, Bool.not_true, Bool.false_eq_true, and_false, if_false]
      have hsub := openSlots_set_closed s.objs i o hi
      refine ⟨?_, ?_, h.distinct.sublist hsub⟩
      · unfold libClose
        exact h.slotsNodup.sublist (List.Sublist.map _ (List.filter_sublist))
      · intro o' ho' hopen'
        have hmem := mem_set_closed hi ho' hopen'
        have hin := h.owns o' hmem hopen'
        unfold libClose
        refine List.mem_filter.mpr ⟨hin, ?_⟩
        simp only [bne_iff_ne, ne_eq]
        exact slot_ne_of_set_closed s.objs i o o' hi hop h.distinct ho' hopen'
    · simp only [Bool.not_eq_true] at hop
      simp only [hop, Bool.not_false, and_self, if_true]
      exact h

theorem live_step (s : State) (e : Ev) (h : Live s) : Live (stepWith true s e) := by
  cases e with
  | «open» f =>
    simp only [stepWith]
    have hfree := lowestFree_not_mem s.table
    refine ⟨?_, ?_, ?_⟩
    · rw [List.map_append, List.nodup_append]
      refine ⟨h.slotsNodup, by simp, ?_⟩
      intro a ha b hb
      simp only [List.map_cons, List.map_nil, List.mem_singleton] at hb
      subst hb
      obtain ⟨p, hp, rfl⟩ := List.mem_map.mp ha
      exact hfree p hp
    · intro o ho hopen
      rcases List.mem_append.mp ho with ho | ho
      · exact List.mem_append_left _ (h.owns o ho hopen)
      · simp only [List.mem_singleton] at ho
        subst ho
        simp
    · unfold openSlots
      rw [List.filter_append, List.map_append, List.nodup_append]
      refine ⟨h.distinct, by simp [List.filter_cons], ?_⟩
      intro a ha b hb
      simp only [List.filter_cons, if_true, List.filter_nil, List.map_cons, List.map_nil,
        List.mem_singleton] at hb
      subst hb
      obtain ⟨o, ho, rfl⟩ := List.mem_map.mp ha
      have hof := List.mem_filter.mp ho
      have := h.owns o hof.1 (by simpa using hof.2)
      exact hfree _ this
  | close i => exact live_close s i h
  | drop i =>
    simp only [stepWith]
    have hc := live_close s i h
    cases hi : (closeObj true s i).objs[i]? with
    | none => simpa [hi] using hc
    | some o =>
      simp only
      refine ⟨hc.slotsNodup, ?_, ?_⟩
      · intro o' ho' hopen'
        rcases List.mem_or_eq_of_mem_set ho' with hm | hm
        · exact hc.owns o' hm hopen'
        · subst hm
          exact hc.owns o (List.mem_of_getElem? hi) hopen'
      · have := openSlots_set_dropped (closeObj true s i).objs i o hi
        rw [this]; exact hc.distinct

/-- **C05 (any history).** After ANY sequence of open / close / close-again / drop events, in any
order and any number of times, the invariant holds for the code as it is now … -/
theorem live_run (es : List Ev) : Live (run init es) := by
  have hstep : ∀ s e, Live s → Live (step s e) := by
    intro s e h
    have : step s e = stepWith true s e := by simp [step, Generated.closeGuarded]
    rw [this]; exact live_step s e h
  have : ∀ (es : List Ev) (s : State), Live s → Live (run s es) := by
    intro es
    induction es with
    | nil => intro s h; exact h
    | cons e es ih => intro s h; exact ih (step s e) (hstep s e h)
  exact this es init live_init

/-- … hence every object that still believes it is open can be read: no close, double close or
finaliser of another object has taken its handle away. -/
theorem open_objects_readable (es : List Ev) (i : Nat) (o : Obj)
    (hi : (run init es).objs[i]? = some o) (hopen : o.pyOpen = true) : readable (run init es) i = true := by
  have h := live_run es
  unfold readable
  rw [hi]
  simp only [hopen, Bool.true_and, List.any_eq_true, Bool.and_eq_true, beq_iff_eq]
  exact ⟨(o.slot, o.file), h.owns o (List.mem_of_getElem? hi) hopen, rfl, rfl⟩

/-- The unguarded variant (the code before the `fix:` commit) breaks a third file: open a, close a,
open b (b gets a's recycled slot), drop a (finaliser closes the slot again) — b is no longer
readable.  The check replays this history on the real code (it must not reproduce any more). -/
theorem unguarded_counterexample :
    let s := [Ev.open 0, Ev.close 0, Ev.open 1, Ev.drop 0].foldl (stepWith false) init
    (s.objs[1]?.map (·.pyOpen)) = some true ∧ readable s 1 = false := by
  decide

end Props.C05
