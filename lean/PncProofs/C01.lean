import PncProofs.ArrLemmas
import PncModel.File
import PncProofs.C03

/-!
# C01 — every operation yields a structurally well-formed file: property theorems

`WF f`: every variable's dimension names are dimensions of the file and its nested data have
exactly the shape given by the lengths of those dimensions, in order.
-/
namespace Props.C01
open Arr PFile Props.C03

/-- well-formedness of one variable inside a file -/
def VarWF (f : File) (v : Var) : Prop :=
  (∀ k ∈ v.dims, (f.dim? k).isSome = true) ∧ hasShape (f.shapeOf v) v.data = true

def WF (f : File) : Prop := ∀ v ∈ f.vars, VarWF f v

/-- tabulated data always have the tabulated shape -/
theorem build_hasShape {α} : ∀ (sh : List Nat) (g : List Nat → α), hasShape sh (build sh g) = true
  | [], _ => by simp [build, hasShape]
  | n :: rest, g => by
    simp only [build, hasShape, List.length_map, List.length_range, beq_self_eq_true, Bool.true_and]
    apply hasShapeL_of_forall
    intro x hx
    obtain ⟨i, _, rfl⟩ := List.mem_map.mp hx
    exact build_hasShape rest _

mutual
theorem mapCells_hasShape {α} (g : α → α) : ∀ (sh : List Nat) (a : Arr α), hasShape sh a = true →
    hasShape sh (mapCells g a) = true
  | [], .leaf _, _ => by simp [mapCells, hasShape]
  | [], .node _, h => by simp [hasShape] at h
  | _ :: _, .leaf _, h => by simp [hasShape] at h
  | n :: sh, .node xs, h => by
    simp only [hasShape, Bool.and_eq_true, beq_iff_eq] at h
    simp only [mapCells, hasShape, Bool.and_eq_true, beq_iff_eq]
    exact ⟨by rw [mapCellsL_length]; exact h.1, mapCellsL_hasShape g sh xs h.2⟩
theorem mapCellsL_hasShape {α} (g : α → α) : ∀ (sh : List Nat) (xs : List (Arr α)),
    hasShapeL sh xs = true → hasShapeL sh (mapCellsL g xs) = true
  | _, [], _ => by simp [mapCellsL, hasShapeL]
  | sh, x :: xs, h => by
    simp only [hasShapeL, Bool.and_eq_true] at h
    simp only [mapCellsL, hasShapeL, Bool.and_eq_true]
    exact ⟨mapCells_hasShape g sh x h.1, mapCellsL_hasShape g sh xs h.2⟩
theorem mapCellsL_length {α} (g : α → α) : ∀ (xs : List (Arr α)), (mapCellsL g xs).length = xs.length
  | [] => rfl
  | x :: xs => by simp [mapCellsL, mapCellsL_length g xs]
end

mutual
theorem zipCells_hasShape (g : Cell → Cell → Cell) : ∀ (sh : List Nat) (a b : Arr Cell),
    hasShape sh a = true → hasShape sh b = true → hasShape sh (zipCells g a b) = true
  | [], .leaf _, .leaf _, _, _ => by simp [zipCells, hasShape]
  | [], .node _, _, h, _ => by simp [hasShape] at h
  | [], .leaf _, .node _, _, h => by simp [hasShape] at h
  | _ :: _, .leaf _, _, h, _ => by simp [hasShape] at h
  | _ :: _, .node _, .leaf _, _, h => by simp [hasShape] at h
  | n :: sh, .node xs, .node ys, ha, hb => by
    simp only [hasShape, Bool.and_eq_true, beq_iff_eq] at ha hb
    simp only [zipCells, hasShape, Bool.and_eq_true, beq_iff_eq]
    obtain ⟨l, s⟩ := zipCellsL_hasShape g sh xs ys (by omega) ha.2 hb.2
    exact ⟨by omega, s⟩
theorem zipCellsL_hasShape (g : Cell → Cell → Cell) : ∀ (sh : List Nat) (xs ys : List (Arr Cell)),
    xs.length = ys.length → hasShapeL sh xs = true → hasShapeL sh ys = true →
    (zipCellsL g xs ys).length = xs.length ∧ hasShapeL sh (zipCellsL g xs ys) = true
  | _, [], [], _, _, _ => by simp [zipCellsL, hasShapeL]
  | _, [], _ :: _, h, _, _ => by simp at h
  | _, _ :: _, [], h, _, _ => by simp at h
  | sh, x :: xs, y :: ys, hl, hx, hy => by
    simp only [hasShapeL, Bool.and_eq_true] at hx hy
    obtain ⟨l, s⟩ := zipCellsL_hasShape g sh xs ys (by simpa using hl) hx.2 hy.2
    simp only [zipCellsL, List.length_cons, hasShapeL, Bool.and_eq_true]
    exact ⟨by omega, zipCells_hasShape g sh x y hx.1 hy.1, s⟩
end

/-- **C01 (mask).** mask() returns a well-formed file -/
theorem mask_wf (f : File) (m : MaskSpec) (coords : List String) (mc : Bool)
    (hm : ∀ ds, m.whereDims = some ds → hasShape (ds.map f.dimLen) m.whereBits = true) (h : WF f) :
    WF (maskFile f m coords mc) := by
  intro v hv
  simp only [maskFile, List.mem_map] at hv
  obtain ⟨v0, hv0, rfl⟩ := hv
  obtain ⟨hd, hs⟩ := h v0 hv0
  have hlen : (maskFile f m coords mc).dimLen = f.dimLen := rfl
  have hdimq : ∀ k, ((maskFile f m coords mc).dim? k) = f.dim? k := by intro k; rfl
  simp only [File.shapeOf] at hs
  split
  · refine ⟨fun k hk => by rw [hdimq]; exact hd k hk, ?_⟩
    simp only [File.shapeOf, hlen]; exact hs
  · refine ⟨fun k hk => by rw [hdimq]; exact hd k hk, ?_⟩
    simp only [File.shapeOf, hlen]
    split
    · rename_i hw
      have hwd : m.whereDims = some v0.dims := by simpa using hw
      exact zipCells_hasShape _ _ _ _ hs (hm _ hwd)
    · exact mapCells_hasShape _ _ _ hs

/-- **C01 (insertDimension).** the file after inserting a new dimension is well-formed whenever the
new name is not yet a dimension -/
theorem insertDim_wf (f : File) (name : String) (len : Nat) (no mo : Bool) (b a : Option String)
    (hnew : f.dim? name = none) (h : WF f) : WF (insertDimFile f name len no mo b a) := by
  intro v hv
  simp only [insertDimFile, hnew, Option.isSome_none, Bool.false_eq_true, if_false, List.mem_map] at hv
  obtain ⟨v0, hv0, rfl⟩ := hv
  obtain ⟨hd, hs⟩ := h v0 hv0
  -- dimensions of the new file: the old ones plus `name`
  have hdims : (insertDimFile f name len no mo b a).dims = f.dims ++ [⟨name, len, false⟩] := by
    simp [insertDimFile, hnew]
  have hq : ∀ k, (insertDimFile f name len no mo b a).dim? k
      = (f.dims ++ [(⟨name, len, false⟩ : Dim)]).find? (fun d => d.name == k) := by
    intro k; simp only [File.dim?, hdims]
  have hdimOld : ∀ k, (f.dim? k).isSome = true → ((insertDimFile f name len no mo b a).dim? k).isSome = true := by
    intro k hk
    rw [hq, List.find?_append]
    simp only [File.dim?] at hk
    cases hfk : f.dims.find? (fun d => d.name == k) with
    | none => simp [hfk] at hk
    | some d => simp
  have hlenOld : ∀ k, (f.dim? k).isSome = true → (insertDimFile f name len no mo b a).dimLen k = f.dimLen k := by
    intro k hk
    simp only [File.dimLen, hq]
    rw [List.find?_append]
    simp only [File.dim?] at hk ⊢
    cases hfk : f.dims.find? (fun d => d.name == k) with
    | none => simp [hfk] at hk
    | some d => simp
  have hnameDim : ((insertDimFile f name len no mo b a).dim? name).isSome = true ∧
      (insertDimFile f name len no mo b a).dimLen name = len := by
    simp only [File.dimLen, hq]
    rw [List.find?_append]
    simp only [File.dim?] at hnew
    simp [hnew]
  have keep : VarWF (insertDimFile f name len no mo b a) v0 := by
    refine ⟨fun k hk => hdimOld k (hd k hk), ?_⟩
    have : (insertDimFile f name len no mo b a).shapeOf v0 = f.shapeOf v0 := by
      simp only [File.shapeOf]
      apply List.map_congr_left
      intro k hk
      exact hlenOld k (hd k hk)
    rw [this]; exact hs
  split
  · exact keep
  · split
    · exact keep
    · rename_i bi _
      refine ⟨?_, ?_⟩
      · intro k hk
        simp only [List.mem_append, List.mem_singleton] at hk
        rcases hk with (hk | hk) | hk
        · exact hdimOld k (hd k (List.mem_of_mem_take hk))
        · subst hk; exact hnameDim.1
        · exact hdimOld k (hd k (List.mem_of_mem_drop hk))
      · simp only [File.shapeOf]
        have hsh : (v0.dims.take bi ++ [name] ++ v0.dims.drop bi).map (insertDimFile f name len no mo b a).dimLen
            = (v0.dims.take bi ++ [name] ++ v0.dims.drop bi).map (fun k => if k == name then len else f.dimLen k) := by
          apply List.map_congr_left
          intro k hk
          simp only [List.mem_append, List.mem_singleton] at hk
          by_cases hkn : k = name
          · subst hkn; simp [hnameDim.2]
          · have hkd : k ∈ v0.dims := by
              rcases hk with (hk | hk) | hk
              · exact List.mem_of_mem_take hk
              · exact absurd hk hkn
              · exact List.mem_of_mem_drop hk
            simp [hkn, hlenOld k (hd k hkd)]
        rw [hsh]
        exact build_hasShape _ _

/-- **C01 (removeSingleton / reorderDimensions).** Variables rebuilt by tabulation always carry the
shape of their new dimension tuple (this is what makes both operations shape-correct). -/
theorem rebuilt_shape (f : File) (newdims : List String) (g : List Nat → Cell) :
    hasShape (newdims.map f.dimLen) (build (newdims.map f.dimLen) g) = true :=
  build_hasShape _ _

/-- a file that keeps its dimensions: well-formedness of a variable does not depend on the other variables -/
theorem varWF_congr (f g : File) (hd : g.dims = f.dims) (v : Var) (h : VarWF f v) : VarWF g v := by
  have hq : ∀ k, g.dim? k = f.dim? k := by intro k; simp only [File.dim?, hd]
  have hl : g.dimLen = f.dimLen := by funext k; simp only [File.dimLen, hq]
  refine ⟨fun k hk => by rw [hq]; exact h.1 k hk, ?_⟩
  simp only [File.shapeOf, hl]; exact h.2

theorem var?_mem {f : File} {k : String} {v : Var} (h : f.var? k = some v) : v ∈ f.vars := by
  simp only [File.var?] at h
  exact List.mem_of_find?_eq_some h

/-- **C01 (subsetVariables).** -/
theorem subset_wf (f f' : File) (keys : List String) (ex : Bool) (h : WF f)
    (hs : subsetFile f keys ex = .ok f') : WF f' := by
  unfold subsetFile at hs
  simp only at hs
  by_cases hbad : ((if ex = true then f.names.filter (fun k => !keys.contains k) else keys).any
      (fun k => (f.var? k).isNone)) = true
  · rw [if_pos hbad] at hs; cases hs
  · rw [if_neg hbad] at hs
    simp only [Except.ok.injEq] at hs
    subst hs
    intro v hv
    simp only [List.mem_filterMap] at hv
    obtain ⟨k, _, hk⟩ := hv
    exact varWF_congr f _ rfl v (h v (var?_mem hk))

/-- **C01 (renameVariable).** -/
theorem renameVar_wf (f f' : File) (old new : String) (h : WF f)
    (hs : renameVarFile f old new = .ok f') : WF f' := by
  unfold renameVarFile at hs
  cases hv : f.var? old with
  | none => simp [hv] at hs
  | some v0 =>
    simp only [hv, Except.ok.injEq] at hs
    subst hs
    have hv0 := h v0 (var?_mem hv)
    have hren : VarWF f { v0 with name := new } := hv0
    intro v hvm
    apply varWF_congr f _ rfl
    simp only at hvm
    split at hvm
    · exact h v ((List.mem_filter.mp hvm).1)
    · split at hvm
      · obtain ⟨w, hw, rfl⟩ := List.mem_map.mp hvm
        split
        · exact hren
        · exact h w ((List.mem_filter.mp hw).1)
      · rcases List.mem_append.mp hvm with h1 | h2
        · exact h v ((List.mem_filter.mp h1).1)
        · simp only [List.mem_cons, List.mem_nil_iff, or_false] at h2
          rw [h2]; exact hren

/-- **C01 (file arithmetic).** `f1 <op> f2` is well-formed when both operands are: the shape test of `pncbo`
(repaired) guarantees that same-named variables have the same shape -/
theorem binop_wf (op : Op) (f1 f2 f' : File) (coords : List String) (h1 : WF f1) (h2 : WF f2)
    (hs : binopFile op f1 f2 coords = .ok f') : WF f' := by
  unfold binopFile at hs
  split at hs
  · cases hs
  · rename_i hany
    simp only [Except.ok.injEq] at hs
    subst hs
    intro v hv
    simp only [List.mem_map] at hv
    obtain ⟨v0, hv0, rfl⟩ := hv
    apply varWF_congr f1 _ rfl
    have hw0 := h1 v0 hv0
    unfold binopVar
    split
    · exact hw0
    · rename_i hc
      cases hw : f2.var? v0.name with
      | none => simpa [hw] using hw0
      | some w =>
        simp only [hw]
        refine ⟨hw0.1, ?_⟩
        have hw2 := (h2 w (var?_mem hw)).2
        have hr : hasShape (f1.shapeOf v0) (rightData f1 f2 v0 w) = true := by
          unfold rightData
          split
          · rename_i hsame
            have hsame' : f1.shapeOf v0 = f2.shapeOf w := by simpa using hsame
            simp only [File.shapeOf] at hsame' hw2 ⊢
            rw [hsame']; exact hw2
          · exact build_hasShape _ _
        simp only [File.shapeOf] at hr ⊢
        exact zipCells_hasShape _ _ _ _ hw0.2 hr

/-- **C01 (reorderDimensions).** -/
theorem reorder_wf (f f' : File) (neworder : List String) (h : WF f)
    (hs : reorderFile f neworder = .ok f') : WF f' := by
  unfold reorderFile at hs
  simp only at hs
  split at hs
  · cases hs
  · simp only [Except.ok.injEq] at hs
    subst hs
    intro v hv
    simp only [List.mem_map] at hv
    obtain ⟨v0, hv0, rfl⟩ := hv
    apply varWF_congr f _ rfl
    have hw0 := h v0 hv0
    split
    · exact hw0
    · refine ⟨?_, ?_⟩
      · intro k hk
        have hk' := (List.mem_filter.mp hk).2
        exact hw0.1 k (by simpa using hk')
      · exact build_hasShape _ _

theorem find?_filter_keep {α} (p q : α → Bool) (l : List α) (a : α) (h : l.find? p = some a) (hq : q a = true) :
    (l.filter q).find? p = some a := by
  induction l with
  | nil => simp at h
  | cons x xs ih =>
    simp only [List.find?_cons] at h
    by_cases hx : p x = true
    · simp only [hx] at h
      cases h
      simp [List.filter_cons, hq, hx]
    · simp only [hx] at h
      by_cases hqx : q x = true
      · simp [List.filter_cons, hqx, hx, ih h]
      · simp [List.filter_cons, hqx, ih h]

/-- **C01 (removeSingleton).** the file without the removed length-1 dimensions is well-formed -/
theorem removeSingleton_wf (f : File) (dk : Option String) (h : WF f) : WF (removeSingletonFile f dk) := by
  intro v hv
  simp only [removeSingletonFile, List.mem_map] at hv
  obtain ⟨v0, hv0, rfl⟩ := hv
  obtain ⟨hd, _⟩ := h v0 hv0
  -- the removed names
  generalize hrem : ((f.dims.filter (fun d => d.len == 1 && (dk.isNone || dk == some d.name))).map (·.name)) = removed
  have hkeepdim : ∀ k, k ∈ v0.dims → removed.contains k = false →
      ((removeSingletonFile f dk).dim? k) = f.dim? k := by
    intro k hk hnr
    have hsome := hd k hk
    cases hfk : f.dim? k with
    | none => rw [hfk] at hsome; simp at hsome
    | some d =>
      simp only [File.dim?] at hfk ⊢
      simp only [removeSingletonFile, hrem]
      have hname : d.name = k := by
        have := List.find?_some hfk
        simpa using this
      exact find?_filter_keep _ _ _ d hfk (by rw [hname]; simpa using hnr)
  refine ⟨?_, ?_⟩
  · intro k hk
    simp only [hrem, List.mem_map, List.mem_filter, List.mem_range] at hk
    obtain ⟨i, ⟨hi, hnot⟩, rfl⟩ := hk
    have hmem : v0.dims.getD i "" ∈ v0.dims := by
      rw [List.getD_eq_getElem?_getD, List.getElem?_eq_getElem hi]
      simp
    rw [hkeepdim _ hmem (by simpa using hnot)]
    exact hd _ hmem
  · simp only [File.shapeOf, hrem]
    have : (List.map (fun i => v0.dims.getD i "") (List.filter (fun i => !removed.contains (v0.dims.getD i "")) (List.range v0.dims.length))).map
        (removeSingletonFile f dk).dimLen =
        (List.map (fun i => v0.dims.getD i "") (List.filter (fun i => !removed.contains (v0.dims.getD i "")) (List.range v0.dims.length))).map f.dimLen := by
      apply List.map_congr_left
      intro k hk
      simp only [List.mem_map, List.mem_filter, List.mem_range] at hk
      obtain ⟨i, ⟨hi, hnot⟩, rfl⟩ := hk
      have hmem : v0.dims.getD i "" ∈ v0.dims := by
        rw [List.getD_eq_getElem?_getD, List.getElem?_eq_getElem hi]
        simp
      simp only [File.dimLen, hkeepdim _ hmem (by simpa using hnot)]
    rw [this]
    exact build_hasShape _ _

theorem find?_filter_none {α} (p q : α → Bool) (l : List α) (h : l.find? p = none) : (l.filter q).find? p = none := by
  rw [List.find?_eq_none] at h ⊢
  intro x hx
  exact h x (List.mem_filter.mp hx).1

theorem lookup_mem_snd (ps : List (String × String)) (k n : String) (h : ps.lookup k = some n) : n ∈ ps.map (·.2) := by
  induction ps with
  | nil => simp at h
  | cons p rest ih =>
    obtain ⟨a, b⟩ := p
    simp only [List.lookup_cons] at h
    by_cases hk : (k == a) = true
    · simp only [hk] at h; cases h; simp
    · simp only [hk] at h
      simp only [List.map_cons, List.mem_cons]
      exact Or.inr (ih h)

theorem lookup_none_not_mem (ps : List (String × String)) (k : String) (h : ps.lookup k = none) : (ps.map (·.1)).contains k = false := by
  induction ps with
  | nil => simp
  | cons p rest ih =>
    obtain ⟨a, b⟩ := p
    simp only [List.lookup_cons] at h
    by_cases hk : (k == a) = true
    · simp [hk] at h
    · simp only [hk] at h
      have := ih h
      simp only [List.map_cons, List.contains_cons, this, Bool.or_false]
      simpa using hk

/-- the renamed dimension objects: the first one called `n` is the old dimension whose new name is `n`
(targets are pairwise different) -/
theorem renamed_find (f : File) : ∀ (ps : List (String × String)), (ps.map (·.2)).Nodup → ∀ (k n : String),
    ps.lookup k = some n → (∀ p ∈ ps, (f.dim? p.1).isSome = true) →
    ∃ d, f.dim? k = some d ∧ (renamedDims f ps).find? (·.name == n) = some { d with name := n } := by
  intro ps
  induction ps with
  | nil => intro _ k n h; simp at h
  | cons p rest ih =>
    intro hnd k n hl hold
    obtain ⟨a, b⟩ := p
    simp only [List.lookup_cons] at hl
    have ha := hold (a, b) (by simp)
    obtain ⟨da, hda⟩ := Option.isSome_iff_exists.mp ha
    simp only at hda
    simp only [List.map_cons, List.nodup_cons] at hnd
    by_cases hk : (k == a) = true
    · simp only [hk] at hl
      cases hl
      have hka : k = a := by simpa using hk
      subst hka
      refine ⟨da, hda, ?_⟩
      simp [renamedDims, List.filterMap_cons, hda]
    · simp only [hk] at hl
      have hmem := lookup_mem_snd rest k n hl
      have hbn : b ≠ n := by
        intro hbn; subst hbn; exact hnd.1 hmem
      obtain ⟨d, hd, hf⟩ := ih hnd.2 k n hl (fun p hp => hold p (List.mem_cons_of_mem _ hp))
      refine ⟨d, hd, ?_⟩
      simp only [renamedDims, List.filterMap_cons, hda, Option.map_some]
      rw [List.find?_cons]
      have : (({ da with name := b } : Dim).name == n) = false := by simpa using hbn
      simp only [this]
      exact hf

/-- **C01 (renameDimensions, several dimensions in one call).** chains and swaps through existing names are refused,
two dimensions cannot take one name; what is accepted relabels every variable consistently -/
theorem renameDims_wf (f f' : File) (pairs : List (String × String)) (h : WF f)
    (hs : renameDimsFile f pairs = .ok f') : WF f' := by
  unfold renameDimsFile at hs
  simp only at hs
  generalize hps : pairs.filter (fun p => p.1 != p.2) = ps at hs
  by_cases hnd : (ps.map (·.2)).Nodup
  swap
  · simp [hnd] at hs
  by_cases hfresh : ps.any (fun p => (f.dim? p.2).isSome) = true
  · simp [hnd, hfresh] at hs
  by_cases hold : ps.any (fun p => (f.dim? p.1).isNone) = true
  · simp [hnd, hfresh, hold] at hs
  simp only [hnd, decide_true, Bool.not_true, Bool.false_eq_true, if_false, hfresh, hold, Except.ok.injEq] at hs
  have hfresh' : ∀ p ∈ ps, f.dim? p.2 = none := by
    intro p hp
    have := hfresh
    simp only [List.any_eq_true, not_exists, not_and] at this
    have := this p hp
    simpa using this
  have hold' : ∀ p ∈ ps, (f.dim? p.1).isSome = true := by
    intro p hp
    have := hold
    simp only [List.any_eq_true, not_exists, not_and] at this
    have := this p hp
    cases hq : f.dim? p.1 <;> simp_all
  -- the key fact: a dimension of `f` is found under its new name, with its length
  have hvars : f'.vars = f.vars.map (fun v => { v with dims := v.dims.map (renameKey ps) }) := by rw [← hs]
  have key : ∀ k d, f.dim? k = some d → f'.dim? (renameKey ps k) = some { d with name := renameKey ps k } := by
    intro k d hd
    rw [← hs]
    simp only [File.dim?, renameKey]
    cases hl : ps.lookup k with
    | none =>
      simp only [Option.getD_none]
      have hdn : d.name = k := by
        have := List.find?_some hd
        simpa using this
      have hkeep := find?_filter_keep (fun x : Dim => x.name == k) (fun x => !(ps.map (·.1)).contains x.name) f.dims d hd
        (by rw [hdn, lookup_none_not_mem ps k hl]; rfl)
      rw [List.find?_append, hkeep]
      simp [← hdn]
    | some n =>
      simp only [Option.getD_some]
      obtain ⟨d', hd', hf⟩ := renamed_find f ps hnd k n hl hold'
      rw [hd] at hd'
      cases hd'
      have hmem : (k, n) ∈ ps := by
        have := List.lookup_eq_some_iff.mp hl
        obtain ⟨l1, l2, hl12, _⟩ := this
        rw [hl12]; simp
      have hn := hfresh' (k, n) hmem
      simp only [File.dim?] at hn
      rw [List.find?_append, find?_filter_none _ _ _ hn]
      simpa using hf
  intro v hv
  rw [hvars] at hv
  simp only [List.mem_map] at hv
  obtain ⟨w, hw, rfl⟩ := hv
  obtain ⟨hwd, hws⟩ := h w hw
  constructor
  · intro k hk
    simp only [List.mem_map] at hk
    obtain ⟨k0, hk0, rfl⟩ := hk
    obtain ⟨d, hd⟩ := Option.isSome_iff_exists.mp (hwd k0 hk0)
    rw [key k0 d hd]; rfl
  · have : f'.shapeOf { w with dims := w.dims.map (renameKey ps) } = f.shapeOf w := by
      simp only [File.shapeOf, List.map_map]
      apply List.map_congr_left
      intro k0 hk0
      obtain ⟨d, hd⟩ := Option.isSome_iff_exists.mp (hwd k0 hk0)
      simp only [Function.comp, File.dimLen, key k0 d hd, hd, Option.map_some, Option.getD_some]
    rw [this]; exact hws

/-- **C01 (renameDimension).** the single-dimension form is the one-pair case of `renameDimensions` -/
theorem renameDim_wf (f f' : File) (old new : String) (h : WF f)
    (hs : renameDimFile f old new = .ok f') : WF f' := by
  unfold renameDimFile at hs
  by_cases hon : (old == new) = true
  · simp only [hon, if_true, Except.ok.injEq] at hs; subst hs; exact h
  simp only [hon] at hs
  by_cases h1 : (f.dim? old).isNone = true
  · simp [h1] at hs
  by_cases h2 : (f.dim? new).isSome = true
  · simp [h1, h2] at hs
  simp only [h1, h2, Bool.false_eq_true, if_false, Except.ok.injEq] at hs
  apply renameDims_wf f f' [(old, new)] h
  unfold renameDimsFile
  have hne : (old != new) = true := by simpa using hon
  simp only [List.filter_cons, hne, if_true, List.filter_nil, List.map_cons, List.map_nil, List.nodup_cons,
    List.not_mem_nil, not_false_eq_true, List.nodup_nil, and_self, decide_true, Bool.not_true, Bool.false_eq_true, if_false,
    List.any_cons, List.any_nil, Bool.or_false, h1, h2]
  rw [← hs]
  have hdims : List.filter (fun d : Dim => ![old].contains d.name) f.dims ++ renamedDims f [(old, new)] =
      List.filter (fun x : Dim => x.name != old) f.dims ++
        (Option.map (fun d : Dim => ({ d with name := new } : Dim)) (f.dim? old)).toList := by
    refine congrArg₂ (· ++ ·) ?_ ?_
    · apply List.filter_congr
      intro d _
      by_cases hdn : d.name = old <;> simp [bne, hdn]
    · cases hd : f.dim? old <;> simp [renamedDims, hd]
  have hvars : List.map (fun v : Var => { v with dims := List.map (renameKey [(old, new)]) v.dims }) f.vars =
      List.map (fun v : Var => { v with dims := List.map (fun k => if (k == old) = true then new else k) v.dims }) f.vars := by
    apply List.map_congr_left
    intro v _
    have : List.map (renameKey [(old, new)]) v.dims = List.map (fun k => if (k == old) = true then new else k) v.dims := by
      apply List.map_congr_left
      intro k _
      simp only [renameKey, List.lookup_cons, List.lookup_nil]
      by_cases hk : (k == old) = true <;> simp [hk]
    rw [this]
  rw [hdims, hvars]

/-! ### applyAlongDimensions -/

/-- the shape `applyAlongDimensions` produces for a variable with dimensions `dims` and shape `sh` -/
def targetShape (fns : List (String × Fn)) : List String → List Nat → List Nat
  | d :: ds, n :: ns => (match fnOf fns d with | some fn => fnLen fn n | none => n) :: targetShape fns ds ns
  | _, _ => []

theorem targetShape_length (fns : List (String × Fn)) : ∀ (dims : List String) (sh : List Nat),
    dims.length = sh.length → (targetShape fns dims sh).length = sh.length
  | [], [], _ => rfl
  | d :: ds, n :: ns, h => by simp [targetShape, targetShape_length fns ds ns (by simpa using h)]
  | [], _ :: _, h => by simp at h
  | _ :: _, [], h => by simp at h

theorem targetShape_getD (fns : List (String × Fn)) : ∀ (dims : List String) (sh : List Nat) (i : Nat),
    dims.length = sh.length → i < sh.length →
    (targetShape fns dims sh).getD i 0 =
      (match fnOf fns (dims.getD i "") with | some fn => fnLen fn (sh.getD i 0) | none => sh.getD i 0)
  | d :: ds, n :: ns, 0, _, _ => by simp [targetShape]
  | d :: ds, n :: ns, i + 1, h, hi => by
    simp only [targetShape, List.getD_cons_succ]
    exact targetShape_getD fns ds ns i (by simpa using h) (by simpa using hi)
  | [], [], _, _, hi => by simp at hi
  | [], _ :: _, _, h, _ => by simp at h
  | _ :: _, [], _, h, _ => by simp at h

theorem allPos_set (sh : List Nat) (k v : Nat) (h : AllPos sh) (hv : 0 < v) : AllPos (sh.set k v) := by
  intro n hn
  rcases List.mem_or_eq_of_mem_set hn with h1 | h1
  · exact h n h1
  · omega

theorem take_drop_step (T s : List Nat) (n v : Nat) (hT : T[n]? = some v) (hs : s[n]? = some v) :
    T.take n ++ s.drop n = T.take (n + 1) ++ s.drop (n + 1) := by
  have hn : n < s.length := by
    by_contra hc
    rw [List.getElem?_eq_none (by omega)] at hs
    cases hs
  rw [List.take_add_one, hT, List.append_assoc, List.drop_eq_getElem_cons hn]
  have : s[n] = v := by
    rw [List.getElem?_eq_getElem hn] at hs
    exact Option.some.inj hs
  simp [this]

/-- the axes loop of `applyVar`, last axis first: data and shape stay consistent and every processed axis takes
the function's output length -/
theorem applyAxes_spec (fns : List (String × Fn)) (dims : List String) (sh0 : List Nat)
    (hlen : dims.length = sh0.length)
    (hpos : ∀ i, i < sh0.length → ∀ fn, fnOf fns (dims.getD i "") = some fn → 0 < fnLen fn (sh0.getD i 0)) :
    ∀ (n : Nat) (a : Arr Cell) (sh : List Nat), n ≤ sh0.length → sh.length = sh0.length →
      hasShape sh a = true → AllPos sh → sh.take n = sh0.take n →
      hasShape ((List.range n).reverse.foldl (applyAxis fns dims) (a, sh)).2
          ((List.range n).reverse.foldl (applyAxis fns dims) (a, sh)).1 = true ∧
        AllPos ((List.range n).reverse.foldl (applyAxis fns dims) (a, sh)).2 ∧
        ((List.range n).reverse.foldl (applyAxis fns dims) (a, sh)).2 =
          (targetShape fns dims sh0).take n ++ sh.drop n := by
  intro n
  induction n with
  | zero =>
    intro a sh _ _ hs hp _
    simp only [List.range_zero, List.reverse_nil, List.foldl_nil, List.take_zero, List.drop_zero, List.nil_append]
    exact ⟨hs, hp, trivial⟩
  | succ n ih =>
    intro a sh hn hl hs hp ht
    have hnl : n < sh0.length := by omega
    have hnsh : n < sh.length := by omega
    have hTl := targetShape_length fns dims sh0 hlen
    have hnT : n < (targetShape fns dims sh0).length := by omega
    have htn : sh.take n = sh0.take n := by
      have := congrArg (List.take n) ht
      simpa [List.take_take, Nat.min_eq_left (Nat.le_succ n)] using this
    -- position n is still the original length
    have hshn : sh.getD n 0 = sh0.getD n 0 := by
      have h1 : (sh.take (n + 1))[n]? = (sh0.take (n + 1))[n]? := by rw [ht]
      rw [List.getElem?_take_of_lt (by omega), List.getElem?_take_of_lt (by omega)] at h1
      simp only [List.getD_eq_getElem?_getD, h1]
    have hTget := targetShape_getD fns dims sh0 n hlen hnl
    rw [List.getD_eq_getElem?_getD, List.getElem?_eq_getElem hnT, Option.getD_some] at hTget
    rw [List.range_succ, List.reverse_append, List.reverse_singleton, List.singleton_append, List.foldl_cons]
    cases hf : fnOf fns (dims.getD n "") with
    | none =>
      have hstep : applyAxis fns dims (a, sh) n = (a, sh) := by simp only [applyAxis, hf]
      rw [hstep]
      obtain ⟨h1, h2, h3⟩ := ih a sh (by omega) hl hs hp htn
      refine ⟨h1, h2, ?_⟩
      rw [h3]
      apply take_drop_step _ _ n (sh.getD n 0)
      · rw [List.getElem?_eq_getElem hnT, hTget, hf, hshn]
      · simp [List.getD_eq_getElem?_getD, List.getElem?_eq_getElem hnsh]
    | some fn =>
      have hu := fn_uniform fn
      have hv : 0 < fnLen fn (sh.getD n 0) := by rw [hshn]; exact hpos n hnl fn hf
      have hstep : applyAxis fns dims (a, sh) n =
          (mapFibers fn.apply sh n a, sh.set n (fnLen fn (sh.getD n 0))) := by
        simp only [applyAxis, hf]
        congr 2
        rw [hu]; simp
      rw [hstep]
      have hs1 := mapFibers_hasShape fn.apply (fnLen fn) hu sh n a hs hp hnsh
      have hp1 := allPos_set sh n _ hp hv
      obtain ⟨h1, h2, h3⟩ := ih (mapFibers fn.apply sh n a) (sh.set n (fnLen fn (sh.getD n 0))) (by omega)
        (by simp [hl]) hs1 hp1 (by rw [List.take_set_of_le (Nat.le_refl n)]; exact htn)
      refine ⟨h1, h2, ?_⟩
      rw [h3]
      have hd : (sh.set n (fnLen fn (sh.getD n 0))).drop (n + 1) = sh.drop (n + 1) := List.drop_set_of_lt (by omega)
      rw [← hd]
      apply take_drop_step _ _ n (fnLen fn (sh.getD n 0))
      · rw [List.getElem?_eq_getElem hnT, hTget, hf, hshn]
      · simp [hnsh]

theorem find?_map_len (dims : List Dim) (h : Dim → Nat) (k : String) :
    (dims.map (fun d => { d with len := h d })).find? (·.name == k) =
      (dims.find? (·.name == k)).map (fun d => { d with len := h d }) := by
  induction dims with
  | nil => rfl
  | cons d rest ih =>
    simp only [List.map_cons, List.find?_cons]
    by_cases hd : (d.name == k) = true
    · simp [hd]
    · simp only [hd]
      exact ih

/-- **C01 (applyAlongDimensions).** For a file without empty dimensions and functions that do not empty an axis
(`diff` of a length-1 axis does), the result of `applyAlongDimensions` is well-formed: every variable keeps its
dimension names and its data have exactly the new dimension lengths — any rank, any number of functions. -/
theorem apply_wf (f g : File) (fns : List (String × Fn)) (h : WF f)
    (hne : ∀ d ∈ f.dims, 0 < d.len)
    (hfn : ∀ name fn, fnOf fns name = some fn → 0 < fnLen fn (f.dimLen name))
    (hs : applyFile f fns = .ok g) : WF g := by
  unfold applyFile at hs
  split at hs
  · cases hs
  split at hs
  · cases hs
  split at hs
  · cases hs
  simp only [Except.ok.injEq] at hs
  -- the new length of a dimension
  have hnew : ∀ (d : Dim), (match fnOf fns d.name with
        | some fn => (fn.apply ((List.range d.len).map (fun i => some ((i : Nat) : Rat)))).length
        | none => d.len) = (match fnOf fns d.name with | some fn => fnLen fn d.len | none => d.len) := by
    intro d
    cases hf : fnOf fns d.name with
    | none => rfl
    | some fn => simp only; rw [fn_uniform fn]; simp
  have hdim : ∀ k, g.dim? k = (f.dim? k).map (fun d => { d with len :=
      (match fnOf fns d.name with | some fn => fnLen fn d.len | none => d.len) }) := by
    intro k
    rw [← hs]
    simp only [File.dim?]
    rw [find?_map_len]
    congr 1
    funext d
    exact congrArg (fun n => ({ name := d.name, len := n, unlim := d.unlim } : Dim)) (hnew d)
  have hlenk : ∀ k d, f.dim? k = some d → g.dimLen k = (match fnOf fns k with | some fn => fnLen fn d.len | none => d.len) := by
    intro k d hd
    have hname : d.name = k := by
      have := List.find?_some hd
      simpa using this
    simp only [File.dimLen, hdim k, hd, Option.map_some, Option.getD_some, hname]
  have hvars : g.vars = f.vars.map (applyVar f fns) := by rw [← hs]
  intro v' hv'
  rw [hvars] at hv'
  obtain ⟨v, hv, rfl⟩ := List.mem_map.mp hv'
  obtain ⟨hvd, hvs⟩ := h v hv
  have hdims : (applyVar f fns v).dims = v.dims := rfl
  constructor
  · intro k hk
    rw [hdims] at hk
    obtain ⟨d, hd⟩ := Option.isSome_iff_exists.mp (hvd k hk)
    rw [hdim k, hd]; rfl
  · -- the shape
    have hsh0len : v.dims.length = (f.shapeOf v).length := by simp [File.shapeOf]
    have hpos0 : AllPos (f.shapeOf v) := by
      intro n hn
      simp only [File.shapeOf, List.mem_map] at hn
      obtain ⟨k, hk, rfl⟩ := hn
      obtain ⟨d, hd⟩ := Option.isSome_iff_exists.mp (hvd k hk)
      simp only [File.dimLen, hd, Option.map_some, Option.getD_some]
      exact hne d (List.mem_of_find?_eq_some hd)
    have hposf : ∀ i, i < (f.shapeOf v).length → ∀ fn, fnOf fns (v.dims.getD i "") = some fn →
        0 < fnLen fn ((f.shapeOf v).getD i 0) := by
      intro i hi fn hf
      have hi' : i < v.dims.length := by omega
      have : (f.shapeOf v).getD i 0 = f.dimLen (v.dims.getD i "") := by
        simp [File.shapeOf, List.getD_eq_getElem?_getD, List.getElem?_eq_getElem hi']
      rw [this]
      exact hfn _ fn hf
    obtain ⟨r1, _, r3⟩ := applyAxes_spec fns v.dims (f.shapeOf v) hsh0len hposf v.dims.length v.data (f.shapeOf v)
      (by omega) rfl hvs hpos0 rfl
    have hTl := targetShape_length fns v.dims (f.shapeOf v) hsh0len
    rw [List.take_of_length_le (by omega), List.drop_of_length_le (by omega), List.append_nil] at r3
    -- the target shape is the list of new dimension lengths
    have htarget : targetShape fns v.dims (f.shapeOf v) = g.shapeOf (applyVar f fns v) := by
      simp only [File.shapeOf, hdims]
      have : ∀ (ks : List String), (∀ k ∈ ks, (f.dim? k).isSome = true) →
          targetShape fns ks (ks.map f.dimLen) = ks.map g.dimLen := by
        intro ks
        induction ks with
        | nil => intro _; rfl
        | cons k rest ih =>
          intro hk
          obtain ⟨d, hd⟩ := Option.isSome_iff_exists.mp (hk k (by simp))
          simp only [List.map_cons, targetShape]
          rw [ih (fun x hx => hk x (List.mem_cons_of_mem _ hx)), hlenk k d hd]
          congr 1
          simp only [File.dimLen, hd, Option.map_some, Option.getD_some]
      exact this v.dims hvd
    rw [← htarget, ← r3]
    unfold applyVar
    simp only
    split
    · exact mapCells_hasShape _ _ _ r1
    · exact r1

/-- non-vacuity: a two-variable file is well-formed and stays so under mask and insertDimension -/
example : let f : File := ⟨[⟨"t", 2, true⟩, ⟨"x", 2, false⟩],
      [⟨"A", ["t", "x"], .node [.node [.leaf (some 1), .leaf none], .node [.leaf (some 3), .leaf (some 4)]], [], true, false⟩,
       ⟨"x", ["x"], .node [.leaf (some 10), .leaf (some 20)], [], false, false⟩], []⟩
    WF f ∧ f.dim? "lev" = none := by
  refine ⟨?_, by decide⟩
  intro v hv
  simp only [List.mem_cons, List.not_mem_nil, or_false] at hv
  rcases hv with rfl | rfl <;> refine ⟨by decide, by decide⟩

/-- non-vacuity of `renameDims_wf`: a two-dimension rename is accepted; a swap and a merge are refused -/
example : let f : File := ⟨[⟨"t", 2, true⟩, ⟨"x", 2, false⟩],
      [⟨"A", ["t", "x"], .node [.node [.leaf (some 1), .leaf none], .node [.leaf (some 3), .leaf (some 4)]], [], true, false⟩], []⟩
    (∃ g, renameDimsFile f [("t", "time"), ("x", "lon")] = .ok g ∧ g.vars.map (·.dims) = [["time", "lon"]]) ∧
    renameDimsFile f [("t", "x"), ("x", "t")] = .error "ValueError" ∧
    renameDimsFile f [("t", "z"), ("x", "z")] = .error "ValueError" := by
  refine ⟨⟨_, rfl, by decide⟩, rfl, rfl⟩

/-- non-vacuity of `apply_wf`: the mean over `t` of a (t, x) variable next to a 1-D variable -/
example : let f : File := ⟨[⟨"t", 2, true⟩, ⟨"x", 2, false⟩],
      [⟨"A", ["t", "x"], .node [.node [.leaf (some 1), .leaf none], .node [.leaf (some 3), .leaf (some 4)]], [], true, false⟩,
       ⟨"x", ["x"], .node [.leaf (some 10), .leaf (some 20)], [], false, false⟩], []⟩
    (∀ d ∈ f.dims, 0 < d.len) ∧ (∀ name fn, fnOf [("t", Fn.mean)] name = some fn → 0 < fnLen fn (f.dimLen name)) ∧
    (applyFile f [("t", Fn.mean)]).toOption.isSome = true := by
  refine ⟨by decide, ?_, by decide +kernel⟩
  intro name fn h
  simp only [fnOf] at h
  by_cases hn : name = "t"
  · subst hn; simp at h; subst h; decide
  · simp [hn] at h
    cases h : ([("t", Fn.mean)] : List (String × Fn)).find? (fun x => x.1 == name) <;> simp_all

end Props.C01
