import PncProofs.C04Files
import PncProofs.C01Seq
open PFile Arr PySlice
namespace Props.C04

/-- the index list of a unit-stride range (the same statement as `rangeList_unit`, kept here so that this file
does not depend on the IOAPI model) -/
theorem rangeList_unit (s e : Int) (hs : 0 ≤ s) :
    rangeList s e 1 = (List.range (e - s).toNat).map (fun k => s.toNat + k) := by
  unfold rangeList
  simp only [show (1 : Int) > 0 by decide, if_true]
  by_cases h : e > s
  · simp only [h, if_true]
    have : ((e - s + 1 - 1) / 1).toNat = (e - s).toNat := by simp
    rw [this]
    apply List.map_congr_left
    intro k _
    omega
  · simp only [h, if_false]
    have : (e - s).toNat = 0 := by omega
    rw [this]
    rfl

/-- the indices a unit-stride slice `[a:b]` with `0 ≤ a ≤ b ≤ n` selects -/
theorem sliceIndices_window (n a b : Nat) (hab : a ≤ b) (hbn : b ≤ n) :
    sliceIndices n (some (a : Int)) (some (b : Int)) 1 = List.range' a (b - a) := by
  unfold sliceIndices
  have hb : sliceBounds n (some (a : Int)) (some (b : Int)) 1 = ((a : Int), (b : Int)) := by
    unfold sliceBounds
    simp only [show ¬ ((1 : Int) < 0) by decide, if_false]
    have h1 : ¬ ((a : Int) < 0) := by omega
    have h2 : ¬ ((b : Int) < 0) := by omega
    have h3 : ¬ ((a : Int) > (n : Int)) := by omega
    have h4 : ¬ ((b : Int) > (n : Int)) := by omega
    simp only [h1, h2, h3, h4, if_false]
  rw [hb]
  simp only
  rw [rangeList_unit _ _ (by omega)]
  have : ((b : Int) - (a : Int)).toNat = b - a := by omega
  rw [this]
  apply List.ext_getElem?
  intro j
  by_cases hj : j < b - a
  · rw [List.getElem?_range' hj]
    simp [List.getElem?_map, List.getElem?_range hj]
  · rw [List.getElem?_eq_none (by simpa using Nat.le_of_not_lt hj), List.getElem?_eq_none (by simpa using Nat.le_of_not_lt hj)]


/-- the per-axis selections of a variable when one dimension `sd` is cut to `[lo, lo + n)` -/
def cutSels (L : String → Nat) (sd : String) (lo n : Nat) (dims : List String) : List (List Nat) :=
  dims.map (fun k => if k == sd then List.range' lo n else List.range (L k))

theorem cutSels_noSd (L : String → Nat) (sd : String) (lo n : Nat) : ∀ (dims : List String), sd ∉ dims →
    cutSels L sd lo n dims = (dims.map L).map List.range
  | [], _ => rfl
  | k :: rest, h => by
    simp only [List.mem_cons, not_or] at h
    have hk : (k == sd) = false := by simpa using fun e => h.1 e.symm
    simp only [cutSels, List.map_cons, hk]
    have := cutSels_noSd L sd lo n rest h.2
    simp only [cutSels] at this
    rw [this]
    rfl

/-- for a variable that has `sd` on exactly one axis the selections are a window on that axis -/
theorem cutSels_window (L : String → Nat) (sd : String) (lo n : Nat) : ∀ (dims : List String),
    (dims.filter (· == sd)).length = 1 →
    cutSels L sd lo n dims = windowSels (dims.map L) (dims.idxOf sd) lo n
  | [], h => by simp at h
  | k :: rest, h => by
    by_cases hk : (k == sd) = true
    · have hks : k = sd := by simpa using hk
      have hrest : sd ∉ rest := by
        intro hm
        have : 0 < (rest.filter (· == sd)).length := List.length_pos_of_mem (List.mem_filter.mpr ⟨hm, by simp⟩)
        simp only [List.filter_cons, hk, if_true, List.length_cons] at h
        omega
      have h0 : (k :: rest).idxOf sd = 0 := by simp [List.idxOf_cons, hks]
      rw [h0]
      simp only [List.map_cons, windowSels]
      have := cutSels_noSd L sd lo n rest hrest
      simp only [cutSels, List.map_cons, hk, if_true] at this ⊢
      rw [this]
    · have hkf : (k == sd) = false := by simpa using hk
      have hcnt : (rest.filter (· == sd)).length = 1 := by
        simp only [List.filter_cons, hkf] at h
        simpa using h
      have hne : ¬ (k = sd) := by simpa using hkf
      have hi : (k :: rest).idxOf sd = rest.idxOf sd + 1 := by
        rw [List.idxOf_cons]
        simp [hkf]
      rw [hi]
      simp only [List.map_cons, windowSels]
      have := cutSels_window L sd lo n rest hcnt
      simp only [cutSels, List.map_cons, hkf] at this ⊢
      rw [this]
      rfl

/-- one variable of a file cut along `sd` to the indices `l` -/
def cutVar (f : File) (sd : String) (l : List Nat) (v : Var) : Var :=
  { v with data := orth (v.dims.map (fun k => if k == sd then l else List.range (f.dimLen k))) v.data }

theorem mapM_ok_map {α β} (g : α → β) : ∀ (l : List α), l.mapM (fun x => (Except.ok (g x) : Except String β)) = .ok (l.map g)
  | [] => rfl
  | x :: l => by
    rw [List.mapM_cons, mapM_ok_map g l]
    rfl

/-- **a unit-stride cut as a file operation**: `sliceDimensions(sd=slice(a, b))` gives the file whose dimension `sd` has
the new length and whose variables are cut on the axes that carry `sd` -/
theorem sliceFile_cut (f : File) (sd nd : String) (s : PSel) (l : List Nat) (hsd : (f.dim? sd).isSome = true)
    (hstep : ∀ a b, s ≠ .slice a b 0) (hl : s.indices (f.dimLen sd) = some l)
    (hnl : s.isList = false) :
    sliceFile f [(sd, s)] nd = .ok { f with
      dims := f.dims.map (fun d => { d with len := if d.name == sd then l.length else d.len }),
      vars := f.vars.map (cutVar f sd l) } := by
  have hidx : sliceIdx f [(sd, s)] = .ok [(sd, l)] := by
    unfold sliceIdx
    simp only [List.mapM_cons, List.mapM_nil, hl]
    rfl
  have hsel : ∀ k, selIdxs (selOfDim f [(sd, s)] [(sd, l)] false k) = if k == sd then l else List.range (f.dimLen k) := by
    intro k
    unfold selOfDim lookupSel
    by_cases hk : k = sd
    · subst hk
      simp [List.find?, selIdxs, hnl]
    · have h1 : (sd == k) = false := by simpa using fun e => hk e.symm
      have h2 : (k == sd) = false := by simpa using hk
      simp [List.find?, h1, h2, selIdxs]
  have hzip : ∀ k, isZipSel [(sd, s)] false k = false := by
    intro k
    unfold isZipSel
    cases lookupSel [(sd, s)] k <;> simp
  have hvar : ∀ (L : Nat) (v : Var), sliceVar f [(sd, s)] [(sd, l)] false L nd v = .ok (cutVar f sd l v) := by
    intro L v
    unfold sliceVar
    have : v.dims.filter (isZipSel [(sd, s)] false) = [] := by
      rw [List.filter_eq_nil_iff]
      intro k _
      simp [hzip]
    simp only [this, List.length_nil]
    rw [if_neg (by omega)]
    unfold cutVar
    congr 3
    rw [List.map_map]
    apply List.map_congr_left
    intro k _
    exact hsel k
  unfold sliceFile
  have h1 : ([(sd, s)].any (fun p => (f.dim? p.1).isNone)) = false := by
    cases hd : f.dim? sd with
    | none => rw [hd] at hsd; simp at hsd
    | some d => simp [hd]
  have h3 : decide (([(sd, s)].filter (·.2.isList)).length ≥ 2) = false := by
    simp [List.filter, hnl]
  simp only [h1, h3, Bool.false_eq_true, if_false, Bool.false_and]
  split
  · rename_i hbad
    simp only [List.any_cons, List.any_nil, Bool.or_false] at hbad
    cases s with
    | int i => simp at hbad
    | list l0 => simp at hbad
    | slice a b st =>
      by_cases h0 : st = 0
      · subst h0
        exact absurd rfl (hstep a b)
      · cases hbad
  rw [hidx]
  simp only
  have hm : ∀ L, f.vars.mapM (sliceVar f [(sd, s)] [(sd, l)] false L nd) = .ok (f.vars.map (cutVar f sd l)) := by
    intro L
    have : (sliceVar f [(sd, s)] [(sd, l)] false L nd) = fun v => (Except.ok (cutVar f sd l v) : Except String Var) := by
      funext v
      exact hvar L v
    rw [this]
    exact mapM_ok_map _ _
  rw [hm]
  simp only
  congr 2
  apply List.map_congr_left
  intro d _
  unfold slicedLen
  by_cases hd : d.name = sd
  · simp [List.find?, hd]
  · have h1 : (sd == d.name) = false := by simpa using fun e => hd e.symm
    have h2 : (d.name == sd) = false := by simpa using hd
    simp [List.find?, h1, h2]


/-! ### the pieces of a file cut at `c` along `sd`, and their stack -/

/-- the file cut along `sd` to the indices `l` (what `sliceFile_cut` says `sliceDimensions` returns) -/
def cutFile (f : File) (sd : String) (l : List Nat) : File :=
  { f with dims := f.dims.map (fun d => { d with len := if d.name == sd then l.length else d.len }),
           vars := f.vars.map (cutVar f sd l) }

theorem cutVar_name (f : File) (sd : String) (l : List Nat) (v : Var) : (cutVar f sd l v).name = v.name := rfl
theorem cutVar_dims (f : File) (sd : String) (l : List Nat) (v : Var) : (cutVar f sd l v).dims = v.dims := rfl

/-- a variable without the cut dimension is not changed by the cut -/
theorem cutVar_noSd (f : File) (sd : String) (l : List Nat) (v : Var) (hv : Props.C01.VarWF f v) (h : sd ∉ v.dims) :
    cutVar f sd l v = v := by
  unfold cutVar
  have := cutSels_noSd f.dimLen sd 0 0 v.dims h
  have h2 : v.dims.map (fun k => if k == sd then l else List.range (f.dimLen k)) = (v.dims.map f.dimLen).map List.range := by
    rw [List.map_map]
    apply List.map_congr_left
    intro k hk
    have : (k == sd) = false := by
      have hne : k ≠ sd := fun e => h (by rw [← e]; exact hk)
      simpa using hne
    simp [this]
  rw [h2, orth_full_id (v.dims.map f.dimLen) v.data hv.2]

/-- variables of the cut file are found under their names -/
theorem cutFile_var? (f : File) (sd : String) (l : List Nat) (hn : NamesNodup f) (v : Var) (hv : v ∈ f.vars) :
    (cutFile f sd l).var? v.name = some (cutVar f sd l v) := by
  unfold File.var? cutFile
  simp only
  have hnod : ((f.vars.map (cutVar f sd l)).map (·.name)).Nodup := by
    rw [List.map_map]
    exact hn
  have hm : cutVar f sd l v ∈ f.vars.map (cutVar f sd l) := List.mem_map.mpr ⟨v, hv, rfl⟩
  exact Props.C01.find?_name_of_mem (fun (x : Var) => x.name) _ hnod _ hm

/-- **split and stack, one variable.** For a well-formed variable that has `sd` on exactly one axis, the variable of the
piece `[0, c)` stacked with that of the piece `[c, n)` is the variable. -/
theorem stackVar_pieces (f : File) (sd : String) (c : Nat) (hn : NamesNodup f) (v : Var) (hv : v ∈ f.vars)
    (hwf : Props.C01.VarWF f v) (hc : c ≤ f.dimLen sd) (hone : (v.dims.filter (· == sd)).length = 1) :
    stackVar [cutFile f sd (List.range' 0 c), cutFile f sd (List.range' c (f.dimLen sd - c))] sd
      (cutVar f sd (List.range' 0 c) v) = .ok v := by
  have hmem : sd ∈ v.dims := by
    have : 0 < (v.dims.filter (· == sd)).length := by omega
    obtain ⟨k, hk⟩ := List.exists_mem_of_length_pos this
    have := List.mem_filter.mp hk
    have hks : k = sd := by simpa using this.2
    exact hks ▸ this.1
  unfold stackVar
  split
  · rename_i h
    have hd : (cutVar f sd (List.range' 0 c) v).dims = v.dims := rfl
    rw [hd] at h
    simp [hmem] at h
  split
  · rename_i h
    have hd : (cutVar f sd (List.range' 0 c) v).dims = v.dims := rfl
    rw [hd] at h
    omega
  simp only [cutVar_dims, cutVar_name]
  simp only [List.mapM_cons, List.mapM_nil, cutFile_var? f sd _ hn v hv]
  simp only [Option.pure_def, Option.bind_eq_bind, Option.bind_some, List.map_cons, List.map_nil]
  -- the two pieces are windows of the variable along the axis of `sd`
  have hk : v.dims.idxOf sd < (v.dims.map f.dimLen).length := by
    simpa using List.idxOf_lt_length_of_mem hmem
  have hlen : (v.dims.map f.dimLen).getD (v.dims.idxOf sd) 0 = f.dimLen sd := by
    rw [List.getD_eq_getElem?_getD, List.getElem?_map, List.getElem?_eq_getElem (by simpa using hk)]
    simp [List.getElem_idxOf]
  have hwA := cutSels_window f.dimLen sd 0 c v.dims hone
  have hwB := cutSels_window f.dimLen sd c (f.dimLen sd - c) v.dims hone
  unfold cutSels at hwA hwB
  have hcat := concat_windows (v.dims.map f.dimLen) (v.dims.idxOf sd) v.data c hwf.2 hk (by rw [hlen]; exact hc)
  rw [hlen] at hcat
  unfold cutVar
  simp only [concatAll]
  rw [hwA, hwB, hcat]


theorem firstByName_append : ∀ (l1 l2 acc : List Var), firstByName acc (l1 ++ l2) = firstByName (firstByName acc l1) l2
  | [], _, _ => rfl
  | x :: l1, l2, acc => by
    simp only [List.cons_append, firstByName]
    split
    · exact firstByName_append l1 l2 acc
    · exact firstByName_append l1 l2 (acc ++ [x])

theorem firstByName_fresh : ∀ (l acc : List Var), ((acc ++ l).map (·.name)).Nodup → firstByName acc l = acc ++ l
  | [], acc, _ => by simp [firstByName]
  | x :: l, acc, h => by
    unfold firstByName
    have hx : ¬ (acc.any (·.name == x.name) = true) := by
      intro hany
      rw [List.any_eq_true] at hany
      obtain ⟨y, hy, hyx⟩ := hany
      have hyx' : y.name = x.name := by simpa using hyx
      rw [List.map_append, List.nodup_append] at h
      exact h.2.2 y.name (List.mem_map.mpr ⟨y, hy, rfl⟩) x.name (by simp) hyx'
    rw [if_neg hx]
    rw [firstByName_fresh l (acc ++ [x]) (by simpa using h)]
    simp

theorem firstByName_known : ∀ (l acc : List Var), (∀ x ∈ l, ∃ y ∈ acc, y.name = x.name) → firstByName acc l = acc
  | [], _, _ => rfl
  | x :: l, acc, h => by
    unfold firstByName
    have hx : acc.any (·.name == x.name) = true := by
      obtain ⟨y, hy, hyx⟩ := h x (by simp)
      rw [List.any_eq_true]
      exact ⟨y, hy, by simp [hyx]⟩
    rw [if_pos hx]
    exact firstByName_known l acc (fun z hz => h z (by simp [hz]))

theorem mapM_ok_of_forall {α β} (g : α → Except String β) (h : α → β) : ∀ (l : List α), (∀ x ∈ l, g x = .ok (h x)) →
    l.mapM g = .ok (l.map h)
  | [], _ => rfl
  | x :: l, hx => by
    rw [List.mapM_cons, hx x (by simp), mapM_ok_of_forall g h l (fun y hy => hx y (by simp [hy]))]
    rfl

/-- the variables `stack` builds from the two pieces: those of the file -/
theorem pieces_vars (f : File) (sd : String) (c : Nat) (hwf : Props.C01.WF f) (hvn : NamesNodup f) (hc : c ≤ f.dimLen sd)
    (hone : ∀ v ∈ f.vars, (v.dims.filter (· == sd)).length ≤ 1) :
    (firstByName [] ([cutFile f sd (List.range' 0 c), cutFile f sd (List.range' c (f.dimLen sd - c))].flatMap (·.vars))).mapM
      (stackVar [cutFile f sd (List.range' 0 c), cutFile f sd (List.range' c (f.dimLen sd - c))] sd) = .ok f.vars := by
  -- the variables that are stacked: those of the first piece
  have hfirst : firstByName [] ([cutFile f sd (List.range' 0 c), cutFile f sd (List.range' c (f.dimLen sd - c))].flatMap (·.vars))
      = f.vars.map (cutVar f sd (List.range' 0 c)) := by
    simp only [List.flatMap_cons, List.flatMap_nil, List.append_nil, cutFile]
    have hnod : ((([] : List Var) ++ f.vars.map (cutVar f sd (List.range' 0 c))).map (fun (x : Var) => x.name)).Nodup := by
      simp only [List.nil_append, List.map_map]
      exact hvn
    rw [firstByName_append, firstByName_fresh _ [] hnod]
    simp only [List.nil_append]
    apply firstByName_known
    intro x hx
    obtain ⟨v, hv, rfl⟩ := List.mem_map.mp hx
    exact ⟨cutVar f sd (List.range' 0 c) v, List.mem_map.mpr ⟨v, hv, rfl⟩, rfl⟩
  rw [hfirst]
  have hall : ∀ x ∈ f.vars.map (cutVar f sd (List.range' 0 c)),
      stackVar [cutFile f sd (List.range' 0 c), cutFile f sd (List.range' c (f.dimLen sd - c))] sd x =
        .ok ((fun w : Var => (f.var? w.name).getD w) x) := by
    intro x hx
    obtain ⟨v, hv, rfl⟩ := List.mem_map.mp hx
    have hfind : f.var? v.name = some v := by
      unfold File.var?
      exact Props.C01.find?_name_of_mem (fun (x : Var) => x.name) f.vars hvn v hv
    simp only [cutVar_name, hfind, Option.getD_some]
    by_cases hm : sd ∈ v.dims
    · have h1 : (v.dims.filter (· == sd)).length = 1 := by
        have := hone v hv
        have : 0 < (v.dims.filter (· == sd)).length := List.length_pos_of_mem (List.mem_filter.mpr ⟨hm, by simp⟩)
        omega
      exact stackVar_pieces f sd c hvn v hv (hwf v hv) hc h1
    · rw [cutVar_noSd f sd _ v (hwf v hv) hm]
      unfold stackVar
      have : (!(v.dims.contains sd)) = true := by simpa using hm
      rw [if_pos this]
  rw [mapM_ok_of_forall _ _ _ hall, List.map_map]
  congr 1
  conv_rhs => rw [← List.map_id f.vars]
  apply List.map_congr_left
  intro v hv
  have hfind : f.var? v.name = some v := by
    unfold File.var?
    exact Props.C01.find?_name_of_mem (fun (x : Var) => x.name) f.vars hvn v hv
  simp [cutVar_name, hfind]

/-- **C04 (splitting and stacking reproduces the file).** Cut a file that meets the invariant at any point `c` of a
dimension `sd` (every variable has `sd` on at most one axis) into the pieces `[0, c)` and `[c, n)`; whenever `stack` of the
two pieces along `sd` returns, it returns the variables of the file — names, dimension tuples, attributes and every cell
— and its global attributes; `sd` has its length again and keeps its unlimited flag. -/
theorem stack_split (f r : File) (sd : String) (c : Nat) (hinv : Props.C01.Inv f) (hc : c ≤ f.dimLen sd)
    (hone : ∀ v ∈ f.vars, (v.dims.filter (· == sd)).length ≤ 1)
    (hr : stackFiles [cutFile f sd (List.range' 0 c), cutFile f sd (List.range' c (f.dimLen sd - c))] sd = .ok r) :
    r.vars = f.vars ∧ r.attrs = f.attrs := by
  obtain ⟨hwf, hdn, hvn⟩ := hinv
  obtain ⟨vars, hvars, hrr, _, _⟩ := Props.C01.stack_ok _ _ sd r hr
  subst hrr
  refine ⟨?_, rfl⟩
  simp only
  rw [pieces_vars f sd c hwf hvn hc hone] at hvars
  exact (Except.ok.inj hvars).symm

theorem cutFile_dimLen_sd (f : File) (sd : String) (l : List Nat) (hsd : (f.dim? sd).isSome = true) :
    (cutFile f sd l).dimLen sd = l.length := by
  unfold File.dimLen File.dim? cutFile
  simp only
  rw [Props.C01.find?_map_len f.dims (fun d => if d.name == sd then l.length else d.len) sd]
  cases hd : f.dims.find? (·.name == sd) with
  | none =>
    unfold File.dim? at hsd
    rw [hd] at hsd
    simp at hsd
  | some d =>
    have : d.name = sd := by
      have := List.find?_some hd
      simpa using this
    simp [this]

/-- the same with the pieces taken by `sliceDimensions`, and the length of the stacked dimension -/
theorem stack_of_slices (f a b r : File) (sd nd : String) (c : Nat) (hinv : Props.C01.Inv f)
    (hsd : (f.dim? sd).isSome = true) (hc : c ≤ f.dimLen sd)
    (hone : ∀ v ∈ f.vars, (v.dims.filter (· == sd)).length ≤ 1)
    (ha : sliceFile f [(sd, .slice (some ((0 : Nat) : Int)) (some ((c : Nat) : Int)) 1)] nd = .ok a)
    (hb : sliceFile f [(sd, .slice (some ((c : Nat) : Int)) (some ((f.dimLen sd : Nat) : Int)) 1)] nd = .ok b)
    (hr : stackFiles [a, b] sd = .ok r) :
    r.vars = f.vars ∧ r.attrs = f.attrs ∧ r.dimLen sd = f.dimLen sd := by
  have hA := sliceFile_cut f sd nd (.slice (some ((0 : Nat) : Int)) (some ((c : Nat) : Int)) 1) (List.range' 0 (c - 0)) hsd
    (by intro x y h; simp at h) (by simp only [PSel.indices]; rw [sliceIndices_window _ 0 c (by omega) hc]) rfl
  have hB := sliceFile_cut f sd nd (.slice (some ((c : Nat) : Int)) (some ((f.dimLen sd : Nat) : Int)) 1)
    (List.range' c (f.dimLen sd - c)) hsd
    (by intro x y h; simp at h) (by simp only [PSel.indices]; rw [sliceIndices_window _ c _ hc (Nat.le_refl _)]) rfl
  rw [hA] at ha
  rw [hB] at hb
  have ea : a = cutFile f sd (List.range' 0 c) := by
    have := (Except.ok.inj ha).symm
    simpa [cutFile] using this
  have eb : b = cutFile f sd (List.range' c (f.dimLen sd - c)) := (Except.ok.inj hb).symm
  subst ea
  subst eb
  obtain ⟨h1, h2⟩ := stack_split f r sd c hinv hc hone hr
  refine ⟨h1, h2, ?_⟩
  obtain ⟨vars, _, hrr, _, _⟩ := Props.C01.stack_ok _ _ sd r hr
  have hlen : r.dimLen sd = ([cutFile f sd (List.range' 0 c), cutFile f sd (List.range' c (f.dimLen sd - c))].map
      (·.dimLen sd)).foldl (· + ·) 0 := by
    rw [hrr]
    unfold File.dimLen
    rw [Props.C01.stacked_dim_sd _ _ sd _ rfl]
    rfl
  rw [hlen]
  simp only [List.map_cons, List.map_nil, List.foldl_cons, List.foldl_nil]
  rw [cutFile_dimLen_sd f sd _ hsd, cutFile_dimLen_sd f sd _ hsd]
  simp only [List.length_range']
  omega

theorem cutFile_dim? (f : File) (sd : String) (l : List Nat) (k : String) :
    (cutFile f sd l).dim? k = (f.dim? k).map (fun d => { d with len := if d.name == sd then l.length else d.len }) := by
  unfold File.dim? cutFile
  simp only
  exact Props.C01.find?_map_len f.dims (fun d => if d.name == sd then l.length else d.len) k

theorem dim?_of_mem (f : File) (hdn : Props.C01.DimsNodup f) (d : Dim) (hd : d ∈ f.dims) : f.dim? d.name = some d := by
  unfold File.dim?
  exact Props.C01.find?_name_of_mem (fun (x : Dim) => x.name) f.dims hdn d hd

theorem cutFile_dimLen_other (f : File) (hdn : Props.C01.DimsNodup f) (sd : String) (l : List Nat) (d : Dim) (hd : d ∈ f.dims)
    (hne : d.name ≠ sd) : (cutFile f sd l).dimLen d.name = d.len := by
  unfold File.dimLen
  rw [cutFile_dim?, dim?_of_mem f hdn d hd]
  simp only [Option.map_some, Option.getD_some]
  rw [if_neg (by simpa using hne)]

/-- **in-domain ⇒ completes**: `stack` of the two pieces of a file that meets the invariant returns -/
theorem stack_pieces_ok (f : File) (sd : String) (c : Nat) (hinv : Props.C01.Inv f) (hsd : (f.dim? sd).isSome = true)
    (hc : c ≤ f.dimLen sd) (hone : ∀ v ∈ f.vars, (v.dims.filter (· == sd)).length ≤ 1) :
    ∃ r, stackFiles [cutFile f sd (List.range' 0 c), cutFile f sd (List.range' c (f.dimLen sd - c))] sd = .ok r := by
  obtain ⟨hwf, hdn, hvn⟩ := hinv
  set A := cutFile f sd (List.range' 0 c) with hA
  set B := cutFile f sd (List.range' c (f.dimLen sd - c)) with hB
  -- every dimension of a piece is a dimension of the file, by name
  have hmemA : ∀ l, ∀ d ∈ (cutFile f sd l).dims, ∃ d0 ∈ f.dims, d.name = d0.name ∧ (d0.name ≠ sd → d = d0) := by
    intro l d hd
    unfold cutFile at hd
    simp only at hd
    obtain ⟨d0, hd0, rfl⟩ := List.mem_map.mp hd
    refine ⟨d0, hd0, rfl, fun hne => ?_⟩
    have : (d0.name == sd) = false := by simpa using hne
    simp [this]
  have hsome : ∀ l k, (f.dim? k).isSome = true → ((cutFile f sd l).dim? k).isSome = true := by
    intro l k hk
    rw [cutFile_dim?]
    cases hfk : f.dim? k with
    | none => rw [hfk] at hk; simp at hk
    | some d => simp
  have hgs : ∀ g ∈ [A, B], ∃ l, g = cutFile f sd l := by
    intro g hg
    simp only [List.mem_cons, List.mem_nil_iff, or_false] at hg
    rcases hg with rfl | rfl
    · exact ⟨_, rfl⟩
    · exact ⟨_, rfl⟩
  unfold stackFiles
  simp only
  -- guard 1
  have g1 : ((A.dims.filter (fun d => d.name != sd)).any (fun d => [A, B].any (fun g => (g.dim? d.name).isNone))) = false := by
    rw [Bool.eq_false_iff]
    intro h
    rw [List.any_eq_true] at h
    obtain ⟨d, hd, hany⟩ := h
    rw [List.any_eq_true] at hany
    obtain ⟨g, hg, hnone⟩ := hany
    obtain ⟨d0, hd0, hname, _⟩ := hmemA _ d (List.mem_filter.mp hd).1
    obtain ⟨l, rfl⟩ := hgs g hg
    have := hsome l d.name (by rw [hname, dim?_of_mem f hdn d0 hd0]; rfl)
    cases hx : (cutFile f sd l).dim? d.name with
    | none => rw [hx] at this; simp at this
    | some y => rw [hx] at hnone; simp at hnone
  rw [g1]
  simp only [Bool.false_eq_true, if_false]
  -- guard 2
  have g2 : ([A, B].any (fun g => g.dims.any (fun d => d.name != sd && !((sharedDims [A, B] A sd).any (·.name == d.name))))) = false := by
    rw [Bool.eq_false_iff]
    intro h
    rw [List.any_eq_true] at h
    obtain ⟨g, hg, hany⟩ := h
    rw [List.any_eq_true] at hany
    obtain ⟨d, hd, hcond⟩ := hany
    simp only [Bool.and_eq_true, bne_iff_ne, ne_eq, Bool.not_eq_eq_eq_not, Bool.not_true] at hcond
    obtain ⟨hne, hnot⟩ := hcond
    obtain ⟨l, rfl⟩ := hgs g hg
    obtain ⟨d0, hd0, hname, heq⟩ := hmemA l d hd
    have hne0 : d0.name ≠ sd := by rw [← hname]; exact hne
    -- d0 itself is a shared dimension
    have hshared : d0 ∈ sharedDims [A, B] A sd := by
      unfold sharedDims
      refine List.mem_filter.mpr ⟨List.mem_filter.mpr ⟨?_, by simpa using hne0⟩, ?_⟩
      · rw [hA]
        unfold cutFile
        simp only
        refine List.mem_map.mpr ⟨d0, hd0, ?_⟩
        have : (d0.name == sd) = false := by simpa using hne0
        simp [this]
      · rw [List.all_eq_true]
        intro g' hg'
        obtain ⟨l', rfl⟩ := hgs g' hg'
        rw [cutFile_dimLen_other f hdn sd l' d0 hd0 hne0]
        simp
    have : (sharedDims [A, B] A sd).any (·.name == d.name) = true := by
      rw [List.any_eq_true]
      exact ⟨d0, hshared, by simp [hname]⟩
    rw [this] at hnot
    cases hnot
  rw [g2]
  simp only [Bool.false_eq_true, if_false]
  -- guard 3
  have g3 : ([A, B].any (fun g => (g.dim? sd).isNone)) = false := by
    rw [Bool.eq_false_iff]
    intro h
    rw [List.any_eq_true] at h
    obtain ⟨g, hg, hnone⟩ := h
    obtain ⟨l, rfl⟩ := hgs g hg
    have := hsome l sd hsd
    cases hx : (cutFile f sd l).dim? sd with
    | none => rw [hx] at this; simp at this
    | some y => rw [hx] at hnone; simp at hnone
  rw [g3]
  simp only [Bool.false_eq_true, if_false]
  rw [pieces_vars f sd c hwf hvn hc hone]
  exact ⟨_, rfl⟩

/-- **C04 (split then stack, total form).** For a file that meets the invariant, a dimension `sd` of it that no variable
uses twice and any cut point `c ≤ n`: the two window slices `[0, c)` and `[c, n)` are taken, `stack` of them along `sd`
returns, and what it returns has the variables (names, dimension tuples, attributes, every cell) and global attributes of
the file and `sd` at its length. No hypothesis on any call returning is left. -/
theorem split_then_stack (f : File) (sd nd : String) (c : Nat) (hinv : Props.C01.Inv f)
    (hsd : (f.dim? sd).isSome = true) (hc : c ≤ f.dimLen sd)
    (hone : ∀ v ∈ f.vars, (v.dims.filter (· == sd)).length ≤ 1) :
    ∃ a b r, sliceFile f [(sd, .slice (some ((0 : Nat) : Int)) (some ((c : Nat) : Int)) 1)] nd = .ok a ∧
      sliceFile f [(sd, .slice (some ((c : Nat) : Int)) (some ((f.dimLen sd : Nat) : Int)) 1)] nd = .ok b ∧
      stackFiles [a, b] sd = .ok r ∧ r.vars = f.vars ∧ r.attrs = f.attrs ∧ r.dimLen sd = f.dimLen sd := by
  have hA := sliceFile_cut f sd nd (.slice (some ((0 : Nat) : Int)) (some ((c : Nat) : Int)) 1) (List.range' 0 (c - 0)) hsd
    (by intro x y h; simp at h) (by simp only [PSel.indices]; rw [sliceIndices_window _ 0 c (by omega) hc]) rfl
  have hB := sliceFile_cut f sd nd (.slice (some ((c : Nat) : Int)) (some ((f.dimLen sd : Nat) : Int)) 1)
    (List.range' c (f.dimLen sd - c)) hsd
    (by intro x y h; simp at h) (by simp only [PSel.indices]; rw [sliceIndices_window _ c _ hc (Nat.le_refl _)]) rfl
  obtain ⟨r, hr⟩ := stack_pieces_ok f sd c hinv hsd hc hone
  have hA' : sliceFile f [(sd, .slice (some ((0 : Nat) : Int)) (some ((c : Nat) : Int)) 1)] nd
      = .ok (cutFile f sd (List.range' 0 c)) := by
    rw [hA]; simp [cutFile]
  refine ⟨_, _, r, hA', hB, hr, ?_⟩
  exact stack_of_slices f _ _ r sd nd c hinv hsd hc hone hA' hB hr

/-- non-vacuity: a file with a masked cell and a variable without the cut dimension meets every hypothesis of
`split_then_stack` at the cut point 1 of `t` (length 3), and the two pieces differ from the file -/
example :
    let f : File := ⟨[⟨"t", 3, true⟩, ⟨"x", 2, false⟩],
      [⟨"A", ["t", "x"], .node [.node [.leaf (some 1), .leaf (some 2)], .node [.leaf (some 3), .leaf none],
                               .node [.leaf (some 5), .leaf (some 6)]], [], false, false⟩,
       ⟨"B", ["x"], .node [.leaf (some 7), .leaf (some 8)], [], false, false⟩], ["NOTE=kept"]⟩
    Props.C01.Inv f ∧ (f.dim? "t").isSome = true ∧ 1 ≤ f.dimLen "t" ∧
      (∀ v ∈ f.vars, (v.dims.filter (· == "t")).length ≤ 1) ∧
      (cutFile f "t" (List.range' 0 1)).dimLen "t" = 1 ∧ (cutFile f "t" (List.range' 1 2)).dimLen "t" = 2 := by
  refine ⟨⟨?_, by unfold Props.C01.DimsNodup; decide, by unfold NamesNodup; decide⟩, by decide, by decide, by decide,
    by decide +kernel, by decide +kernel⟩
  unfold Props.C01.WF Props.C01.VarWF
  decide +kernel

end Props.C04
