import PncModel.Cal
import Mathlib.Tactic.Linarith
import Mathlib.Tactic.Ring
import Mathlib.Tactic.NormNum

namespace Cal

theorem yearLen_pos (y : Int) : yearLen y = 365 ∨ yearLen y = 366 := by
  unfold yearLen; split <;> simp

/-- the closed form satisfies the first-principles recursion: the days before year `y+1` are the
days before year `y` plus the length of year `y` -/
theorem dby_succ (y : Int) : dby (y + 1) = dby y + yearLen y := by
  unfold dby yearLen isLeap
  simp only [decide_eq_true_eq, Int.add_sub_cancel]
  split <;> omega

theorem dby_one : dby 1 = 0 := by decide

/-- digit decomposition used by the inverse: with p = 400a + 100b + 4c + d the days before the
year are 146097a + 36524b + 1461c + 365d -/
theorem dby_digits (y : Int) (hy : 1 ≤ y) :
    ∃ a b c d : Int, 0 ≤ a ∧ 0 ≤ b ∧ b ≤ 3 ∧ 0 ≤ c ∧ c ≤ 24 ∧ 0 ≤ d ∧ d ≤ 3 ∧
      y - 1 = 400 * a + 100 * b + 4 * c + d ∧
      dby y = 146097 * a + 36524 * b + 1461 * c + 365 * d := by
  refine ⟨(y - 1) / 400, (y - 1) % 400 / 100, (y - 1) % 100 / 4, (y - 1) % 4, ?_⟩
  simp only [dby]
  refine ⟨by omega, by omega, by omega, by omega, by omega, by omega, by omega, by omega, by omega⟩

theorem ord2yd_digits (a b c d k : Int) (ha : 0 ≤ a) (hb0 : 0 ≤ b) (hb : b ≤ 3) (hc0 : 0 ≤ c)
    (hc : c ≤ 24) (hd0 : 0 ≤ d) (hd : d ≤ 3) (hk0 : 0 ≤ k)
    (hk : k ≤ 364 ∨ (k = 365 ∧ d = 3 ∧ (c ≠ 24 ∨ b = 3))) :
    ord2yd (146097 * a + 36524 * b + 1461 * c + 365 * d + k + 1)
      = (400 * a + 100 * b + 4 * c + d + 1, k + 1) := by
  simp only [ord2yd, Int.add_sub_cancel]
  have h1 : (146097 * a + 36524 * b + 1461 * c + 365 * d + k) / 146097 = a := by omega
  have h2 : (146097 * a + 36524 * b + 1461 * c + 365 * d + k) % 146097
      = 36524 * b + 1461 * c + 365 * d + k := by omega
  rw [h1, h2]
  rcases hk with hk | ⟨hk, hd3, hcb⟩
  · have h3 : (36524 * b + 1461 * c + 365 * d + k) / 36524 = b := by omega
    have h4 : (36524 * b + 1461 * c + 365 * d + k) % 36524 = 1461 * c + 365 * d + k := by omega
    rw [h3, h4]
    have h5 : (1461 * c + 365 * d + k) / 1461 = c := by omega
    have h6 : (1461 * c + 365 * d + k) % 1461 = 365 * d + k := by omega
    rw [h5, h6]
    have h7 : (365 * d + k) / 365 = d := by omega
    have h8 : (365 * d + k) % 365 = k := by omega
    rw [h7, h8]
    have : ¬ (d = 4 ∨ b = 4) := by omega
    simp only [this, if_false, Prod.mk.injEq]
    refine ⟨?_, ?_⟩ <;> first | trivial | omega
  · subst hk; subst hd3
    rcases hcb with hc24 | hb3
    · -- not the end of a century: n100 = b, n4 = c, n1 = 4
      have h3 : (36524 * b + 1461 * c + 365 * 3 + 365) / 36524 = b := by omega
      have h4 : (36524 * b + 1461 * c + 365 * 3 + 365) % 36524 = 1461 * c + 365 * 3 + 365 := by omega
      rw [h3, h4]
      have h5 : (1461 * c + 365 * 3 + 365) / 1461 = c := by omega
      have h6 : (1461 * c + 365 * 3 + 365) % 1461 = 365 * 3 + 365 := by omega
      rw [h5, h6]
      norm_num
      omega
    · subst hb3
      by_cases hc24 : c = 24
      · subst hc24
        norm_num
        omega
      · have h3 : (36524 * 3 + 1461 * c + 365 * 3 + 365) / 36524 = 3 := by omega
        have h4 : (36524 * 3 + 1461 * c + 365 * 3 + 365) % 36524 = 1461 * c + 365 * 3 + 365 := by omega
        rw [h3, h4]
        have h5 : (1461 * c + 365 * 3 + 365) / 1461 = c := by omega
        have h6 : (1461 * c + 365 * 3 + 365) % 1461 = 365 * 3 + 365 := by omega
        rw [h5, h6]
        norm_num
        omega

/-- year/day-of-year → ordinal → year/day-of-year is the identity (all years ≥ 1) -/
theorem ord2yd_yd2ord (y doy : Int) (hy : 1 ≤ y) (h1 : 1 ≤ doy) (h2 : doy ≤ yearLen y) :
    ord2yd (yd2ord y doy) = (y, doy) := by
  obtain ⟨a, b, c, d, ha, hb0, hb, hc0, hc, hd0, hd, hp, hdby⟩ := dby_digits y hy
  have hk : doy - 1 ≤ 364 ∨ (doy - 1 = 365 ∧ d = 3 ∧ (c ≠ 24 ∨ b = 3)) := by
    unfold yearLen isLeap at h2
    simp only [decide_eq_true_eq] at h2
    split at h2
    · rename_i hl
      by_cases hdoy : doy ≤ 365
      · left; omega
      · right; omega
    · left; omega
  have := ord2yd_digits a b c d (doy - 1) ha hb0 hb hc0 hc hd0 hd (by omega) hk
  unfold yd2ord
  rw [hdby]
  have e : 146097 * a + 36524 * b + 1461 * c + 365 * d + doy
      = 146097 * a + 36524 * b + 1461 * c + 365 * d + (doy - 1) + 1 := by ring
  rw [e, this]
  simp only [Prod.mk.injEq]
  omega

theorem dby_of_digits (a b c d : Int) (ha : 0 ≤ a) (hb0 : 0 ≤ b) (hb : b ≤ 3) (hc0 : 0 ≤ c) (hc : c ≤ 24)
    (hd0 : 0 ≤ d) (hd : d ≤ 3) :
    dby (400 * a + 100 * b + 4 * c + d + 1) = 146097 * a + 36524 * b + 1461 * c + 365 * d := by
  simp only [dby, Int.add_sub_cancel]
  omega

/-- ordinal → (year, day-of-year) → ordinal is the identity, and the pair is a valid date -/
theorem yd2ord_ord2yd (n : Int) (hn : 1 ≤ n) :
    yd2ord (ord2yd n).1 (ord2yd n).2 = n ∧ 1 ≤ (ord2yd n).1 ∧ 1 ≤ (ord2yd n).2 ∧
      (ord2yd n).2 ≤ yearLen (ord2yd n).1 := by
  have hn0 : 0 ≤ n - 1 := by omega
  obtain ⟨a, ha⟩ : ∃ a, a = (n - 1) / 146097 := ⟨_, rfl⟩
  obtain ⟨b, hb⟩ : ∃ b, b = (n - 1) % 146097 / 36524 := ⟨_, rfl⟩
  obtain ⟨c, hc⟩ : ∃ c, c = (n - 1) % 146097 % 36524 / 1461 := ⟨_, rfl⟩
  obtain ⟨d, hd⟩ : ∃ d, d = (n - 1) % 146097 % 36524 % 1461 / 365 := ⟨_, rfl⟩
  obtain ⟨r, hr⟩ : ∃ r, r = (n - 1) % 146097 % 36524 % 1461 % 365 := ⟨_, rfl⟩
  have hsum : n - 1 = 146097 * a + 36524 * b + 1461 * c + 365 * d + r := by omega
  have ra : 0 ≤ a := by omega
  have rb : 0 ≤ b ∧ b ≤ 4 := by omega
  have rc : 0 ≤ c ∧ c ≤ 24 := by omega
  have rd : 0 ≤ d ∧ d ≤ 4 := by omega
  have rr : 0 ≤ r ∧ r ≤ 364 := by omega
  simp only [ord2yd]
  rw [← ha, ← hb, ← hc, ← hd, ← hr]
  by_cases hsp : d = 4 ∨ b = 4
  · simp only [hsp, if_true]
    rcases hsp with hd4 | hb4
    · -- last day of a four-year cycle (not the end of the 400-year cycle)
      have hb3 : b ≤ 3 := by omega
      have hc23 : c ≤ 23 := by omega
      have hr0 : r = 0 := by omega
      subst hd4
      have hy : a * 400 + 1 + b * 100 + c * 4 + 4 - 1 = 400 * a + 100 * b + 4 * c + 3 + 1 := by ring
      rw [hy]
      have hdby := dby_of_digits a b c 3 ra rb.1 hb3 rc.1 (by omega) (by omega) (by omega)
      refine ⟨?_, by omega, by omega, ?_⟩
      · unfold yd2ord; rw [hdby]; omega
      · unfold yearLen isLeap; simp only [decide_eq_true_eq]
        split
        · omega
        · rename_i hnl; exfalso; apply hnl; omega
    · have : (n - 1) % 146097 = 146096 := by omega
      have hc0 : c = 0 := by omega
      have hd0 : d = 0 := by omega
      have hr0 : r = 0 := by omega
      subst hb4; subst hc0; subst hd0
      have hy : a * 400 + 1 + 4 * 100 + 0 * 4 + 0 - 1 = 400 * a + 100 * 3 + 4 * 24 + 3 + 1 := by ring
      rw [hy]
      have hdby := dby_of_digits a 3 24 3 ra (by omega) (by omega) (by omega) (by omega) (by omega) (by omega)
      refine ⟨?_, by omega, by omega, ?_⟩
      · unfold yd2ord; rw [hdby]; omega
      · unfold yearLen isLeap; simp only [decide_eq_true_eq]
        split
        · omega
        · rename_i hnl; exfalso; apply hnl; omega
  · simp only [hsp, if_false]
    have hb3 : b ≤ 3 := by omega
    have hd3 : d ≤ 3 := by omega
    have hy : a * 400 + 1 + b * 100 + c * 4 + d = 400 * a + 100 * b + 4 * c + d + 1 := by ring
    rw [hy]
    have hdby := dby_of_digits a b c d ra rb.1 hb3 rc.1 rc.2 rd.1 hd3
    refine ⟨?_, by omega, by omega, ?_⟩
    · unfold yd2ord; rw [hdby]; omega
    · have := yearLen_pos (400 * a + 100 * b + 4 * c + d + 1); omega

/-- `%Y%j %H%M%S` of an instant decodes back to the instant (every instant from year 1 on) -/
theorem decJ_encJ (t : Int) (ht : 0 ≤ t) : decJ (encJ t).1 (encJ t).2 = t := by
  obtain ⟨h1, hy, hd1, hd2⟩ := yd2ord_ord2yd (t / 86400 + 1) (by omega)
  have hlen := yearLen_pos (ord2yd (t / 86400 + 1)).1
  simp only [encJ, decJ, instant]
  generalize (ord2yd (t / 86400 + 1)).1 = y at *
  generalize (ord2yd (t / 86400 + 1)).2 = doy at *
  unfold yd2ord at h1 ⊢
  have e1 : (y * 1000 + doy) / 1000 = y := by omega
  have e2 : (y * 1000 + doy) % 1000 = doy := by omega
  rw [e1, e2]
  omega

/-- a valid flag re-encodes to itself -/
theorem encJ_decJ (d t : Int) (h : validFlag d t = true) : encJ (decJ d t) = (d, t) := by
  unfold validFlag at h
  simp only [decide_eq_true_eq] at h
  obtain ⟨hy, hj1, hj2, ht0, hh, hm, hs⟩ := h
  have hlen := yearLen_pos (d / 1000)
  have key := ord2yd_yd2ord (d / 1000) (d % 1000) hy hj1 hj2
  simp only [encJ, decJ, instant]
  unfold yd2ord at key ⊢
  have hm0 : 0 ≤ t % 10000 / 100 := by omega
  have hs0 : 0 ≤ t % 100 := by omega
  have hh0 : 0 ≤ t / 10000 := by omega
  have eday : ((dby (d / 1000) + 1 - 1) * 86400 + 0 + (d % 1000 - 1) * 86400 + t / 10000 * 3600 +
      t % 10000 / 100 * 60 + t % 100) / 86400 + 1 = dby (d / 1000) + d % 1000 := by omega
  have esec : ((dby (d / 1000) + 1 - 1) * 86400 + 0 + (d % 1000 - 1) * 86400 + t / 10000 * 3600 +
      t % 10000 / 100 * 60 + t % 100) % 86400 = t / 10000 * 3600 + t % 10000 / 100 * 60 + t % 100 := by omega
  rw [eday, esec, key]
  simp only [Prod.mk.injEq]
  constructor <;> omega

end Cal
