import PncModel.TimeDec
import PncProofs.CalLemmas
import Mathlib.Tactic.FieldSimp

/-!
# C12 — decoded times are the true instants: property theorems

Instants are seconds since 0001-01-01T00:00 UTC.  The first-principles specification of a Julian
flag (YYYYJJJ, HHMMSS) is: the sum of the lengths of all years before YYYY, plus JJJ-1 days, plus
the time of day.
-/
namespace Props.C12
open Cal TimeDec

/-- first-principles days before year `n+1`: sum of the lengths of years 1..n -/
def daysBeforeYearSpec : ℕ → ℤ
  | 0 => 0
  | n + 1 => daysBeforeYearSpec n + yearLen ((n : ℤ) + 1)

/-- the closed form used by the model (and by `datetime`) is that sum, for every year -/
theorem dby_is_sum_of_year_lengths (n : ℕ) : dby ((n : ℤ) + 1) = daysBeforeYearSpec n := by
  induction n with
  | zero => simp [daysBeforeYearSpec]; decide
  | succ n ih =>
    simp only [daysBeforeYearSpec, ← ih]
    push_cast
    exact dby_succ ((n : ℤ) + 1)

/-- the true instant of a flag, from first principles -/
def instantSpec (yearsBefore : ℕ) (j h m s : ℤ) : ℤ :=
  (daysBeforeYearSpec yearsBefore + (j - 1)) * 86400 + h * 3600 + m * 60 + s

/-- **C12 (TFLAG).** The TFLAG branch of getTimes decodes (YYYYJJJ, HHMMSS) to the true instant. -/
theorem tflag_decodes_true_instant (n : ℕ) (j h m s : ℤ) (hj : 0 ≤ j) (hj' : j < 1000)
    (hm : 0 ≤ m) (hm' : m < 100) (hs : 0 ≤ s) (hs' : s < 100) (hh : 0 ≤ h) :
    decJ ((((n : ℤ) + 1) * 1000) + j) (h * 10000 + m * 100 + s) = instantSpec n j h m s := by
  unfold decJ instantSpec instant yd2ord
  rw [← dby_is_sum_of_year_lengths]
  have e1 : (((n : ℤ) + 1) * 1000 + j) / 1000 = (n : ℤ) + 1 := by omega
  have e2 : (((n : ℤ) + 1) * 1000 + j) % 1000 = j := by omega
  have e3 : (h * 10000 + m * 100 + s) / 10000 = h := by omega
  have e4 : (h * 10000 + m * 100 + s) % 10000 / 100 = m := by omega
  have e5 : (h * 10000 + m * 100 + s) % 100 = s := by omega
  simp only [e1, e2, e3, e4, e5]
  ring

/-- **C12 (flags round trip).** Encoding an instant as (YYYYJJJ, HHMMSS) and decoding it gives the
instant back (every instant from year 1 on); a valid flag re-encodes to itself. -/
theorem flags_roundtrip (t : ℤ) (ht : 0 ≤ t) (d f : ℤ) (hv : validFlag d f = true) :
    decJ (encJ t).1 (encJ t).2 = t ∧ encJ (decJ d f) = (d, f) :=
  ⟨decJ_encJ t ht, encJ_decJ d f hv⟩

theorem encJ_date_pos (t : ℤ) (ht : 0 ≤ t) : (encJ t).1 ≠ -635 := by
  obtain ⟨_, hy, hd1, _⟩ := yd2ord_ord2yd (t / 86400 + 1) (by omega)
  simp only [encJ]
  generalize (ord2yd (t / 86400 + 1)).1 = y at *
  generalize (ord2yd (t / 86400 + 1)).2 = doy at *
  omega

/-- **C12 (attribute times).** element `i` of the SDATE/STIME/TSTEP times is start + i·step -/
theorem attr_times_arith (sdate stime tstep : ℤ) (n : ℕ) (b : Bool) (ts : List ℤ)
    (h : attrTimes sdate stime tstep n b = .ok ts) :
    ts = (List.range (if b then n + 1 else n)).map
      (fun i => decJ (if sdate < 1 then 1970001 else sdate) stime + tstepSeconds tstep * (i : ℕ)) := by
  unfold attrTimes at h
  by_cases hs : sdate < 1
  · simp only [hs, if_true] at h ⊢
    split at h
    · cases h
    · injection h with h; exact h.symm
  · simp only [hs, if_false] at h ⊢
    split at h
    · cases h
    · injection h with h; exact h.symm

/-- **C12 (synthesised flags).** The flags written by `updatetflag` from SDATE/STIME/TSTEP decode
(through the TFLAG branch) to exactly the attribute times, for any start, step and length —
day, year and leap-day roll-overs included. -/
theorem synth_decodes_to_attr_times (sdate stime tstep : ℤ) (n : ℕ) (ts : List ℤ)
    (hts : attrTimes sdate stime tstep n false = .ok ts) (hpos : ∀ t ∈ ts, 0 ≤ t) :
    ∃ fl, synthFlags sdate stime tstep n = .ok fl ∧ decodeTflag fl = ts := by
  refine ⟨ts.map encJ, ?_, ?_⟩
  · unfold synthFlags; rw [hts]; rfl
  · unfold decodeTflag
    rw [List.map_map]
    have : ∀ t ∈ ts, ((fun x : ℤ × ℤ => decJ (fixDate x.1) x.2) ∘ encJ) t = t := by
      intro t ht
      simp only [Function.comp]
      have hne := encJ_date_pos t (hpos t ht)
      unfold fixDate
      rw [if_neg hne]
      exact decJ_encJ t (hpos t ht)
    rw [List.map_congr_left this]; simp

/-- **C12 (add_time_variable).** The CF `time` variable synthesised from the flags ("seconds since
1970-01-01") decodes to the same instants as the flags. -/
theorem atv_decodes_to_flags (flags : List (ℤ × ℤ)) :
    (atvTimeFromFlags flags).map (fun n => epoch1970 + n * 1) = flags.map (fun p => decJ p.1 p.2) := by
  unfold atvTimeFromFlags
  rw [List.map_map]
  apply List.map_congr_left
  intro p _
  simp only [Function.comp]
  ring

/-- **C12 (inverse).** For the standard calendars, converting the decoded instants back with the
unit and reference gives the stored numbers. -/
theorem cf_standard_inverse (unit : String) (r : Ref) (vals ts : List ℚ) (u : ℚ)
    (hu : unitSeconds unit = some u) (hne : u ≠ 0) (h : cfStandard unit r vals = .ok ts) :
    ts.map (fun t => (t - (r.instant : ℚ)) / u) = vals := by
  unfold cfStandard at h
  rw [hu] at h
  injection h with h
  subst h
  rw [List.map_map]
  have : ∀ n ∈ vals, ((fun t => (t - (r.instant : ℚ)) / u) ∘ fun n => (r.instant : ℚ) + n * u) n = n := by
    intro n _
    simp only [Function.comp]
    field_simp
    ring
  rw [List.map_congr_left this]; simp

theorem numDigits_le : ∀ (fuel T k : ℕ), 1 ≤ k → T < 10 ^ k → numDigits fuel T ≤ k
  | 0, _, k, hk, _ => by simp [numDigits]; omega
  | fuel + 1, T, k, hk, hT => by
    simp only [numDigits]
    split
    · omega
    · rename_i h10
      cases k with
      | zero => omega
      | succ k =>
        cases k with
        | zero => simp at hT; omega
        | succ k =>
          have : T / 10 < 10 ^ (k + 1) := by
            rw [Nat.div_lt_iff_lt_mul (by norm_num)]
            calc T < 10 ^ (k + 1 + 1) := hT
              _ = 10 ^ (k + 1) * 10 := by ring
          have := numDigits_le fuel (T / 10) (k + 1) (by omega) this
          omega

/-- `add_time_variable` reads every TSTEP — any number of hour digits — as the IOAPI rule says (repaired code) -/
theorem atv_tstep_ok (T : ℕ) : (tstepSecondsATV T : ℤ) = tstepSeconds (T : ℤ) := by
  unfold tstepSecondsATV tstepSeconds hmsSeconds
  have : ¬ ((T : ℤ) < 0) := by omega
  simp only [this, if_false]
  push_cast
  omega

/-- **C12 (TSTEP).** hours, minutes and seconds of a step are read digit-wise from the magnitude -/
theorem tstep_decode (h m s : ℕ) (hm : m < 60) (hs : s < 60) :
    tstepSeconds ((h * 10000 + m * 100 + s : ℕ) : ℤ) = ((h * 3600 + m * 60 + s : ℕ) : ℤ) := by
  unfold tstepSeconds hmsSeconds
  have : ¬ (((h * 10000 + m * 100 + s : ℕ) : ℤ) < 0) := by omega
  simp only [this, if_false]
  push_cast
  omega

/-- a file that runs backward in time: the step is the mirror image of the forward step -/
theorem tstep_neg (T : ℤ) : tstepSeconds (-T) = - tstepSeconds T := by
  unfold tstepSeconds
  by_cases h0 : T = 0
  · subst h0; simp [hmsSeconds]
  · by_cases hlt : T < 0
    · have h1 : ¬ (-T < 0) := by omega
      rw [if_neg h1, if_pos hlt]
      omega
    · have h1 : -T < 0 := by omega
      rw [if_pos h1, if_neg hlt, neg_neg]

/-- reading a negative TSTEP digit-wise with floor division (the code before the repair): -1 h 30 min came out as
-50 min; `fixed: property=C12 2faec4b`, the witness is replayed on the real code and must not reproduce -/
theorem tstep_floor_counterexample : hmsSeconds (-13000) = -3000 ∧ tstepSeconds (-13000) = -5400 := by decide

/-- the character-position slicing the code used before mis-read a seven-digit TSTEP (100 hours):
`fixed: property=C12 … tstep-7-digits`, the witness is replayed on the real code and must not reproduce -/
theorem atv_tstep_counterexample :
    tstepSecondsSliced 1000000 = 36000 ∧ tstepSeconds 1000000 = 360000 ∧ tstepSecondsATV 1000000 = 360000 := by decide

/-- The 365/366-day calendar path drops the time of day: half a day after the reference decodes
to the same instant as the reference itself (recorded finding
`C12/getTimes/365-366-day-calendar-path`, witness replayed on the real code). -/
theorem yearlike_drops_time_of_day :
    let r : Ref := ⟨2000, 1, 1, 0, 0⟩
    (cfYearlike 365 "days" r [1 / 2]).toOption = (cfYearlike 365 "days" r [0]).toOption ∧
    (cfYearlike 365 "seconds" r [86400]).toOption
      = some [((Cal.instant (ymd2ord 2000 3 2) 0 : ℤ) : ℚ)] := by
  decide +kernel

/-- non-vacuity: a valid flag across a leap-year end, and its successor instant -/
example : validFlag 2020366 230000 = true ∧ encJ (decJ 2020366 230000 + 3600) = (2021001, 0) := by
  decide +kernel

end Props.C12
