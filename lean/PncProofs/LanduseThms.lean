import PncProofs.LanduseLemmas

/-! landuse files: the reader undoes the writer (used by C08 and C09) -/
namespace Landuse
open Words

theorem optRecs_keysOk (cells : Nat) (f : LFile) (h : WF cells f) : KeysOk (optRecs f) cells := by
  obtain ⟨_, _, h1, h2, h3, _⟩ := h
  intro p hp
  simp only [optRecs, List.mem_append, Option.mem_toList, Option.map_eq_some_iff] at hp
  rcases hp with (⟨d, hd, rfl⟩ | ⟨d, hd, rfl⟩) | ⟨d, hd, rfl⟩
  · exact ⟨rfl, h1 d hd⟩
  · exact ⟨rfl, h2 d hd⟩
  · exact ⟨rfl, h3 d hd⟩

theorem write_eq (f : LFile) :
    write f = encodeRecs (field f.newstyle (lucatKey f.nland) f.fland) ++ encodeRecs (fieldsOf f.newstyle (optRecs f)) := by
  simp only [write, records, encodeRecs_append]

/-- **size**: the fractions plus one fixed-size field per optional record -/
theorem write_length (cells : Nat) (f : LFile) (h : WF cells f) :
    (write f).length = fieldSize f.newstyle (f.nland * cells) + (optRecs f).length * fieldSize f.newstyle cells := by
  rw [write_eq, List.length_append, field_length _ _ _ (lucat_length _), fieldsOf_length _ cells _ (optRecs_keysOk cells f h), h.2.1]

/-- the reader recognises the style and the number of categories of what the writer wrote -/
theorem detect_write (cells : Nat) (f : LFile) (h : WF cells f) : detect (write f) = (f.newstyle, f.nland) := by
  obtain ⟨hc, hfl, _, _, _, _, hnew, hold⟩ := h
  rw [write_eq]
  cases hns : f.newstyle
  · obtain ⟨h11, _, _, hk1, hk2⟩ := hold hns
    have hlen : 2 ≤ f.fland.length := by rw [hfl, h11]; omega
    have hk : ((encodeRecs (field false (lucatKey f.nland) f.fland) ++ encodeRecs (fieldsOf false (optRecs f))).drop 1).take 2
        = f.fland.take 2 := by
      simp only [field, Bool.false_eq_true, if_false, encodeRecs_cons, frame]
      have : encodeRecs [] = ([] : List Word) := rfl
      simp only [this, List.append_nil, List.append_assoc, List.cons_append, List.nil_append, List.drop_succ_cons, List.drop_zero]
      rw [List.take_append_of_le_length hlen]
    unfold detect
    simp only
    rw [hk, if_neg hk1, if_neg hk2, h11]
  · have hk : ((encodeRecs (field true (lucatKey f.nland) f.fland) ++ encodeRecs (fieldsOf true (optRecs f))).drop 1).take 2
        = lucatKey f.nland := by
      simp [field, encodeRecs_cons, frame, lucatKey]
    unfold detect
    simp only [hk]
    rcases hnew hns with h11 | h26
    · simp [h11]
    · rw [h26, if_neg lucat_ne, if_pos rfl]

/-- the optional records found under their keys fill the slots they came from -/
theorem assign_optRecs (ns : Bool) (nland : Nat) (fl : List Word) (v1 la tp : Option (List Word)) :
    assign ⟨ns, nland, fl, none, none, none⟩ (optRecs ⟨ns, nland, fl, v1, la, tp⟩) = some ⟨ns, nland, fl, v1, la, tp⟩ := by
  cases v1 <;> cases la <;> cases tp <;> simp [optRecs, assign, keyVAR1, keyLAI, keyTOPO, w4]

/-- **landuse round trip.** For every well-formed content — either style, 11 or 26 categories, any grid, any
subset of at most two of the optional fields, any payload words — the reader applied to the writer's bytes
(with the caller's rows x columns) presents exactly the content that was written. -/
theorem read_write (cells : Nat) (f : LFile) (h : WF cells f) : read cells (write f) = some f := by
  have hdet := detect_write cells f h
  have hlen := write_length cells f h
  have hko := optRecs_keysOk cells f h
  obtain ⟨hc, hfl, _, _, _, hn2, hnew, hold⟩ := h
  unfold read
  simp only [hdet, hlen, nopt_spec f.newstyle f.nland cells _ hn2]
  rw [write_eq, cutField_enc f.newstyle (lucatKey f.nland) f.fland _ (f.nland * cells) (lucat_length _) hfl]
  simp only
  rw [cutFields_enc f.newstyle cells (optRecs f) hko]
  obtain ⟨ns, nland, fl, v1, la, tp⟩ := f
  cases ns
  · obtain ⟨_, hv, hl, _, _⟩ := hold rfl
    simp only at hv hl
    subst hv; subst hl
    cases tp <;> simp [optRecs, assignOld]
  · simp only [if_true]
    have : (optRecs ⟨true, nland, fl, v1, la, tp⟩).map (fun p => (p.1, p.2)) = optRecs ⟨true, nland, fl, v1, la, tp⟩ := by
      simp
    rw [this]
    exact assign_optRecs true nland fl v1 la tp

/-- **tiling.** the written file is a gap-free sequence of records with agreeing markers: the key/data records in
file order -/
theorem write_tiles (f : LFile) : parseRecords (write f).length (write f) = some (records f) :=
  parse_encode (records f) _ (Nat.le_refl _)

/-- a new-style file holds two records per field, an old-style file one -/
theorem records_count (f : LFile) : (records f).length = (if f.newstyle then 2 else 1) * (1 + (optRecs f).length) := by
  have key : ∀ (ns : Bool) (l : List (List Word × List Word)), (fieldsOf ns l).length = (if ns then 2 else 1) * l.length := by
    intro ns l
    induction l with
    | nil => simp [fieldsOf]
    | cons p rest ih =>
      obtain ⟨k, d⟩ := p
      cases ns <;> simp [fieldsOf, field] at ih ⊢ <;> omega
  simp only [records, List.length_append, key]
  cases f.newstyle <;> simp [field] <;> omega

/-- non-vacuity: a new-style 26-category file with LAI and TOPO on a 1 x 2 grid, and an old-style file with TOPO -/
example : WF 2 ⟨true, 26, List.replicate 52 7, none, some [1, 2], some [3, 4]⟩ ∧
    WF 1 ⟨false, 11, List.replicate 11 7, none, none, some [9]⟩ := by
  refine ⟨⟨by decide, by decide, by simp, by simp, by simp, by decide, by simp, by simp⟩,
    ⟨by decide, by decide, by simp, by simp, by simp, by decide, by simp, by simp; decide⟩⟩

end Landuse
