import PncModel.NcStore
import Mathlib.Tactic.Linarith
/-
C07 — saving to netCDF and reopening reproduces the file.

The model (`NcStore.roundtrip`) is `reopen ∘ save`.  The theorems say that it is the identity — up to the
`_FillValue` attribute netCDF itself adds — on every file whose types the flavour can store, whose attribute
names do not start with an underscore and whose unmasked values do not collide with a value netCDF reads as
"missing" (`CellOk`: the decidable form of "representable").  No hypothesis relates `missing_value` and
`fill_value`: the repaired writer fills masked cells with the disk `_FillValue`; with the old precedence the
mask was lost (`mask_lost_counterexample`).
-/
namespace Props.C07
open NcStore

/-- a cell netCDF can give back: an unmasked value that is not one of the values read as missing; a masked
cell of a variable that has a fill (any of the three attributes) or whose type has a default fill -/
def CellOk (v : Var) : Option Rat → Prop
  | some x => diskFill v ≠ some x ∧ v.missing ≠ some x ∧ ¬ (diskFill v = none ∧ defaultFill v.dt = some x)
  | none => (diskFill v).isSome = true ∨ (defaultFill v.dt).isSome = true

theorem missing_none_of_diskFill_none {v : Var} (h : diskFill v = none) : v.missing = none := by
  unfold diskFill at h
  cases hm : v.missing with
  | none => rfl
  | some m => simp [hm] at h

/-- **cell level**: what is written for a cell is read back as that cell -/
theorem cell_roundtrip (v : Var) (c : Option Rat) (h : CellOk v c) :
    readCell v.dt (diskFill v) v.missing (saveCell v c) = c := by
  cases c with
  | some x =>
    obtain ⟨h1, h2, h3⟩ := h
    show readCell v.dt (diskFill v) v.missing x = some x
    unfold readCell
    simp only [h1, h2, h3, if_false]
  | none =>
    simp only [saveCell]
    cases hd : diskFill v with
    | some d =>
      have : (if v.dims.isEmpty then libFill v else writeFill v) = d := by
        simp [libFill, writeFill, hd]
      rw [this]
      simp [readCell]
    | none =>
      rcases h with h | hdef
      · simp [hd] at h
      · cases hdf : defaultFill v.dt with
        | none => simp [hdf] at hdef
        | some x =>
          have hm := missing_none_of_diskFill_none hd
          simp [libFill, writeFill, hd, hdf, readCell, hm]

/-- a variable netCDF can give back -/
structure VarOk (v : Var) : Prop where
  cells : ∀ c ∈ v.cells, CellOk v c
  attrs : ∀ a ∈ v.attrs, skipped a.1 = false
  plain : v.maskedArr = false → ∀ c ∈ v.cells, c ≠ none

/-- **variable level**: the variable is read back unchanged, with `_FillValue` = the disk fill -/
theorem var_roundtrip (v : Var) (h : VarOk v) : roundVar v = { v with ufill := diskFill v } := by
  unfold roundVar
  have hat : v.attrs.filter (fun a => !skipped a.1) = v.attrs := by
    apply List.filter_eq_self.mpr
    intro a ha
    simp [h.attrs a ha]
  have hcells : (if v.maskedArr then v.cells.map (fun c => readCell v.dt (diskFill v) v.missing (saveCell v c))
      else v.cells.map (readPlain v.dt (diskFill v) v.missing)) = v.cells := by
    cases hm : v.maskedArr with
    | true =>
      simp only [if_true]
      conv_rhs => rw [← List.map_id v.cells]
      apply List.map_congr_left
      intro c hc
      exact cell_roundtrip v c (h.cells c hc)
    | false =>
      simp only [Bool.false_eq_true, if_false]
      conv_rhs => rw [← List.map_id v.cells]
      apply List.map_congr_left
      intro c hc
      cases c with
      | none => rfl
      | some x => exact cell_roundtrip v (some x) (h.cells _ hc)
  simp only
  rw [hat, hcells]

/-- **file level (C07)**: save followed by reopen returns the same dimensions (names, order, lengths,
unlimited flags), the same global attributes, and every variable with its name, order, dtype, dimension tuple,
attributes, masks and values — for all files, any number of variables and cells. -/
theorem file_roundtrip (fl : Flavour) (f : File) (hrep : ∀ v ∈ f.vars, representableDt fl v.dt = true)
    (hg : ∀ a ∈ f.gattrs, skipped a.1 = false) (hv : ∀ v ∈ f.vars, VarOk v) :
    roundtrip fl f = some { f with vars := f.vars.map (fun v => { v with ufill := diskFill v }) } := by
  unfold roundtrip
  have hall : f.vars.all (fun v => representableDt fl v.dt) = true := by
    rw [List.all_eq_true]; exact hrep
  have hga : f.gattrs.filter (fun a => !skipped a.1) = f.gattrs := by
    apply List.filter_eq_self.mpr
    intro a ha
    simp [hg a ha]
  simp only [hall, if_true, hga]
  congr 2
  apply List.map_congr_left
  intro v hvm
  exact var_roundtrip v (hv v hvm)

/-- a type the flavour cannot store makes `save` fail instead of storing something else -/
theorem unrepresentable_rejected (fl : Flavour) (f : File) (v : Var) (hv : v ∈ f.vars)
    (h : representableDt fl v.dt = false) : roundtrip fl f = none := by
  unfold roundtrip
  have : f.vars.all (fun v => representableDt fl v.dt) = false := by
    rw [List.all_eq_false]
    exact ⟨v, hv, by simp [h]⟩
  simp [this]

/-- a float variable with one masked cell, `missing_value = -998` and `fill_value = -999` -/
def exVar : Var :=
  { name := "W", dt := .f4, dims := ["y"], attrs := [("units", "s.707062")], missing := some (-998),
    fill := some (-999), ufill := none, maskedArr := true, cells := [some (1/2), none, some 3] }

theorem exVar_ok : VarOk exVar := by
  refine ⟨?_, ?_, ?_⟩
  · intro c hc
    simp only [exVar, List.mem_cons, List.mem_nil_iff, or_false] at hc
    rcases hc with rfl | rfl | rfl
    · refine ⟨by decide +kernel, by decide +kernel, ?_⟩
      intro h; exact absurd h.1 (by decide +kernel)
    · left; decide +kernel
    · refine ⟨by decide +kernel, by decide +kernel, ?_⟩
      intro h; exact absurd h.1 (by decide +kernel)
  · intro a ha
    simp only [exVar, List.mem_cons, List.mem_nil_iff, or_false] at ha
    subst ha
    decide +kernel
  · intro h; simp [exVar] at h

/-- **what the repair fixed**: with the old precedence (`fill_value` attribute first) the masked cell of
`exVar` is written as -999 while the disk `_FillValue` is -998, and is read back as the number -999. -/
theorem mask_lost_counterexample :
    readCell exVar.dt (diskFill exVar) exVar.missing (writeFillOld exVar) = some (-999) ∧
    readCell exVar.dt (diskFill exVar) exVar.missing (writeFill exVar) = none := by
  constructor <;> decide +kernel

/-- giving a variable the `_FillValue` attribute netCDF adds does not change the fill chosen on disk -/
theorem diskFill_withUfill (v : Var) : diskFill { v with ufill := diskFill v } = diskFill v := by
  unfold diskFill
  cases v.missing <;> cases v.fill <;> simp

/-- what comes back from a save is again a variable netCDF can give back -/
theorem varOk_withUfill (v : Var) (h : VarOk v) : VarOk { v with ufill := diskFill v } := by
  have hd := diskFill_withUfill v
  refine ⟨?_, h.attrs, h.plain⟩
  intro c hc
  have hc0 := h.cells c hc
  cases c with
  | some x =>
    show diskFill { v with ufill := diskFill v } ≠ some x ∧ v.missing ≠ some x ∧
      ¬ (diskFill { v with ufill := diskFill v } = none ∧ defaultFill v.dt = some x)
    rw [hd]; exact hc0
  | none =>
    show (diskFill { v with ufill := diskFill v }).isSome = true ∨ (defaultFill v.dt).isSome = true
    rw [hd]; exact hc0

/-- **second cycle (C07)**: what a save/open cycle returns is a fixed point — saving the reopened file again and
reopening it returns the same file (dimensions, attributes, variables, masks, values and the `_FillValue`
attributes netCDF added the first time), for all files the first cycle accepts. -/
theorem second_cycle (fl : Flavour) (f : File) (hrep : ∀ v ∈ f.vars, representableDt fl v.dt = true)
    (hg : ∀ a ∈ f.gattrs, skipped a.1 = false) (hv : ∀ v ∈ f.vars, VarOk v) :
    ∃ g, roundtrip fl f = some g ∧ roundtrip fl g = some g := by
  refine ⟨_, file_roundtrip fl f hrep hg hv, ?_⟩
  have h2 := file_roundtrip fl { f with vars := f.vars.map (fun v => { v with ufill := diskFill v }) }
    (by
      intro v hvm
      simp only [List.mem_map] at hvm
      obtain ⟨w, hw, rfl⟩ := hvm
      exact hrep w hw)
    hg
    (by
      intro v hvm
      simp only [List.mem_map] at hvm
      obtain ⟨w, hw, rfl⟩ := hvm
      exact varOk_withUfill w (hv w hw))
  rw [h2]
  congr 2
  rw [List.map_map]
  apply List.map_congr_left
  intro v _
  simp only [Function.comp]
  rw [diskFill_withUfill]

/-- **what the last repair fixed**: a float variable without any fill whose stored data hold netCDF's default fill
(cells never written) reads those cells as masked; written back with -9999 (`writeFill9999`) the cell is read as the
number -9999, written back with the default fill it is read as masked again -/
theorem default_fill_counterexample :
    let v : Var := ⟨"x", .f4, ["n"], [], none, none, none, true, [some 1, none, some 3]⟩
    readCell v.dt (diskFill v) v.missing (writeFill9999 v) = some (-9999) ∧
    readCell v.dt (diskFill v) v.missing (writeFill v) = none := by
  constructor <;> decide +kernel

end Props.C07
