import PncProofs.StackLemmas
import PncProofs.ZipLemmas
import PncProofs.C02
namespace Props.C01
open Arr PFile

/-! ## Lemmas for `slice_wf` (PncProofs/C01Files.lean): index lists of a slice, dimension lookups in the sliced file, the
orthogonal and the zipped (pointwise) variable -/

/-- what the index lists of a slice are: one per keyword, in order, each the in-range normalisation of its selector -/
theorem sliceIdx_facts (f : File) : ∀ (sels : List (String × PSel)) (idx : List (String × List Nat)),
    sliceIdx f sels = .ok idx →
    idx.map (·.1) = sels.map (·.1) ∧
      ∀ p ∈ idx, ∃ s, (p.1, s) ∈ sels ∧ s.indices (f.dimLen p.1) = some p.2
  | [], idx, h => by
    simp only [sliceIdx, List.mapM_nil] at h
    cases h
    simp
  | q :: sels, idx, h => by
    unfold sliceIdx at h
    rw [List.mapM_cons] at h
    cases hq : q.2.indices (f.dimLen q.1) with
    | none => simp only [hq] at h; cases h
    | some l =>
      simp only [hq] at h
      cases hrest : sliceIdx f sels with
      | error e => unfold sliceIdx at hrest; rw [hrest] at h; cases h
      | ok idx' =>
        have hrest' := hrest
        unfold sliceIdx at hrest
        rw [hrest] at h
        have : idx = (q.1, l) :: idx' := by cases h; rfl
        subst this
        obtain ⟨h1, h2⟩ := sliceIdx_facts f sels idx' hrest'
        refine ⟨by simp [h1], fun p hp => ?_⟩
        rcases List.mem_cons.mp hp with rfl | hp'
        · exact ⟨q.2, by simp, hq⟩
        · obtain ⟨s, hs, hi⟩ := h2 p hp'
          exact ⟨s, List.mem_cons_of_mem _ hs, hi⟩

/-- a key is found in one association list iff it is found in another with the same keys -/
theorem find?_keys {β γ} : ∀ (l1 : List (String × β)) (l2 : List (String × γ)), l1.map (·.1) = l2.map (·.1) →
    ∀ k, (l1.find? (·.1 == k)).isSome = (l2.find? (·.1 == k)).isSome
  | [], [], _, _ => rfl
  | [], _ :: _, h, _ => by simp at h
  | _ :: _, [], h, _ => by simp at h
  | a :: l1, b :: l2, h, k => by
    simp only [List.map_cons, List.cons.injEq] at h
    simp only [List.find?, h.1]
    cases hb : (b.1 == k) with
    | true => rfl
    | false => exact find?_keys l1 l2 h.2 k

/-- the selection on every axis of a variable lies inside that axis -/
theorem selOfDim_lt (f : File) (sels : List (String × PSel)) (idx : List (String × List Nat)) (zipped : Bool)
    (hidx : sliceIdx f sels = .ok idx) (k : String) : ∀ i ∈ selIdxs (selOfDim f sels idx zipped k), i < f.dimLen k := by
  obtain ⟨_, hmem⟩ := sliceIdx_facts f sels idx hidx
  unfold selOfDim
  cases hf : idx.find? (·.1 == k) with
  | none => simp [selIdxs]
  | some p =>
    have hp : p ∈ idx := List.mem_of_find?_eq_some hf
    have hk : p.1 = k := by simpa using List.find?_some hf
    cases hl : lookupSel sels k with
    | none => simp [selIdxs]
    | some s =>
      obtain ⟨s', _, hi⟩ := hmem p hp
      rw [hk] at hi
      have := Props.C02.indices_lt (f.dimLen k) s' p.2 hi
      simp only
      split <;> simpa [selIdxs] using this


/-- the dimensions of the sliced file -/
def slicedDims (f : File) (idx : List (String × List Nat)) (zipped : Bool) (L : Nat) (newdim : String) : List Dim :=
  let dims' := f.dims.map (fun d => { d with len := slicedLen idx d })
  if zipped then dims' ++ [⟨newdim, L, false⟩] else dims'

theorem find?_sliced_base (f : File) (idx : List (String × List Nat)) (k : String) :
    (f.dims.map (fun d => ({ d with len := slicedLen idx d } : Dim))).find? (·.name == k) =
      (f.dims.find? (·.name == k)).map (fun d => { d with len := slicedLen idx d }) := by
  rw [List.find?_map]
  rfl

theorem sliced_dim_old (f : File) (idx : List (String × List Nat)) (zipped : Bool) (L : Nat) (newdim : String)
    (vars : List Var) (k : String) (d : Dim) (hd : f.dim? k = some d) :
    (File.mk (slicedDims f idx zipped L newdim) vars f.attrs).dim? k = some { d with len := slicedLen idx d } := by
  unfold File.dim? at hd ⊢
  unfold slicedDims
  simp only
  split
  · rw [List.find?_append, find?_sliced_base, hd]; rfl
  · rw [find?_sliced_base, hd]; rfl

theorem sliced_dim_new (f : File) (idx : List (String × List Nat)) (L : Nat) (newdim : String)
    (vars : List Var) (hnew : f.dim? newdim = none) :
    (File.mk (slicedDims f idx true L newdim) vars f.attrs).dim? newdim = some ⟨newdim, L, false⟩ := by
  unfold File.dim? at hnew ⊢
  unfold slicedDims
  simp only [if_true]
  rw [List.find?_append, find?_sliced_base, hnew]
  simp [List.find?]

/-- the number of selected indices on the axis of a dimension is the dimension's new length -/
theorem selOfDim_length (f : File) (sels : List (String × PSel)) (idx : List (String × List Nat)) (zipped : Bool)
    (hidx : sliceIdx f sels = .ok idx) (k : String) (d : Dim) (hd : f.dim? k = some d) :
    (selIdxs (selOfDim f sels idx zipped k)).length = slicedLen idx d := by
  obtain ⟨hkeys, _⟩ := sliceIdx_facts f sels idx hidx
  have hname : d.name = k := by unfold File.dim? at hd; simpa using List.find?_some hd
  have hlen : f.dimLen k = d.len := by unfold File.dimLen; rw [hd]; rfl
  unfold selOfDim slicedLen
  rw [hname]
  cases hf : idx.find? (·.1 == k) with
  | none => simp [selIdxs, hlen]
  | some p =>
    have hsome := find?_keys idx sels hkeys k
    rw [hf] at hsome
    cases hl : lookupSel sels k with
    | none =>
      unfold lookupSel at hl
      cases hfs : sels.find? (·.1 == k) with
      | none => rw [hfs] at hsome; cases hsome
      | some q => rw [hfs] at hl; cases hl
    | some s =>
      simp only
      split <;> simp [selIdxs]


theorem selShape_map (g : String → List Nat) (h : String → Nat) : ∀ (ds : List String),
    selShape (ds.map g) (ds.map h) = ds.map (fun k => (g k).length)
  | [] => rfl
  | d :: ds => by simp [selShape, selShape_map g h ds]

theorem selsIn_map (g : String → List Nat) (h : String → Nat) : ∀ (ds : List String),
    (∀ k ∈ ds, ∀ i ∈ g k, i < h k) → SelsIn (ds.map g) (ds.map h)
  | [], _ => by simp [SelsIn]
  | d :: ds, hh => by
    simp only [List.map_cons, SelsIn]
    exact ⟨hh d (by simp), selsIn_map g h ds (fun k hk => hh k (List.mem_cons_of_mem _ hk))⟩

/-- a variable that takes no part in a pointwise selection: its dimensions stay, its data get the new lengths -/
theorem sliceVar_orth_wf (f : File) (sels : List (String × PSel)) (idx : List (String × List Nat)) (zipped : Bool)
    (L : Nat) (newdim : String) (vars : List Var) (v : Var) (hv : VarWF f v) (hidx : sliceIdx f sels = .ok idx) :
    VarWF (File.mk (slicedDims f idx zipped L newdim) vars f.attrs)
      { v with data := orth ((v.dims.map (selOfDim f sels idx zipped)).map selIdxs) v.data } := by
  set R : File := File.mk (slicedDims f idx zipped L newdim) vars f.attrs with hR
  have hdim : ∀ k ∈ v.dims, ∃ d, f.dim? k = some d := fun k hk => Option.isSome_iff_exists.mp (hv.1 k hk)
  refine ⟨fun k hk => ?_, ?_⟩
  · obtain ⟨d, hd⟩ := hdim k hk
    rw [sliced_dim_old f idx zipped L newdim vars k d hd]
    rfl
  · unfold File.shapeOf
    simp only
    have hlen : v.dims.map R.dimLen = v.dims.map (fun k => (selIdxs (selOfDim f sels idx zipped k)).length) := by
      apply List.map_congr_left
      intro k hk
      obtain ⟨d, hd⟩ := hdim k hk
      rw [selOfDim_length f sels idx zipped hidx k d hd]
      unfold File.dimLen
      rw [sliced_dim_old f idx zipped L newdim vars k d hd]
      rfl
    rw [hlen, List.map_map]
    have := selShape_map (selIdxs ∘ selOfDim f sels idx zipped) f.dimLen v.dims
    simp only [Function.comp] at this ⊢
    rw [← this]
    apply orth_shape
    · exact hv.2
    · apply inRange_of_shape _ (v.dims.map f.dimLen) _ hv.2
      exact selsIn_map _ _ v.dims (fun k _ => selOfDim_lt f sels idx zipped hidx k)


/-- the selection of a dimension is a zipped one exactly when the dimension takes part in the pointwise selection -/
theorem selOfDim_eq (f : File) (sels : List (String × PSel)) (idx : List (String × List Nat)) (zipped : Bool)
    (hidx : sliceIdx f sels = .ok idx) (k : String) :
    selOfDim f sels idx zipped k =
      if isZipSel sels zipped k then Sel.zip (selIdxs (selOfDim f sels idx zipped k))
      else Sel.keep (selIdxs (selOfDim f sels idx zipped k)) := by
  obtain ⟨hkeys, _⟩ := sliceIdx_facts f sels idx hidx
  have hsome := find?_keys idx sels hkeys k
  unfold selOfDim isZipSel
  cases hf : idx.find? (·.1 == k) with
  | none =>
    rw [hf] at hsome
    have hl : lookupSel sels k = none := by
      unfold lookupSel
      cases hfs : sels.find? (·.1 == k) with
      | none => rfl
      | some q => rw [hfs] at hsome; cases hsome
    simp [hl, selIdxs]
  | some p =>
    cases hl : lookupSel sels k with
    | none => simp [selIdxs]
    | some s =>
      simp only
      cases hz : (zipped && s.isList) <;> simp [selIdxs]

theorem zSelsIn_map (sel : String → Sel) (h : String → Nat) : ∀ (ds : List String),
    (∀ k ∈ ds, ∀ i ∈ selIdxs (sel k), i < h k) → ZSelsIn (ds.map sel) (ds.map h)
  | [], _ => by simp [ZSelsIn]
  | d :: ds, hh => by
    have ih := zSelsIn_map sel h ds (fun k hk => hh k (List.mem_cons_of_mem _ hk))
    have hd := hh d (by simp)
    simp only [List.map_cons]
    cases hs : sel d with
    | keep l => rw [hs] at hd; exact ⟨by simpa [selIdxs] using hd, ih⟩
    | zip l => rw [hs] at hd; exact ⟨by simpa [selIdxs] using hd, ih⟩

/-- shape of one point of a zipped selection in terms of dimension names: the dimensions that are not zipped -/
theorem pointShape_dims (sel : String → Sel) (z : String → Bool) (flen rlen : String → Nat) : ∀ (ds : List String),
    (∀ k ∈ ds, sel k = if z k then Sel.zip (selIdxs (sel k)) else Sel.keep (selIdxs (sel k))) →
    (∀ k ∈ ds, z k = false → rlen k = (selIdxs (sel k)).length) →
    pointShape (ds.map sel) (ds.map flen) = (ds.filter (fun k => !(z k))).map rlen
  | [], _, _ => rfl
  | d :: ds, hsel, hlen => by
    have ih := pointShape_dims sel z flen rlen ds (fun k hk => hsel k (List.mem_cons_of_mem _ hk))
      (fun k hk => hlen k (List.mem_cons_of_mem _ hk))
    have hd := hsel d (by simp)
    simp only [List.map_cons]
    cases hz : z d with
    | true =>
      rw [hz] at hd
      simp only [if_true] at hd
      rw [hd]
      simp only [pointShape, List.filter_cons, hz, Bool.not_true, Bool.false_eq_true, if_false]
      exact ih
    | false =>
      rw [hz] at hd
      simp only [Bool.false_eq_true, if_false] at hd
      rw [hd]
      simp only [pointShape, List.filter_cons, hz, Bool.not_false, if_true, List.map_cons]
      rw [ih, hlen d (by simp) hz]

/-- shape of a zipped selection in terms of dimension names: the new dimension stands where the first zipped dimension
was, the other zipped dimensions are gone, the rest keep their place -/
theorem zipShape_dims (L : Nat) (sel : String → Sel) (z : String → Bool) (flen rlen : String → Nat) (newdim : String)
    (hnewlen : rlen newdim = L) : ∀ (ds : List String),
    (∀ k ∈ ds, sel k = if z k then Sel.zip (selIdxs (sel k)) else Sel.keep (selIdxs (sel k))) →
    (∀ k ∈ ds, z k = false → rlen k = (selIdxs (sel k)).length) →
    (∃ k ∈ ds, z k = true) →
    zipShape L (ds.map sel) (ds.map flen) =
      ((ds.filter (fun k => !(z k))).take ((ds.map z).idxOf true) ++ [newdim] ++
        (ds.filter (fun k => !(z k))).drop ((ds.map z).idxOf true)).map rlen
  | [], _, _, hex => by obtain ⟨k, hk, _⟩ := hex; cases hk
  | d :: ds, hsel, hlen, hex => by
    have hd := hsel d (by simp)
    simp only [List.map_cons]
    cases hz : z d with
    | true =>
      rw [hz] at hd
      simp only [if_true] at hd
      rw [hd]
      have hp := pointShape_dims sel z flen rlen ds (fun k hk => hsel k (List.mem_cons_of_mem _ hk))
        (fun k hk => hlen k (List.mem_cons_of_mem _ hk))
      simp only [zipShape, pointShape, List.filter_cons, hz, Bool.not_true, Bool.false_eq_true, if_false,
        List.idxOf_cons_self, List.take_zero, List.drop_zero, List.nil_append, List.cons_append, List.map_cons,
        hnewlen, hp]
    | false =>
      rw [hz] at hd
      simp only [Bool.false_eq_true, if_false] at hd
      rw [hd]
      have hex' : ∃ k ∈ ds, z k = true := by
        obtain ⟨k, hk, hzk⟩ := hex
        rcases List.mem_cons.mp hk with rfl | hk'
        · rw [hz] at hzk; cases hzk
        · exact ⟨k, hk', hzk⟩
      have ih := zipShape_dims L sel z flen rlen newdim hnewlen ds (fun k hk => hsel k (List.mem_cons_of_mem _ hk))
        (fun k hk => hlen k (List.mem_cons_of_mem _ hk)) hex'
      have hidx : (false :: ds.map z).idxOf true = (ds.map z).idxOf true + 1 := by
        simp [List.idxOf_cons]
      simp only [zipShape, List.filter_cons, hz, Bool.not_false, if_true, hidx, List.take_succ_cons,
        List.drop_succ_cons, List.cons_append, List.map_cons]
      rw [ih, hlen d (by simp) hz]


/-- a variable on which two or more listed dimensions act together: the listed dimensions are replaced by the new
dimension (at the place of the first), the data have exactly the lengths of the new dimension tuple -/
theorem sliceVar_zip_wf (f : File) (sels : List (String × PSel)) (idx : List (String × List Nat))
    (L : Nat) (newdim : String) (vars : List Var) (v : Var) (d : Arr Cell) (hv : VarWF f v)
    (hidx : sliceIdx f sels = .ok idx) (hnew : f.dim? newdim = none)
    (hex : ∃ k ∈ v.dims, isZipSel sels true k = true)
    (hd : zipSel L (v.dims.map (selOfDim f sels idx true)) v.data = some d) :
    VarWF (File.mk (slicedDims f idx true L newdim) vars f.attrs)
      { v with dims := (v.dims.filter (fun k => !(isZipSel sels true k))).take ((v.dims.map (isZipSel sels true)).idxOf true)
                ++ [newdim] ++
                (v.dims.filter (fun k => !(isZipSel sels true k))).drop ((v.dims.map (isZipSel sels true)).idxOf true),
               data := d } := by
  set R : File := File.mk (slicedDims f idx true L newdim) vars f.attrs with hR
  have hdim : ∀ k ∈ v.dims, ∃ d, f.dim? k = some d := fun k hk => Option.isSome_iff_exists.mp (hv.1 k hk)
  have hRlen : ∀ k ∈ v.dims, R.dimLen k = (selIdxs (selOfDim f sels idx true k)).length := by
    intro k hk
    obtain ⟨d, hd⟩ := hdim k hk
    rw [selOfDim_length f sels idx true hidx k d hd]
    unfold File.dimLen
    rw [sliced_dim_old f idx true L newdim vars k d hd]
    rfl
  have hRnew : R.dimLen newdim = L := by
    unfold File.dimLen
    rw [sliced_dim_new f idx L newdim vars hnew]
    rfl
  refine ⟨fun k hk => ?_, ?_⟩
  · simp only [List.mem_append, List.mem_singleton] at hk
    have hkept : ∀ k ∈ v.dims.filter (fun k => !(isZipSel sels true k)), (R.dim? k).isSome = true := by
      intro k hk
      obtain ⟨d, hd⟩ := hdim k (List.mem_filter.mp hk).1
      rw [sliced_dim_old f idx true L newdim vars k d hd]
      rfl
    rcases hk with (hk | hk) | hk
    · exact hkept k (List.mem_of_mem_take hk)
    · rw [hk, sliced_dim_new f idx L newdim vars hnew]; rfl
    · exact hkept k (List.mem_of_mem_drop hk)
  · unfold File.shapeOf
    simp only
    rw [← zipShape_dims L (selOfDim f sels idx true) (isZipSel sels true) f.dimLen R.dimLen newdim hRnew v.dims
      (fun k _ => selOfDim_eq f sels idx true hidx k) (fun k hk _ => hRlen k hk) hex]
    exact zipSel_shape L _ (v.dims.map f.dimLen) v.data d hv.2
      (zSelsIn_map _ _ v.dims (fun k _ => selOfDim_lt f sels idx true hidx k)) hd

end Props.C01
