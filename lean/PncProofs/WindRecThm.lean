import PncProofs.WindRecLemmas
import PncProofs.SlabReadLemmas

/-! the record reader of wind files presents the written content (regular time axis) -/
namespace WindRec
open Words Slab Wind
open SlabRead (DT timediff timeadd trange iter)
open UamivRead (sint)

/-- words of one time step -/
def stepW (cells nz h : Nat) : Nat := (h + 2) + (cells + 2) * (2 * nz) + 3

theorem encode_eq_recs (steps : List WStep) : encode steps = encodeRecs (records steps) := rfl

theorem encodeRecs_append (a b : List (List Word)) : encodeRecs (a ++ b) = encodeRecs a ++ encodeRecs b :=
  Wind.encodeRecs_append' a b

/-- a step as its header frame, its data records and closing record, and the rest of the file -/
theorem encode_cons_recs (s : WStep) (rest : List WStep) :
    encode (s :: rest) = frame (header s) ++ (encodeRecs (s.slabs ++ [[0]]) ++ encode rest) := by
  rw [encode_cons, stepWords]
  simp only [stepRecords, encodeRecs_cons, List.append_assoc]

theorem encodeRecs_uniform_length (cells : Nat) : ∀ (rows : List (List Word)), (∀ c ∈ rows, c.length = cells) →
    (encodeRecs rows).length = (cells + 2) * rows.length := by
  intro rows h
  rw [Wind.encodeRecs_eq_flatten]
  exact frames_length cells rows h

/-- record `j` of a run of equally long records -/
theorem drop_uniform (cells : Nat) : ∀ (rows : List (List Word)) (j : Nat), (∀ c ∈ rows, c.length = cells) → j ≤ rows.length →
    (encodeRecs rows).drop (j * (cells + 2)) = encodeRecs (rows.drop j)
  | rows, 0, _, _ => by simp
  | [], j + 1, _, hj => by simp at hj
  | c :: rows, j + 1, h, hj => by
    have hc := h c (by simp)
    rw [encodeRecs_cons, Nat.succ_mul, Nat.add_comm, ← List.drop_drop]
    have : (frame c).length = cells + 2 := by rw [frame_length, hc]
    rw [← this, List.drop_left, this, List.drop_succ_cons]
    exact drop_uniform cells rows j (fun x hx => h x (by simp [hx])) (by simpa using hj)

/-- the file from the start of step `t` -/
theorem drop_steps (cells nz h : Nat) : ∀ (steps : List WStep) (t : Nat),
    (∀ s ∈ steps, s.slabs.length = 2 * nz ∧ (∀ c ∈ s.slabs, c.length = cells) ∧ (header s).length = h) →
    t ≤ steps.length → (encode steps).drop (t * stepW cells nz h) = encode (steps.drop t)
  | steps, 0, _, _ => by simp
  | [], t + 1, _, ht => by simp at ht
  | s :: rest, t + 1, hall, ht => by
    obtain ⟨hs, hc, hh⟩ := hall s (by simp)
    have hl := stepWords_length cells nz h s hs hc hh
    rw [encode_cons, Nat.succ_mul, Nat.add_comm, ← List.drop_drop]
    unfold stepW
    rw [← hl, List.drop_left, hl, List.drop_succ_cons]
    exact drop_steps cells nz h rest t (fun x hx => hall x (by simp [hx])) (by simpa using ht)

theorem at_payload {ws pos r rest} (h : At ws pos r rest) : (ws.drop (pos + 1)).take r.length = r := by
  have : ws.drop (pos + 1) = (ws.drop pos).drop 1 := by rw [List.drop_drop]
  rw [this, h.2]
  simp [frame]

section
variable {cells nz h : Nat} {steps : List WStep}

theorem total_length (hall : ∀ s ∈ steps, s.slabs.length = 2 * nz ∧ (∀ c ∈ s.slabs, c.length = cells) ∧ (header s).length = h) :
    (encode steps).length = steps.length * stepW cells nz h := encode_length cells nz h steps hall

/-- the time header of step `t` -/
theorem at_header (hall : ∀ s ∈ steps, s.slabs.length = 2 * nz ∧ (∀ c ∈ s.slabs, c.length = cells) ∧ (header s).length = h)
    (t : Nat) (ht : t < steps.length) :
    At (encode steps) (t * stepW cells nz h) (header steps[t])
      (encodeRecs (steps[t].slabs ++ [[0]]) ++ encode (steps.drop (t + 1))) := by
  constructor
  · rw [total_length hall]; exact Nat.mul_le_mul_right _ (Nat.le_of_lt ht)
  · rw [drop_steps cells nz h steps t hall (Nat.le_of_lt ht), List.drop_eq_getElem_cons ht, encode_cons_recs]

/-- data record `j` of step `t` -/
theorem at_slab (hall : ∀ s ∈ steps, s.slabs.length = 2 * nz ∧ (∀ c ∈ s.slabs, c.length = cells) ∧ (header s).length = h)
    (t j : Nat) (ht : t < steps.length) (hj : j < 2 * nz) :
    ∃ rest, At (encode steps) (t * stepW cells nz h + (h + 2) + j * (cells + 2)) ((steps[t].slabs).getD j []) rest := by
  obtain ⟨hs, hc, hh⟩ := hall steps[t] (List.getElem_mem ht)
  have hhd := at_header hall t ht
  have hjl : j < steps[t].slabs.length := by rw [hs]; exact hj
  refine ⟨encodeRecs (steps[t].slabs.drop (j + 1)) ++ (frame [0] ++ encode (steps.drop (t + 1))), ?_, ?_⟩
  · rw [total_length hall]
    have h1 : (t + 1) * stepW cells nz h ≤ steps.length * stepW cells nz h := Nat.mul_le_mul_right _ ht
    have h2 : j * (cells + 2) ≤ (2 * nz) * (cells + 2) := Nat.mul_le_mul_right _ (Nat.le_of_lt hj)
    have hW : stepW cells nz h = (h + 2) + (2 * nz) * (cells + 2) + 3 := by unfold stepW; rw [Nat.mul_comm]
    rw [Nat.succ_mul] at h1
    generalize stepW cells nz h = Wv at *
    generalize steps.length * Wv = A at *
    generalize t * Wv = B at *
    omega
  · have e1 : (encode steps).drop (t * stepW cells nz h + (h + 2) + j * (cells + 2)) =
        (((encode steps).drop (t * stepW cells nz h)).drop (h + 2)).drop (j * (cells + 2)) := by
      rw [List.drop_drop, List.drop_drop, Nat.add_assoc]
    rw [e1, hhd.2]
    have hfl : (frame (header steps[t])).length = h + 2 := by rw [frame_length, hh]
    rw [← hfl, List.drop_left, encodeRecs_append, List.append_assoc]
    rw [List.drop_append_of_le_length (by
      rw [encodeRecs_uniform_length cells _ hc, Nat.mul_comm (cells + 2)]
      exact Nat.mul_le_mul_right _ (Nat.le_of_lt hjl))]
    rw [drop_uniform cells _ j hc (Nat.le_of_lt hjl), List.drop_eq_getElem_cons hjl, encodeRecs_cons, List.append_assoc]
    have : steps[t].slabs.getD j [] = steps[t].slabs[j] := by
      simp [List.getD_eq_getElem?_getD, List.getElem?_eq_getElem hjl]
    rw [this]
    simp [encodeRecs]

end

theorem at_getD {ws pos r rest} (h : At ws pos r rest) (i : Nat) (hi : i < r.length) :
    ws.getD (pos + 1 + i) 0 = r.getD i 0 := by
  have h1 : ws.getD (pos + 1 + i) 0 = (ws.drop pos).getD (1 + i) 0 := by
    rw [List.getD_eq_getElem?_getD, List.getD_eq_getElem?_getD, List.getElem?_drop, Nat.add_assoc]
  rw [h1, h.2]
  have : frame r ++ rest = (4 * r.length) :: (r ++ ([4 * r.length] ++ rest)) := by simp [frame]
  rw [this, Nat.add_comm 1 i, List.getD_cons_succ, List.getD_eq_getElem?_getD, List.getD_eq_getElem?_getD,
    List.getElem?_append_left hi]

/-- `n` calls of `next()` over the last records of the file: one of them runs off the end -/
theorem advance_eof (ws : List Word) : ∀ (rs : List (List Word)) (pos : Nat), pos ≤ ws.length → rs ≠ [] →
    ws.drop pos = encodeRecs rs → advance ws rs.length pos = none
  | [], _, _, hne, _ => absurd rfl hne
  | [r], pos, hp, _, h => by
    have hat : At ws pos r [] := ⟨hp, by rw [h]; simp [encodeRecs]⟩
    simp only [List.length_cons, List.length_nil, advance, at_last hat]
  | r :: r2 :: rs, pos, hp, _, h => by
    rw [encodeRecs_cons] at h
    have hat : At ws pos r (encodeRecs (r2 :: rs)) := ⟨hp, h⟩
    obtain ⟨hn, hat'⟩ := at_next hat r2 (encodeRecs rs) (encodeRecs_cons r2 rs)
    have ih := advance_eof ws (r2 :: rs) (pos + r.length + 2) hat'.1 (by simp) (by rw [hat'.2, encodeRecs_cons])
    simp only [List.length_cons] at ih ⊢
    simp only [advance, hn]
    exact ih

/-- (date, time) of a step as the reader unpacks its header -/
def dtOf (s : WStep) : DT := (sint s.date, truncF32 s.time)

theorem header_getD (s : WStep) : (header s).getD 0 0 = s.time ∧ (header s).getD 1 0 = s.date := by
  cases hg : s.stag <;> simp [header, hg]

section
variable {cells nz h : Nat} {steps : List WStep}

/-- what follows the time header of step `t` -/
theorem after_header (hall : ∀ s ∈ steps, s.slabs.length = 2 * nz ∧ (∀ c ∈ s.slabs, c.length = cells) ∧ (header s).length = h)
    (t : Nat) (ht : t < steps.length) :
    (encode steps).drop (t * stepW cells nz h + (h + 2)) =
      encodeRecs (steps[t].slabs ++ [[0]]) ++ encode (steps.drop (t + 1)) := by
  obtain ⟨_, _, hh⟩ := hall steps[t] (List.getElem_mem ht)
  have hhd := at_header hall t ht
  rw [← List.drop_drop, hhd.2]
  have hfl : (frame (header steps[t])).length = h + 2 := by rw [frame_length, hh]
  rw [← hfl, List.drop_left]

theorem data_run_length (hall : ∀ s ∈ steps, s.slabs.length = 2 * nz ∧ (∀ c ∈ s.slabs, c.length = cells) ∧ (header s).length = h)
    (t : Nat) (ht : t < steps.length) :
    (h + 2) + (encodeRecs (steps[t].slabs ++ [[0]])).length = stepW cells nz h ∧ (steps[t].slabs ++ [[0]]).length = 2 * nz + 1 := by
  obtain ⟨hs, hc, _⟩ := hall steps[t] (List.getElem_mem ht)
  constructor
  · rw [encodeRecs_append, List.length_append, encodeRecs_uniform_length cells _ hc, hs]
    simp [encodeRecs, frame, stepW]; omega
  · simp [hs]

theorem pos_le (hall : ∀ s ∈ steps, s.slabs.length = 2 * nz ∧ (∀ c ∈ s.slabs, c.length = cells) ∧ (header s).length = h)
    (t : Nat) (ht : t < steps.length) : t * stepW cells nz h + (h + 2) ≤ (encode steps).length := by
  rw [total_length hall]
  have h1 : (t + 1) * stepW cells nz h ≤ steps.length * stepW cells nz h := Nat.mul_le_mul_right _ ht
  have hW : h + 2 ≤ stepW cells nz h := by unfold stepW; omega
  rw [Nat.succ_mul] at h1
  omega

/-- the end search from the first data record of step `t` (1 ≤ t): the time of the last step -/
theorem findEnd_spec (hall : ∀ s ∈ steps, s.slabs.length = 2 * nz ∧ (∀ c ∈ s.slabs, c.length = cells) ∧ (header s).length = h)
    (h23 : h = 2 ∨ h = 3) (hnz : 1 ≤ nz) (T : Nat) (hT : steps.length = T) :
    ∀ (d t fuel : Nat) (ht : t < T), t + d + 1 = T → d + 1 ≤ fuel →
      findEnd (encode steps) nz fuel (t * stepW cells nz h + (h + 2)) (dtOf (steps[t]'(by omega))) =
        dtOf (steps[T - 1]'(by omega)) := by
  intro d
  induction d with
  | zero =>
    intro t fuel ht htd hf
    obtain ⟨fuel, rfl⟩ : ∃ k, fuel = k + 1 := ⟨fuel - 1, by omega⟩
    have ht' : t < steps.length := by omega
    have hrun := after_header hall t ht'
    have hlast : steps.drop (t + 1) = [] := List.drop_eq_nil_of_le (by omega)
    rw [hlast] at hrun
    have hE : encode ([] : List WStep) = [] := rfl
    rw [hE, List.append_nil] at hrun
    have hlen := (data_run_length hall t ht').2
    have hadv := advance_eof (encode steps) (steps[t].slabs ++ [[0]]) (t * stepW cells nz h + (h + 2))
      (pos_le hall t ht') (by simp) hrun
    unfold findEnd
    rw [hlen] at hadv
    rw [hadv]
    have : t = T - 1 := by omega
    subst this
    rfl
  | succ d ih =>
    intro t fuel ht htd hf
    obtain ⟨fuel, rfl⟩ : ∃ k, fuel = k + 1 := ⟨fuel - 1, by omega⟩
    have ht' : t < steps.length := by omega
    have ht1 : t + 1 < steps.length := by omega
    have hrun := after_header hall t ht'
    rw [List.drop_eq_getElem_cons ht1, encode_cons_recs] at hrun
    have hlen := data_run_length hall t ht'
    obtain ⟨hadv, hat⟩ := advance_over (encode steps) (header steps[t + 1])
      (encodeRecs (steps[t + 1].slabs ++ [[0]]) ++ encode (steps.drop (t + 1 + 1))) (steps[t].slabs ++ [[0]])
      (t * stepW cells nz h + (h + 2)) (pos_le hall t ht') hrun
    have hp : t * stepW cells nz h + (h + 2) + (encodeRecs (steps[t].slabs ++ [[0]])).length = (t + 1) * stepW cells nz h := by
      rw [Nat.succ_mul]; have := hlen.1; omega
    rw [hp] at hadv hat
    rw [hlen.2] at hadv
    obtain ⟨hs1, hc1, hh1⟩ := hall steps[t + 1] (List.getElem_mem ht1)
    have hm : (encode steps).getD ((t + 1) * stepW cells nz h) 0 = 4 * h := by rw [at_marker hat, hh1]
    -- the record behind that header is the first data record of step t + 1
    obtain ⟨c0, cs, hsl⟩ : ∃ c0 cs, steps[t + 1].slabs = c0 :: cs := by
      cases hsl : steps[t + 1].slabs with
      | nil => rw [hsl] at hs1; simp at hs1; omega
      | cons c cs => exact ⟨c, cs, rfl⟩
    obtain ⟨hnext, _⟩ := at_next hat c0 (encodeRecs (cs ++ [[0]]) ++ encode (steps.drop (t + 1 + 1))) (by
      rw [hsl]; simp only [List.cons_append, encodeRecs_cons, List.append_assoc])
    have hg := header_getD steps[t + 1]
    have g1 := at_getD hat 0 (by omega)
    have g2 := at_getD hat 1 (by omega)
    rw [hg.1] at g1
    rw [hg.2] at g2
    unfold findEnd
    simp only [hadv, hm]
    have h812 : 4 * h = 8 ∨ 4 * h = 12 := by omega
    rw [if_pos h812]
    have hlenok : ¬ (encode steps).length < (t + 1) * stepW cells nz h + 1 + 4 * h / 4 := by
      have := pos_le hall (t + 1) ht1
      omega
    rw [if_neg hlenok]
    simp only [Nat.add_zero] at g1
    rw [show (t + 1) * stepW cells nz h + 2 = (t + 1) * stepW cells nz h + 1 + 1 from rfl, g2, g1, hh1] at *
    rw [hnext]
    simp only
    have := ih (t + 1) fuel (by omega) (by omega) (by omega)
    simpa [dtOf, Nat.add_assoc] using this

end

def noStep : WStep := ⟨0, 0, none, []⟩

/-- what the reader must present: the steps' times and, per step and layer, the U and the V slab -/
def viewOf (nz : Nat) (steps : List WStep) (start : DT) (step : Int) : RView :=
  { nt := steps.length, nz := nz, times := (List.range steps.length).map (fun i => iter start step i),
    u := (List.range steps.length).map (fun i => (List.range nz).map (fun k => ((steps.getD i noStep).slabs).getD (2 * k) [])),
    v := (List.range steps.length).map (fun i => (List.range nz).map (fun k => ((steps.getD i noStep).slabs).getD (2 * k + 1) [])) }

/-- a wind file with a regular time axis: at least two steps, one `timeadd` apart, grids of at least four cells -/
structure RegW (cells nz h : Nat) (steps : List WStep) (start : DT) (step : Int) : Prop where
  wf : WFw cells nz h steps
  two : 2 ≤ steps.length
  cells4 : 4 ≤ cells
  t0 : 0 ≤ start.2 ∧ start.2 < 2400
  st : 0 < step ∧ step ≤ 2400
  times : ∀ i (hi : i < steps.length), dtOf steps[i] = iter start step i

section
variable {cells nz h : Nat} {steps : List WStep} {start : DT} {step : Int}

theorem fetch_spec (r : RegW cells nz h steps start step) (i k uv : Nat) (hi : i < steps.length) (hk : k < nz)
    (huv : uv = 1 ∨ uv = 2) :
    fetch (encode steps) cells h nz (cells + 2) start (iter start step (steps.length - 1)) step (iter start step i) (k + 1) uv =
      some ((steps[i].slabs).getD (2 * k + (uv - 1)) []) := by
  obtain ⟨⟨hne, hc2, hnz, h23, hall⟩, htwo, hc4, h0, hs, htimes⟩ := r
  have hj : 2 * k + (uv - 1) < 2 * nz := by rcases huv with rfl | rfl <;> omega
  obtain ⟨rest, hat⟩ := at_slab hall i (2 * k + (uv - 1)) hi hj
  obtain ⟨hsl, hcl, _⟩ := hall steps[i] (List.getElem_mem hi)
  have hjl : 2 * k + (uv - 1) < steps[i].slabs.length := by rw [hsl]; exact hj
  have hrl : ((steps[i].slabs).getD (2 * k + (uv - 1)) []).length = cells := by
    have : steps[i].slabs.getD (2 * k + (uv - 1)) [] = steps[i].slabs[2 * k + (uv - 1)] := by
      simp [List.getD_eq_getElem?_getD, List.getElem?_eq_getElem hjl]
    rw [this]; exact hcl _ (List.getElem_mem hjl)
  have hlen := at_length hat
  rw [hrl] at hlen
  have hpay := at_payload hat
  rw [hrl] at hpay
  have hdi := (SlabRead.iter_spec start step h0 hs i).1
  have hdT := (SlabRead.iter_spec start step h0 hs (steps.length - 1)).1
  unfold fetch
  rw [SlabRead.timediff_shift start (iter start step (steps.length - 1)) (iter start step i), hdi, hdT]
  have hle : (i : Int) * step - ((steps.length - 1 : Nat) : Int) * step ≤ 0 := by
    have : (i : Int) ≤ ((steps.length - 1 : Nat) : Int) := by exact_mod_cast Nat.le_sub_one_of_lt hi
    have := Int.mul_le_mul_of_nonneg_right this (Int.le_of_lt hs.1)
    omega
  have hge : (0 : Int) ≤ (i : Int) * step := Int.mul_nonneg (Int.natCast_nonneg i) (Int.le_of_lt hs.1)
  rw [if_neg (by omega)]
  simp only [SlabRead.tdiv_mul i step hs.1]
  have hT' : Int.tdiv ((i : Int) * (nz : Int)) (nz : Int) = (i : Int) :=
    Int.mul_tdiv_cancel _ (by exact_mod_cast (show nz ≠ 0 by omega))
  rw [hT']
  have hq : (i : Int) * ((h + 2 : Nat) : Int) + (i : Int) * 3 + (i : Int) * (nz : Int) * ((cells + 2 : Nat) : Int) * 2 +
      ((h + 2 : Nat) : Int) + (((k + 1 - 1) * 2 * (cells + 2) + (uv - 1) * (cells + 2) : Nat) : Int) =
      ((i * stepW cells nz h + (h + 2) + (2 * k + (uv - 1)) * (cells + 2) : Nat) : Int) := by
    unfold stepW
    rw [Nat.add_sub_cancel]
    push_cast
    ring
  rw [hq]
  rw [if_neg (by
    intro hh
    rcases hh with hh | hh
    · exact absurd hh (by exact_mod_cast Nat.not_lt_zero _)
    · have : (encode steps).length ≤ i * stepW cells nz h + (h + 2) + (2 * k + (uv - 1)) * (cells + 2) := by exact_mod_cast hh
      omega)]
  simp only [Int.toNat_natCast]
  rw [if_neg (by omega), hpay]

end

section
variable {cells nz h : Nat} {steps : List WStep} {start : DT} {step : Int}

theorem stepW_ge (cells nz h : Nat) (hnz : 1 ≤ nz) : h + 2 + (cells + 2) + 3 ≤ stepW cells nz h ∧ 2 * nz + 2 ≤ stepW cells nz h := by
  unfold stepW
  have h1 : (cells + 2) * 1 ≤ (cells + 2) * (2 * nz) := Nat.mul_le_mul_left _ (by omega)
  have h2 : 1 * (2 * nz) ≤ (cells + 2) * (2 * nz) := Nat.mul_le_mul_right _ (by omega)
  omega

/-- **the record reader of wind files presents the written content**: for every wind file of at least two steps on
a regular time axis (any whole-HHMM step up to a day, over any number of midnights), any number of layers, any grid of
at least four cells, either header variant and any payload, the reader given rows · cols = cells presents exactly the
steps' times and the U and V slab of every step and layer. -/
theorem read_encode (r : RegW cells nz h steps start step) :
    read cells (encode steps) = some (viewOf nz steps start step) := by
  have r0 := r
  obtain ⟨⟨hne, hc2, hnz, h23, hall⟩, htwo, hc4, h0, hs, htimes⟩ := r
  have hT0 : 0 < steps.length := by omega
  have hT1 : 1 < steps.length := by omega
  have hW := stepW_ge cells nz h hnz
  have hlenW := total_length hall
  have h2W : 2 * stepW cells nz h ≤ (encode steps).length := by
    rw [hlenW]; exact Nat.mul_le_mul_right _ htwo
  -- step 0: header, first data record
  have hat0 := at_header hall 0 hT0
  simp only [Nat.zero_mul] at hat0
  obtain ⟨hs0, hc0, hh0⟩ := hall steps[0] (List.getElem_mem hT0)
  have hm0 : (encode steps).getD 0 0 = 4 * h := by rw [at_marker hat0, hh0]
  have hg0 := header_getD steps[0]
  have g01 := at_getD hat0 0 (by omega)
  have g02 := at_getD hat0 1 (by omega)
  simp only [Nat.zero_add, Nat.add_zero] at g01 g02
  rw [hg0.1] at g01
  rw [hg0.2] at g02
  have hstart : (sint ((encode steps).getD 2 0), truncF32 ((encode steps).getD 1 0)) = start := by
    rw [g01, g02]
    have := htimes 0 hT0
    simpa [dtOf, iter] using this
  obtain ⟨c0, cs, hsl0⟩ : ∃ c0 cs, steps[0].slabs = c0 :: cs := by
    cases hsl : steps[0].slabs with
    | nil => rw [hsl] at hs0; simp at hs0; omega
    | cons c cs => exact ⟨c, cs, rfl⟩
  have hc0len : c0.length = cells := hc0 c0 (by rw [hsl0]; simp)
  obtain ⟨hnext0, hatD⟩ := at_next hat0 c0 (encodeRecs (cs ++ [[0]]) ++ encode (steps.drop (0 + 1))) (by
    rw [hsl0]; simp only [List.cons_append, encodeRecs_cons, List.append_assoc])
  rw [hh0] at hnext0 hatD
  simp only [Nat.zero_add] at hnext0 hatD
  have hp1 : nextStay (encode steps) 0 = h + 2 := by unfold nextStay; rw [hnext0]; rfl
  have hrs : (encode steps).getD (h + 2) 0 = 4 * cells := by rw [at_marker hatD, hc0len]
  -- the first loop: up to the header of step 1
  have hrun0 := after_header hall 0 hT0
  simp only [Nat.zero_mul, Nat.zero_add] at hrun0
  rw [List.drop_eq_getElem_cons hT1, encode_cons_recs] at hrun0
  obtain ⟨hs1, hc1, hh1⟩ := hall steps[1] (List.getElem_mem hT1)
  have hfh := findHeader_over (encode steps) (4 * h) (header steps[1])
    (encodeRecs (steps[1].slabs ++ [[0]]) ++ encode (steps.drop (1 + 1))) (by rw [hh1]) (steps[0].slabs ++ [[0]]) (h + 2) 0
    (encode steps).length (by omega) hrun0 (by
      intro d hd
      rcases List.mem_append.mp hd with hd | hd
      · rw [hc0 d hd]; omega
      · simp at hd; subst hd; simp; omega) (by
      rw [(data_run_length hall 0 hT0).2]; omega)
  have hrl0 := data_run_length hall 0 hT0
  rw [hrl0.2] at hfh
  have hp2 : h + 2 + (encodeRecs (steps[0].slabs ++ [[0]])).length = stepW cells nz h := hrl0.1
  rw [hp2] at hfh
  -- the header of step 1
  have hat1 := at_header hall 1 hT1
  simp only [Nat.one_mul] at hat1
  have hg1 := header_getD steps[1]
  have g11 := at_getD hat1 0 (by omega)
  have g12 := at_getD hat1 1 (by omega)
  simp only [Nat.add_zero] at g11
  rw [hg1.1] at g11
  rw [hg1.2] at g12
  have hsecond : (sint ((encode steps).getD (stepW cells nz h + 2) 0), truncF32 ((encode steps).getD (stepW cells nz h + 1) 0)) =
      iter start step 1 := by
    rw [show stepW cells nz h + 2 = stepW cells nz h + 1 + 1 from rfl, g11, g12]
    exact htimes 1 hT1
  have hstep : timediff start (iter start step 1) = step := by
    have := (SlabRead.iter_spec start step h0 hs 1).1
    simpa using this
  obtain ⟨d0, ds, hsl1⟩ : ∃ c0 cs, steps[1].slabs = c0 :: cs := by
    cases hsl : steps[1].slabs with
    | nil => rw [hsl] at hs1; simp at hs1; omega
    | cons c cs => exact ⟨c, cs, rfl⟩
  obtain ⟨hnext1, _⟩ := at_next hat1 d0 (encodeRecs (ds ++ [[0]]) ++ encode (steps.drop (1 + 1))) (by
    rw [hsl1]; simp only [List.cons_append, encodeRecs_cons, List.append_assoc])
  rw [hh1] at hnext1
  -- the end search
  have hfe := findEnd_spec hall h23 hnz steps.length rfl (steps.length - 2) 1 (encode steps).length hT1 (by omega) (by
    have : steps.length ≤ steps.length * stepW cells nz h := Nat.le_mul_of_pos_right _ (by omega)
    omega)
  simp only [Nat.one_mul] at hfe
  rw [htimes 1 hT1, htimes (steps.length - 1) (by omega)] at hfe
  -- counting and the time axis
  have hdT := (SlabRead.iter_spec start step h0 hs (steps.length - 1)).1
  have hcnt : Int.tdiv (timediff start (iter start step (steps.length - 1))) step + 1 = (steps.length : Int) := by
    rw [hdT, SlabRead.tdiv_mul _ step hs.1]
    have : ((steps.length - 1 : Nat) : Int) = (steps.length : Int) - 1 := by omega
    rw [this]; ring
  have hTspec := SlabRead.iter_spec start step h0 hs steps.length
  have hstop : timeadd 2400 (timeadd 2400 (iter start step (steps.length - 1)) step) 0 = iter start step steps.length := by
    have e : timeadd 2400 (iter start step (steps.length - 1)) step = iter start step (steps.length - 1 + 1) := rfl
    rw [e, show steps.length - 1 + 1 = steps.length by omega, SlabRead.timeadd_noroll _ _ (by have := hTspec.2.2; omega)]
    simp
  have hstart0 : timeadd 2400 start 0 = iter start step 0 := by
    rw [SlabRead.timeadd_noroll _ _ (by omega)]; simp [iter]
  have htr := SlabRead.trange_spec (T := steps.length) (start := start) (step := step) h0 hs steps.length 0
    (steps.length + 1) (by omega) (by omega)
  -- assemble
  unfold read
  have hne' : (encode steps).isEmpty = false := by
    cases hE : encode steps with
    | nil => rw [hE] at h2W; simp at h2W; omega
    | cons a as => rfl
  have h812 : 4 * h = 8 ∨ 4 * h = 12 := by omega
  have hdiv : 4 * h / 4 = h := by omega
  have hnzdiv : 2 * nz / 2 = nz := by omega
  simp only [hne', Bool.false_eq_true, if_false, hm0, h812, not_true_eq_false, hdiv, hstart, hp1, hrs,
    Nat.mul_mod_right, ne_eq, Nat.mul_div_cancel_left _ (show 0 < 4 by omega), hfh, Nat.zero_add,
    Nat.add_sub_cancel, hsecond, hstep, hnext1, hnzdiv, Nat.add_assoc, hfe, hcnt, Int.toNat_natCast, hstop, hstart0, htr]
  have hs0' : ¬ step = 0 := by omega
  have hnn : ¬ ((steps.length : Int) < 0) := by omega
  rw [if_neg (by omega), if_neg (by omega), if_neg hs0', if_neg hnn]
  have hmap : ∀ uv, uv = 1 ∨ uv = 2 →
      List.mapM (fun dt => List.mapM (fun ki =>
          fetch (encode steps) cells h nz (cells + 2) start (iter start step (steps.length - 1)) step dt (ki + 1) uv) (List.range nz))
        (List.map (fun k => iter start step k) (List.range steps.length)) =
      some ((List.range steps.length).map (fun i => (List.range nz).map (fun k =>
        ((steps.getD i noStep).slabs).getD (2 * k + (uv - 1)) []))) := by
    intro uv huv
    rw [List.mapM_map]
    refine SlabRead.mapM_some _ (fun i => (List.range nz).map (fun k => ((steps.getD i noStep).slabs).getD (2 * k + (uv - 1)) [])) _ ?_
    intro i hi
    have hi' : i < steps.length := List.mem_range.mp hi
    refine SlabRead.mapM_some _ (fun k => ((steps.getD i noStep).slabs).getD (2 * k + (uv - 1)) []) _ ?_
    intro k hk
    have hgd : steps.getD i noStep = steps[i] := by
      simp [List.getD_eq_getElem?_getD, List.getElem?_eq_getElem hi']
    rw [hgd]
    exact fetch_spec r0 i k uv hi' (List.mem_range.mp hk) huv
  rw [hmap 1 (Or.inl rfl), hmap 2 (Or.inr rfl)]
  simp only [Option.map_some, List.length_map, List.length_range, Nat.sub_self, List.replicate_zero, List.append_nil]
  rfl

end

end WindRec
