import PncProofs.C10
/-
C11 — IOAPI subsetting preserves geo- and time-referencing.

For a window given as an integer (positive or negative) or a unit-stride slice, the selected indices are a
contiguous run `first, first+1, …` (`window_contiguous`).  The theorems below are about the state
`sliceDimensions` produces (`Ioapi.opSlice`): the cell `j` of the result has the projected coordinate of the
source cell `first + j` (`origin_x`, `origin_y`), the level edges are the matching sub-range with one more
entry than layers (`levels_window`), the start date/time are the flag of the first selected step
(`start_is_first_selected`), and the TFLAG rows / decoded times are the selected sub-range of the source's
(`time_window`).
-/
namespace Props.C11
open Ioapi Cal TimeDec PySlice Props.C10

theorem rangeList_one (s e : Int) (hs : 0 ≤ s) :
    rangeList s e 1 = (List.range (e - s).toNat).map (fun k => s.toNat + k) := by
  unfold rangeList
  simp only [show (1 : Int) > 0 by decide, if_true]
  by_cases h : e > s
  · simp only [h, if_true]
    have : ((e - s + 1 - 1) / 1).toNat = (e - s).toNat := by simp
    rw [this]
    apply List.map_congr_left
    intro k _
    omega
  · simp only [h, if_false]
    have : (e - s).toNat = 0 := by omega
    rw [this]
    rfl

theorem sliceBounds_fst_nonneg (n : Nat) (a b : Option Int) : 0 ≤ (sliceBounds n a b 1).1 := by
  unfold sliceBounds
  cases a with
  | none => simp
  | some v => simp only; split <;> split <;> omega

/-- integer and unit-stride windows select a contiguous run of indices -/
theorem window_contiguous (n : Nat) (w : Win) (i : List Nat) (hu : w.unit = true) (h : winIdx n w = some i) :
    ∀ j (hj : j < i.length), i[j] = i.headD 0 + j := by
  cases w with
  | sl a b st => simp [Win.unit] at hu
  | lst l => simp [Win.unit] at hu
  | int v =>
    simp only [winIdx, Option.map_eq_some_iff] at h
    obtain ⟨k, _, rfl⟩ := h
    intro j hj
    simp at hj
    subst hj
    simp
  | slc a b =>
    simp only [winIdx, Option.some.injEq] at h
    have h2 : i = rangeList (sliceBounds n a b 1).1 (sliceBounds n a b 1).2 1 := h.symm
    rw [rangeList_one _ _ (sliceBounds_fst_nonneg n a b)] at h2
    subst h2
    intro j hj
    have hj' : j < ((sliceBounds n a b 1).2 - (sliceBounds n a b 1).1).toNat := by simpa using hj
    rw [List.getElem_map, List.getElem_range]
    have : 0 < ((sliceBounds n a b 1).2 - (sliceBounds n a b 1).1).toNat := by omega
    have hh : (List.map (fun k => (sliceBounds n a b 1).1.toNat + k)
        (List.range ((sliceBounds n a b 1).2 - (sliceBounds n a b 1).1).toNat)).headD 0 =
        (sliceBounds n a b 1).1.toNat := by
      obtain ⟨c, hc⟩ : ∃ c, ((sliceBounds n a b 1).2 - (sliceBounds n a b 1).1).toNat = c + 1 := ⟨_, (Nat.succ_pred_eq_of_pos this).symm⟩
      rw [hc, List.range_succ_eq_map]
      simp
    rw [hh]


theorem idxOf_winIdx (n : Nat) (w : Win) (i : List Nat) (h : idxOf n (some w) = some (some i)) :
    winIdx n w = some i := by
  simp only [idxOf] at h
  cases hw : winIdx n w with
  | none => simp [hw] at h
  | some j =>
    cases j with
    | nil => simp [hw] at h
    | cons a as => simp [hw] at h; rw [h]

/-- the state after a window operation, seen through what `updatemeta` leaves alone -/
theorem slice_core (s s' : St) (kw : Kw) (h : Coherent s) (ht : TimeOk s) (hs : opSlice s kw = some s') :
    ∃ it il ir ic ip, idxOf s.nT kw.t = some it ∧ idxOf s.nL kw.l = some il ∧ idxOf s.nR kw.r = some ir ∧
      idxOf s.nC kw.c = some ic ∧ idxOf s.nP kw.p = some ip ∧
      s' = updatemeta (slicePre s it il ir ic ip) ∧ core s' = core (slicePre s it il ir ic ip) := by
  obtain ⟨it, il, ir, ic, ip, hit, hil, hir, hic, hip, rfl⟩ := opSlice_some s s' kw hs
  refine ⟨it, il, ir, ic, ip, hit, hil, hir, hic, hip, rfl, ?_⟩
  exact core_updatemeta _ (slicePre_time s kw it il ir ic ip h ht hit).1

/-- **columns**: cell `j` of the window has the x-coordinate of source cell `first + j` -/
theorem origin_x (s s' : St) (kw : Kw) (w : Win) (h : Coherent s) (ht : TimeOk s)
    (hs : opSlice s kw = some s') (hw : kw.c = some w) (hu : w.unit = true) :
    ∃ i, winIdx s.nC w = some i ∧ s'.nC = i.length ∧ s'.xcell = s.xcell ∧
      ∀ j (hj : j < i.length), s'.xorig + (j : Rat) * s'.xcell = s.xorig + ((i[j] : Nat) : Rat) * s.xcell := by
  obtain ⟨it, il, ir, ic, ip, _, _, _, hic, _, _, hc⟩ := slice_core s s' kw h ht hs
  obtain ⟨_, _, _, _, hnC, _, _, _, _, _, hxo, _, hxc, _⟩ := core_eq hc
  rw [hw] at hic
  cases ic with
  | none => simp [idxOf] at hic; split at hic <;> simp at hic
  | some i =>
    have hwi := idxOf_winIdx s.nC w i hic
    have hcontig := window_contiguous s.nC w i hu hwi
    have e1 : (slicePre s it il ir (some i) ip).nC = i.length := congrArg Frame.nC (frame_copyVarsInto _ _ _)
    have e2 : (slicePre s it il ir (some i) ip).xcell = s.xcell := congrArg Frame.xcell (frame_copyVarsInto _ _ _)
    have e3 : (slicePre s it il ir (some i) ip).xorig = s.xorig + ((i.headD 0 : Nat) : Rat) * s.xcell := rfl
    refine ⟨i, hwi, by rw [hnC, e1], by rw [hxc, e2], ?_⟩
    intro j hj
    rw [hxo, hxc, e2, e3, hcontig j hj]
    push_cast
    ring

/-- **rows**: the same for the y-coordinate -/
theorem origin_y (s s' : St) (kw : Kw) (w : Win) (h : Coherent s) (ht : TimeOk s)
    (hs : opSlice s kw = some s') (hw : kw.r = some w) (hu : w.unit = true) :
    ∃ i, winIdx s.nR w = some i ∧ s'.nR = i.length ∧ s'.ycell = s.ycell ∧
      ∀ j (hj : j < i.length), s'.yorig + (j : Rat) * s'.ycell = s.yorig + ((i[j] : Nat) : Rat) * s.ycell := by
  obtain ⟨it, il, ir, ic, ip, _, _, hir, _, _, _, hc⟩ := slice_core s s' kw h ht hs
  obtain ⟨_, _, _, hnR, _, _, _, _, _, _, _, hyo, _, hyc⟩ := core_eq hc
  rw [hw] at hir
  cases ir with
  | none => simp [idxOf] at hir; split at hir <;> simp at hir
  | some i =>
    have hwi := idxOf_winIdx s.nR w i hir
    have hcontig := window_contiguous s.nR w i hu hwi
    have e1 : (slicePre s it il (some i) ic ip).nR = i.length := congrArg Frame.nR (frame_copyVarsInto _ _ _)
    have e2 : (slicePre s it il (some i) ic ip).ycell = s.ycell := congrArg Frame.ycell (frame_copyVarsInto _ _ _)
    have e3 : (slicePre s it il (some i) ic ip).yorig = s.yorig + ((i.headD 0 : Nat) : Rat) * s.ycell := rfl
    refine ⟨i, hwi, by rw [hnR, e1], by rw [hyc, e2], ?_⟩
    intro j hj
    rw [hyo, hyc, e2, e3, hcontig j hj]
    push_cast
    ring

/-- a dimension that is not named keeps its origin -/
theorem origin_unchanged (s s' : St) (kw : Kw) (h : Coherent s) (ht : TimeOk s)
    (hs : opSlice s kw = some s') :
    (kw.c = none → s'.xorig = s.xorig ∧ s'.nC = s.nC) ∧ (kw.r = none → s'.yorig = s.yorig ∧ s'.nR = s.nR) := by
  obtain ⟨it, il, ir, ic, ip, _, _, hir, hic, _, _, hc⟩ := slice_core s s' kw h ht hs
  obtain ⟨_, _, _, hnR, hnC, _, _, _, _, _, hxo, hyo, _, _⟩ := core_eq hc
  constructor
  · intro hk
    rw [hk] at hic
    simp only [idxOf, Option.some.injEq] at hic
    subst hic
    rw [hxo, hnC]
    exact ⟨rfl, congrArg Frame.nC (frame_copyVarsInto _ _ _)⟩
  · intro hk
    rw [hk] at hir
    simp only [idxOf, Option.some.injEq] at hir
    subst hir
    rw [hyo, hnR]
    exact ⟨rfl, congrArg Frame.nR (frame_copyVarsInto _ _ _)⟩


theorem pickL_getElem? {α} (i : List Nat) (l : List α) (h : ∀ k ∈ i, k < l.length) (j : Nat) :
    (pickL i l)[j]? = (i[j]?).bind (fun k => l[k]?) := by
  induction i generalizing j with
  | nil => simp [pickL]
  | cons k i ih =>
    rw [pickL_cons k i l (h k (by simp))]
    cases j with
    | zero => simp [List.getElem?_eq_getElem (h k (by simp))]
    | succ j => simpa using ih (fun x hx => h x (by simp [hx])) j

/-- **layers**: the level edges of the window are the edges `first … first+m` of the source (one more than
layers), so every retained layer keeps its lower and upper bound -/
theorem levels_window (s s' : St) (kw : Kw) (w : Win) (h : Coherent s) (ht : TimeOk s)
    (hs : opSlice s kw = some s') (hw : kw.l = some w) (hu : w.unit = true) :
    ∃ i, winIdx s.nL w = some i ∧ s'.nL = i.length ∧ s'.vglvls.length = i.length + 1 ∧
      ∀ j, j ≤ i.length → s'.vglvls[j]? = s.vglvls[i.headD 0 + j]? := by
  obtain ⟨it, il, ir, ic, ip, _, hil, _, _, _, _, hc⟩ := slice_core s s' kw h ht hs
  obtain ⟨_, _, hnL, _, _, _, hvg, _⟩ := core_eq hc
  have hv := h.2.2.2.2.2.2
  rw [hw] at hil
  cases il with
  | none => simp [idxOf] at hil; split at hil <;> simp at hil
  | some i =>
    have hwi := idxOf_winIdx s.nL w i hil
    have hcontig := window_contiguous s.nL w i hu hwi
    obtain ⟨hne, hlt⟩ := idxOf_some s.nL (some w) i hil
    have e1 : (slicePre s it (some i) ir ic ip).nL = i.length := congrArg Frame.nL (frame_copyVarsInto _ _ _)
    have e3 : (slicePre s it (some i) ir ic ip).vglvls = sliceLevels s.vglvls i := rfl
    have hlen := sliceLevels_length s.vglvls i s.nL hv hne hlt
    refine ⟨i, hwi, by rw [hnL, e1], by rw [hvg, e3, hlen], ?_⟩
    intro j hj
    rw [hvg, e3]
    -- unfold the window: picked edges, then the edge above the last one
    have hpos : 0 < i.length := List.length_pos_iff.mpr hne
    have hlast : i.getLast? = some (i.headD 0 + (i.length - 1)) := by
      rw [List.getLast?_eq_getElem?]
      rw [List.getElem?_eq_getElem (by omega), hcontig _ (by omega)]
    have hmem : i.headD 0 + (i.length - 1) < s.nL := by
      have := hlt (i.headD 0 + (i.length - 1)) (List.mem_of_getLast? hlast)
      exact this
    unfold sliceLevels
    have h2 : i.headD 0 + (i.length - 1) < s.vglvls.length - 1 := by omega
    have h3 : i.headD 0 + (i.length - 1) + 1 < s.vglvls.length := by omega
    simp only [hlast, h2, if_true, List.getElem?_eq_getElem h3]
    have hpl := pickL_length i s.vglvls (fun k hk => by have := hlt k hk; omega)
    by_cases hjl : j < i.length
    · rw [List.getElem?_append_left (by omega), pickL_getElem? i s.vglvls (fun k hk => by have := hlt k hk; omega) j,
        List.getElem?_eq_getElem hjl, hcontig j hjl]
      rfl
    · have hje : j = i.length := by omega
      subst hje
      rw [List.getElem?_append_right (by omega), hpl]
      simp only [Nat.sub_self, List.getElem?_cons_zero]
      rw [List.getElem?_eq_getElem (by omega)]
      congr 2
      omega


/-- **time, start**: the start date/time of the window are the time flag of the first selected step, and
the number of steps is the size of the window -/
theorem start_is_first_selected (s s' : St) (kw : Kw) (w : Win) (h : Coherent s) (ht : TimeOk s)
    (hs : opSlice s kw = some s') (hw : kw.t = some w) :
    ∃ i rows, winIdx s.nT w = some i ∧ s.tflag = some (s.varlist.length, rows) ∧ s'.nT = i.length ∧
      rows[i.headD 0]? = some (s'.sdate, s'.stime) := by
  obtain ⟨it, il, ir, ic, ip, hit, _, _, _, _, _, hc⟩ := slice_core s s' kw h ht hs
  obtain ⟨_, hnT, _, _, _, _, _, hsd, hst, _⟩ := core_eq hc
  obtain ⟨_, rows, htf, _, hlen, hhead⟩ := slicePre_time s kw it il ir ic ip h ht hit
  obtain ⟨rows0, htf0, hl0, _⟩ := h.2.2.1
  rw [hw] at hit
  cases it with
  | none => simp [idxOf] at hit; split at hit <;> simp at hit
  | some i =>
    have hwi := idxOf_winIdx s.nT w i hit
    obtain ⟨hne, hlt⟩ := idxOf_some s.nT (some w) i hit
    have e1 : (slicePre s (some i) il ir ic ip).nT = i.length := congrArg Frame.nT (frame_copyVarsInto _ _ _)
    refine ⟨i, rows, hwi, htf, by rw [hnT, e1], ?_⟩
    rw [htf] at htf0
    simp only [Option.some.injEq, Prod.mk.injEq, true_and] at htf0
    subst htf0
    cases i with
    | nil => exact absurd rfl hne
    | cons k0 rest =>
      have hk : k0 < rows.length := by rw [hl0]; exact hlt k0 (by simp)
      have := hhead (rows[k0]) (by
        simp only [selRows]
        rw [pickL_cons k0 rest rows hk]
        simp)
      rw [hsd, hst, ← this]
      simp [List.getElem?_eq_getElem hk]

/-- `updatetflag` keeps a TFLAG whose width equals NVARS -/
theorem updatetflag_keep (q : St) (w : Nat) (rows : List (Int × Int)) (h : q.tflag = some (w, rows))
    (hw : w = q.nvars) : updatetflag q false = q := by
  unfold updatetflag
  simp [h, hw]

/-- **time, every step** (`_partial`: under the side condition that the window operation does not change the
number of listed variables — it never does for files whose standard-dimension variables are all listed; the
harness checks it on every case): the time flags of the window are the selected rows of the source, hence
the decoded times are the same sub-range of the source's decoded times. -/
theorem time_window_partial (s s' : St) (kw : Kw) (w : Win) (h : Coherent s) (ht : TimeOk s)
    (hs : opSlice s kw = some s') (hw : kw.t = some w) (hsame : s'.varlist.length = s.varlist.length) :
    ∃ i, winIdx s.nT w = some i ∧ getTimes s' = pickL i (getTimes s) := by
  obtain ⟨it, il, ir, ic, ip, hit, _, _, _, _, hs', _⟩ := slice_core s s' kw h ht hs
  obtain ⟨_, rows, htf, htp, _, _⟩ := slicePre_time s kw it il ir ic ip h ht hit
  rw [hw] at hit
  cases it with
  | none => simp [idxOf] at hit; split at hit <;> simp at hit
  | some i =>
    have hwi := idxOf_winIdx s.nT w i hit
    refine ⟨i, hwi, ?_⟩
    have hvl : s'.varlist = (getVarlist (slicePre s (some i) il ir ic ip)).varlist := by
      rw [hs']; exact varlist_updatemeta _
    have hkeep : s' = attrs (getVarlist (slicePre s (some i) il ir ic ip)) := by
      rw [hs', updatemeta_def]
      apply updatetflag_keep _ s.varlist.length (selRows (some i) rows)
      · exact htp
      · show s.varlist.length = (getVarlist (slicePre s (some i) il ir ic ip)).varlist.length
        rw [← hvl, hsame]
    have htf' : s'.tflag = some (s.varlist.length, pickL i rows) := by
      rw [hkeep]; exact htp
    unfold getTimes
    rw [htf', htf]
    simp only [decodeTflag]
    rw [pickL_map]


/-- the hypotheses are met by a real case: a window that crosses the year boundary, moves the origin by one
cell and keeps the lowest layer (the premises `Coherent exSt ∧ TimeOk exSt` are `Props.C10.exSt_coherent`) -/
example : ∃ s', opSlice exSt { t := some (.int (-1)), c := some (.slc (some 1) none), l := some (.slc none (some 1)) }
      = some s' ∧ s'.sdate = 2020001 ∧ s'.stime = 0 ∧ s'.xorig = 1000 ∧ s'.vglvls = [1, 1/2] ∧
      s'.varlist.length = exSt.varlist.length := by
  refine ⟨_, rfl, ?_⟩
  decide +kernel


/-! ### the side condition of `time_window_partial` discharged -/

/-- every variable that could be listed is listed, and no two variables share a name (true of every file the
library builds: `updatemeta` lists all standard-dimension variables with names of at most 16 characters) -/
structure AllListed (s : St) : Prop where
  all : ∀ k, listable s k = true → k ∈ s.varlist
  nodup : (s.vars.map (·.name)).Nodup

/-- one `_add2Varlist([k])`: the listed names stay in place; at most `k` is appended, and only if it was not
a listed name -/
theorem add2Varlist_single (o : St) (k : String) (base ex : List String) (hvl : o.varlist = base ++ ex)
    (hex : ∀ x ∈ ex, x ∉ base) (hp : k ∈ base → present o k = true) :
    ∃ ex', (add2Varlist o [k]).varlist = base ++ ex' ∧ ∀ x ∈ ex', x ∉ base := by
  simp only [add2Varlist]
  generalize hFdef : (fun k => decide (k.length ≤ 16) && !((o.varlist.filter (present o)).contains k) &&
      k != "TFLAG" && k != "ETFLAG") = F
  cases hFk : F k with
  | true =>
    refine ⟨ex ++ [k], ?_, ?_⟩
    · rw [List.filter_cons, hFk, if_pos rfl, List.filter_nil, hvl, List.append_assoc]
    · intro x hx
      rcases List.mem_append.mp hx with h1 | h2
      · exact hex x h1
      · simp only [List.mem_cons, List.mem_nil_iff, or_false] at h2
        rw [h2]
        intro hin
        have hc : ((o.varlist.filter (present o)).contains k) = true := by
          rw [List.contains_iff_mem, List.mem_filter]
          exact ⟨by rw [hvl]; exact List.mem_append_left _ hin, hp hin⟩
        have hk := congrFun hFdef k
        rw [hFk] at hk
        simp only [hc, Bool.not_true, Bool.and_false, Bool.false_and] at hk
        cases hk
  | false =>
    refine ⟨ex, ?_, hex⟩
    rw [List.filter_cons, hFk]
    simp [hvl]

/-- copying the variables one by one into a shell keeps the listed names in place and can only append names
that were not listed -/
theorem putAll_varlist : ∀ (vs : List DVar) (o : St) (base : List String),
    (∃ ex, o.varlist = base ++ ex ∧ ∀ k ∈ ex, k ∉ base) →
    ∃ ex, (putAll o vs).varlist = base ++ ex ∧ ∀ k ∈ ex, k ∉ base := by
  intro vs
  induction vs with
  | nil => intro o base h; exact h
  | cons v vs ih =>
    intro o base h
    obtain ⟨ex, hvl, hex⟩ := h
    have : putAll o (v :: vs) = putAll (putVar o v) vs := rfl
    rw [this]
    apply ih (putVar o v) base
    exact add2Varlist_single _ v.name base ex hvl hex (by
      intro _
      simp [present, hasVar])

theorem putAll_vars_nodup (o : St) (ho : o.vars = []) : ∀ (vs : List DVar), (vs.map (·.name)).Nodup →
    ∀ (done : List DVar) (o' : St), o'.vars = done → (∀ d ∈ done, ∀ v ∈ vs, d.name ≠ v.name) →
    (putAll o' vs).vars = done ++ vs := by
  intro vs
  induction vs with
  | nil => intro _ done o' h _; simp [putAll, h]
  | cons v vs ih =>
    intro hnd done o' hd hdis
    have : putAll o' (v :: vs) = putAll (putVar o' v) vs := rfl
    rw [this]
    have hnd' := List.nodup_cons.mp hnd
    have hv : (putVar o' v).vars = done ++ [v] := by
      simp only [putVar, vars_add2Varlist, hd]
      congr 1
      apply List.filter_eq_self.mpr
      intro d hdm
      have := hdis d hdm v (by simp)
      simpa using this
    rw [ih hnd'.2 (done ++ [v]) (putVar o' v) hv (by
      intro d hdm w hw
      rcases List.mem_append.mp hdm with h1 | h2
      · exact hdis d h1 w (by simp [hw])
      · simp only [List.mem_cons, List.mem_nil_iff, or_false] at h2
        rw [h2]
        intro heq
        exact hnd'.1 (List.mem_map.mpr ⟨w, hw, heq.symm⟩))]
    simp

/-- **a window operation never changes which variables are listed** (for files whose listable variables are
all listed) -/
theorem slice_keeps_varlist (s s' : St) (kw : Kw) (h : Coherent s) (ht : TimeOk s) (ha : AllListed s)
    (hn : 1 ≤ s.varlist.length) (hs : opSlice s kw = some s') : s'.varlist = s.varlist := by
  obtain ⟨it, il, ir, ic, ip, _, _, _, _, _, hs', _⟩ := slice_core s s' kw h ht hs
  rw [hs', varlist_updatemeta]
  -- variables and list of the state handed to updatemeta
  have hvars : (slicePre s it il ir ic ip).vars = s.vars := by
    have h1 : (putAll (sliceShell s it il ir ic ip) s.vars).vars = [] ++ s.vars :=
      putAll_vars_nodup (sliceShell s it il ir ic ip) rfl s.vars ha.nodup [] (sliceShell s it il ir ic ip) rfl
        (by intro d hd; cases hd)
    simp only [slicePre, setGeo, copyVarsInto]
    cases s.tflag with
    | none => simpa using h1
    | some wr => simpa using h1
  obtain ⟨ex, hvl, hex⟩ := putAll_varlist s.vars (sliceShell s it il ir ic ip) s.varlist
    ⟨[], by simp [sliceShell, shell], by intro k hk; cases hk⟩
  have hvarlist : (slicePre s it il ir ic ip).varlist = s.varlist ++ ex := by
    simp only [slicePre, setGeo, copyVarsInto]
    cases s.tflag with
    | none => simpa using hvl
    | some wr =>
      simp only [putTflag, add2Varlist]
      simp [hvl]
  -- getVarlist
  have hne : ¬ ((slicePre s it il ir ic ip).varlist.isEmpty = true) := by
    rw [hvarlist]
    cases hsv : s.varlist with
    | nil => rw [hsv] at hn; simp at hn
    | cons a as => simp
  simp only [getVarlist, hne, if_false, Bool.false_eq_true]
  rw [hvarlist, List.filter_append]
  have hl : ∀ k, listable (slicePre s it il ir ic ip) k = listable s k := fun k => listable_congr hvars k
  have h1 : s.varlist.filter (listable (slicePre s it il ir ic ip)) = s.varlist := by
    apply List.filter_eq_self.mpr
    intro k hk
    rw [hl]; exact h.2.2.2.1 k hk
  have h2 : ex.filter (listable (slicePre s it il ir ic ip)) = [] := by
    apply List.filter_eq_nil_iff.mpr
    intro k hk hlist
    rw [hl] at hlist
    exact hex k hk (ha.all k hlist)
  rw [h1, h2, List.append_nil]

/-- **time, every step (C11, full)**: the decoded times of a time window are the selected sub-range of the
source's decoded times — for every coherent file whose listable variables are all listed, any window -/
theorem time_window (s s' : St) (kw : Kw) (w : Win) (h : Coherent s) (ht : TimeOk s) (ha : AllListed s)
    (hn : 1 ≤ s.varlist.length) (hs : opSlice s kw = some s') (hw : kw.t = some w) :
    ∃ i, winIdx s.nT w = some i ∧ getTimes s' = pickL i (getTimes s) :=
  time_window_partial s s' kw w h ht hs hw (by rw [slice_keeps_varlist s s' kw h ht ha hn hs])

/-- `AllListed` is met by the example state of C10 -/
example : AllListed exSt := by
  refine ⟨?_, by decide⟩
  intro k hk
  unfold listable at hk
  simp only [Bool.and_eq_true, List.any_eq_true] at hk
  obtain ⟨⟨v, hv, hname, hstd⟩, _⟩ := hk
  have hk' : k = v.name := by simpa using (beq_iff_eq.mp hname).symm
  simp only [exSt, List.mem_cons, List.mem_nil_iff, or_false] at hv
  rcases hv with rfl | rfl | rfl
  · rw [hk']; decide
  · rw [hk']; decide
  · exact absurd hstd (by decide)

end Props.C11
