import PncProofs.StackLemmas
import PncProofs.SliceLemmas

/-!
# C01 — the two operations whose file-level statement needs the array theorems of C02 / C04: `sliceDimensions` and `stack`

(The other operations are in PncProofs/C01.lean.)
-/
namespace Props.C01
open Arr PFile Props.C04

/-- **C01 (stack).** Stacking well-formed files that agree on the dimension tuples of same-named variables gives a
well-formed file: every variable's dimensions exist in the result and its data have exactly the shape the result's
dimension lengths give — the stack dimension with the summed length, every other dimension with the common length.
(Variables that carry the stack dimension twice are outside: the model answers `unspec`.) -/
theorem stack_wf (f0 : File) (rest : List File) (sd : String) (r : File)
    (hwf : ∀ g ∈ f0 :: rest, WF g) (hn : DimsNodup f0) (hc : Conform (f0 :: rest))
    (hs : stackFiles (f0 :: rest) sd = .ok r) : WF r := by
  obtain ⟨vars, hv, hr, hshared, hsd⟩ := stack_ok f0 rest sd r hs
  subst hr
  intro v hvmem
  simp only at hvmem
  obtain ⟨v0, hv0, hsv⟩ := mapM_except_mem _ _ _ hv v hvmem
  have hv0' : v0 ∈ (f0 :: rest).flatMap (·.vars) := by
    rcases firstByName_mem _ _ _ hv0 with h | h
    · cases h
    · exact h
  obtain ⟨g, hg, hv0g⟩ := List.mem_flatMap.mp hv0'
  have hwg := hwf g hg v0 hv0g
  set total := ((f0 :: rest).map (·.dimLen sd)).foldl (· + ·) 0 with htotal
  set sdim : Dim := { name := sd, len := total, unlim := ((f0.dim? sd).map (·.unlim)).getD false } with hsdim
  set R : File := { dims := sharedDims (f0 :: rest) f0 sd ++ [sdim], vars := vars, attrs := f0.attrs } with hR
  have key : ∀ k ∈ v0.dims, k ≠ sd → (R.dim? k).isSome = true ∧ ∀ h ∈ f0 :: rest, R.dimLen k = h.dimLen k := by
    intro k hk hne
    obtain ⟨d, hd⟩ := Option.isSome_iff_exists.mp (hwg.1 k hk)
    have hdm : d ∈ g.dims ∧ d.name = k := by
      unfold File.dim? at hd
      exact ⟨List.mem_of_find?_eq_some hd, by simpa using List.find?_some hd⟩
    obtain ⟨e, he, hen⟩ := hshared g hg d hdm.1 (by rw [hdm.2]; exact hne)
    have hfind := stacked_dim_shared (f0 :: rest) f0 sd hn sdim vars f0.attrs e he
    rw [hen, hdm.2] at hfind
    refine ⟨by rw [hfind]; rfl, fun h hh => ?_⟩
    have hlen := (shared_facts (f0 :: rest) f0 sd e he).2.2 h hh
    rw [hen, hdm.2] at hlen
    unfold File.dimLen
    rw [hfind]
    unfold File.dimLen at hlen
    simp only [Option.map_some, Option.getD_some]
    exact hlen.symm
  have hRsd : R.dim? sd = some sdim := stacked_dim_sd (f0 :: rest) f0 sd sdim rfl vars f0.attrs
  unfold stackVar at hsv
  split at hsv
  · -- the variable does not have the stack dimension: kept as it is
    rename_i hnc
    have e : v = v0 := (Except.ok.inj hsv).symm
    rw [e]
    have hne : ∀ k ∈ v0.dims, k ≠ sd := by
      intro k hk hks
      subst hks
      have : v0.dims.contains k = true := by simpa using hk
      simp only [this, Bool.not_true, Bool.false_eq_true] at hnc
    refine ⟨fun k hk => (key k hk (hne k hk)).1, ?_⟩
    have : R.shapeOf v0 = g.shapeOf v0 :=
      List.map_congr_left (fun k hk => (key k hk (hne k hk)).2 g hg)
    rw [this]
    exact hwg.2
  · rename_i hcont
    have hcont' : v0.dims.contains sd = true := by simpa using hcont
    split at hsv
    · cases hsv
    · rename_i hone
      split at hsv
      · rename_i ws hws
        cases hsv
        refine ⟨fun k hk => ?_, ?_⟩
        · by_cases hks : k = sd
          · subst hks; rw [hRsd]; rfl
          · exact (key k hk hks).1
        · -- shape of the concatenation
          obtain ⟨parts, h1, h2, h3, h4⟩ := parts_of_mapM v0.name sd (f0 :: rest) ws hws
          have hk : v0.dims.idxOf sd < (v0.dims.map R.dimLen).length := by
            rw [List.length_map]
            exact List.idxOf_lt_length_iff.mpr (by simpa using hcont')
          have hparts : ∀ p ∈ parts, hasShape ((v0.dims.map R.dimLen).set (v0.dims.idxOf sd) p.2) p.1 = true := by
            intro p hp
            obtain ⟨h, hh, w, hw, rfl⟩ := h3 p hp
            have hwm : w ∈ h.vars := by unfold File.var? at hw; exact List.mem_of_find?_eq_some hw
            have hwd : w.dims = v0.dims := hc g hg h hh v0 hv0g w hw
            have hshape := (hwf h hh w hwm).2
            unfold File.shapeOf at hshape
            rw [hwd] at hshape
            have := map_set_idxOf sd h.dimLen R.dimLen v0.dims
              (fun k hk hne => ((key k hk hne).2 h hh).symm) hcont' hone
            rw [this] at hshape
            exact hshape
          have hres := concatAll_shape (v0.dims.idxOf sd) (v0.dims.map R.dimLen) hk parts (h4 (by simp)) hparts
          rw [h1, h2] at hres
          have hself := map_set_idxOf sd R.dimLen R.dimLen v0.dims (fun _ _ _ => rfl) hcont' hone
          have hRlen : R.dimLen sd = total := by
            unfold File.dimLen
            rw [hRsd]
            rfl
          unfold File.shapeOf
          simp only
          rw [hself, hRlen]
          exact hres
      · cases hsv


/-- non-vacuity of `stack_wf`: two conforming files with a shared dimension and a variable without the stack dimension -/
example :
    let a : File := ⟨[⟨"t", 1, true⟩, ⟨"x", 2, false⟩],
      [⟨"A", ["t", "x"], .node [.node [.leaf (some 1), .leaf (some 2)]], [], false, false⟩,
       ⟨"x", ["x"], .node [.leaf (some 10), .leaf (some 20)], [], false, false⟩], []⟩
    let b : File := ⟨[⟨"t", 2, true⟩, ⟨"x", 2, false⟩],
      [⟨"A", ["t", "x"], .node [.node [.leaf (some 3), .leaf none], .node [.leaf (some 5), .leaf (some 6)]], [], false, false⟩,
       ⟨"x", ["x"], .node [.leaf (some 10), .leaf (some 20)], [], false, false⟩], []⟩
    DimsNodup a ∧
    (match stackFiles [a, b] "t" with
      | .ok r => (r.dims.map (fun d => (d.name, d.len)), (r.var? "A").map (fun v => (v.dims, flatten v.data)))
      | .error _ => ([], none)) =
      ([("x", 2), ("t", 3)], some (["t", "x"], [some 1, some 2, some 3, none, some 5, some 6])) := by
  refine ⟨by unfold DimsNodup; decide, by decide +kernel⟩

/-- **C01 (sliceDimensions).** Slicing a well-formed file — integers, slices with any bounds and steps, index lists,
and two or more index lists acting together (pointwise, on the new dimension) — gives a well-formed file: every
variable's dimensions exist in the result and its data have exactly the lengths of those dimensions. -/
theorem slice_wf (f r : File) (sels : List (String × PSel)) (newdim : String) (hwf : WF f)
    (hnew : f.dim? newdim = none) (hs : sliceFile f sels newdim = .ok r) : WF r := by
  unfold sliceFile at hs
  split at hs
  · cases hs
  · split at hs
    · cases hs
    · simp only at hs
      split at hs
      · cases hs
      · split at hs
        · cases hs
        · rename_i idx hidx
          split at hs
          · rename_i vars hvars
            have hr : r = File.mk (slicedDims f idx (decide ((sels.filter (·.2.isList)).length ≥ 2))
                ((sels.filterMap (fun p => match p.2 with | .list l => some l.length | _ => none)).headD 0) newdim)
                vars f.attrs := by
              cases hs
              rfl
            subst hr
            intro v' hv'
            simp only at hv'
            obtain ⟨v, hvm, hsv⟩ := mapM_except_mem _ _ _ hvars v' hv'
            unfold sliceVar at hsv
            simp only at hsv
            split at hsv
            · rename_i hnz
              -- two or more zipped dimensions on this variable: the selection is a zipped one
              have hex : ∃ k ∈ v.dims, isZipSel sels (decide ((sels.filter (·.2.isList)).length ≥ 2)) k = true := by
                have : 0 < (v.dims.filter (isZipSel sels (decide ((sels.filter (·.2.isList)).length ≥ 2)))).length := by
                  omega
                obtain ⟨k, hk⟩ := List.exists_mem_of_length_pos this
                exact ⟨k, (List.mem_filter.mp hk).1, (List.mem_filter.mp hk).2⟩
              have hzip : decide ((sels.filter (·.2.isList)).length ≥ 2) = true := by
                obtain ⟨k, _, hk⟩ := hex
                unfold isZipSel at hk
                cases hl : lookupSel sels k with
                | none => rw [hl] at hk; cases hk
                | some s =>
                  rw [hl] at hk
                  simp only [Bool.and_eq_true] at hk
                  exact hk.1
              rw [hzip] at hsv hex ⊢
              split at hsv
              · rename_i d hd
                have e := (Except.ok.inj hsv).symm
                rw [e]
                exact sliceVar_zip_wf f sels idx _ newdim vars v d (hwf v hvm) hidx hnew hex hd
              · cases hsv
            · have e := (Except.ok.inj hsv).symm
              rw [e]
              exact sliceVar_orth_wf f sels idx _ _ newdim vars v (hwf v hvm) hidx
          · cases hs


/-- non-vacuity of `slice_wf`: two index lists acting together on `A(t, y, x)` (the new dimension replaces `y` and `x`)
while `B(y)` is selected orthogonally -/
example :
    let f : File := ⟨[⟨"t", 1, false⟩, ⟨"y", 2, false⟩, ⟨"x", 2, false⟩],
      [⟨"A", ["t", "y", "x"], .node [.node [.node [.leaf (some 1), .leaf (some 2)], .node [.leaf (some 3), .leaf (some 4)]]], [], false, false⟩,
       ⟨"B", ["y"], .node [.leaf (some 7), .leaf (some 8)], [], false, false⟩], []⟩
    let r := sliceFile f [("y", .list [1, 0, 1]), ("x", .list [0, 0, 1])] "POINTS"
    f.dim? "POINTS" = none ∧
    (match r with | .ok r => r.dims.map (fun d => (d.name, d.len)) | .error _ => []) =
      [("t", 1), ("y", 3), ("x", 3), ("POINTS", 3)] ∧
    (match r with | .ok r => (r.var? "A").map (fun v => (v.dims, flatten v.data)) | .error _ => none) =
      some (["t", "POINTS"], [some 3, some 1, some 4]) ∧
    (match r with | .ok r => (r.var? "B").map (fun v => (v.dims, flatten v.data)) | .error _ => none) =
      some (["y"], [some 8, some 7, some 8]) := by
  refine ⟨by decide, by decide +kernel, by decide +kernel, by decide +kernel⟩

end Props.C01
