import PncModel.Registry

/-!
# C15 — format auto-detection depends only on the file and the registered readers

`Registry.getreader` is the model of the code as it is *now*: the flag
`Generated.getreaderCopies` is re-extracted from `_getreader.py` on every run.  The theorems below
are about that definition, so they stop building if the source goes back to aliasing the registry.
-/
namespace Props.C15
open Registry

/-- **C15 frame.** An auto-detecting open leaves the registry unchanged. -/
theorem frame (reg : Reg) (ext : String) (acc : Nat → Ans) : (getreader reg ext acc).1 = reg := by
  simp [getreader, getreaderWith, Generated.getreaderCopies]

/-- one step (auto-detecting or with the format named) leaves the registry unchanged -/
theorem step_frame (reg : Reg) (o : Open) : (openStep reg o).1 = reg := by
  unfold openStep
  cases o.fmt with
  | none => exact frame reg o.ext o.acc
  | some n => rfl

/-- **C15 history.** After any history of opens (auto-detected or with a named format, in any
order, any number of times) the registry is the initial one … -/
theorem history_registry (reg : Reg) : ∀ hist : List Open, (runHist reg hist).1 = reg
  | [] => rfl
  | o :: rest => by
    have hf := step_frame reg o
    have ih := history_registry reg rest
    simp only [runHist]
    rw [show (openStep reg o) = ((openStep reg o).1, (openStep reg o).2) from rfl]
    simp only [hf, ih]

/-- … hence the reader selected for a probe file is the same after any history, for every probe. -/
theorem history_independent (reg : Reg) (hist : List Open) (probe : Open) :
    (openStep (runHist reg hist).1 probe).2 = (openStep reg probe).2 := by
  rw [history_registry]

/-- **C15 with registrations.** After any history of opens *and* reader registrations the registry is the initial one
with the registrations applied in order — no open leaves a trace, whatever was opened and however often … -/
theorem events_registry : ∀ (evs : List Event) (reg : Reg), (runEvents reg evs).1 = registrations reg evs
  | [], reg => rfl
  | .opn o :: rest, reg => by
    have hf := step_frame reg o
    simp only [runEvents, registrations]
    rw [show (openStep reg o) = ((openStep reg o).1, (openStep reg o).2) from rfl]
    simp only [hf]
    exact events_registry rest reg
  | .reg n r :: rest, reg => by
    simp only [runEvents, registrations]
    exact events_registry rest (register reg n r)

/-- … hence the reader selected for a probe depends only on the probe file and on which readers were registered (and
in which order), not on the files opened before or between the registrations: a reader registered after the
first auto-detecting open is found exactly as if it had been registered before it. -/
theorem events_independent (reg : Reg) (evs : List Event) (probe : Open) :
    (openStep (runEvents reg evs).1 probe).2 = (openStep (registrations reg evs) probe).2 := by
  rw [events_registry]

/-- a newly registered reader is searched first: it is selected for every file it accepts -/
theorem registered_first (reg : Reg) (n : String) (r : Nat) (acc : Nat → Ans)
    (hnew : (reg.map (·.1)).contains n = false) (hno : rdictGet (register reg n r) "" = none) (hacc : acc r = .yes) :
    (getreader (register reg n r) "" acc).2 = .ok r := by
  have hreg : register reg n r = (n, r) :: reg := by unfold register; rw [hnew]; rfl
  rw [hreg] at hno ⊢
  simp only [getreader, getreaderWith, searchList, hno, choose, hacc]

/-- **C15 idempotence**: opening the same file twice selects the same reader twice. -/
theorem repeat_same (reg : Reg) (o : Open) :
    (runHist reg [o, o]).2 = [(openStep reg o).2, (openStep reg o).2] := by
  simp only [runHist]
  rw [show (openStep reg o) = ((openStep reg o).1, (openStep reg o).2) from rfl]
  simp [step_frame]

/-- the selected reader accepts the file -/
theorem choose_accepts (acc : Nat → Ans) : ∀ (l : Reg) (r : Nat), choose acc l = .ok r → acc r = .yes
  | [], r, h => by simp [choose] at h
  | (_, r0) :: rest, r, h => by
    simp only [choose] at h
    split at h
    · rename_i hy; injection h with h; subst h; exact hy
    · simp at h
    · exact choose_accepts acc rest r h

/-- … and no earlier entry of the searched list accepted or raised -/
theorem choose_first (acc : Nat → Ans) : ∀ (l : Reg) (r : Nat), choose acc l = .ok r →
    ∃ pre post n, l = pre ++ (n, r) :: post ∧ ∀ p ∈ pre, acc p.2 = .no
  | [], r, h => by simp [choose] at h
  | (n0, r0) :: rest, r, h => by
    simp only [choose] at h
    split at h
    · injection h with h; subst h; exact ⟨[], rest, n0, rfl, by simp⟩
    · simp at h
    · rename_i hn
      obtain ⟨pre, post, n, hl, hp⟩ := choose_first acc rest r h
      refine ⟨(n0, r0) :: pre, post, n, by simp [hl], ?_⟩
      intro p hp'
      rcases List.mem_cons.mp hp' with rfl | hp'
      · exact hn
      · exact hp p hp'

/-- **C15 named = auto.** If names are unique in the registry and auto-detection selected the entry
registered as `n`, then opening with `format=n` uses the same reader. -/
theorem named_same (reg : Reg) (n : String) (r : Nat) (hmem : (n, r) ∈ reg)
    (huniq : ∀ p ∈ reg, ∀ q ∈ reg, p.1 = q.1 → p = q) : named reg n = some r := by
  unfold named rdictGet
  have hfind : ∃ p, reg.reverse.find? (·.1 == n) = some p := by
    cases h : reg.reverse.find? (·.1 == n) with
    | some p => exact ⟨p, rfl⟩
    | none =>
      rw [List.find?_eq_none] at h
      have := h (n, r) (List.mem_reverse.mpr hmem)
      simp at this
  obtain ⟨p, hp⟩ := hfind
  have hpm : p ∈ reg := List.mem_reverse.mp (List.mem_of_find?_eq_some hp)
  have hpn : p.1 = n := by simpa using List.find?_some hp
  have := huniq p hpm (n, r) hmem hpn
  rw [hp, this]; rfl

/-- The aliasing variant (the code before the `fix:` commit) is history dependent: a file that two
readers accept is detected as reader 1 in a fresh process and as reader 2 after one `*.nc` open.
Replayed on the real code by the check (it must *not* reproduce any more). -/
theorem aliasing_counterexample :
    let reg : Reg := [("gcnc", 1), ("nc", 2)]
    let both : Nat → Ans := mkAcc [1, 2] []
    let nconly : Nat → Ans := mkAcc [2] []
    (getreaderWith false reg "" both).2.toOption = some 1 ∧
    (getreaderWith false (getreaderWith false reg "nc" nconly).1 "" both).2.toOption = some 2 := by
  intro reg both nconly
  decide

/-- non-vacuity of `named_same`: a registry with unique names -/
example : ∀ p ∈ ([("gcnc", 1), ("nc", 2), ("netcdf", 2)] : Reg), ∀ q ∈ ([("gcnc", 1), ("nc", 2), ("netcdf", 2)] : Reg),
    p.1 = q.1 → p = q := by decide

end Props.C15
