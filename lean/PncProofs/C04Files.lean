import PncProofs.C01Files

/-!
# C04 — `stack` as a file operation: what the variables of the stacked file hold
(array-level theorems: PncProofs/C04.lean; well-formedness of the result: `Props.C01.stack_wf`)
-/
namespace Props.C04
open Arr PFile Props.C01

/-- **C04 (stack, the data).** A variable that has the stack dimension (once) holds, in the stacked file, the
concatenation along that axis of the variable of that name of every file, in argument order; a variable without the
stack dimension is the first file's that has it. -/
theorem stackVar_data (fs : List File) (sd : String) (v v' : Var) (hs : stackVar fs sd v = .ok v') :
    (v.dims.contains sd = false → v' = v) ∧
    (v.dims.contains sd = true → ∃ ws, fs.mapM (fun h => h.var? v.name) = some ws ∧
      v' = { v with data := concatAll (v.dims.idxOf sd) (ws.map (·.data)) }) := by
  unfold stackVar at hs
  split at hs
  · rename_i hc
    have e := (Except.ok.inj hs).symm
    refine ⟨fun _ => e, fun h => ?_⟩
    have : sd ∈ v.dims := by simpa using h
    exact absurd this (by simpa using hc)
  · rename_i hc
    refine ⟨fun h => ?_, fun _ => ?_⟩
    · have : sd ∉ v.dims := by simpa using h
      exact absurd (by simpa using hc) this
    · split at hs
      · cases hs
      · split at hs
        · rename_i ws hws
          exact ⟨ws, hws, (Except.ok.inj hs).symm⟩
        · cases hs

end Props.C04
