import PncProofs.C01Files
import PncProofs.C06
open PFile Arr Props.C03 Props.C06
namespace Props.C01



/-- the representation invariant of a file: well-formed, and dimensions and variables are keyed by distinct names -/
def Inv (f : File) : Prop := WF f ∧ DimsNodup f ∧ NamesNodup f

theorem map_names (l : List Var) (g : Var → Var) (hg : ∀ v, (g v).name = v.name) :
    (l.map g).map (·.name) = l.map (·.name) := by
  rw [List.map_map]
  exact List.map_congr_left (fun v _ => hg v)

theorem mapM_except_names (g : Var → Except String Var) (hg : ∀ v w, g v = .ok w → w.name = v.name) :
    ∀ (l out : List Var), l.mapM g = .ok out → out.map (·.name) = l.map (·.name)
  | [], out, h => by
    simp only [List.mapM_nil] at h
    cases h
    rfl
  | x :: l, out, h => by
    rw [List.mapM_cons] at h
    cases hx : g x with
    | error e => rw [hx] at h; cases h
    | ok b =>
      rw [hx] at h
      cases hl : l.mapM g with
      | error e => rw [hl] at h; cases h
      | ok bs =>
        rw [hl] at h
        have : out = b :: bs := by cases h; rfl
        subst this
        simp only [List.map_cons]
        rw [hg x b hx, mapM_except_names g hg l bs hl]

/-! ### names of dimensions and variables under each operation -/

theorem mask_names (f : File) (m : MaskSpec) (coords : List String) (mc : Bool) :
    (maskFile f m coords mc).dims = f.dims ∧ (maskFile f m coords mc).vars.map (·.name) = f.vars.map (·.name) := by
  refine ⟨rfl, ?_⟩
  unfold maskFile
  simp only
  apply map_names
  intro v
  split <;> rfl

theorem binop_names (op : Op) (f1 f2 r : File) (coords : List String) (hs : binopFile op f1 f2 coords = .ok r) :
    r.dims = f1.dims ∧ r.vars.map (·.name) = f1.vars.map (·.name) := by
  unfold binopFile at hs
  split at hs
  · cases hs
  · have e := (Except.ok.inj hs).symm
    subst e
    refine ⟨rfl, ?_⟩
    apply map_names
    intro v
    unfold binopVar
    split
    · rfl
    · split <;> rfl

theorem reorder_names (f r : File) (no : List String) (hs : reorderFile f no = .ok r) :
    r.dims = f.dims ∧ r.vars.map (·.name) = f.vars.map (·.name) := by
  unfold reorderFile at hs
  simp only at hs
  split at hs
  · cases hs
  · have e := (Except.ok.inj hs).symm
    subst e
    refine ⟨rfl, ?_⟩
    apply map_names
    intro v
    split <;> rfl

theorem apply_names (f r : File) (fns : List (String × Fn)) (hs : applyFile f fns = .ok r) :
    r.dims.map (·.name) = f.dims.map (·.name) ∧ r.vars.map (·.name) = f.vars.map (·.name) := by
  unfold applyFile at hs
  split at hs
  · cases hs
  · split at hs
    · cases hs
    · split at hs
      · cases hs
      · have e := (Except.ok.inj hs).symm
        subst e
        refine ⟨?_, ?_⟩
        · simp only [List.map_map]
          rfl
        · apply map_names
          intro v
          rfl

theorem removeSingleton_names (f : File) (dk : Option String) :
    List.Sublist ((removeSingletonFile f dk).dims.map (·.name)) (f.dims.map (·.name)) ∧
    (removeSingletonFile f dk).vars.map (·.name) = f.vars.map (·.name) := by
  unfold removeSingletonFile
  refine ⟨List.filter_sublist.map _, ?_⟩
  apply map_names
  intro v
  rfl

/-- **C01 (insertDimension, the name is a dimension already).** the existing dimension is put on the variables with its
own length; the result is well-formed -/
theorem insertDim_wf_existing (f : File) (name : String) (len : Nat) (no mo : Bool) (b a : Option String)
    (hex : (f.dim? name).isSome = true) (h : WF f) : WF (insertDimFile f name len no mo b a) := by
  intro v hv
  have hdims : (insertDimFile f name len no mo b a).dims = f.dims := by
    simp [insertDimFile, hex]
  simp only [insertDimFile, hex, if_true, List.mem_map] at hv
  obtain ⟨v0, hv0, rfl⟩ := hv
  obtain ⟨hd, hs⟩ := h v0 hv0
  have keep : VarWF (insertDimFile f name len no mo b a) v0 := varWF_congr f _ hdims v0 (h v0 hv0)
  have hq : ∀ k, (insertDimFile f name len no mo b a).dim? k = f.dim? k := by intro k; simp only [File.dim?, hdims]
  have hl : (insertDimFile f name len no mo b a).dimLen = f.dimLen := by funext k; simp only [File.dimLen, hq]
  split
  · exact keep
  · split
    · exact keep
    · rename_i bi _
      refine ⟨?_, ?_⟩
      · intro k hk
        simp only [List.mem_append, List.mem_singleton] at hk
        rw [hq]
        rcases hk with (hk | hk) | hk
        · exact hd k (List.mem_of_mem_take hk)
        · subst hk; exact hex
        · exact hd k (List.mem_of_mem_drop hk)
      · simp only [File.shapeOf]
        have hsh : (v0.dims.take bi ++ [name] ++ v0.dims.drop bi).map (insertDimFile f name len no mo b a).dimLen
            = (v0.dims.take bi ++ [name] ++ v0.dims.drop bi).map (fun k => if k == name then f.dimLen name else f.dimLen k) := by
          rw [hl]
          apply List.map_congr_left
          intro k _
          by_cases hkn : k = name
          · subst hkn; simp
          · simp [hkn]
        rw [hsh]
        exact build_hasShape _ _

/-- **C01 (insertDimension)** without a side condition -/
theorem insertDim_wf_all (f : File) (name : String) (len : Nat) (no mo : Bool) (b a : Option String)
    (h : WF f) : WF (insertDimFile f name len no mo b a) := by
  cases hd : f.dim? name with
  | none => exact insertDim_wf f name len no mo b a hd h
  | some d => exact insertDim_wf_existing f name len no mo b a (by rw [hd]; rfl) h

theorem var?_name {f : File} {k : String} {v : Var} (h : f.var? k = some v) : v.name = k := by
  unfold File.var? at h
  have := List.find?_some h
  simpa using this

theorem dim?_none_not_mem {f : File} {k : String} (h : f.dim? k = none) : k ∉ f.dims.map (·.name) := by
  unfold File.dim? at h
  rw [List.find?_eq_none] at h
  intro hk
  obtain ⟨d, hd, hdk⟩ := List.mem_map.mp hk
  exact h d hd (by simp [hdk])

theorem uniq_sub : ∀ (l : List String), List.Sublist (uniq l) l
  | [] => List.Sublist.slnil
  | a :: l => by
    unfold uniq
    exact (List.filter_sublist.trans (uniq_sub l)).cons_cons a

theorem uniq_nodup : ∀ (l : List String), (uniq l).Nodup
  | [] => List.nodup_nil
  | a :: l => by
    unfold uniq
    rw [List.nodup_cons]
    refine ⟨?_, (uniq_nodup l).sublist List.filter_sublist⟩
    intro h
    have := (List.mem_filter.mp h).2
    simp at this

theorem uniq_mem : ∀ (l : List String) (k : String), k ∈ uniq l ↔ k ∈ l
  | [], k => by simp [uniq]
  | a :: l, k => by
    unfold uniq
    simp only [List.mem_cons, List.mem_filter, uniq_mem l k]
    constructor
    · rintro (h | ⟨h, _⟩)
      · exact Or.inl h
      · exact Or.inr h
    · rintro (h | h)
      · exact Or.inl h
      · by_cases hk : k = a
        · exact Or.inl hk
        · exact Or.inr ⟨h, by simpa using hk⟩

theorem filterMap_var_names (f : File) : ∀ (l : List String),
    (l.filterMap f.var?).map (·.name) = l.filter (fun k => (f.var? k).isSome)
  | [] => rfl
  | k :: l => by
    simp only [List.filterMap_cons, List.filter_cons]
    cases h : f.var? k with
    | none => simp [filterMap_var_names f l]
    | some v => simp [filterMap_var_names f l, var?_name h]

theorem subset_names (f r : File) (keys : List String) (ex : Bool) (hs : subsetFile f keys ex = .ok r) :
    r.dims = f.dims ∧ (r.vars.map (·.name)).Nodup := by
  unfold subsetFile at hs
  simp only at hs
  by_cases hbad : ((if ex = true then f.names.filter (fun k => !keys.contains k) else keys).any
      (fun k => (f.var? k).isNone)) = true
  · rw [if_pos hbad] at hs; cases hs
  · rw [if_neg hbad] at hs
    have e := (Except.ok.inj hs).symm
    subst e
    refine ⟨rfl, ?_⟩
    simp only
    rw [filterMap_var_names]
    exact (uniq_nodup _).sublist List.filter_sublist

theorem insertDim_names (f : File) (name : String) (len : Nat) (no mo : Bool) (b a : Option String) (hn : DimsNodup f) :
    DimsNodup (insertDimFile f name len no mo b a) ∧
    (insertDimFile f name len no mo b a).vars.map (·.name) = f.vars.map (·.name) := by
  refine ⟨?_, ?_⟩
  · unfold DimsNodup insertDimFile
    simp only
    split
    · exact hn
    · rename_i hd
      have hnone : f.dim? name = none := by
        cases h : f.dim? name with
        | none => rfl
        | some d => rw [h] at hd; simp at hd
      rw [List.map_append, List.nodup_append]
      refine ⟨hn, by simp, ?_⟩
      intro a ha b hb
      simp only [List.map_cons, List.map_nil, List.mem_singleton] at hb
      subst hb
      intro hab
      subst hab
      exact dim?_none_not_mem hnone ha
  · unfold insertDimFile
    simp only
    apply map_names'
    intro v
    split
    · rfl
    · split <;> rfl
where
  map_names' (l : List Var) (g : Var → Var) (hg : ∀ v, (g v).name = v.name) :
      (l.map g).map (·.name) = l.map (·.name) := by
    rw [List.map_map]
    exact List.map_congr_left (fun v _ => hg v)

theorem renameVar_names (f r : File) (old new : String) (hn : NamesNodup f) (hs : renameVarFile f old new = .ok r) :
    r.dims = f.dims ∧ NamesNodup r := by
  unfold renameVarFile at hs
  cases hv : f.var? old with
  | none => simp [hv] at hs
  | some v0 =>
    simp only [hv, Except.ok.injEq] at hs
    subst hs
    refine ⟨rfl, ?_⟩
    unfold NamesNodup at hn ⊢
    simp only
    split
    · exact hn.sublist (List.filter_sublist.map _)
    · split
      · rw [map_names]
        · exact hn.sublist (List.filter_sublist.map _)
        · intro w
          split
          · rename_i h; simp only; exact (by simpa using h : w.name = new).symm
          · rfl
      · rw [List.map_append, List.nodup_append]
        refine ⟨hn.sublist (List.filter_sublist.map _), by simp, ?_⟩
        intro a ha b hb
        simp only [List.map_cons, List.map_nil, List.mem_singleton] at hb
        subst hb
        intro hab
        subst hab
        obtain ⟨w, hw, hwn⟩ := List.mem_map.mp ha
        have := (List.mem_filter.mp hw).2
        simp [hwn] at this

theorem renameDim_names (f r : File) (old new : String) (hn : DimsNodup f) (hs : renameDimFile f old new = .ok r) :
    DimsNodup r ∧ r.vars.map (·.name) = f.vars.map (·.name) := by
  unfold renameDimFile at hs
  split at hs
  · have e := (Except.ok.inj hs).symm
    subst e
    exact ⟨hn, rfl⟩
  · rename_i hne
    split at hs
    · cases hs
    · split at hs
      · cases hs
      · rename_i hnew
        have e := (Except.ok.inj hs).symm
        subst e
        refine ⟨?_, ?_⟩
        · unfold DimsNodup at hn ⊢
          simp only
          have hnone : f.dim? new = none := by
            cases h : f.dim? new with
            | none => rfl
            | some d => rw [h] at hnew; simp at hnew
          rw [List.map_append, List.nodup_append]
          refine ⟨hn.sublist (List.filter_sublist.map _), ?_, ?_⟩
          · cases f.dim? old <;> simp
          · intro a ha b hb hab
            subst hab
            have ha' : a ∈ f.dims.map (·.name) := (List.filter_sublist.map _).subset ha
            cases hd : f.dim? old with
            | none => rw [hd] at hb; simp at hb
            | some d =>
              rw [hd] at hb
              simp at hb
              subst hb
              exact dim?_none_not_mem hnone ha'
        · apply map_names
          intro v
          rfl

theorem renamedDims_names (f : File) : ∀ (ps : List (String × String)),
    List.Sublist ((renamedDims f ps).map (·.name)) (ps.map (·.2))
  | [] => List.Sublist.slnil
  | p :: ps => by
    unfold renamedDims
    simp only [List.filterMap_cons, List.map_cons]
    cases f.dim? p.1 with
    | none => exact (renamedDims_names f ps).cons _
    | some d => exact (renamedDims_names f ps).cons_cons _

theorem renameDims_names (f r : File) (pairs : List (String × String)) (hn : DimsNodup f)
    (hs : renameDimsFile f pairs = .ok r) : DimsNodup r ∧ r.vars.map (·.name) = f.vars.map (·.name) := by
  unfold renameDimsFile at hs
  simp only at hs
  split at hs
  · cases hs
  · rename_i hnd
    split at hs
    · cases hs
    · rename_i hfree
      split at hs
      · cases hs
      · have e := (Except.ok.inj hs).symm
        subst e
        refine ⟨?_, ?_⟩
        · unfold DimsNodup at hn ⊢
          simp only
          rw [List.map_append, List.nodup_append]
          have hnd' : ((pairs.filter (fun p => p.1 != p.2)).map (·.2)).Nodup := by simpa using hnd
          refine ⟨hn.sublist (List.filter_sublist.map _), hnd'.sublist (renamedDims_names f _), ?_⟩
          intro a ha b hb hab
          subst hab
          have ha' : a ∈ f.dims.map (·.name) := (List.filter_sublist.map _).subset ha
          have hb' := (renamedDims_names f _).subset hb
          obtain ⟨p, hp, hpa⟩ := List.mem_map.mp hb'
          have : ¬ ((pairs.filter (fun p => p.1 != p.2)).any (fun p => (f.dim? p.2).isSome) = true) := hfree
          rw [List.any_eq_true] at this
          have hnone : f.dim? p.2 = none := by
            cases h : f.dim? p.2 with
            | none => rfl
            | some d => exact absurd ⟨p, hp, by rw [h]; rfl⟩ this
          rw [hpa] at hnone
          exact dim?_none_not_mem hnone ha'
        · apply map_names
          intro v
          rfl

theorem sliceVar_name (f : File) (sels : List (String × PSel)) (idx : List (String × List Nat)) (z : Bool) (L : Nat)
    (nd : String) (v w : Var) (h : sliceVar f sels idx z L nd v = .ok w) : w.name = v.name := by
  unfold sliceVar at h
  simp only at h
  split at h
  · split at h
    · have e := (Except.ok.inj h).symm
      subst e
      rfl
    · cases h
  · have e := (Except.ok.inj h).symm
    subst e
    rfl

/-- are two or more index lists given (the pointwise selection)? -/
def zippedSels (sels : List (String × PSel)) : Bool := decide ((sels.filter (·.2.isList)).length ≥ 2)

theorem slice_names (f r : File) (sels : List (String × PSel)) (newdim : String) (hn : DimsNodup f)
    (hnew : zippedSels sels = true → f.dim? newdim = none) (hs : sliceFile f sels newdim = .ok r) :
    DimsNodup r ∧ r.vars.map (·.name) = f.vars.map (·.name) := by
  unfold sliceFile at hs
  split at hs
  · cases hs
  · split at hs
    · cases hs
    · simp only at hs
      split at hs
      · cases hs
      · split at hs
        · cases hs
        · rename_i idx hidx
          split at hs
          · rename_i vars hvars
            have e := (Except.ok.inj hs).symm
            subst e
            refine ⟨?_, mapM_except_names _ (sliceVar_name f sels idx _ _ newdim) _ _ hvars⟩
            unfold DimsNodup at hn ⊢
            simp only
            have hbase : (f.dims.map (fun d => ({ d with len := slicedLen idx d } : Dim))).map (·.name) = f.dims.map (·.name) := by
              rw [List.map_map]
              rfl
            split
            · rename_i hz
              rw [List.map_append, hbase, List.nodup_append]
              refine ⟨hn, by simp, ?_⟩
              intro a ha b hb hab
              subst hab
              simp only [List.map_cons, List.map_nil, List.mem_singleton] at hb
              subst hb
              exact dim?_none_not_mem (hnew hz) ha
            · rw [hbase]
              exact hn
          · cases hs

/-- **C01 (sliceDimensions)** — `slice_wf` with the side condition only where it is needed: the name of the new dimension
must be free when two or more index lists are given -/
theorem slice_wf' (f r : File) (sels : List (String × PSel)) (newdim : String) (hwf : WF f)
    (hnew : zippedSels sels = true → f.dim? newdim = none) (hs : sliceFile f sels newdim = .ok r) : WF r := by
  unfold sliceFile at hs
  split at hs
  · cases hs
  · split at hs
    · cases hs
    · simp only at hs
      split at hs
      · cases hs
      · split at hs
        · cases hs
        · rename_i idx hidx
          split at hs
          · rename_i vars hvars
            have hr : r = File.mk (slicedDims f idx (decide ((sels.filter (·.2.isList)).length ≥ 2))
                ((sels.filterMap (fun p => match p.2 with | .list l => some l.length | _ => none)).headD 0) newdim)
                vars f.attrs := by
              cases hs
              rfl
            subst hr
            intro v' hv'
            simp only at hv'
            obtain ⟨v, hvm, hsv⟩ := mapM_except_mem _ _ _ hvars v' hv'
            unfold sliceVar at hsv
            simp only at hsv
            split at hsv
            · rename_i hnz
              have hex : ∃ k ∈ v.dims, isZipSel sels (decide ((sels.filter (·.2.isList)).length ≥ 2)) k = true := by
                have : 0 < (v.dims.filter (isZipSel sels (decide ((sels.filter (·.2.isList)).length ≥ 2)))).length := by
                  omega
                obtain ⟨k, hk⟩ := List.exists_mem_of_length_pos this
                exact ⟨k, (List.mem_filter.mp hk).1, (List.mem_filter.mp hk).2⟩
              have hzip : decide ((sels.filter (·.2.isList)).length ≥ 2) = true := by
                obtain ⟨k, _, hk⟩ := hex
                unfold isZipSel at hk
                cases hl : lookupSel sels k with
                | none => rw [hl] at hk; cases hk
                | some s =>
                  rw [hl] at hk
                  simp only [Bool.and_eq_true] at hk
                  exact hk.1
              have hnew' := hnew hzip
              rw [hzip] at hsv hex ⊢
              split at hsv
              · rename_i d hd
                have e := (Except.ok.inj hsv).symm
                rw [e]
                exact sliceVar_zip_wf f sels idx _ newdim vars v d (hwf v hvm) hidx hnew' hex hd
              · cases hsv
            · have e := (Except.ok.inj hsv).symm
              rw [e]
              exact sliceVar_orth_wf f sels idx _ _ newdim vars v (hwf v hvm) hidx
          · cases hs

theorem firstByName_nodup : ∀ (l acc : List Var), (acc.map (·.name)).Nodup → ((firstByName acc l).map (·.name)).Nodup
  | [], acc, h => by simpa [firstByName] using h
  | x :: l, acc, h => by
    unfold firstByName
    split
    · exact firstByName_nodup l acc h
    · rename_i hx
      apply firstByName_nodup l (acc ++ [x])
      rw [List.map_append, List.nodup_append]
      refine ⟨h, by simp, ?_⟩
      intro a ha b hb hab
      subst hab
      simp only [List.map_cons, List.map_nil, List.mem_singleton] at hb
      subst hb
      obtain ⟨w, hw, hwn⟩ := List.mem_map.mp ha
      apply hx
      rw [List.any_eq_true]
      exact ⟨w, hw, by simp [hwn]⟩

theorem stackVar_name (fs : List File) (sd : String) (v w : Var) (h : stackVar fs sd v = .ok w) : w.name = v.name := by
  unfold stackVar at h
  split at h
  · have e := (Except.ok.inj h).symm
    subst e
    rfl
  · split at h
    · cases h
    · split at h
      · have e := (Except.ok.inj h).symm
        subst e
        rfl
      · cases h

theorem stack_names (f0 : File) (rest : List File) (sd : String) (r : File) (hn : DimsNodup f0)
    (hs : stackFiles (f0 :: rest) sd = .ok r) : DimsNodup r ∧ NamesNodup r := by
  obtain ⟨vars, hvars, hr, _, _⟩ := stack_ok f0 rest sd r hs
  subst hr
  refine ⟨?_, ?_⟩
  · unfold DimsNodup
    simp only
    rw [List.map_append, List.nodup_append]
    refine ⟨shared_nodup _ f0 sd hn, by simp, ?_⟩
    intro a ha b hb hab
    subst hab
    simp only [List.map_cons, List.map_nil, List.mem_singleton] at hb
    subst hb
    obtain ⟨d, hd, hdn⟩ := List.mem_map.mp ha
    exact (shared_facts _ f0 _ d hd).2.1 hdn
  · unfold NamesNodup
    simp only
    rw [mapM_except_names _ (stackVar_name _ sd) _ _ hvars]
    exact firstByName_nodup _ [] List.nodup_nil

theorem conform_self (f : File) (hn : NamesNodup f) : Conform [f, f] := by
  intro g hg h hh v hv w hw
  have hg' : g = f := by simpa using hg
  have hh' : h = f := by simpa using hh
  rw [hg'] at hv
  rw [hh'] at hw
  unfold File.var? at hw
  rw [find?_name_of_mem (fun (x : Var) => x.name) f.vars hn v hv] at hw
  cases hw
  rfl

/-- **C01 (stack with itself)**: for a well-formed file with distinct names the side conditions of `stack_wf` hold -/
theorem stackSelf_wf (f r : File) (sd : String) (hwf : WF f) (hd : DimsNodup f) (hv : NamesNodup f)
    (hs : stackFiles [f, f] sd = .ok r) : WF r :=
  stack_wf f [f] sd r (by intro g hg; have : g = f := by simpa using hg
                          subst this; exact hwf) hd (conform_self f hv) hs

/-- all variables an expression names have one shape, and none of them is a reserved name of `eval` -/
def EvalDom (f : File) (e : Expr) : Prop :=
  ∀ n ∈ e.vars, n ∉ evalReserved ∧ ∀ v, f.var? n = some v → ∀ m ∈ e.vars, ∀ w, f.var? m = some w → f.shapeOf w = f.shapeOf v

/-- **C01 (eval in place).** `f.eval('t = expr', inplace=True)` on a file that meets the invariant, for an expression
over variables of one shape, gives a file that meets it: the new variable has the dimensions of the expression's first
variable and data of exactly their lengths. -/
theorem evalInto_inv (f g : File) (t : String) (e : Expr) (hwf : WF f) (hdn : DimsNodup f) (hvn : NamesNodup f)
    (hd : EvalDom f e) (h : evalInto (evalEnv f) f t e = .ok g) : WF g ∧ DimsNodup g ∧ NamesNodup g := by
  obtain ⟨hdims, _, _, tv, dat, htv, hdat, hg⟩ := evalInto_spec _ f g t e h
  -- the variable that lends its dimensions is a variable of the file named in the expression
  obtain ⟨m, hm, hfm⟩ : ∃ m ∈ e.vars, f.var? m = some tv := by
    cases hf : e.firstVar with
    | none => rw [hf] at htv; cases htv
    | some m =>
      rw [hf] at htv
      simp only [Option.bind_some, boundVar] at htv
      cases hgm : (evalEnv f).get m with
      | none => rw [hgm] at htv; cases htv
      | some b =>
        rw [hgm] at htv
        cases b with
        | other w => cases htv
        | fileVar w =>
          simp only [Option.some.injEq] at htv
          subst htv
          exact ⟨m, firstVar_mem_vars e m hf, eval_sound f hvn m w hgm⟩
  have htvwf : VarWF f tv := hwf tv (var?_mem hfm)
  have hvars : g.vars = f.vars.filter (fun v => v.name != t) ++
      [{ tv with name := t, data := dat, attrs := evalAttrs tv, isInt := false }] := by
    unfold evalInto at h
    rw [htv] at h
    simp only at h
    rw [hdat] at h
    simp only [Except.ok.injEq] at h
    rw [← h]
  -- shape of the computed data
  have hshape : hasShape (f.shapeOf tv) dat = true := by
    rw [evalns_eq_eval f tv.data e hvn (fun n hn => (hd n hn).1)] at hdat
    refine (eval_pointwise f (f.shapeOf tv) tv.data htvwf.2 e ?_ dat hdat).1
    intro n hn v hv
    have := (hd m hm).2 tv hfm n hn v hv
    rw [← this]
    exact (hwf v (var?_mem hv)).2
  refine ⟨?_, ?_, ?_⟩
  · intro v hv
    rw [hvars] at hv
    rcases List.mem_append.mp hv with h1 | h2
    · exact varWF_congr f g hdims v (hwf v (List.mem_filter.mp h1).1)
    · simp only [List.mem_cons, List.mem_nil_iff, or_false] at h2
      subst h2
      apply varWF_congr f g hdims
      exact ⟨htvwf.1, hshape⟩
  · unfold DimsNodup; rw [hdims]; exact hdn
  · unfold NamesNodup at hvn ⊢
    rw [hvars, List.map_append, List.nodup_append]
    refine ⟨hvn.sublist (List.filter_sublist.map _), by simp, ?_⟩
    intro a ha b hb hab
    subst hab
    simp only [List.map_cons, List.map_nil, List.mem_singleton] at hb
    subst hb
    obtain ⟨w, hw, hwn⟩ := List.mem_map.mp ha
    have := (List.mem_filter.mp hw).2
    simp [hwn] at this


/-! ### one operation, any sequence -/

/-- the documented domain of an operation at a state, as far as the theorems need it: the name of the new dimension of a
pointwise selection is free; functions are applied along non-empty dimensions and leave at least one element -/
def Dom (f : File) : SOp → Prop
  | .slice ss nd => zippedSels ss = true → f.dim? nd = none
  | .apply fns => (∀ d ∈ f.dims, 0 < d.len) ∧ ∀ name fn, fnOf fns name = some fn → 0 < fnLen fn (f.dimLen name)
  | .eval _ e => EvalDom f e
  | _ => True

/-- **C01, one step.** An operation applied in its domain to a file that meets the representation invariant either
raises or gives a file that meets it. -/
theorem step_inv (f g : File) (o : SOp) (h : Inv f) (hd : Dom f o) (hs : o.run f = .ok g) : Inv g := by
  obtain ⟨hwf, hdn, hvn⟩ := h
  cases o with
  | copy =>
    have e := (Except.ok.inj hs).symm
    subst e
    exact ⟨hwf, hdn, hvn⟩
  | slice ss nd =>
    have hn := slice_names f g ss nd hdn hd hs
    exact ⟨slice_wf' f g ss nd hwf hd hs, hn.1, by unfold NamesNodup; rw [hn.2]; exact hvn⟩
  | apply fns =>
    have hn := apply_names f g fns hs
    exact ⟨apply_wf f g fns hwf hd.1 hd.2 hs, by unfold DimsNodup; rw [hn.1]; exact hdn,
      by unfold NamesNodup; rw [hn.2]; exact hvn⟩
  | subset keys ex =>
    have hn := subset_names f g keys ex hs
    exact ⟨subset_wf f g keys ex hwf hs, by unfold DimsNodup; rw [hn.1]; exact hdn, hn.2⟩
  | renameVar o n =>
    have hn := renameVar_names f g o n hvn hs
    exact ⟨renameVar_wf f g o n hwf hs, by unfold DimsNodup; rw [hn.1]; exact hdn, hn.2⟩
  | renameDim o n =>
    have hn := renameDim_names f g o n hdn hs
    exact ⟨renameDim_wf f g o n hwf hs, hn.1, by unfold NamesNodup; rw [hn.2]; exact hvn⟩
  | renameDims ps =>
    have hn := renameDims_names f g ps hdn hs
    exact ⟨renameDims_wf f g ps hwf hs, hn.1, by unfold NamesNodup; rw [hn.2]; exact hvn⟩
  | removeSingleton d =>
    have e := (Except.ok.inj hs).symm
    subst e
    have hn := removeSingleton_names f d
    exact ⟨removeSingleton_wf f d hwf, hdn.sublist hn.1, by unfold NamesNodup; rw [hn.2]; exact hvn⟩
  | insertDim name l no mo b a =>
    have e := (Except.ok.inj hs).symm
    subst e
    have hn := insertDim_names f name l no mo b a hdn
    exact ⟨insertDim_wf_all f name l no mo b a hwf, hn.1, by unfold NamesNodup; rw [hn.2]; exact hvn⟩
  | reorder names =>
    have hn := reorder_names f g names hs
    exact ⟨reorder_wf f g names hwf hs, by unfold DimsNodup; rw [hn.1]; exact hdn,
      by unfold NamesNodup; rw [hn.2]; exact hvn⟩
  | stackSelf d =>
    have hn := stack_names f [f] d g hdn hs
    exact ⟨stackSelf_wf f g d hwf hdn hvn hs, hn.1, hn.2⟩
  | binopSelf op =>
    have hn := binop_names op f f g [] hs
    exact ⟨binop_wf op f f g [] hwf hwf hs, by unfold DimsNodup; rw [hn.1]; exact hdn,
      by unfold NamesNodup; rw [hn.2]; exact hvn⟩
  | maskGt q =>
    have e := (Except.ok.inj hs).symm
    subst e
    have hn := mask_names f ⟨none, Arr.leaf none, some q, none, none, none, none⟩ [] false
    exact ⟨mask_wf f _ [] false (by intro ds h; cases h) hwf, by unfold DimsNodup; rw [hn.1]; exact hdn,
      by unfold NamesNodup; rw [hn.2]; exact hvn⟩
  | eval t e => exact evalInto_inv f g t e hwf hdn hvn hd hs

/-- every operation of the sequence is applied in its domain, at the state it is applied to -/
def DomSeq (f : File) : List SOp → Prop
  | [] => True
  | o :: rest => Dom f o ∧ ∀ g, o.run f = .ok g → DomSeq g rest

/-- **C01, any sequence.** Starting from a file that meets the representation invariant, every file that any finite
sequence of operations — each applied in its domain — goes through meets it: all variables' dimensions exist, their data
have exactly the lengths of those dimensions, and dimensions and variables stay keyed by distinct names.  By induction
over the sequence; no bound on its length, on the number or rank of the variables or on the lengths. -/
theorem seq_inv : ∀ (ops : List SOp) (f : File), Inv f → DomSeq f ops → ∀ g ∈ states f ops, Inv g
  | [], _, _, _, g, hg => by cases hg
  | o :: rest, f, h, hd, g, hg => by
    unfold states at hg
    split at hg
    · rename_i g1 hrun
      have h1 : Inv g1 := step_inv f g1 o h hd.1 hrun
      rcases List.mem_cons.mp hg with rfl | hg'
      · exact h1
      · exact seq_inv rest g1 h1 (hd.2 g1 hrun) g hg'
    · cases hg

theorem seq_wf (ops : List SOp) (f : File) (h : Inv f) (hd : DomSeq f ops) : ∀ g ∈ states f ops, WF g :=
  fun g hg => (seq_inv ops f h hd g hg).1

/-- non-vacuity: a file with two variables of different dimension sets, taken through a pointwise selection, a
reduction, a rename, an inserted dimension and a stack with itself; every operation is in its domain, succeeds, and
changes the file -/
example :
    let f : File := ⟨[⟨"t", 2, true⟩, ⟨"y", 2, false⟩, ⟨"x", 2, false⟩],
      [⟨"A", ["t", "y", "x"], .node [.node [.node [.leaf (some 1), .leaf (some 2)], .node [.leaf (some 3), .leaf none]],
                                     .node [.node [.leaf (some 5), .leaf (some 6)], .node [.leaf (some 7), .leaf (some 8)]]], [], false, false⟩,
       ⟨"B", ["y"], .node [.leaf (some 7), .leaf (some 8)], [], false, false⟩], []⟩
    let ops : List SOp := [.slice [("y", .list [1, 0, 1]), ("x", .list [0, 0, 1])] "POINTS", .apply [("t", .mean)],
      .renameDim "y" "row", .insertDim "ens" 2 false false none none, .stackSelf "t"]
    (states f ops).map (fun g => (g.dims.map (fun d => (d.name, d.len)), g.vars.map (fun v => (v.name, v.dims)))) =
      [([("t", 2), ("y", 3), ("x", 3), ("POINTS", 3)], [("A", ["t", "POINTS"]), ("B", ["y"])]),
       ([("t", 1), ("y", 3), ("x", 3), ("POINTS", 3)], [("A", ["t", "POINTS"]), ("B", ["y"])]),
       ([("t", 1), ("x", 3), ("POINTS", 3), ("row", 3)], [("A", ["t", "POINTS"]), ("B", ["row"])]),
       ([("t", 1), ("x", 3), ("POINTS", 3), ("row", 3), ("ens", 2)], [("A", ["ens", "t", "POINTS"]), ("B", ["ens", "row"])]),
       ([("x", 3), ("POINTS", 3), ("row", 3), ("ens", 2), ("t", 2)], [("A", ["ens", "t", "POINTS"]), ("B", ["ens", "row"])])] := by
  decide +kernel


/-- the starting file of the example meets the invariant, and its first two operations are in their domains -/
example :
    let f : File := ⟨[⟨"t", 2, true⟩, ⟨"y", 2, false⟩, ⟨"x", 2, false⟩],
      [⟨"A", ["t", "y", "x"], .node [.node [.node [.leaf (some 1), .leaf (some 2)], .node [.leaf (some 3), .leaf none]],
                                     .node [.node [.leaf (some 5), .leaf (some 6)], .node [.leaf (some 7), .leaf (some 8)]]], [], false, false⟩,
       ⟨"B", ["y"], .node [.leaf (some 7), .leaf (some 8)], [], false, false⟩], []⟩
    Inv f ∧ Dom f (.slice [("y", .list [1, 0, 1]), ("x", .list [0, 0, 1])] "POINTS") ∧ Dom f (.apply [("t", .mean)]) := by
  refine ⟨⟨?_, by unfold DimsNodup; decide, by unfold NamesNodup; decide⟩, fun _ => by decide, ?_, ?_⟩
  · unfold WF VarWF
    decide +kernel
  · decide
  · intro name fn h
    unfold fnOf at h
    simp only [List.find?] at h
    split at h
    · simp only [Option.map_some, Option.some.injEq] at h
      subst h
      exact Nat.zero_lt_one
    · cases h

/-! ### unlimited flags -/

/-- the name under which a dimension of the input appears in the output -/
def SOp.ren : SOp → String → String
  | .renameDim o n, k => if k == o then n else k
  | .renameDims ps, k => renameKey (ps.filter (fun p => p.1 != p.2)) k
  | _, k => k

/-- in a list with distinct names, two members of one name are the same -/
theorem eq_of_name_eq (l : List Dim) (hn : (l.map (·.name)).Nodup) (a b : Dim) (ha : a ∈ l) (hb : b ∈ l)
    (h : a.name = b.name) : a = b := by
  induction l with
  | nil => cases ha
  | cons x l ih =>
    simp only [List.map_cons, List.nodup_cons] at hn
    rcases List.mem_cons.mp ha with rfl | ha'
    · rcases List.mem_cons.mp hb with rfl | hb'
      · rfl
      · exact absurd (List.mem_map.mpr ⟨b, hb', h.symm⟩) hn.1
    · rcases List.mem_cons.mp hb with rfl | hb'
      · exact absurd (List.mem_map.mpr ⟨a, ha', h⟩) hn.1
      · exact ih hn.2 ha' hb'

/-- flags under an operation that keeps the list of dimensions -/
theorem unlim_same (f g : File) (hdn : DimsNodup f) (h : g.dims = f.dims) :
    ∀ d ∈ g.dims, ∀ d0 ∈ f.dims, d.name = d0.name → d.unlim = d0.unlim := by
  intro d hd d0 hd0 hname
  rw [h] at hd
  rw [eq_of_name_eq f.dims hdn d d0 hd hd0 hname]

/-- flags under an operation that changes lengths only -/
theorem unlim_map (f : File) (hdn : DimsNodup f) (len : Dim → Nat) :
    ∀ d ∈ f.dims.map (fun d => ({ d with len := len d } : Dim)), ∀ d0 ∈ f.dims, d.name = d0.name → d.unlim = d0.unlim := by
  intro d hd d0 hd0 hname
  obtain ⟨d1, hd1, rfl⟩ := List.mem_map.mp hd
  rw [eq_of_name_eq f.dims hdn d1 d0 hd1 hd0 hname]


theorem mem_dims_of_dim? {f : File} {k : String} {d : Dim} (h : f.dim? k = some d) : d ∈ f.dims ∧ d.name = k := by
  unfold File.dim? at h
  refine ⟨List.mem_of_find?_eq_some h, ?_⟩
  have := List.find?_some h
  simpa using this

theorem dim?_none_of_isNone {f : File} {k : String} (h : ¬ (f.dim? k).isSome = true) : f.dim? k = none := by
  cases hd : f.dim? k with
  | none => rfl
  | some d => rw [hd] at h; simp at h

theorem lookup_some_mem : ∀ (ps : List (String × String)) (k n : String), ps.lookup k = some n → ∃ p ∈ ps, p.1 = k ∧ p.2 = n
  | [], _, _, h => by simp [List.lookup] at h
  | (a, b) :: ps, k, n, h => by
    simp only [List.lookup] at h
    split at h
    · rename_i hk
      simp only [Option.some.injEq] at h
      exact ⟨(a, b), by simp, (by simpa using hk : k = a).symm, h⟩
    · obtain ⟨p, hp, h1, h2⟩ := lookup_some_mem ps k n h
      exact ⟨p, List.mem_cons_of_mem _ hp, h1, h2⟩

theorem eq_of_snd_eq : ∀ (ps : List (String × String)), (ps.map (·.2)).Nodup → ∀ p ∈ ps, ∀ q ∈ ps, p.2 = q.2 → p = q
  | [], _, p, hp, _, _, _ => by cases hp
  | x :: ps, hn, p, hp, q, hq, h => by
    simp only [List.map_cons, List.nodup_cons] at hn
    rcases List.mem_cons.mp hp with rfl | hp'
    · rcases List.mem_cons.mp hq with rfl | hq'
      · rfl
      · exact absurd (List.mem_map.mpr ⟨q, hq', h.symm⟩) hn.1
    · rcases List.mem_cons.mp hq with rfl | hq'
      · exact absurd (List.mem_map.mpr ⟨p, hp', h⟩) hn.1
      · exact eq_of_snd_eq ps hn.2 p hp' q hq' h

theorem mem_renamedDims (f : File) : ∀ (ps : List (String × String)) (d : Dim), d ∈ renamedDims f ps →
    ∃ p ∈ ps, ∃ d1, f.dim? p.1 = some d1 ∧ d = { d1 with name := p.2 } := by
  intro ps d hd
  unfold renamedDims at hd
  obtain ⟨p, hp, hpd⟩ := List.mem_filterMap.mp hd
  cases h1 : f.dim? p.1 with
  | none => rw [h1] at hpd; cases hpd
  | some d1 =>
    rw [h1] at hpd
    simp only [Option.map_some, Option.some.injEq] at hpd
    exact ⟨p, hp, d1, h1, hpd.symm⟩

theorem renameVar_dims (f r : File) (old new : String) (hs : renameVarFile f old new = .ok r) : r.dims = f.dims := by
  unfold renameVarFile at hs
  cases hv : f.var? old with
  | none => simp [hv] at hs
  | some v0 =>
    simp only [hv, Except.ok.injEq] at hs
    subst hs
    rfl

/-- **C01 (surviving dimensions keep their unlimited flag), one step.** Whatever an operation of the sequences does —
cut, reduce, rename, remove, insert, stack — a dimension of the input that is still there afterwards (under the name the
operation gives it) has the flag it had. -/
theorem step_unlim (f g : File) (o : SOp) (hdn : DimsNodup f) (hd : Dom f o) (hs : o.run f = .ok g) :
    ∀ d ∈ g.dims, ∀ d0 ∈ f.dims, d.name = SOp.ren o d0.name → d.unlim = d0.unlim := by
  cases o with
  | copy =>
    have e : g = f := (Except.ok.inj hs).symm
    rw [e]
    exact unlim_same f f hdn rfl
  | slice ss nd =>
    intro d hdm d0 hd0 hname
    simp only [SOp.ren] at hname
    have hs' : sliceFile f ss nd = .ok g := hs
    clear hs
    rename' hs' => hs
    unfold sliceFile at hs
    split at hs
    · cases hs
    · split at hs
      · cases hs
      · simp only at hs
        split at hs
        · cases hs
        · split at hs
          · cases hs
          · rename_i idx hidx
            split at hs
            · have e := (Except.ok.inj hs).symm
              subst e
              simp only at hdm
              split at hdm
              · rename_i hz
                rcases List.mem_append.mp hdm with h1 | h2
                · exact unlim_map f hdn _ d h1 d0 hd0 hname
                · simp only [List.mem_cons, List.mem_nil_iff, or_false] at h2
                  subst h2
                  simp only at hname
                  exact absurd (List.mem_map.mpr ⟨d0, hd0, hname.symm⟩) (dim?_none_not_mem (hd hz))
              · exact unlim_map f hdn _ d hdm d0 hd0 hname
            · cases hs
  | apply fns =>
    intro d hdm d0 hd0 hname
    simp only [SOp.ren] at hname
    have hs' : applyFile f fns = .ok g := hs
    clear hs
    rename' hs' => hs
    unfold applyFile at hs
    split at hs
    · cases hs
    · split at hs
      · cases hs
      · split at hs
        · cases hs
        · have e := (Except.ok.inj hs).symm
          subst e
          exact unlim_map f hdn _ d hdm d0 hd0 hname
  | subset keys ex => exact unlim_same f g hdn (subset_names f g keys ex hs).1
  | renameVar a b => exact unlim_same f g hdn (renameVar_dims f g a b hs)
  | renameDim a b =>
    intro d hdm d0 hd0 hname
    simp only [SOp.ren] at hname
    have hs' : renameDimFile f a b = .ok g := hs
    clear hs
    unfold renameDimFile at hs'
    split at hs'
    · rename_i heq
      have e : g = f := (Except.ok.inj hs').symm
      rw [e] at hdm
      have hab : a = b := by simpa using heq
      have : d.name = d0.name := by
        rw [hname]
        split
        · rename_i hk
          have : d0.name = a := by simpa using hk
          rw [this, hab]
        · rfl
      exact congrArg Dim.unlim (eq_of_name_eq f.dims hdn d d0 hdm hd0 this)
    · rename_i hne
      split at hs'
      · cases hs'
      · split at hs'
        · cases hs'
        · rename_i hnew
          have hnone := dim?_none_of_isNone hnew
          have e := (Except.ok.inj hs').symm
          subst e
          simp only at hdm
          rcases List.mem_append.mp hdm with h1 | h2
          · have hdf := (List.mem_filter.mp h1).1
            have hda : d.name ≠ a := by simpa using (List.mem_filter.mp h1).2
            by_cases hk : (d0.name == a) = true
            · rw [if_pos hk] at hname
              exact absurd (List.mem_map.mpr ⟨d, hdf, hname⟩) (dim?_none_not_mem hnone)
            · rw [if_neg hk] at hname
              exact congrArg Dim.unlim (eq_of_name_eq f.dims hdn d d0 hdf hd0 hname)
          · cases hda : f.dim? a with
            | none => rw [hda] at h2; simp at h2
            | some d1 =>
              rw [hda] at h2
              simp only [Option.map_some, Option.toList_some, List.mem_cons, List.mem_nil_iff, or_false] at h2
              subst h2
              obtain ⟨hd1, hd1n⟩ := mem_dims_of_dim? hda
              simp only at hname
              by_cases hk : (d0.name == a) = true
              · have : d1.name = d0.name := by rw [hd1n]; exact (by simpa using hk : d0.name = a).symm
                rw [eq_of_name_eq f.dims hdn d1 d0 hd1 hd0 this]
              · rw [if_neg hk] at hname
                exact absurd (List.mem_map.mpr ⟨d0, hd0, hname.symm⟩) (dim?_none_not_mem hnone)
  | renameDims pairs =>
    intro d hdm d0 hd0 hname
    simp only [SOp.ren, renameKey] at hname
    have hs' : renameDimsFile f pairs = .ok g := hs
    clear hs
    unfold renameDimsFile at hs'
    simp only at hs'
    split at hs'
    · cases hs'
    · rename_i hnd
      split at hs'
      · cases hs'
      · rename_i hfree
        split at hs'
        · cases hs'
        · have e := (Except.ok.inj hs').symm
          subst e
          simp only at hdm
          have hnd' : ((pairs.filter (fun p => p.1 != p.2)).map (·.2)).Nodup := by simpa using hnd
          have hfree' : ∀ p ∈ pairs.filter (fun p => p.1 != p.2), f.dim? p.2 = none := by
            intro p hp
            cases h : f.dim? p.2 with
            | none => rfl
            | some dd =>
              exfalso
              apply hfree
              rw [List.any_eq_true]
              exact ⟨p, hp, by rw [h]; rfl⟩
          rcases List.mem_append.mp hdm with h1 | h2
          · have hdf := (List.mem_filter.mp h1).1
            cases hl : (pairs.filter (fun p => p.1 != p.2)).lookup d0.name with
            | some n =>
              rw [hl] at hname
              simp only [Option.getD_some] at hname
              obtain ⟨p, hp, _, hp2⟩ := lookup_some_mem _ _ _ hl
              have := hfree' p hp
              rw [hp2, ← hname] at this
              exact absurd (List.mem_map.mpr ⟨d, hdf, rfl⟩) (dim?_none_not_mem this)
            | none =>
              rw [hl] at hname
              simp only [Option.getD_none] at hname
              exact congrArg Dim.unlim (eq_of_name_eq f.dims hdn d d0 hdf hd0 hname)
          · obtain ⟨p, hp, d1, hd1, hdd⟩ := mem_renamedDims f _ d h2
            subst hdd
            obtain ⟨hd1m, hd1n⟩ := mem_dims_of_dim? hd1
            simp only at hname ⊢
            cases hl : (pairs.filter (fun p => p.1 != p.2)).lookup d0.name with
            | some n =>
              rw [hl] at hname
              simp only [Option.getD_some] at hname
              obtain ⟨q, hq, hq1, hq2⟩ := lookup_some_mem _ _ _ hl
              have hpq : p = q := eq_of_snd_eq _ hnd' p hp q hq (by rw [hq2]; exact hname)
              have : d1.name = d0.name := by rw [hd1n, hpq, hq1]
              rw [eq_of_name_eq f.dims hdn d1 d0 hd1m hd0 this]
            | none =>
              rw [hl] at hname
              simp only [Option.getD_none] at hname
              have := hfree' p hp
              rw [hname] at this
              exact absurd (List.mem_map.mpr ⟨d0, hd0, rfl⟩) (dim?_none_not_mem this)
  | removeSingleton dk =>
    intro d hdm d0 hd0 hname
    simp only [SOp.ren] at hname
    have e := (Except.ok.inj hs).symm
    subst e
    unfold removeSingletonFile at hdm
    exact congrArg Dim.unlim (eq_of_name_eq f.dims hdn d d0 (List.mem_filter.mp hdm).1 hd0 hname)
  | insertDim name l no mo b a =>
    intro d hdm d0 hd0 hname
    simp only [SOp.ren] at hname
    have e := (Except.ok.inj hs).symm
    subst e
    unfold insertDimFile at hdm
    simp only at hdm
    split at hdm
    · exact congrArg Dim.unlim (eq_of_name_eq f.dims hdn d d0 hdm hd0 hname)
    · rename_i hex
      rcases List.mem_append.mp hdm with h1 | h2
      · exact congrArg Dim.unlim (eq_of_name_eq f.dims hdn d d0 h1 hd0 hname)
      · simp only [List.mem_cons, List.mem_nil_iff, or_false] at h2
        subst h2
        simp only at hname
        exact absurd (List.mem_map.mpr ⟨d0, hd0, hname.symm⟩) (dim?_none_not_mem (dim?_none_of_isNone hex))
  | reorder names => exact unlim_same f g hdn (reorder_names f g names hs).1
  | stackSelf sd =>
    intro d hdm d0 hd0 hname
    simp only [SOp.ren] at hname
    obtain ⟨vars, _, hr, _, _⟩ := stack_ok f [f] sd g hs
    subst hr
    simp only at hdm
    rcases List.mem_append.mp hdm with h1 | h2
    · exact congrArg Dim.unlim (eq_of_name_eq f.dims hdn d d0 (shared_facts _ f sd d h1).1 hd0 hname)
    · simp only [List.mem_cons, List.mem_nil_iff, or_false] at h2
      subst h2
      simp only at hname ⊢
      have hfind : f.dim? sd = some d0 := by
        unfold File.dim?
        rw [hname]
        exact find?_name_of_mem (fun (x : Dim) => x.name) f.dims hdn d0 hd0
      rw [hfind]
      rfl
  | binopSelf op => exact unlim_same f g hdn (binop_names op f f g [] hs).1
  | maskGt q =>
    have e := (Except.ok.inj hs).symm
    subst e
    exact unlim_same f _ hdn rfl
  | eval t e => exact unlim_same f g hdn (evalInto_spec _ f g t e hs).1


/-- the steps a sequence takes: (file before, operation, file after), up to the first operation that raises -/
def transitions (f : File) : List SOp → List (File × SOp × File)
  | [] => []
  | o :: rest => match o.run f with
    | .ok g => (f, o, g) :: transitions g rest
    | .error _ => []

/-- **C01 (unlimited flags along any sequence).** In every step of every sequence of in-domain operations from a file
that meets the invariant, each dimension that survives the step keeps its unlimited flag. -/
theorem seq_unlim : ∀ (ops : List SOp) (f : File), Inv f → DomSeq f ops →
    ∀ t ∈ transitions f ops, ∀ d ∈ t.2.2.dims, ∀ d0 ∈ t.1.dims, d.name = SOp.ren t.2.1 d0.name → d.unlim = d0.unlim
  | [], _, _, _, t, ht => by cases ht
  | o :: rest, f, h, hd, t, ht => by
    unfold transitions at ht
    split at ht
    · rename_i g hrun
      rcases List.mem_cons.mp ht with rfl | ht'
      · exact step_unlim f g o h.2.1 hd.1 hrun
      · exact seq_unlim rest g (step_inv f g o h hd.1 hrun) (hd.2 g hrun) t ht'
    · cases ht

/-- non-vacuity: an unlimited `t` cut, renamed and stacked keeps its flag; the inserted dimension is fixed -/
example :
    let f : File := ⟨[⟨"t", 2, true⟩, ⟨"x", 2, false⟩], [⟨"A", ["t", "x"], .node [.node [.leaf (some 1), .leaf (some 2)],
      .node [.leaf (some 3), .leaf none]], [], false, false⟩], []⟩
    let ops : List SOp := [.slice [("t", .slice none none (-1))] "POINTS", .renameDim "t" "time",
      .insertDim "ens" 2 false false none none, .stackSelf "time"]
    (transitions f ops).map (fun t => t.2.2.dims.map (fun d => (d.name, d.len, d.unlim))) =
      [[("t", 2, true), ("x", 2, false)], [("x", 2, false), ("time", 2, true)],
       [("x", 2, false), ("time", 2, true), ("ens", 2, false)], [("x", 2, false), ("ens", 2, false), ("time", 4, true)]] := by
  decide +kernel

end Props.C01
