import PncProofs.WindLemmas

/-! prefixes of a wind file: rejected, or read as the leading whole time steps -/
namespace Wind
open Words Slab

/-- the run of data records cut anywhere: the count never closes -/
theorem countData_trunc (cells : Nat) : ∀ (rows : List (List Word)) (m n fuel : Nat),
    (∀ c ∈ rows, c.length = cells) →
    countData (4 * cells) fuel (((rows.map frame).flatten).take m) n = none
  | _, _, _, 0, _ => rfl
  | [], m, n, fuel + 1, _ => by simp [countData]
  | c :: rs, 0, n, fuel + 1, _ => by simp [countData]
  | c :: rs, m + 1, n, fuel + 1, h => by
    have hc := h c (by simp)
    have hfl : (frame c).length = cells + 2 := by rw [frame_length, hc]
    unfold countData
    simp only [List.map_cons, List.flatten_cons]
    have hne : ((frame c ++ (rs.map frame).flatten).take (m + 1)).isEmpty = false := by simp [frame]
    have hhead : ((frame c ++ (rs.map frame).flatten).take (m + 1)).headD 0 = 4 * cells := by simp [frame, hc]
    rw [hne, hhead]
    simp only [Bool.false_eq_true, if_false, if_true]
    rw [Nat.mul_div_cancel_left _ (show 0 < 4 by omega), List.drop_take, ← hfl, List.drop_left]
    exact countData_trunc cells rs _ _ fuel (fun x hx => h x (by simp [hx]))

/-- counting the data records of the first step, closed by anything that does not start like a data record -/
theorem countData_closed (cells : Nat) (t : List Word) (ht : t ≠ []) (hh : t.headD 0 ≠ 4 * cells) :
    ∀ (rows : List (List Word)) (n fuel : Nat), (∀ c ∈ rows, c.length = cells) → rows.length + 1 ≤ fuel →
      countData (4 * cells) fuel ((rows.map frame).flatten ++ t) n = some (n + rows.length)
  | [], n, fuel, _, hf => by
    obtain ⟨fuel, rfl⟩ : ∃ k, fuel = k + 1 := ⟨fuel - 1, by simp at hf; omega⟩
    have hne : t.isEmpty = false := by cases t with
      | nil => exact absurd rfl ht
      | cons a as => rfl
    unfold countData
    simp only [List.map_nil, List.flatten_nil, List.nil_append, hne, Bool.false_eq_true, if_false, if_neg hh,
      List.length_nil, Nat.add_zero]
  | c :: rest, n, fuel, h, hf => by
    obtain ⟨fuel, rfl⟩ : ∃ k, fuel = k + 1 := ⟨fuel - 1, by simp at hf; omega⟩
    have hc := h c (by simp)
    have hdrop : ((frame c ++ (rest.map frame).flatten) ++ t).drop (4 * cells / 4 + 2) =
        (rest.map frame).flatten ++ t := by
      rw [Nat.mul_div_cancel_left _ (show 0 < 4 by omega), List.append_assoc]
      have : (frame c).length = cells + 2 := by rw [frame_length, hc]
      rw [← this, List.drop_left]
    unfold countData
    simp only [List.map_cons, List.flatten_cons]
    have hhead : ((frame c ++ (rest.map frame).flatten) ++ t).headD 0 = 4 * cells := by
      simp [frame, hc]
    have hne : ((frame c ++ (rest.map frame).flatten) ++ t).isEmpty = false := by simp [frame]
    rw [hne, hhead]
    simp only [Bool.false_eq_true, if_false, if_true]
    rw [hdrop, countData_closed cells t ht hh rest (n + 1) fuel (fun x hx => h x (by simp [hx])) (by
      simp only [List.length_cons] at hf; omega)]
    simp only [List.length_cons]
    congr 1; omega

/-- the reader on anything that starts with one whole encoded step -/
theorem read_step_append (cells nz h : Nat) (s : WStep) (hs : s.slabs.length = 2 * nz)
    (hc : ∀ c ∈ s.slabs, c.length = cells) (hh : (header s).length = h) (h23 : h = 2 ∨ h = 3)
    (hc2 : 2 ≤ cells) (hnz : 1 ≤ nz) (more : List Word) :
    read cells (stepWords s ++ more) =
      readSteps h cells nz ((h + 2) + (cells + 2) * (2 * nz) + 3)
        (((h + 2) + (cells + 2) * (2 * nz) + 3 + more.length) / ((h + 2) + (cells + 2) * (2 * nz) + 3))
        (stepWords s ++ more) := by
  have hfl : (frame (header s)).length = h + 2 := by rw [frame_length, hh]
  have henc : stepWords s ++ more = frame (header s) ++ ((s.slabs.map frame).flatten ++ (frame [0] ++ more)) := by
    rw [stepWords_eq]; simp [List.append_assoc]
  have hhw : hdrWords (stepWords s ++ more) = some h := by
    rw [henc]
    unfold hdrWords
    rcases h23 with rfl | rfl
    · simp [frame, hh]
    · simp [frame, hh]
  have hrest : (stepWords s ++ more).drop (h + 2) = (s.slabs.map frame).flatten ++ (frame [0] ++ more) := by
    rw [henc, ← hfl, List.drop_left]
  obtain ⟨c0, cs, hsl⟩ : ∃ c0 cs, s.slabs = c0 :: cs := by
    cases hsl : s.slabs with
    | nil => rw [hsl] at hs; simp at hs; omega
    | cons c cs => exact ⟨c, cs, rfl⟩
  have hc0 : c0.length = cells := hc c0 (by rw [hsl]; simp)
  have hhead : ((s.slabs.map frame).flatten ++ (frame [0] ++ more)).headD 0 = 4 * cells := by
    rw [hsl]; simp [frame, hc0]
  have hne4 : ¬ ((4 : Nat) * 1 = 4 * cells) := by omega
  have hcnt := countData_closed cells (frame [0] ++ more) (by simp [frame]) (by simpa [frame] using hne4) s.slabs 0
    ((s.slabs.map frame).flatten ++ (frame [0] ++ more)).length hc (by
      simp only [List.length_append, frames_length cells s.slabs hc, frame_length, List.length_cons, List.length_nil]
      have : s.slabs.length ≤ (cells + 2) * s.slabs.length := Nat.le_mul_of_pos_left _ (by omega)
      omega)
  have hbl : ((s.slabs.map frame).flatten).length = 2 * nz * (cells + 2) := by
    rw [frames_length cells s.slabs hc, hs, Nat.mul_comm]
  have hdummy : (((s.slabs.map frame).flatten ++ (frame [0] ++ more)).drop (2 * nz * (cells + 2))).headD 0 = 4 := by
    rw [← hbl, List.drop_left]; simp [frame]
  have hlen : (stepWords s ++ more).length = (h + 2) + (cells + 2) * (2 * nz) + 3 + more.length := by
    rw [List.length_append, stepWords_length cells nz h s hs hc hh]
  unfold read
  simp only [hhw, hrest, hhead, ne_eq, not_true_eq_false, if_false, hcnt, Nat.zero_add, hs]
  have hnz' : (2 * nz + 1) / 2 = nz := by omega
  simp only [hnz', hdummy]
  have h3 : (4 + 8) / 4 = 3 := rfl
  rw [h3, hlen]
  rw [if_neg]
  have : 1 ≤ ((h + 2) + (cells + 2) * (2 * nz) + 3 + more.length) / ((h + 2) + (cells + 2) * (2 * nz) + 3) :=
    (Nat.one_le_div_iff (by omega)).mpr (by omega)
  omega

/-- the leading whole steps of any prefix that holds them -/
theorem readSteps_prefix (cells nz h : Nat) (h23 : h = 2 ∨ h = 3) :
    ∀ (steps : List WStep) (k n : Nat),
      (∀ s ∈ steps, s.slabs.length = 2 * nz ∧ (∀ c ∈ s.slabs, c.length = cells) ∧ (header s).length = h) →
      k ≤ steps.length → k * ((h + 2) + (cells + 2) * (2 * nz) + 3) ≤ n →
      readSteps h cells nz ((h + 2) + (cells + 2) * (2 * nz) + 3) k ((encode steps).take n) = some (steps.take k)
  | _, 0, _, _, _, _ => by simp [readSteps]
  | [], k + 1, _, _, hk, _ => by simp at hk
  | s :: rest, k + 1, n, hall, hk, hn => by
    obtain ⟨hs, hc, hh⟩ := hall s (by simp)
    have hl := stepWords_length cells nz h s hs hc hh
    generalize hW : (h + 2) + (cells + 2) * (2 * nz) + 3 = W at *
    have hWn : W ≤ n := by rw [Nat.succ_mul] at hn; omega
    simp only [readSteps, encode_cons, List.take_succ_cons]
    have htake : ((stepWords s ++ encode rest).take n).take W = stepWords s := by
      rw [List.take_take, Nat.min_eq_left hWn, ← hl, List.take_left]
    have hdrop : ((stepWords s ++ encode rest).take n).drop W = (encode rest).take (n - W) := by
      rw [List.drop_take, ← hl, List.drop_left]
    rw [htake, hdrop, ← hW, parseStep_stepWords cells nz h s hs hc hh h23, hW]
    have ih := readSteps_prefix cells nz h h23 rest k (n - W) (fun x hx => hall x (by simp [hx]))
      (by simp only [List.length_cons] at hk; omega) (by rw [hW]; rw [Nat.succ_mul] at hn; omega)
    rw [hW] at ih
    rw [ih]

/-- a prefix that ends inside the first step is rejected -/
theorem read_first_step_cut (cells nz h : Nat) (s : WStep) (hs : s.slabs.length = 2 * nz)
    (hc : ∀ c ∈ s.slabs, c.length = cells) (hh : (header s).length = h) (h23 : h = 2 ∨ h = 3)
    (hc2 : 2 ≤ cells) (hnz : 1 ≤ nz) (n : Nat) (hn : n < (h + 2) + (cells + 2) * (2 * nz) + 3) :
    read cells ((stepWords s).take n) = none := by
  have hfl : (frame (header s)).length = h + 2 := by rw [frame_length, hh]
  have hbl : ((s.slabs.map frame).flatten).length = (cells + 2) * (2 * nz) := by
    rw [frames_length cells s.slabs hc, hs]
  obtain ⟨c0, cs, hsl⟩ : ∃ c0 cs, s.slabs = c0 :: cs := by
    cases hsl : s.slabs with
    | nil => rw [hsl] at hs; simp at hs; omega
    | cons c cs => exact ⟨c, cs, rfl⟩
  have hc0 : c0.length = cells := hc c0 (by rw [hsl]; simp)
  rcases Nat.eq_zero_or_pos n with rfl | hn0
  · simp [read, hdrWords]
  have hhw : hdrWords ((stepWords s).take n) = some h := by
    obtain ⟨n', rfl⟩ : ∃ n', n = n' + 1 := ⟨n - 1, by omega⟩
    rw [stepWords_eq]
    unfold hdrWords
    rcases h23 with rfl | rfl
    · simp [frame, hh]
    · simp [frame, hh]
  have hrest : ((stepWords s).take n).drop (h + 2) = ((s.slabs.map frame).flatten ++ frame [0]).take (n - (h + 2)) := by
    rw [List.drop_take, stepWords_eq, ← hfl, List.drop_left]
  by_cases hn1 : n ≤ h + 2
  · -- nothing behind the header
    have hrest0 : ((stepWords s).take n).drop (h + 2) = [] := by
      rw [hrest, show n - (h + 2) = 0 by omega, List.take_zero]
    unfold read
    simp only [hhw, hrest0, List.headD_nil]
    have hne0 : ¬ ((0 : Nat) = 4 * cells) := by omega
    rw [if_pos hne0]
  · unfold read
    simp only [hhw, hrest]
    have hj : 1 ≤ n - (h + 2) := by omega
    have hhead : (((s.slabs.map frame).flatten ++ frame [0]).take (n - (h + 2))).headD 0 = 4 * cells := by
      obtain ⟨j, hj'⟩ : ∃ j, n - (h + 2) = j + 1 := ⟨n - (h + 2) - 1, by omega⟩
      rw [hj', hsl]; simp [frame, hc0]
    simp only [hhead, ne_eq, not_true_eq_false, if_false]
    by_cases hn2 : n - (h + 2) ≤ (cells + 2) * (2 * nz)
    · -- inside the data records
      rw [List.take_append_of_le_length (by rw [hbl]; exact hn2), countData_trunc cells s.slabs _ _ _ hc]
    · -- inside the closing record
      obtain ⟨j, hjdef⟩ : ∃ j, n - (h + 2) - (cells + 2) * (2 * nz) = j := ⟨_, rfl⟩
      have hj2 : j = 1 ∨ j = 2 := by omega
      obtain ⟨tk, htkdef⟩ : ∃ tk, (frame [0]).take j = tk := ⟨_, rfl⟩
      have htk : tk ≠ [] ∧ tk.headD 0 = (4 : Nat) ∧ tk.length = j := by
        rcases hj2 with e | e <;> subst e <;> subst htkdef <;> simp [frame]
      obtain ⟨htk1, htk2, htk3⟩ := htk
      have hne4 : ¬ ((4 : Nat) = 4 * cells) := by omega
      have htake : ((s.slabs.map frame).flatten ++ frame [0]).take (n - (h + 2)) = (s.slabs.map frame).flatten ++ tk := by
        rw [List.take_append, hbl, List.take_of_length_le (by rw [hbl]; omega), hjdef, htkdef]
      have htl : ((s.slabs.map frame).flatten ++ tk).length = n - (h + 2) := by
        rw [List.length_append, hbl, htk3]; omega
      have hcnt := countData_closed cells tk htk1 (by rw [htk2]; exact hne4) s.slabs 0 (n - (h + 2)) hc (by
          have : s.slabs.length ≤ (cells + 2) * s.slabs.length := Nat.le_mul_of_pos_left _ (by omega)
          rw [hs] at this ⊢; omega)
      rw [htake, htl, hcnt]
      simp only [Nat.zero_add, hs]
      have hnz' : (2 * nz + 1) / 2 = nz := by omega
      have hdummy : (((s.slabs.map frame).flatten ++ tk).drop (2 * nz * (cells + 2))).headD 0 = 4 := by
        rw [Nat.mul_comm (2 * nz), ← hbl, List.drop_left, htk2]
      simp only [hnz', hdummy]
      have h3 : (4 + 8) / 4 = 3 := rfl
      rw [h3, if_pos]
      rw [List.length_take, stepWords_length cells nz h s hs hc hh, Nat.min_eq_left (by omega)]
      exact Nat.div_eq_of_lt hn

/-- **prefixes of a wind file**: for every well-formed wind file and every cut point (in words), the memory-mapped
reader rejects a prefix that does not hold the first step completely, and otherwise presents exactly the leading
whole time steps of the file (`n / stepWords` of them) — never a partial step, never a step with other content. -/
theorem read_prefix (cells nz h : Nat) (steps : List WStep) (w : WFw cells nz h steps) (n : Nat) :
    read cells ((encode steps).take n) =
      if n < (h + 2) + (cells + 2) * (2 * nz) + 3 then none
      else some (steps.take (n / ((h + 2) + (cells + 2) * (2 * nz) + 3))) := by
  have w0 := w
  obtain ⟨hne, hc2, hnz, h23, hall⟩ := w
  obtain ⟨s, rest, rfl⟩ : ∃ s rest, steps = s :: rest := by
    cases steps with
    | nil => exact absurd rfl hne
    | cons s rest => exact ⟨s, rest, rfl⟩
  obtain ⟨hs, hc, hh⟩ := hall s (by simp)
  have hl := stepWords_length cells nz h s hs hc hh
  have hlen := encode_length cells nz h (s :: rest) hall
  generalize hW : (h + 2) + (cells + 2) * (2 * nz) + 3 = W at *
  have hWpos : 0 < W := by omega
  by_cases hn : n < W
  · rw [if_pos hn, encode_cons, List.take_append_of_le_length (by omega)]
    exact read_first_step_cut cells nz h s hs hc hh h23 hc2 hnz n (by omega)
  · rw [if_neg hn]
    by_cases hend : (encode (s :: rest)).length ≤ n
    · rw [List.take_of_length_le hend, read_encode cells nz h _ w0]
      have : (s :: rest).length ≤ n / W := by
        rw [hlen] at hend
        exact (Nat.le_div_iff_mul_le hWpos).mpr hend
      rw [List.take_of_length_le this]
    · have hnL : n < (s :: rest).length * W := by omega
      have htk : (encode (s :: rest)).take n = stepWords s ++ (encode rest).take (n - W) := by
        rw [encode_cons, List.take_append, hl, List.take_of_length_le (by omega)]
      have hml : ((encode rest).take (n - W)).length = n - W := by
        rw [List.length_take]
        have : (encode rest).length = rest.length * W := by
          have := encode_length cells nz h rest (fun x hx => hall x (by simp [hx]))
          rw [hW] at this; exact this
        rw [this]
        simp only [List.length_cons, Nat.succ_mul] at hnL
        omega
      have hrs := read_step_append cells nz h s hs hc hh h23 hc2 hnz ((encode rest).take (n - W))
      rw [hW, hml] at hrs
      rw [htk, hrs, ← htk]
      have hnW : W + (n - W) = n := by omega
      rw [hnW]
      have hp := readSteps_prefix cells nz h h23 (s :: rest) (n / W) n hall
        (by
          have : n / W < (s :: rest).length := (Nat.div_lt_iff_lt_mul hWpos).mpr hnL
          omega)
        (by rw [hW]; exact Nat.div_mul_le_self n W)
      rw [hW] at hp
      exact hp

end Wind
