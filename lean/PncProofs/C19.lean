import PncModel.Icartt
import Mathlib.Tactic.Linarith
/-
C19 — ICARTT (ffi1001) write/read round trip.

`Icartt.write` is the writer, `Icartt.read` the position-driven reader.  For every well-formed file (seven
free-text header lines, every variable with one cell per record) with any number of records, variables and
header attributes: the header-line count declared on line 1 is the position of the column-name line
(`header_count`), the declared number of dependent variables is the number of description lines
(`declared_counts`), reading what was written returns the same names in the same order, units, missing codes,
masks and values (`read_write`, `mask_preserved`), and a second write/read cycle reproduces the data
(`second_cycle`).
-/
namespace Props.C19
open Icartt

/-- the six segments of the output -/
def seg1 (f : File) : List Line :=
  [.first (f.attrs.length + f.deps.length + 15)] ++ f.head.map .text ++
  [.indep f.indep (wUnit f),
   .count f.deps.length, .scales f.deps.length, .codes (f.deps.map (fun v => (v.codeStr, v.code)))]
def seg2 (f : File) : List Line := f.deps.map (fun v => .desc v.name v.unit)
def seg3 (f : File) : List Line := [.count 0, .count f.attrs.length]
def seg4 (f : File) : List Line := f.attrs.map (fun a => .attr a.1 a.2)
def seg5 (f : File) : List Line := [.names (f.indep :: f.deps.map (·.name))]
def seg6 (f : File) : List Line := (List.range (nrec f)).map (dataLine f)

theorem write_segs (f : File) : write f = seg1 f ++ (seg2 f ++ (seg3 f ++ (seg4 f ++ (seg5 f ++ seg6 f)))) := by
  simp [write, seg1, seg2, seg3, seg4, seg5, seg6, List.append_assoc]

theorem len1 (f : File) (h7 : f.head.length = 7) : (seg1 f).length = 12 := by simp [seg1, h7]
theorem len2 (f : File) : (seg2 f).length = f.deps.length := by simp [seg2]
theorem len4 (f : File) : (seg4 f).length = f.attrs.length := by simp [seg4]

/-- index into the k-th segment -/
theorem at1 (f : File) (h7 : f.head.length = 7) (i : Nat) (hi : i < 12) : (write f)[i]? = (seg1 f)[i]? := by
  rw [write_segs, List.getElem?_append_left (by rw [len1 f h7]; exact hi)]

theorem at2 (f : File) (h7 : f.head.length = 7) (i : Nat) (hi : i < f.deps.length) :
    (write f)[12 + i]? = (seg2 f)[i]? := by
  rw [write_segs, List.getElem?_append_right (by rw [len1 f h7]; omega), len1 f h7,
    List.getElem?_append_left (by rw [len2]; omega)]
  congr 1; omega

theorem at3 (f : File) (h7 : f.head.length = 7) (i : Nat) (hi : i < 2) :
    (write f)[12 + f.deps.length + i]? = (seg3 f)[i]? := by
  rw [write_segs, List.getElem?_append_right (by rw [len1 f h7]; omega), len1 f h7,
    List.getElem?_append_right (by rw [len2]; omega), len2,
    List.getElem?_append_left (by simp [seg3]; omega)]
  congr 1; omega

theorem at4 (f : File) (h7 : f.head.length = 7) (i : Nat) (hi : i < f.attrs.length) :
    (write f)[14 + f.deps.length + i]? = (seg4 f)[i]? := by
  rw [write_segs, List.getElem?_append_right (by rw [len1 f h7]; omega), len1 f h7,
    List.getElem?_append_right (by rw [len2]; omega), len2,
    List.getElem?_append_right (by simp [seg3]; omega),
    List.getElem?_append_left (by rw [len4]; simp [seg3]; omega)]
  congr 1; simp [seg3]; omega

theorem at5 (f : File) (h7 : f.head.length = 7) :
    (write f)[14 + f.deps.length + f.attrs.length]? = some (.names (f.indep :: f.deps.map (·.name))) := by
  rw [write_segs, List.getElem?_append_right (by rw [len1 f h7]; omega), len1 f h7,
    List.getElem?_append_right (by rw [len2]; omega), len2,
    List.getElem?_append_right (by simp [seg3]; omega),
    List.getElem?_append_right (by rw [len4]; simp [seg3]; omega), len4,
    List.getElem?_append_left (by simp [seg5, seg3]; omega)]
  have : 14 + f.deps.length + f.attrs.length - 12 - f.deps.length - (seg3 f).length - f.attrs.length = 0 := by
    simp [seg3]; omega
  rw [this]
  rfl

theorem drop_data (f : File) (h7 : f.head.length = 7) :
    (write f).drop (15 + f.deps.length + f.attrs.length) = seg6 f := by
  rw [write_segs]
  have h : 15 + f.deps.length + f.attrs.length =
      (seg1 f ++ (seg2 f ++ (seg3 f ++ (seg4 f ++ seg5 f)))).length := by
    simp [len1 f h7, len2, len4, seg3, seg5]; omega
  have e : seg1 f ++ (seg2 f ++ (seg3 f ++ (seg4 f ++ (seg5 f ++ seg6 f)))) =
      (seg1 f ++ (seg2 f ++ (seg3 f ++ (seg4 f ++ seg5 f)))) ++ seg6 f := by
    simp [List.append_assoc]
  rw [e, h, List.drop_left]

/-- **the declared header length is where the column names are**, for any numbers of variables and
attributes: line `n_header_lines` (1-based) is the name line and everything after it is data -/
theorem header_count (f : File) (h7 : f.head.length = 7) :
    getFirst (write f)[0]? = some (f.attrs.length + f.deps.length + 15) ∧
    (write f)[(f.attrs.length + f.deps.length + 15) - 1]? = some (.names (f.indep :: f.deps.map (·.name))) ∧
    (write f).drop (f.attrs.length + f.deps.length + 15) = (List.range (nrec f)).map (dataLine f) := by
  refine ⟨?_, ?_, ?_⟩
  · rw [at1 f h7 0 (by omega)]; simp [seg1, getFirst]
  · have : f.attrs.length + f.deps.length + 15 - 1 = 14 + f.deps.length + f.attrs.length := by omega
    rw [this]; exact at5 f h7
  · have : f.attrs.length + f.deps.length + 15 = 15 + f.deps.length + f.attrs.length := by omega
    rw [this]; exact drop_data f h7

/-- **declared counts equal actual ones**: line 10 holds the number of description lines that follow line 12,
line 12 has one code per variable, and the user-comment count is the number of attribute lines -/
theorem declared_counts (f : File) (h7 : f.head.length = 7) :
    (write f)[9]? = some (.count f.deps.length) ∧
    (write f)[11]? = some (.codes (f.deps.map (fun v => (v.codeStr, v.code)))) ∧
    (∀ i (hi : i < f.deps.length), (write f)[12 + i]? = some (.desc f.deps[i].name f.deps[i].unit)) ∧
    (write f)[12 + f.deps.length]? = some (.count 0) ∧
    (write f)[13 + f.deps.length]? = some (.count f.attrs.length) ∧
    (∀ i (hi : i < f.attrs.length), (write f)[14 + f.deps.length + i]? = some (.attr f.attrs[i].1 f.attrs[i].2)) := by
  refine ⟨?_, ?_, ?_, ?_, ?_, ?_⟩
  · rw [at1 f h7 9 (by omega)]
    simp [seg1, List.getElem?_append, h7]
  · rw [at1 f h7 11 (by omega)]
    simp [seg1, List.getElem?_append, h7]
  · intro i hi
    rw [at2 f h7 i hi]; simp [seg2, hi]
  · have := at3 f h7 0 (by omega)
    simp only [Nat.add_zero] at this
    rw [this]; rfl
  · have := at3 f h7 1 (by omega)
    have e : 12 + f.deps.length + 1 = 13 + f.deps.length := by omega
    rw [e] at this
    rw [this]; rfl
  · intro i hi
    rw [at4 f h7 i hi]; simp [seg4, hi]


/-! ### reading what was written -/

theorem mapM_some_of_forall {α β} (g : α → Option β) (r : α → β) :
    ∀ (xs : List α), (∀ x ∈ xs, g x = some (r x)) → xs.mapM g = some (xs.map r) := by
  intro xs
  induction xs with
  | nil => intro _; rfl
  | cons a as ih =>
    intro h
    rw [List.mapM_cons, h a (by simp), ih (fun x hx => h x (by simp [hx]))]
    rfl

theorem range_map_getD {α} (l : List α) (d : α) : (List.range l.length).map (fun i => l.getD i d) = l := by
  apply List.ext_getElem
  · simp
  · intro i h1 h2
    simp only [List.length_map, List.length_range] at h1
    simp [List.getD_eq_getElem?_getD, List.getElem?_eq_getElem h1]

/-- the cell read back for a written cell: missing iff it was missing, provided an unmasked value is not
the code itself -/
theorem mask_preserved (v : DVar) (c : Option Rat) (h : c ≠ some v.code) : inCell v.code (outCell v c) = c := by
  cases c with
  | none => simp [outCell, inCell]
  | some x =>
    have : x ≠ v.code := fun e => h (by rw [e])
    simp [outCell, inCell, this]

/-- well-formed: seven free-text lines, one cell per record in every variable, no unmasked value equal to
the variable's missing code -/
structure WF (f : File) : Prop where
  head : f.head.length = 7
  cells : ∀ v ∈ f.deps, v.cells.length = nrec f
  nocoll : ∀ v ∈ f.deps, ∀ c ∈ v.cells, c ≠ some v.code

/-- what a reader returns: '/' in column names replaced, the independent variable's unit defaulting to its
name -/
def normalize (f : File) : File :=
  { f with indepUnit := some (rUnit f.indep (wUnit f)),
           deps := f.deps.map (fun v => { v with name := subName v.name }) }

theorem rows_eq (f : File) (h7 : f.head.length = 7) :
    ((write f).drop (f.attrs.length + f.deps.length + 15)).mapM getData =
      some ((List.range (nrec f)).map (fun i =>
        (f.indepCells.getD i 0) :: f.deps.map (fun v => outCell v (v.cells.getD i none)))) := by
  rw [(header_count f h7).2.2, List.mapM_map]
  have := mapM_some_of_forall (fun i => getData (dataLine f i))
    (fun i => (f.indepCells.getD i 0) :: f.deps.map (fun v => outCell v (v.cells.getD i none)))
    (List.range (nrec f)) (by intro i _; rfl)
  exact this


/-- **reading what was written**: for every well-formed file, `read (write f)` is the file itself — same
header lines, names in the same order, units, missing codes (spelling and value), masks and values, and the
same attributes — up to the two normalisations of `normalize`. -/
theorem read_write (f : File) (h : WF f) : read (write f) = some (normalize f) := by
  have h7 := h.head
  obtain ⟨hfirst, hnames, _⟩ := header_count f h7
  obtain ⟨h9, h11, hdesc, hsp, hus, hattr⟩ := declared_counts f h7
  have hcl : (f.deps.map (fun v => (v.codeStr, v.code))).length = f.deps.length := by simp
  have e1 : (List.range 7).mapM (fun i => getText (write f)[i + 1]?) = some f.head := by
    have := mapM_some_of_forall (fun i => getText (write f)[i + 1]?) (fun i => f.head.getD i "") (List.range 7)
      (by
        intro i hi
        have hi' : i < 7 := List.mem_range.mp hi
        rw [at1 f h7 (i + 1) (by omega)]
        have : (seg1 f)[i + 1]? = some (.text (f.head.getD i "")) := by
          simp only [seg1, List.append_assoc, List.cons_append, List.nil_append, List.getElem?_cons_succ]
          rw [List.getElem?_append_left (by simp [h7]; exact hi')]
          simp [List.getD_eq_getElem?_getD, List.getElem?_eq_getElem (show i < f.head.length by omega)]
        rw [this]; rfl)
    rw [this, ← h7, range_map_getD]
  have e2 : getIndep (write f)[8]? = some (f.indep, wUnit f) := by
    rw [at1 f h7 8 (by omega)]
    simp [seg1, List.getElem?_append, h7, getIndep]
  have e3 : getCount (write f)[9]? = some f.deps.length := by rw [h9]; rfl
  have e4 : getScales (write f)[10]? = some f.deps.length := by
    rw [at1 f h7 10 (by omega)]
    simp [seg1, List.getElem?_append, h7, getScales]
  have e5 : getCodes (write f)[11]? = some (f.deps.map (fun v => (v.codeStr, v.code))) := by rw [h11]; rfl
  have e6 : (List.range f.deps.length).mapM (fun i => getDesc (write f)[12 + i]?) =
      some (f.deps.map (fun v => (v.name, v.unit))) := by
    have := mapM_some_of_forall (fun i => getDesc (write f)[12 + i]?)
      (fun i => ((f.deps.map (fun v => (v.name, v.unit))).getD i ("", ""))) (List.range f.deps.length)
      (by
        intro i hi
        have hi' : i < f.deps.length := List.mem_range.mp hi
        rw [hdesc i hi']
        simp [getDesc, List.getD_eq_getElem?_getD, hi'])
    rw [this]
    have hl : (f.deps.map (fun v => (v.name, v.unit))).length = f.deps.length := by simp
    conv_lhs => rw [← hl]
    rw [range_map_getD]
  have e7 : getCount (write f)[12 + f.deps.length]? = some 0 := by rw [hsp]; rfl
  have e8 : getCount (write f)[13 + f.deps.length]? = some f.attrs.length := by rw [hus]; rfl
  have hN : f.attrs.length + f.deps.length + 15 - 1 - (14 + f.deps.length) = f.attrs.length := by omega
  have e9 : (List.range f.attrs.length).mapM (fun i => getAttr (write f)[14 + f.deps.length + i]?) =
      some f.attrs := by
    have := mapM_some_of_forall (fun i => getAttr (write f)[14 + f.deps.length + i]?)
      (fun i => f.attrs.getD i ("", "")) (List.range f.attrs.length)
      (by
        intro i hi
        have hi' : i < f.attrs.length := List.mem_range.mp hi
        rw [hattr i hi']
        simp [getAttr, List.getD_eq_getElem?_getD, hi'])
    rw [this, range_map_getD]
  have e10 : getNames (write f)[f.attrs.length + f.deps.length + 15 - 1]? =
      some (f.indep :: f.deps.map (·.name)) := by rw [hnames]; rfl
  have e11 := rows_eq f h7
  unfold Icartt.read
  simp only [hfirst, e1, e2, e3, e4, e5, hcl, e6, e7, e8, hN, e9, e10, e11, Option.bind_eq_bind, Option.bind_some,
    Option.pure_def, ne_eq, not_true_eq_false, if_false, List.length_cons, List.length_map]
  -- the two consistency checks pass
  have hc1 : ¬ (f.deps.length + 1 ≠ f.deps.length + 1) := by simp
  have hc2 : ((List.range (nrec f)).map (fun i =>
      (f.indepCells.getD i 0) :: f.deps.map (fun v => outCell v (v.cells.getD i none)))).any
      (fun r => r.length ≠ f.deps.length + 1) = false := by
    rw [List.any_eq_false]
    intro r hr
    obtain ⟨i, _, rfl⟩ := List.mem_map.mp hr
    simp
  simp only [hc2, Bool.false_eq_true, if_false, not_true_eq_false]
  -- the record
  simp only [normalize, Option.some.injEq]
  have hic : ((List.range (nrec f)).map (fun i =>
      (f.indepCells.getD i 0) :: f.deps.map (fun v => outCell v (v.cells.getD i none)))).map
      (fun r => r.getD 0 0) = f.indepCells := by
    rw [List.map_map]
    have : ((fun r : List Rat => r.getD 0 0) ∘ fun i =>
        (f.indepCells.getD i 0) :: f.deps.map (fun v => outCell v (v.cells.getD i none))) =
        fun i => f.indepCells.getD i 0 := by
      funext i; simp
    rw [this]
    exact range_map_getD f.indepCells 0
  have hdeps : mkDeps ((f.indep :: f.deps.map (·.name)).map subName) (f.deps.map (fun v => (v.codeStr, v.code)))
      (f.deps.map (fun v => (v.name, v.unit)))
      ((List.range (nrec f)).map (fun i =>
        (f.indepCells.getD i 0) :: f.deps.map (fun v => outCell v (v.cells.getD i none)))) =
      f.deps.map (fun v => { v with name := subName v.name }) := by
    unfold mkDeps
    apply List.ext_getElem
    · simp
    · intro j h1 h2
      have hj : j < f.deps.length := by simpa using h1
      simp only [List.getElem_map, List.getElem_range, List.map_map]
      have hcells : (List.map ((inCell (f.deps[j]).code) ∘ (fun r : List Rat => r.getD (j + 1) 0) ∘ fun i =>
          (f.indepCells.getD i 0) :: f.deps.map (fun v => outCell v (v.cells.getD i none))) (List.range (nrec f))) =
          (f.deps[j]).cells := by
        have hlen := h.cells _ (List.getElem_mem hj)
        have : ((inCell (f.deps[j]).code) ∘ (fun r : List Rat => r.getD (j + 1) 0) ∘ fun i =>
            (f.indepCells.getD i 0) :: f.deps.map (fun v => outCell v (v.cells.getD i none))) =
            fun i => inCell (f.deps[j]).code (outCell (f.deps[j]) ((f.deps[j]).cells.getD i none)) := by
          funext i
          simp [List.getD_eq_getElem?_getD, hj]
        rw [this, ← hlen]
        apply List.ext_getElem
        · simp
        · intro i hi1 hi2
          have hi : i < (f.deps[j]).cells.length := by simpa using hi1
          simp only [List.getElem_map, List.getElem_range, List.getD_eq_getElem?_getD,
            List.getElem?_eq_getElem hi, Option.getD_some]
          exact mask_preserved _ _ (h.nocoll _ (List.getElem_mem hj) _ (List.getElem_mem hi))
      simp only [List.getD_eq_getElem?_getD] at hcells
      simp [List.getD_eq_getElem?_getD, hj, hcells]
  rw [hic, hdeps]


theorem wf_normalize (f : File) (h : WF f) : WF (normalize f) := by
  refine ⟨h.head, ?_, ?_⟩
  · intro v hv
    simp only [normalize, List.mem_map] at hv
    obtain ⟨w, hw, rfl⟩ := hv
    exact h.cells w hw
  · intro v hv c hc
    simp only [normalize, List.mem_map] at hv
    obtain ⟨w, hw, rfl⟩ := hv
    exact h.nocoll w hw c hc

/-- **a second write/read cycle changes no data**: what is read from a file written from the first reading
has the same values, masks, missing codes and units -/
theorem second_cycle (f : File) (h : WF f) :
    ∃ g g', Icartt.read (write f) = some g ∧ Icartt.read (write g) = some g' ∧
      g'.indepCells = g.indepCells ∧ g'.deps.map (·.cells) = g.deps.map (·.cells) ∧
      g'.deps.map (·.code) = g.deps.map (·.code) ∧ g'.deps.map (·.unit) = g.deps.map (·.unit) ∧
      g'.deps.map (·.codeStr) = g.deps.map (·.codeStr) := by
  refine ⟨normalize f, normalize (normalize f), read_write f h, read_write _ (wf_normalize f h), ?_⟩
  simp [normalize, List.map_map, Function.comp_def]

/-- the hypotheses are met by a real file: two records, two variables (one name with '/'), a missing cell,
one attribute -/
def exFile : File :=
  { head := ["Doe, Jane", "Org", "Src", "Mission", "1, 1", "2019, 07, 04 2020, 01, 02", "60"],
    indep := "Start_UTC", indepUnit := some "s", indepCells := [3600, 3660],
    deps := [⟨"O3", "ppbv", "-9999", -9999, [some (3/2), none]⟩, ⟨"Alt/m", "m", "-99999999", -99999999, [some 0, some 1234567]⟩],
    attrs := [("PLATFORM", "DC8")] }

theorem exFile_wf : WF exFile := by
  refine ⟨rfl, ?_, ?_⟩
  · intro v hv
    simp only [exFile, List.mem_cons, List.mem_nil_iff, or_false] at hv
    rcases hv with rfl | rfl <;> rfl
  · intro v hv c hc
    simp only [exFile, List.mem_cons, List.mem_nil_iff, or_false] at hv
    rcases hv with rfl | rfl
    · simp only [List.mem_cons, List.mem_nil_iff, or_false] at hc
      rcases hc with rfl | rfl <;> decide +kernel
    · simp only [List.mem_cons, List.mem_nil_iff, or_false] at hc
      rcases hc with rfl | rfl <;> decide +kernel

example : Icartt.read (write exFile) = some (normalize exFile) := read_write exFile exFile_wf

/-- **the reader is driven by the declared count**: if the first line declared one line less than the writer
produced, the reader would look for the column names on an attribute line and fail — the count is not
redundant information. -/
theorem wrong_count_rejected :
    Icartt.read ((Line.first 17) :: (write exFile).tail) = none ∧
    Icartt.read (write exFile) ≠ none := by
  constructor
  · decide +kernel
  · rw [read_write exFile exFile_wf]; simp

end Props.C19
