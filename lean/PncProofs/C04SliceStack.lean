import PncProofs.C04SplitN
open PFile Arr PySlice
namespace Props.C04

/-! ### slicing the stack at a piece's extent -/

theorem hasShape_node_of {α} (m : Nat) (rest : List Nat) (a : Arr α) (h : hasShape (m :: rest) a = true) :
    ∃ xs, a = .node xs ∧ xs.length = m ∧ hasShapeL rest xs = true := by
  cases a with
  | leaf _ => simp [hasShape] at h
  | node xs =>
    simp only [hasShape, Bool.and_eq_true, beq_iff_eq] at h
    exact ⟨xs, rfl, h.1, h.2⟩

/-- two arrays whose shapes differ at most in axis `k` can be concatenated along `k` -/
theorem compat_of_shapes {α} : ∀ (k : Nat) (sh : List Nat) (m : Nat) (a b : Arr α), k < sh.length →
    hasShape sh a = true → hasShape (sh.set k m) b = true → Compat k (sh.getD k 0) a b
  | _, [], _, _, _, hk, _, _ => by simp at hk
  | 0, n :: sh, m, a, b, _, ha, hb => by
    obtain ⟨xs, rfl, hx, _⟩ := hasShape_node_of n sh a ha
    simp only [List.set_cons_zero] at hb
    obtain ⟨ys, rfl, _, _⟩ := hasShape_node_of m sh b hb
    simpa [Compat] using hx
  | k + 1, n :: sh, m, a, b, hk, ha, hb => by
    obtain ⟨xs, rfl, hx, hxs⟩ := hasShape_node_of n sh a ha
    simp only [List.set_cons_succ] at hb
    obtain ⟨ys, rfl, hy, hys⟩ := hasShape_node_of n (sh.set k m) b hb
    simp only [Compat, List.getD_cons_succ]
    have hk' : k < sh.length := by simpa using hk
    have hlen : xs.length = ys.length := by omega
    clear ha hb hx hy hk
    induction xs generalizing ys with
    | nil =>
      cases ys with
      | nil => exact List.Forall₂.nil
      | cons y ys => simp at hlen
    | cons x xs ih =>
      cases ys with
      | nil => simp at hlen
      | cons y ys =>
        simp only [hasShapeL, Bool.and_eq_true] at hxs hys
        refine List.Forall₂.cons (compat_of_shapes k sh m x y hk' hxs.1 hys.1) ?_
        exact ih hxs.2 ys hys.2 (by simpa using hlen)

/-- **the first piece's extent of a concatenation is the first piece** (as the orthogonal window selection that
`sliceDimensions` performs) -/
theorem window_concat_left {α} (sh : List Nat) (k m : Nat) (a b : Arr α) (hk : k < sh.length)
    (ha : hasShape sh a = true) (hb : hasShape (sh.set k m) b = true) :
    orth (windowSels (sh.set k (sh.getD k 0 + m)) k 0 (sh.getD k 0)) (concat k a b) = a := by
  have hs := concat_shape k sh m a b hk ha hb
  have hk' : k < (sh.set k (sh.getD k 0 + m)).length := by simpa using hk
  have hget : (sh.set k (sh.getD k 0 + m)).getD k 0 = sh.getD k 0 + m := by
    simp [List.getD, List.getElem?_set_self hk]
  rw [orth_window _ k _ 0 (sh.getD k 0) hs hk' (by rw [hget]; omega)]
  have : (fun (xs : List (Arr α)) => (xs.drop 0).take (sh.getD k 0)) = List.take (sh.getD k 0) := by
    funext xs
    simp
  rw [this]
  exact take_concat _ k a b (compat_of_shapes k sh m a b hk ha hb)

/-- … and the second piece's extent is the second piece -/
theorem window_concat_right {α} (sh : List Nat) (k m : Nat) (a b : Arr α) (hk : k < sh.length)
    (ha : hasShape sh a = true) (hb : hasShape (sh.set k m) b = true) :
    orth (windowSels (sh.set k (sh.getD k 0 + m)) k (sh.getD k 0) m) (concat k a b) = b := by
  have hs := concat_shape k sh m a b hk ha hb
  have hk' : k < (sh.set k (sh.getD k 0 + m)).length := by simpa using hk
  have hget : (sh.set k (sh.getD k 0 + m)).getD k 0 = sh.getD k 0 + m := by
    simp [List.getD, List.getElem?_set_self hk]
  rw [orth_window _ k _ (sh.getD k 0) m hs hk' (by rw [hget])]
  have hc : atAxis (fun (xs : List (Arr α)) => (xs.drop (sh.getD k 0)).take m) k (concat k a b) =
      atAxis (List.drop (sh.getD k 0)) k (concat k a b) := by
    apply atAxis_congr _ _ _ k _ hs hk'
    intro xs hxs
    apply List.take_of_length_le
    rw [hget] at hxs
    simp only [List.length_drop]
    omega
  rw [hc]
  exact drop_concat _ k a b (compat_of_shapes k sh m a b hk ha hb)

theorem dimLen_of_dim? (f : File) (k : String) (d : Dim) (h : f.dim? k = some d) : f.dimLen k = d.len := by
  unfold File.dimLen
  rw [h]
  rfl

/-- dimension lengths of a stack of two files: the stack dimension has the sum, every other dimension of the first file
has its length in the first file, which is also its length in the second -/
theorem stacked_dimLen (a b r : File) (sd : String) (hna : Props.C01.DimsNodup a) (hr : stackFiles [a, b] sd = .ok r) :
    r.dimLen sd = a.dimLen sd + b.dimLen sd ∧
      ∀ k, k ≠ sd → (a.dim? k).isSome = true → r.dimLen k = a.dimLen k ∧ b.dimLen k = a.dimLen k := by
  obtain ⟨vars, _, hrr, hshared, _⟩ := Props.C01.stack_ok a [b] sd r hr
  subst hrr
  refine ⟨?_, ?_⟩
  · rw [dimLen_of_dim? _ _ _ (Props.C01.stacked_dim_sd _ _ sd _ rfl _ _)]
    simp
  · intro k hk hsome
    cases hd : a.dim? k with
    | none => rw [hd] at hsome; simp at hsome
    | some d =>
      have hmem : d ∈ a.dims := List.mem_of_find?_eq_some hd
      have hname : d.name = k := by
        have := List.find?_some hd
        simpa using this
      obtain ⟨e, he, hen⟩ := hshared a (by simp) d hmem (by rw [hname]; exact hk)
      have hfacts := Props.C01.shared_facts [a, b] a sd e he
      have hre := Props.C01.stacked_dim_shared [a, b] a sd hna
        { name := sd, len := ([a, b].map (·.dimLen sd)).foldl (· + ·) 0, unlim := ((a.dim? sd).map (·.unlim)).getD false }
        vars a.attrs e he
      have hek : e.name = k := by rw [hen, hname]
      rw [hek] at hre
      have h1 := hfacts.2.2 a (by simp)
      have h2 := hfacts.2.2 b (by simp)
      rw [hek] at h1 h2
      refine ⟨?_, by rw [h2, h1]⟩
      rw [h1]
      exact dimLen_of_dim? _ _ _ hre

/-- a variable without the cut dimension is not changed by the cut (shape hypothesis only) -/
theorem cutVar_noSd' (f : File) (sd : String) (l : List Nat) (v : Var) (hs : hasShape (v.dims.map f.dimLen) v.data = true)
    (h : sd ∉ v.dims) : cutVar f sd l v = v := by
  unfold cutVar
  have h2 : v.dims.map (fun k => if k == sd then l else List.range (f.dimLen k)) = (v.dims.map f.dimLen).map List.range := by
    rw [List.map_map]
    apply List.map_congr_left
    intro k hk
    have : (k == sd) = false := by
      have hne : k ≠ sd := fun e => h (by rw [← e]; exact hk)
      simpa using hne
    simp [this]
  rw [h2, orth_full_id (v.dims.map f.dimLen) v.data hs]

/-- **slicing the stack at a piece's extent, one variable.** `a`, `b` well-formed, `stack [a, b]` along `sd` returned `r`;
`v` a variable of `a` with `sd` on exactly one axis. Whatever `stack` made of `v`: the second file has a variable `w` of that
name, and if `w` has the dimension tuple of `v`, then the cut of the stacked variable to `[0, |a|)` along `sd` is `v` and the
cut to `[|a|, |a| + |b|)` has the cells of `w`. -/
theorem slice_of_stackVar (a b r : File) (sd : String) (hwa : Props.C01.WF a) (hwb : Props.C01.WF b)
    (hna : Props.C01.DimsNodup a) (hvn : NamesNodup a) (hr : stackFiles [a, b] sd = .ok r) (v : Var) (hv : v ∈ a.vars)
    (hone : (v.dims.filter (· == sd)).length = 1) (y : Var) (hy : stackVar [a, b] sd v = .ok y) :
    ∃ w, b.var? v.name = some w ∧ (w.dims = v.dims →
      cutVar r sd (List.range' 0 (a.dimLen sd)) y = v ∧
      cutVar r sd (List.range' (a.dimLen sd) (b.dimLen sd)) y = { v with data := w.data }) := by
  have hmem : sd ∈ v.dims := by
    have : 0 < (v.dims.filter (· == sd)).length := by omega
    obtain ⟨k, hk⟩ := List.exists_mem_of_length_pos this
    have := List.mem_filter.mp hk
    have hks : k = sd := by simpa using this.2
    exact hks ▸ this.1
  have hfind : a.var? v.name = some v := by
    unfold File.var?
    exact Props.C01.find?_name_of_mem (fun (x : Var) => x.name) a.vars hvn v hv
  unfold stackVar at hy
  rw [if_neg (by simp [hmem]), if_neg (by omega)] at hy
  simp only [List.mapM_cons, List.mapM_nil, hfind] at hy
  cases hw : b.var? v.name with
  | none =>
    rw [hw] at hy
    simp at hy
  | some w =>
    refine ⟨w, rfl, fun hwd => ?_⟩
    rw [hw] at hy
    simp only [Option.pure_def, Option.bind_eq_bind, Option.bind_some, List.map_cons, List.map_nil] at hy
    have hy' : y = { v with data := concat (v.dims.idxOf sd) v.data w.data } := (Except.ok.inj hy).symm
    subst hy'
    obtain ⟨hsd, hoff⟩ := stacked_dimLen a b r sd hna hr
    have hva := hwa v hv
    have hwmem : w ∈ b.vars := List.mem_of_find?_eq_some hw
    have hvb := hwb w hwmem
    have hk : v.dims.idxOf sd < (v.dims.map a.dimLen).length := by
      simpa using List.idxOf_lt_length_of_mem hmem
    have hlen : (v.dims.map a.dimLen).getD (v.dims.idxOf sd) 0 = a.dimLen sd := by
      rw [List.getD_eq_getElem?_getD, List.getElem?_map, List.getElem?_eq_getElem (by simpa using hk)]
      simp [List.getElem_idxOf]
    have hcont : v.dims.contains sd = true := by simpa using hmem
    -- shapes: under r and under b the dimension tuple of v differs from that under a only at the axis of sd
    have hshR : v.dims.map r.dimLen = (v.dims.map a.dimLen).set (v.dims.idxOf sd) (a.dimLen sd + b.dimLen sd) := by
      rw [← hsd]
      exact Props.C01.map_set_idxOf sd r.dimLen a.dimLen v.dims (fun k hk hne => (hoff k hne (hva.1 k hk)).1) hcont (by omega)
    have hshB : v.dims.map b.dimLen = (v.dims.map a.dimLen).set (v.dims.idxOf sd) (b.dimLen sd) :=
      Props.C01.map_set_idxOf sd b.dimLen a.dimLen v.dims (fun k hk hne => (hoff k hne (hva.1 k hk)).2) hcont (by omega)
    have ha : hasShape (v.dims.map a.dimLen) v.data = true := hva.2
    have hb : hasShape ((v.dims.map a.dimLen).set (v.dims.idxOf sd) (b.dimLen sd)) w.data = true := by
      rw [← hshB, ← hwd]
      exact hvb.2
    have hwA := cutSels_window r.dimLen sd 0 (a.dimLen sd) v.dims hone
    have hwB := cutSels_window r.dimLen sd (a.dimLen sd) (b.dimLen sd) v.dims hone
    unfold cutSels at hwA hwB
    rw [hshR] at hwA hwB
    have hL := window_concat_left (v.dims.map a.dimLen) (v.dims.idxOf sd) (b.dimLen sd) v.data w.data hk ha hb
    have hR := window_concat_right (v.dims.map a.dimLen) (v.dims.idxOf sd) (b.dimLen sd) v.data w.data hk ha hb
    rw [hlen] at hL hR
    constructor
    · unfold cutVar
      simp only
      rw [hwA, hL]
    · unfold cutVar
      simp only
      rw [hwB, hR]

theorem mapM_ok_map_of {α β γ} (g : α → Except String β) (h : β → γ) (k : α → γ) : ∀ (l : List α) (out : List β),
    l.mapM g = .ok out → (∀ x ∈ l, ∀ y, g x = .ok y → h y = k x) → out.map h = l.map k
  | [], out, hm, _ => by
    simp only [List.mapM_nil] at hm
    cases hm
    rfl
  | x :: l, out, hm, hx => by
    rw [List.mapM_cons] at hm
    cases hgx : g x with
    | error e => rw [hgx] at hm; cases hm
    | ok y =>
      rw [hgx] at hm
      cases hrest : l.mapM g with
      | error e => rw [hrest] at hm; cases hm
      | ok ys =>
        rw [hrest] at hm
        have : out = y :: ys := by cases hm; rfl
        subst this
        simp only [List.map_cons]
        rw [hx x (by simp) y hgx, mapM_ok_map_of g h k l ys hrest (fun x' hx' => hx x' (by simp [hx']))]

/-- what the second file contributes to a variable of the first: its cells, where the variable has the stack dimension -/
def secondView (b : File) (sd : String) (v : Var) : Var :=
  if v.dims.contains sd then
    match b.var? v.name with
    | some w => { v with data := w.data }
    | none => v
  else v

/-- **C04 (slicing the stack at a piece's extent reproduces the piece; file operations).** `a` meets the invariant, `b` is
well formed, every variable of `b` is one of `a` by name, same-named variables have the same dimension tuple, no variable
of `a` has `sd` twice. If `stack [a, b]` along `sd` returns `r`, then `sliceDimensions(sd=slice(0, |a|))` of `r` returns a
file with exactly the variables (every cell), the length of `sd` and the attributes of `a`, and
`sliceDimensions(sd=slice(|a|, |a| + |b|))` returns a file whose `sd` has the length it has in `b` and whose variables
with `sd` have the cells of the variables of `b` (those without `sd` are the first file's). -/
theorem slice_of_stack (a b r : File) (sd nd : String) (hia : Props.C01.Inv a) (hwb : Props.C01.WF b)
    (hsub : ∀ w ∈ b.vars, ∃ v ∈ a.vars, v.name = w.name)
    (hconf : ∀ v ∈ a.vars, ∀ w, b.var? v.name = some w → w.dims = v.dims)
    (hone : ∀ v ∈ a.vars, (v.dims.filter (· == sd)).length ≤ 1)
    (hr : stackFiles [a, b] sd = .ok r) :
    ∃ p q, sliceFile r [(sd, .slice (some ((0 : Nat) : Int)) (some ((a.dimLen sd : Nat) : Int)) 1)] nd = .ok p ∧
      p.vars = a.vars ∧ p.dimLen sd = a.dimLen sd ∧ p.attrs = a.attrs ∧
      sliceFile r [(sd, .slice (some ((a.dimLen sd : Nat) : Int)) (some ((a.dimLen sd + b.dimLen sd : Nat) : Int)) 1)] nd = .ok q ∧
      q.vars = a.vars.map (secondView b sd) ∧ q.dimLen sd = b.dimLen sd := by
  obtain ⟨hwa, hna, hvn⟩ := hia
  obtain ⟨hsd, hoff⟩ := stacked_dimLen a b r sd hna hr
  obtain ⟨vars, hvars, hrr, _, _⟩ := Props.C01.stack_ok a [b] sd r hr
  have hrsd : (r.dim? sd).isSome = true := by
    rw [hrr, Props.C01.stacked_dim_sd _ _ sd _ rfl]
    rfl
  have hrvars : r.vars = vars := by rw [hrr]
  have hrattrs : r.attrs = a.attrs := by rw [hrr]
  -- the variables that are stacked are those of the first file
  have hfirst : firstByName [] ([a, b].flatMap (·.vars)) = a.vars := by
    simp only [List.flatMap_cons, List.flatMap_nil, List.append_nil]
    have hnod : ((([] : List Var) ++ a.vars).map (fun (x : Var) => x.name)).Nodup := by
      simp only [List.nil_append]
      exact hvn
    rw [firstByName_append, firstByName_fresh _ [] hnod]
    simp only [List.nil_append]
    exact firstByName_known _ _ hsub
  rw [hfirst] at hvars
  -- the two slices
  have hP := sliceFile_cut r sd nd (.slice (some ((0 : Nat) : Int)) (some ((a.dimLen sd : Nat) : Int)) 1)
    (List.range' 0 (a.dimLen sd - 0)) hrsd (by intro x y h; simp at h)
    (by simp only [PSel.indices]; rw [sliceIndices_window _ 0 (a.dimLen sd) (by omega) (by omega)]) rfl
  have hQ := sliceFile_cut r sd nd (.slice (some ((a.dimLen sd : Nat) : Int)) (some ((a.dimLen sd + b.dimLen sd : Nat) : Int)) 1)
    (List.range' (a.dimLen sd) (a.dimLen sd + b.dimLen sd - a.dimLen sd)) hrsd (by intro x y h; simp at h)
    (by simp only [PSel.indices]; rw [sliceIndices_window _ (a.dimLen sd) (a.dimLen sd + b.dimLen sd) (by omega) (by omega)]) rfl
  have e0 : a.dimLen sd - 0 = a.dimLen sd := by omega
  have e1 : a.dimLen sd + b.dimLen sd - a.dimLen sd = b.dimLen sd := by omega
  rw [e0] at hP
  rw [e1] at hQ
  -- one variable
  have hvar : ∀ v ∈ a.vars, ∀ y, stackVar [a, b] sd v = .ok y →
      cutVar r sd (List.range' 0 (a.dimLen sd)) y = v ∧
      cutVar r sd (List.range' (a.dimLen sd) (b.dimLen sd)) y = secondView b sd v := by
    intro v hv y hy
    by_cases hm : sd ∈ v.dims
    · have h1 : (v.dims.filter (· == sd)).length = 1 := by
        have := hone v hv
        have : 0 < (v.dims.filter (· == sd)).length := List.length_pos_of_mem (List.mem_filter.mpr ⟨hm, by simp⟩)
        omega
      obtain ⟨w, hw, hcut⟩ := slice_of_stackVar a b r sd hwa hwb hna hvn hr v hv h1 y hy
      obtain ⟨c1, c2⟩ := hcut (hconf v hv w hw)
      refine ⟨c1, ?_⟩
      rw [c2]
      unfold secondView
      rw [if_pos (by simpa using hm), hw]
    · have hy' : y = v := by
        unfold stackVar at hy
        rw [if_pos (by simpa using hm)] at hy
        exact (Except.ok.inj hy).symm
      subst hy'
      have hs : hasShape (y.dims.map r.dimLen) y.data = true := by
        have : y.dims.map r.dimLen = y.dims.map a.dimLen := by
          apply List.map_congr_left
          intro k hk
          exact (hoff k (fun e => hm (e ▸ hk)) ((hwa y hv).1 k hk)).1
        rw [this]
        exact (hwa y hv).2
      refine ⟨cutVar_noSd' r sd _ y hs hm, ?_⟩
      rw [cutVar_noSd' r sd _ y hs hm]
      unfold secondView
      rw [if_neg (by simpa using hm)]
  refine ⟨_, _, hP, ?_, ?_, hrattrs, hQ, ?_, ?_⟩
  · simp only
    rw [hrvars, ← List.map_id a.vars]
    exact mapM_ok_map_of _ _ _ a.vars vars hvars (fun v hv y hy => (hvar v hv y hy).1)
  · have := cutFile_dimLen_sd r sd (List.range' 0 (a.dimLen sd)) hrsd
    unfold cutFile at this
    rw [this, List.length_range']
  · simp only
    rw [hrvars]
    exact mapM_ok_map_of _ _ _ a.vars vars hvars (fun v hv y hy => (hvar v hv y hy).2)
  · have := cutFile_dimLen_sd r sd (List.range' (a.dimLen sd) (b.dimLen sd)) hrsd
    unfold cutFile at this
    rw [this, List.length_range']

/-- two files to stack: the first with a masked cell and an unlimited `t` of length 2, the second with `t` of length 1 and
other cells in both variables -/
def stackExampleA : File := ⟨[⟨"t", 2, true⟩, ⟨"x", 2, false⟩],
  [⟨"A", ["t", "x"], .node [.node [.leaf (some 1), .leaf (some 2)], .node [.leaf (some 3), .leaf none]], [], false, false⟩,
   ⟨"B", ["x"], .node [.leaf (some 7), .leaf (some 8)], [], false, false⟩], ["NOTE=first"]⟩
def stackExampleB : File := ⟨[⟨"t", 1, true⟩, ⟨"x", 2, false⟩],
  [⟨"A", ["t", "x"], .node [.node [.leaf (some 5), .leaf (some 6)]], [], false, false⟩,
   ⟨"B", ["x"], .node [.leaf (some 9), .leaf (some 10)], [], false, false⟩], ["NOTE=second"]⟩

/-- non-vacuity: the two files meet every hypothesis of `slice_of_stack` along `t`, and `stack` returns -/
example : Props.C01.Inv stackExampleA ∧ Props.C01.WF stackExampleB ∧
    (∀ w ∈ stackExampleB.vars, ∃ v ∈ stackExampleA.vars, v.name = w.name) ∧
    (∀ v ∈ stackExampleA.vars, ∀ w, stackExampleB.var? v.name = some w → w.dims = v.dims) ∧
    (∀ v ∈ stackExampleA.vars, (v.dims.filter (· == "t")).length ≤ 1) ∧
    ((stackFiles [stackExampleA, stackExampleB] "t").toOption.map (fun r => (r.dimLen "t", r.vars.map (fun v => flatten v.data)))) =
      some (3, [[some 1, some 2, some 3, none, some 5, some 6], [some 7, some 8]]) := by
  refine ⟨⟨?_, by unfold Props.C01.DimsNodup; decide, by unfold NamesNodup; decide⟩, ?_, by decide, ?_, by decide,
    by decide +kernel⟩
  · unfold Props.C01.WF Props.C01.VarWF
    decide +kernel
  · unfold Props.C01.WF Props.C01.VarWF
    decide +kernel
  · intro v hv w hw
    simp only [stackExampleA, List.mem_cons, List.mem_nil_iff, or_false] at hv
    rcases hv with rfl | rfl
    · simp [stackExampleB, File.var?, List.find?] at hw
      rw [← hw]
    · simp [stackExampleB, File.var?, List.find?] at hw
      rw [← hw]

/-! ### the extent of any piece of a concatenation of several arrays -/

theorem atAxis_comp {α} (f g : List (Arr α) → List (Arr α)) : ∀ (k : Nat) (a : Arr α),
    atAxis f k (atAxis g k a) = atAxis (fun xs => f (g xs)) k a
  | _, .leaf _ => by simp [atAxis]
  | 0, .node xs => by simp [atAxis]
  | k + 1, .node xs => by
    simp only [atAxis]
    congr 1
    induction xs with
    | nil => rfl
    | cons x xs ih =>
      simp only [atAxisL]
      rw [atAxis_comp f g k x, ih]

/-- a window that lies in the second operand of a concatenation is the window of the second operand -/
theorem window_concat_shift {α} (sh : List Nat) (k m lo len : Nat) (a b : Arr α) (hk : k < sh.length)
    (ha : hasShape sh a = true) (hb : hasShape (sh.set k m) b = true) (hin : lo + len ≤ m) :
    orth (windowSels (sh.set k (sh.getD k 0 + m)) k (sh.getD k 0 + lo) len) (concat k a b) =
      orth (windowSels (sh.set k m) k lo len) b := by
  have hs := concat_shape k sh m a b hk ha hb
  have hk' : k < (sh.set k (sh.getD k 0 + m)).length := by simpa using hk
  have hk'' : k < (sh.set k m).length := by simpa using hk
  have hget : (sh.set k (sh.getD k 0 + m)).getD k 0 = sh.getD k 0 + m := by
    simp [List.getD, List.getElem?_set_self hk]
  have hget' : (sh.set k m).getD k 0 = m := by
    simp [List.getD, List.getElem?_set_self hk]
  rw [orth_window _ k _ (sh.getD k 0 + lo) len hs hk' (by rw [hget]; omega),
    orth_window _ k b lo len hb hk'' (by rw [hget']; exact hin)]
  have : (fun (xs : List (Arr α)) => (xs.drop (sh.getD k 0 + lo)).take len) =
      fun xs => (fun ys => (ys.drop lo).take len) (List.drop (sh.getD k 0) xs) := by
    funext xs
    simp only [List.drop_drop]
  rw [this, ← atAxis_comp (fun ys => (ys.drop lo).take len) (List.drop (sh.getD k 0)) k (concat k a b),
    drop_concat _ k a b (compat_of_shapes k sh m a b hk ha hb)]

/-- start of piece `p` among pieces of the given lengths -/
def offsetOf (lens : List Nat) (p : Nat) : Nat := (lens.take p).sum

theorem offset_add_le : ∀ (lens : List Nat) (p : Nat) (hp : p < lens.length), offsetOf lens p + lens[p] ≤ lens.sum
  | [], _, hp => by simp at hp
  | n :: lens, 0, _ => by simp [offsetOf]
  | n :: lens, p + 1, hp => by
    have := offset_add_le lens p (by simpa using hp)
    simp only [offsetOf, List.take_succ_cons, List.sum_cons, List.getElem_cons_succ] at this ⊢
    omega

theorem set_set_getD (sh : List Nat) (k n m : Nat) (hk : k < sh.length) :
    (sh.set k n).set k m = sh.set k m ∧ (sh.set k n).getD k 0 = n ∧ k < (sh.set k n).length := by
  refine ⟨List.set_set .., ?_, by simpa using hk⟩
  simp [List.getD, List.getElem?_set_self hk]

/-- shape of a concatenation of several arrays: the lengths along the axis add up -/
theorem concatAllG_shape {α} (sh : List Nat) (k : Nat) (hk : k < sh.length) :
    ∀ (parts : List (Arr α × Nat)), parts ≠ [] → (∀ q ∈ parts, hasShape (sh.set k q.2) q.1 = true) →
      hasShape (sh.set k ((parts.map (·.2)).sum)) (concatAllG k (parts.map (·.1))) = true
  | [], h, _ => absurd rfl h
  | [q], _, hq => by
    simpa [concatAllG] using hq q (by simp)
  | q :: q' :: rest, _, hq => by
    have ih := concatAllG_shape sh k hk (q' :: rest) (by simp) (fun r hr => hq r (List.mem_cons_of_mem _ hr))
    obtain ⟨e1, e2, e3⟩ := set_set_getD sh k q.2 (((q' :: rest).map (·.2)).sum) hk
    have := concat_shape k (sh.set k q.2) (((q' :: rest).map (·.2)).sum) q.1 (concatAllG k ((q' :: rest).map (·.1))) e3
      (hq q (by simp)) (by rw [e1]; exact ih)
    rw [e2, List.set_set] at this
    simpa [concatAllG] using this

/-- **slicing a stack of any number of arrays at the extent of piece `p` gives piece `p`**: arrays whose shapes agree off
axis `k` (lengths `lens` along `k`), concatenated in order along `k`; the window `[offset p, offset p + lens[p])` of the
result is the `p`-th array -/
theorem window_of_concatAll {α} (sh : List Nat) (k : Nat) (hk : k < sh.length) :
    ∀ (parts : List (Arr α × Nat)), (∀ q ∈ parts, hasShape (sh.set k q.2) q.1 = true) →
    ∀ (p : Nat) (hp : p < parts.length),
      orth (windowSels (sh.set k ((parts.map (·.2)).sum)) k (offsetOf (parts.map (·.2)) p) (parts[p].2))
        (concatAllG k (parts.map (·.1))) = parts[p].1
  | [], _, p, hp => by simp at hp
  | [q], hq, 0, _ => by
    have hs := hq q (by simp)
    have hk' : k < (sh.set k q.2).length := by simpa using hk
    have hget : (sh.set k q.2).getD k 0 = q.2 := by simp [List.getD, List.getElem?_set_self hk]
    simp only [List.map_cons, List.map_nil, List.sum_cons, List.sum_nil, Nat.add_zero, offsetOf, List.take_zero,
      concatAllG, List.getElem_cons_zero]
    rw [orth_window _ k q.1 0 q.2 hs hk' (by rw [hget]; omega)]
    have hc : atAxis (fun (xs : List (Arr α)) => (xs.drop 0).take q.2) k q.1 = atAxis (fun xs => xs) k q.1 := by
      apply atAxis_congr _ _ _ k _ hs hk'
      intro xs hxs
      rw [hget] at hxs
      simp only [List.drop_zero]
      exact List.take_of_length_le (by omega)
    rw [hc]
    exact atAxis_id' _ k q.1 hs hk'
  | [q], _, p + 1, hp => by simp at hp
  | q :: q' :: rest, hq, 0, _ => by
    have hsq := hq q (by simp)
    have hrest : ∀ r ∈ q' :: rest, hasShape (sh.set k r.2) r.1 = true := fun r hr => hq r (List.mem_cons_of_mem _ hr)
    have hshB := concatAllG_shape sh k hk (q' :: rest) (by simp) hrest
    obtain ⟨e1, e2, e3⟩ := set_set_getD sh k q.2 (((q' :: rest).map (·.2)).sum) hk
    have := window_concat_left (sh.set k q.2) k (((q' :: rest).map (·.2)).sum) q.1
      (concatAllG k ((q' :: rest).map (·.1))) e3 hsq (by rw [e1]; exact hshB)
    rw [e2, List.set_set] at this
    simpa [concatAllG, offsetOf] using this
  | q :: q' :: rest, hq, p + 1, hp => by
    have hsq := hq q (by simp)
    have hrest : ∀ r ∈ q' :: rest, hasShape (sh.set k r.2) r.1 = true := fun r hr => hq r (List.mem_cons_of_mem _ hr)
    have hshB := concatAllG_shape sh k hk (q' :: rest) (by simp) hrest
    have hp' : p < (q' :: rest).length := by simpa using hp
    have ih := window_of_concatAll sh k hk (q' :: rest) hrest p hp'
    obtain ⟨e1, e2, e3⟩ := set_set_getD sh k q.2 (((q' :: rest).map (·.2)).sum) hk
    have hle := offset_add_le ((q' :: rest).map (·.2)) p (by simpa using hp')
    have hshift := window_concat_shift (sh.set k q.2) k (((q' :: rest).map (·.2)).sum)
      (offsetOf ((q' :: rest).map (·.2)) p) ((q' :: rest)[p].2) q.1 (concatAllG k ((q' :: rest).map (·.1))) e3 hsq
      (by rw [e1]; exact hshB) (by rw [List.getElem_map] at hle; exact hle)
    rw [e2, List.set_set, e1, ih] at hshift
    have hoff : offsetOf ((q :: q' :: rest).map (·.2)) (p + 1) = q.2 + offsetOf ((q' :: rest).map (·.2)) p := by
      simp [offsetOf, List.take_succ_cons]
    have hsum : ((q :: q' :: rest).map (·.2)).sum = q.2 + ((q' :: rest).map (·.2)).sum := by simp
    rw [hoff, hsum]
    exact hshift

end Props.C04
