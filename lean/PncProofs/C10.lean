import PncModel.Generated.IoapiStd
import PncProofs.IoapiLemmas
/-
C10 — IOAPI metadata stays coherent under every operation.

`Coherent` (PncModel/Ioapi.lean) is the conjunction of the equalities of the property statement.  Every
operation of the model is the sequence of primitive calls of the Python method and ends in the normaliser
`updatemeta`; the theorems below show that each of them maps a coherent state to a coherent state, for ALL
states (any number of variables, steps, layers, any names), as long as one variable remains listed
(`zero_listed_counterexample` shows that this side condition is real — recorded finding) and the time flags
involved are well-formed flags of years 1000–9999 (`TimeOk`, the range of Python's datetime).
-/
namespace Props.C10
open Ioapi Cal TimeDec

/-- start time and every time flag are well-formed and within datetime's year range -/
def TimeOk (s : St) : Prop :=
  GoodFlag s.sdate s.stime ∧ ∀ w rows, s.tflag = some (w, rows) → ∀ r ∈ rows, GoodFlag r.1 r.2

theorem keep_of_coherent {s : St} (h : Coherent s) :
    ∀ w rows, s.tflag = some (w, rows) → rows.length = s.nT ∧ ∀ r ∈ rows.head?, r = (s.sdate, s.stime) := by
  intro w rows ht
  obtain ⟨_, _, ⟨rows', ht', hl, hh⟩, _⟩ := h
  rw [ht] at ht'
  simp only [Option.some.injEq, Prod.mk.injEq] at ht'
  rw [ht'.2]
  exact ⟨hl, hh⟩

/-- copy() -/
theorem coherent_copy (s : St) (h : Coherent s) (ht : TimeOk s) (hn : 1 ≤ (opCopy s).varlist.length) :
    Coherent (opCopy s) := by
  unfold opCopy at *
  have hf : frame (getVarlist (putAll (shell s) s.vars)) = frame s := by simp
  obtain ⟨hg, hT, hL, hR, hC, _, hnr, hnc, hnl, hvg, hsd, hst, _⟩ := frame_eq hf
  obtain ⟨_, _, _, _, hlay, hrc, hv⟩ := h
  have hN := norm_getVarlist (putAll (shell s) s.vars)
  rw [(norm_updatetflag _ false hN).2.1] at hn
  refine coherent_updatetflag _ false hN ⟨?_, ?_, ?_⟩ hn ?_ ?_
  · rw [hnl, hL]; exact hlay
  · intro hgt
    rw [hg] at hgt
    rw [hnr, hnc, hR, hC]
    exact hrc hgt
  · rw [hvg, hL]; exact hv
  · rw [hsd, hst]; exact ht.1
  · intro _ w rows htf
    simp at htf


/-- the common closing argument: an operation that ends in `updatemeta p`, where `p` has the dimensions,
level edges and start time described, and a TFLAG that is absent or has one row per step starting at
SDATE/STIME -/
theorem finish (p : St) (hn : 1 ≤ (updatemeta p).varlist.length) (hv : p.vglvls.length = p.nL + 1)
    (hstart : GoodFlag p.sdate p.stime)
    (hkeep : ∀ w rows, p.tflag = some (w, rows) →
      rows.length = p.nT ∧ ∀ r ∈ rows.head?, r = (p.sdate, p.stime)) :
    Coherent (updatemeta p) := by
  rw [varlist_updatemeta] at hn
  exact coherent_updatemeta p hn hv hstart hkeep

/-- subsetVariables(keys) -/
theorem coherent_subset (s : St) (keys : List String) (h : Coherent s) (ht : TimeOk s)
    (hn : 1 ≤ (opSubset s keys).varlist.length) : Coherent (opSubset s keys) := by
  unfold opSubset at *
  obtain ⟨_, _, _, _, _, _, hv⟩ := h
  obtain ⟨_, _, hL, _, _, _, _, _, _, hvg, hsd, hst, _⟩ := frame_eq (frame_subsetPre s keys)
  refine finish _ hn ?_ ?_ ?_
  · rw [hvg, hL]; exact hv
  · rw [hsd, hst]; exact ht.1
  · intro w rows htf
    rw [tflag_subsetPre] at htf
    cases htf


/-- renameVariable(old, new) -/
theorem coherent_rename (s s' : St) (old new : String) (h : Coherent s) (ht : TimeOk s)
    (hs : opRename s old new = some s') (hn : 1 ≤ s'.varlist.length) : Coherent s' := by
  unfold opRename at hs
  cases hf : s.vars.find? (fun v => v.name == old) with
  | none => simp [hf] at hs
  | some v =>
    simp only [hf, Option.bind_eq_bind, Option.bind_some, Option.pure_def, Option.some.injEq] at hs
    subst hs
    have hv := h.2.2.2.2.2.2
    obtain ⟨_, hT, hL, _, _, _, _, _, _, hvg, hsd, hst, _⟩ := frame_eq (frame_renamePre s v old new)
    refine finish _ hn ?_ ?_ ?_
    · rw [hvg, hL]; exact hv
    · rw [hsd, hst]; exact ht.1
    · intro w rows htf
      rw [tflag_renamePre] at htf
      rw [hT, hsd, hst]
      exact keep_of_coherent h w rows htf

/-- what `opSubset` leaves for a following step (used by eval) -/
theorem subset_core (s : St) (keys : List String) (ht : TimeOk s) :
    core (opSubset s keys) = core s ∧
    ∃ w rows, (opSubset s keys).tflag = some (w, rows) ∧ rows.length = s.nT ∧
      ∀ r ∈ rows.head?, r = (s.sdate, s.stime) := by
  unfold opSubset
  obtain ⟨_, hT, _, _, _, _, _, _, _, _, hsd, hst, _⟩ := frame_eq (frame_subsetPre s keys)
  have hstart : GoodFlag (subsetPre s keys).sdate (subsetPre s keys).stime := by rw [hsd, hst]; exact ht.1
  constructor
  · rw [core_updatemeta _ hstart]
    exact core_of_frame (frame_subsetPre s keys)
  · have := tflag_updatemeta (subsetPre s keys) hstart (by
      intro w rows htf
      rw [tflag_subsetPre] at htf
      cases htf)
    rw [hT, hsd, hst] at this
    exact this

/-- eval('new = f(src)', inplace) -/
theorem coherent_eval (s s' : St) (new src : String) (ip : Bool) (h : Coherent s) (ht : TimeOk s)
    (hs : opEval s new src ip = some s') (hn : 1 ≤ s'.varlist.length) : Coherent s' := by
  unfold opEval at hs
  cases hf : s.vars.find? (fun v => v.name == src) with
  | none => simp [hf] at hs
  | some v =>
    simp only [hf, Option.bind_eq_bind, Option.bind_some, Option.pure_def, Option.some.injEq] at hs
    subst hs
    have hv := h.2.2.2.2.2.2
    cases ip with
    | true =>
      simp only [if_true] at hn ⊢
      obtain ⟨_, hT, hL, _, _, _, _, _, _, hvg, hsd, hst, _⟩ :=
        frame_eq (frame_evalInPre s { name := new, dims := v.dims })
      refine finish _ hn ?_ ?_ ?_
      · rw [hvg, hL]; exact hv
      · rw [hsd, hst]; exact ht.1
      · intro w rows htf
        rw [tflag_evalInPre] at htf
        rw [hT, hsd, hst]
        exact keep_of_coherent h w rows htf
    | false =>
      simp only [Bool.false_eq_true, if_false] at hn ⊢
      obtain ⟨hc, w0, rows0, htf0, hl0, hh0⟩ := subset_core s [src] ht
      have hfr := core_of_frame (frame_evalOutPre s { name := new, dims := v.dims } src)
      rw [hc] at hfr
      obtain ⟨_, hT, hL, _, _, _, hvg, hsd, hst, _⟩ := core_eq hfr
      refine finish _ hn ?_ ?_ ?_
      · rw [hvg, hL]; exact hv
      · rw [hsd, hst]; exact ht.1
      · intro w rows htf
        rw [tflag_evalOutPre, htf0] at htf
        simp only [Option.some.injEq, Prod.mk.injEq] at htf
        rw [hT, hsd, hst, ← htf.2]
        exact ⟨hl0, hh0⟩


/-- what `copy()` leaves: same frame, a regenerated TFLAG with one row per step starting at SDATE/STIME -/
theorem copy_spec (s : St) (ht : TimeOk s) :
    frame (opCopy s) = frame s ∧
    ∃ w rows, (opCopy s).tflag = some (w, rows) ∧ rows.length = s.nT ∧
      ∀ r ∈ rows.head?, r = (s.sdate, s.stime) := by
  unfold opCopy
  have hf : frame (getVarlist (putAll (shell s) s.vars)) = frame s := by simp
  obtain ⟨_, hT, _, _, _, _, _, _, _, _, hsd, hst, _⟩ := frame_eq hf
  have hstart : GoodFlag (getVarlist (putAll (shell s) s.vars)).sdate
      (getVarlist (putAll (shell s) s.vars)).stime := by rw [hsd, hst]; exact ht.1
  constructor
  · rw [frame_updatetflag _ _ hstart, hf]
  · have := tflag_updatetflag (getVarlist (putAll (shell s) s.vars)) false hstart (by
      intro _ w rows htf
      simp at htf)
    rw [hT, hsd, hst] at this
    exact this

/-- mask(...) -/
theorem coherent_mask (s : St) (h : Coherent s) (ht : TimeOk s) (hn : 1 ≤ (opMask s).varlist.length) :
    Coherent (opMask s) := by
  unfold opMask at *
  have hv := h.2.2.2.2.2.2
  obtain ⟨rows, htf, hl, hh⟩ := h.2.2.1
  have hcn : frame (copyNoVars s) = frame s := by
    unfold copyNoVars
    rw [frame_updatetflag _ _ (by exact ht.1)]
    rfl
  have hfr : frame (maskPre s) = frame s := by
    unfold maskPre
    rw [htf]
    simp only [frame_putTflag, frame_copyVarsInto]
    exact hcn
  have htp : (maskPre s).tflag = some (s.varlist.length, rows) := by
    unfold maskPre
    rw [htf]
    rfl
  obtain ⟨_, hT, hL, _, _, _, _, _, _, hvg, hsd, hst, _⟩ := frame_eq hfr
  refine finish _ hn ?_ ?_ ?_
  · rw [hvg, hL]; exact hv
  · rw [hsd, hst]; exact ht.1
  · intro w rows' htf'
    rw [htp] at htf'
    simp only [Option.some.injEq, Prod.mk.injEq] at htf'
    rw [hT, hsd, hst, ← htf'.2]
    exact ⟨hl, hh⟩

/-- stack(self.copy(), DIM) for DIM = TSTEP or LAY -/
theorem coherent_stack (s s' : St) (d : Dm) (h : Coherent s) (ht : TimeOk s)
    (hs : opStack s d = some s') (hn : 1 ≤ s'.varlist.length) : Coherent s' := by
  unfold opStack at hs
  have hv := h.2.2.2.2.2.2
  obtain ⟨rows, htf, hl, hh⟩ := h.2.2.1
  obtain ⟨hfo, w2, rows2, htf2, hl2, hh2⟩ := copy_spec s ht
  obtain ⟨_, hoT, hoL, _, _, _, _, _, _, hovg, _⟩ := frame_eq hfo
  cases d with
  | T =>
    simp at hs
    subst hs
    have hfr : frame (stackPre s (opCopy s) Dm.T) = { frame s with nT := s.nT + (opCopy s).nT } := by
      simp [stackPre, frame_copyVarsInto]
      rfl
    have htp : (stackPre s (opCopy s) Dm.T).tflag = some (s.varlist.length, rows ++ rows2) := by
      simp [stackPre, tflag_copyVarsInto, htf, htf2]
    have e := congrArg Frame.nT hfr
    have e2 := congrArg Frame.nL hfr
    have e3 := congrArg Frame.vglvls hfr
    have e4 := congrArg Frame.sdate hfr
    have e5 := congrArg Frame.stime hfr
    simp only [frame] at e e2 e3 e4 e5
    refine finish _ hn ?_ ?_ ?_
    · rw [e3, e2]; exact hv
    · rw [e4, e5]; exact ht.1
    · intro w rows' htf'
      rw [htp] at htf'
      simp only [Option.some.injEq, Prod.mk.injEq] at htf'
      rw [e, e4, e5, ← htf'.2, hoT]
      refine ⟨by simp [hl, hl2], ?_⟩
      intro r hr
      cases rows with
      | nil => exact hh2 r (by simpa using hr)
      | cons a as => exact hh r (by simpa using hr)
  | L =>
    simp at hs
    subst hs
    have hfr : frame (stackPre s (opCopy s) Dm.L) =
        { frame s with nL := s.nL + (opCopy s).nL, vglvls := s.vglvls ++ (opCopy s).vglvls.drop 1 } := by
      simp only [stackPre, beq_self_eq_true, if_true, frame_setVglvls, frame_copyVarsInto]
      rfl
    have htp : (stackPre s (opCopy s) Dm.L).tflag = some (s.varlist.length, rows) := by
      simp [stackPre, tflag_copyVarsInto, htf]
    have e := congrArg Frame.nT hfr
    have e2 := congrArg Frame.nL hfr
    have e3 := congrArg Frame.vglvls hfr
    have e4 := congrArg Frame.sdate hfr
    have e5 := congrArg Frame.stime hfr
    simp only [frame] at e e2 e3 e4 e5
    refine finish _ hn ?_ ?_ ?_
    · rw [e3, e2, hovg, hoL]
      simp [hv]
      omega
    · rw [e4, e5]; exact ht.1
    · intro w rows' htf'
      rw [htp] at htf'
      simp only [Option.some.injEq, Prod.mk.injEq] at htf'
      rw [e, e4, e5, ← htf'.2]
      exact ⟨hl, hh⟩
  | R => simp at hs
  | C => simp at hs
  | P => simp at hs


theorem applyLevels_length (f : FnK) (vg : List Rat) (n : Nat) (hv : vg.length = n + 1) (hm : fnLen f n ≠ 0) :
    (applyLevels f vg).length = fnLen f n + 1 := by
  unfold applyLevels
  have h1 : (applyFn f vg.dropLast).length = fnLen f n := by
    rw [applyFn_length]; simp [hv]
  have h2 : (applyFn f (vg.drop 1)).length = fnLen f n := by
    rw [applyFn_length]; simp [hv]
  cases hl : (applyFn f (vg.drop 1)).getLast? with
  | none =>
    rw [List.getLast?_eq_none_iff] at hl
    rw [hl] at h2
    simp at h2
    omega
  | some e => simp [h1]

/-- applyAlongDimensions(DIM=f) -/
theorem coherent_apply (s s' : St) (d : Dm) (f : FnK) (h : Coherent s) (ht : TimeOk s)
    (hs : opApply s d f = some s') (hn : 1 ≤ s'.varlist.length) : Coherent s' := by
  unfold opApply at hs
  by_cases hd : hasDim s d = true
  · by_cases hm : fnLen f (dimLen s d) = 0
    · simp [hd, hm] at hs
    · simp only [hd, hm, Bool.not_true, Bool.false_eq_true, if_false, Option.pure_def, Option.bind_eq_bind,
        Option.bind_some, Option.some.injEq] at hs
      have hv := h.2.2.2.2.2.2
      obtain ⟨rows, htf, hl, hh⟩ := h.2.2.1
      subst hs
      cases d with
      | T =>
        simp only [beq_self_eq_true, if_true] at hn ⊢
        -- p, Y = updatemeta p, X = updatetflag Y true
        have hne2 : (Dm.T == Dm.L) = false := by decide
        have hfr : frame (applyPre s Dm.T f) = { frame s with nT := fnLen f s.nT } := by
          simp only [applyPre, hne2, Bool.false_eq_true, if_false, frame_copyVarsInto]
          rfl
        have e2 := congrArg Frame.nL hfr
        have e3 := congrArg Frame.vglvls hfr
        have e4 := congrArg Frame.sdate hfr
        have e5 := congrArg Frame.stime hfr
        simp only [frame] at e2 e3 e4 e5
        have hsp : GoodFlag (applyPre s Dm.T f).sdate (applyPre s Dm.T f).stime := by rw [e4, e5]; exact ht.1
        have hcY := core_eq (core_updatemeta (applyPre s Dm.T f) hsp)
        obtain ⟨_, hYT, hYL, _, _, _, hYvg, hYsd, hYst, _⟩ := hcY
        have hsY : GoodFlag (updatemeta (applyPre s Dm.T f)).sdate (updatemeta (applyPre s Dm.T f)).stime := by
          rw [hYsd, hYst]; exact hsp
        have hfX := frame_eq (frame_updatetflag (updatemeta (applyPre s Dm.T f)) true hsY)
        obtain ⟨_, hXT, hXL, _, _, _, _, _, _, hXvg, hXsd, hXst, _⟩ := hfX
        obtain ⟨w, rows', hXtf, hXl, hXh⟩ := tflag_updatetflag (updatemeta (applyPre s Dm.T f)) true hsY
          (by intro hc; cases hc)
        refine finish _ hn ?_ ?_ ?_
        · rw [hXvg, hXL, hYvg, hYL, e3, e2]; exact hv
        · rw [hXsd, hXst]; exact hsY
        · intro w2 rows2 htf2
          rw [hXtf] at htf2
          simp only [Option.some.injEq, Prod.mk.injEq] at htf2
          rw [← htf2.2, hXT, hXsd, hXst]
          exact ⟨hXl, hXh⟩
      | L =>
        have hne : (Dm.L == Dm.T) = false := by decide
        simp only [hne, Bool.false_eq_true, if_false] at hn ⊢
        have hfr : frame (applyPre s Dm.L f) =
            { frame s with nL := fnLen f s.nL, vglvls := applyLevels f s.vglvls } := by
          simp only [applyPre, beq_self_eq_true, if_true, frame_setVglvls, frame_copyVarsInto]
          rfl
        have htp : (applyPre s Dm.L f).tflag = some (s.varlist.length, rows) := by
          simp [applyPre, tflag_copyVarsInto, htf, hne]
        have e := congrArg Frame.nT hfr
        have e2 := congrArg Frame.nL hfr
        have e3 := congrArg Frame.vglvls hfr
        have e4 := congrArg Frame.sdate hfr
        have e5 := congrArg Frame.stime hfr
        simp only [frame] at e e2 e3 e4 e5
        refine finish _ hn ?_ ?_ ?_
        · rw [e3, e2]; exact applyLevels_length f s.vglvls s.nL hv hm
        · rw [e4, e5]; exact ht.1
        · intro w2 rows2 htf2
          rw [htp] at htf2
          simp only [Option.some.injEq, Prod.mk.injEq] at htf2
          rw [← htf2.2, e, e4, e5]
          exact ⟨hl, hh⟩
      | R =>
        have hne : (Dm.R == Dm.T) = false := by decide
        have hne2 : (Dm.R == Dm.L) = false := by decide
        simp only [hne, Bool.false_eq_true, if_false] at hn ⊢
        have hfr : frame (applyPre s Dm.R f) = { frame s with nR := fnLen f s.nR } := by
          simp only [applyPre, hne2, Bool.false_eq_true, if_false, frame_copyVarsInto]
          rfl
        have htp : (applyPre s Dm.R f).tflag = some (s.varlist.length, rows) := by
          simp [applyPre, tflag_copyVarsInto, htf, hne, hne2]
        have e := congrArg Frame.nT hfr
        have e2 := congrArg Frame.nL hfr
        have e3 := congrArg Frame.vglvls hfr
        have e4 := congrArg Frame.sdate hfr
        have e5 := congrArg Frame.stime hfr
        simp only [frame] at e e2 e3 e4 e5
        refine finish _ hn ?_ ?_ ?_
        · rw [e3, e2]; exact hv
        · rw [e4, e5]; exact ht.1
        · intro w2 rows2 htf2
          rw [htp] at htf2
          simp only [Option.some.injEq, Prod.mk.injEq] at htf2
          rw [← htf2.2, e, e4, e5]
          exact ⟨hl, hh⟩
      | C =>
        have hne : (Dm.C == Dm.T) = false := by decide
        have hne2 : (Dm.C == Dm.L) = false := by decide
        simp only [hne, Bool.false_eq_true, if_false] at hn ⊢
        have hfr : frame (applyPre s Dm.C f) = { frame s with nC := fnLen f s.nC } := by
          simp only [applyPre, hne2, Bool.false_eq_true, if_false, frame_copyVarsInto]
          rfl
        have htp : (applyPre s Dm.C f).tflag = some (s.varlist.length, rows) := by
          simp [applyPre, tflag_copyVarsInto, htf, hne, hne2]
        have e := congrArg Frame.nT hfr
        have e2 := congrArg Frame.nL hfr
        have e3 := congrArg Frame.vglvls hfr
        have e4 := congrArg Frame.sdate hfr
        have e5 := congrArg Frame.stime hfr
        simp only [frame] at e e2 e3 e4 e5
        refine finish _ hn ?_ ?_ ?_
        · rw [e3, e2]; exact hv
        · rw [e4, e5]; exact ht.1
        · intro w2 rows2 htf2
          rw [htp] at htf2
          simp only [Option.some.injEq, Prod.mk.injEq] at htf2
          rw [← htf2.2, e, e4, e5]
          exact ⟨hl, hh⟩
      | P =>
        have hne : (Dm.P == Dm.T) = false := by decide
        have hne2 : (Dm.P == Dm.L) = false := by decide
        simp only [hne, Bool.false_eq_true, if_false] at hn ⊢
        have hfr : frame (applyPre s Dm.P f) = { frame s with nP := fnLen f s.nP } := by
          simp only [applyPre, hne2, Bool.false_eq_true, if_false, frame_copyVarsInto]
          rfl
        have htp : (applyPre s Dm.P f).tflag = some (s.varlist.length, rows) := by
          simp [applyPre, tflag_copyVarsInto, htf, hne, hne2]
        have e := congrArg Frame.nT hfr
        have e2 := congrArg Frame.nL hfr
        have e3 := congrArg Frame.vglvls hfr
        have e4 := congrArg Frame.sdate hfr
        have e5 := congrArg Frame.stime hfr
        simp only [frame] at e e2 e3 e4 e5
        refine finish _ hn ?_ ?_ ?_
        · rw [e3, e2]; exact hv
        · rw [e4, e5]; exact ht.1
        · intro w2 rows2 htf2
          rw [htp] at htf2
          simp only [Option.some.injEq, Prod.mk.injEq] at htf2
          rw [← htf2.2, e, e4, e5]
          exact ⟨hl, hh⟩
  · simp [hd] at hs


/-- interpSigma(newlevels) -/
theorem coherent_interp (s s' : St) (lv : List Rat) (h : Coherent s) (ht : TimeOk s)
    (hs : opInterp s lv = some s') (hn : 1 ≤ s'.varlist.length) : Coherent s' := by
  unfold opInterp at hs
  by_cases hlv : lv.length < 2
  · simp [hlv] at hs
  · simp only [hlv, if_false, Option.pure_def, Option.bind_eq_bind, Option.bind_some, Option.some.injEq] at hs
    subst hs
    obtain ⟨rows, htf, hl, hh⟩ := h.2.2.1
    -- p0: the generic part of applyAlongDimensions(LAY=...)
    have hfr0 : frame (copyVarsInto (setDim (shell s) Dm.L (lv.length - 1)) s id) =
        { frame s with nL := lv.length - 1 } := by
      rw [frame_copyVarsInto]; rfl
    have htp0 : (copyVarsInto (setDim (shell s) Dm.L (lv.length - 1)) s id).tflag =
        some (s.varlist.length, rows) := by
      simp [tflag_copyVarsInto, htf]
    have e := congrArg Frame.nT hfr0
    have e2 := congrArg Frame.nL hfr0
    have e4 := congrArg Frame.sdate hfr0
    have e5 := congrArg Frame.stime hfr0
    simp only [frame] at e e2 e4 e5
    have hs0 : GoodFlag (copyVarsInto (setDim (shell s) Dm.L (lv.length - 1)) s id).sdate
        (copyVarsInto (setDim (shell s) Dm.L (lv.length - 1)) s id).stime := by rw [e4, e5]; exact ht.1
    obtain ⟨_, h3T, h3L, _, _, _, _, h3sd, h3st, _⟩ := core_eq (core_updatemeta _ hs0)
    obtain ⟨w3, rows3, h3tf, h3l, h3h⟩ := tflag_updatemeta _ hs0 (by
      intro w rows' htf'
      rw [htp0] at htf'
      simp only [Option.some.injEq, Prod.mk.injEq] at htf'
      rw [← htf'.2, e, e4, e5]
      exact ⟨hl, hh⟩)
    refine finish _ hn ?_ ?_ ?_
    · show lv.length = (updatemeta _).nL + 1
      rw [h3L, e2]; omega
    · show GoodFlag (updatemeta _).sdate (updatemeta _).stime
      rw [h3sd, h3st]; exact hs0
    · intro w rows' htf'
      have : (interpPre s lv).tflag = (updatemeta (copyVarsInto (setDim (shell s) Dm.L (lv.length - 1)) s id)).tflag := rfl
      rw [this, h3tf] at htf'
      simp only [Option.some.injEq, Prod.mk.injEq] at htf'
      rw [← htf'.2]
      show rows3.length = (updatemeta _).nT ∧ ∀ r ∈ rows3.head?, r = ((updatemeta _).sdate, (updatemeta _).stime)
      rw [h3T, h3sd, h3st]
      exact ⟨h3l, h3h⟩


theorem sliceLevels_length (vg : List Rat) (i : List Nat) (n : Nat) (hv : vg.length = n + 1) (hne : i ≠ [])
    (hlt : ∀ k ∈ i, k < n) : (sliceLevels vg i).length = i.length + 1 := by
  unfold sliceLevels
  cases hl : i.getLast? with
  | none => rw [List.getLast?_eq_none_iff] at hl; exact absurd hl hne
  | some last =>
    have hmem : last ∈ i := List.mem_of_getLast? hl
    have h1 := hlt last hmem
    have h2 : last < vg.length - 1 := by omega
    have h3 : last + 1 < vg.length := by omega
    simp only [h2, if_true, List.getElem?_eq_getElem h3]
    rw [List.length_append, pickL_length i vg (fun k hk => by have := hlt k hk; omega)]
    rfl

/-- the start time written for a TSTEP window is the flag of the first selected step -/
theorem sliceStart_spec (s : St) (w : Nat) (rows : List (Int × Int)) (k0 : Nat) (rest : List Nat)
    (htf : s.tflag = some (w, rows)) (hk : k0 < rows.length) (hg : GoodFlag rows[k0].1 rows[k0].2) :
    (sliceStart s (k0 :: rest)).1 = rows[k0].1 ∧ (sliceStart s (k0 :: rest)).2.1 = rows[k0].2 := by
  unfold sliceStart getTimes decodeTflag
  rw [htf]
  simp only
  rw [pickL_map, pickL_cons k0 rest rows hk]
  simp only [List.map_cons]
  rw [goodFlag_fix hg, encJ_decJ _ _ hg.1]
  exact ⟨rfl, rfl⟩

/-- the state `sliceDimensions` hands to `updatemeta`: its start time is a good flag, and its TFLAG has one
row per selected step — the selected rows of the source — starting at the new SDATE/STIME -/
theorem slicePre_time (s : St) (kw : Kw) (it il ir ic ip : Option (List Nat)) (h : Coherent s) (ht : TimeOk s)
    (hit : idxOf s.nT kw.t = some it) :
    GoodFlag (slicePre s it il ir ic ip).sdate (slicePre s it il ir ic ip).stime ∧
    (∃ rows, s.tflag = some (s.varlist.length, rows) ∧
      (slicePre s it il ir ic ip).tflag = some (s.varlist.length, selRows it rows) ∧
      (selRows it rows).length = (slicePre s it il ir ic ip).nT ∧
      ∀ r ∈ (selRows it rows).head?, r = ((slicePre s it il ir ic ip).sdate, (slicePre s it il ir ic ip).stime)) := by
  obtain ⟨rows, htf, hl, hh⟩ := h.2.2.1
  have htp : (slicePre s it il ir ic ip).tflag = some (s.varlist.length, selRows it rows) := by
    simp [slicePre, tflag_copyVarsInto, htf]
  have e : (slicePre s it il ir ic ip).nT = newLen s.nT it :=
    congrArg Frame.nT (frame_copyVarsInto _ _ _)
  have e4 : (slicePre s it il ir ic ip).sdate = (selStart s it).1 := rfl
  have e5 : (slicePre s it il ir ic ip).stime = (selStart s it).2.1 := rfl
  rw [e, e4, e5]
  cases it with
  | none =>
    simp only [selStart, selRows, newLen]
    exact ⟨ht.1, rows, htf, htp, hl, hh⟩
  | some i =>
    obtain ⟨hne, hlt⟩ := idxOf_some s.nT kw.t i hit
    cases i with
    | nil => exact absurd rfl hne
    | cons k0 rest =>
      have hk : k0 < rows.length := by rw [hl]; exact hlt k0 (by simp)
      have hg : GoodFlag rows[k0].1 rows[k0].2 := ht.2 _ rows htf _ (List.getElem_mem hk)
      obtain ⟨hs1, hs2⟩ := sliceStart_spec s _ rows k0 rest htf hk hg
      simp only [selStart, selRows, newLen, hs1, hs2]
      refine ⟨hg, rows, htf, htp, ?_, ?_⟩
      · rw [pickL_length _ rows (fun k hk' => by rw [hl]; exact hlt k hk')]
      · intro r hr
        rw [pickL_cons k0 rest rows hk] at hr
        simp at hr
        rw [← hr]

/-- `opSlice` unfolded: the windows resolved and the result as `updatemeta (slicePre …)` -/
theorem opSlice_some (s s' : St) (kw : Kw) (hs : opSlice s kw = some s') :
    ∃ it il ir ic ip, idxOf s.nT kw.t = some it ∧ idxOf s.nL kw.l = some il ∧ idxOf s.nR kw.r = some ir ∧
      idxOf s.nC kw.c = some ic ∧ idxOf s.nP kw.p = some ip ∧ s' = updatemeta (slicePre s it il ir ic ip) := by
  unfold opSlice at hs
  split at hs
  · cases hs
  · split at hs
    · cases hs
    · split at hs
      · rename_i it il ir ic ip hit hil hir hic hip
        simp only [Option.some.injEq] at hs
        exact ⟨it, il, ir, ic, ip, hit, hil, hir, hic, hip, hs.symm⟩
      · cases hs

/-- sliceDimensions(**windows) -/
theorem coherent_slice (s s' : St) (kw : Kw) (h : Coherent s) (ht : TimeOk s)
    (hs : opSlice s kw = some s') (hn : 1 ≤ s'.varlist.length) : Coherent s' := by
  obtain ⟨it, il, ir, ic, ip, hit, hil, _, _, _, rfl⟩ := opSlice_some s s' kw hs
  have hv := h.2.2.2.2.2.2
  obtain ⟨hg, rows, _, htp, hlen, hhead⟩ := slicePre_time s kw it il ir ic ip h ht hit
  have e2 : (slicePre s it il ir ic ip).nL = newLen s.nL il :=
    congrArg Frame.nL (frame_copyVarsInto _ _ _)
  have e3 : (slicePre s it il ir ic ip).vglvls = selLevels il s.vglvls := rfl
  refine finish _ hn ?_ hg ?_
  · rw [e3, e2]
    cases il with
    | none => exact hv
    | some i =>
      obtain ⟨hne, hlt⟩ := idxOf_some s.nL kw.l i hil
      simp only [selLevels, newLen]
      exact sliceLevels_length s.vglvls i s.nL hv hne hlt
  · intro w rows' htf'
    rw [htp] at htf'
    simp only [Option.some.injEq, Prod.mk.injEq] at htf'
    rw [← htf'.2]
    exact ⟨hlen, hhead⟩

/-- what `sliceDimensions` guarantees about time and levels, whatever is still listed afterwards -/
theorem slice_spec (s s' : St) (kw : Kw) (h : Coherent s) (ht : TimeOk s) (hs : opSlice s kw = some s') :
    GoodFlag s'.sdate s'.stime ∧ s'.vglvls.length = s'.nL + 1 ∧
    ∃ w rows, s'.tflag = some (w, rows) ∧ rows.length = s'.nT ∧ ∀ r ∈ rows.head?, r = (s'.sdate, s'.stime) := by
  obtain ⟨it, il, ir, ic, ip, hit, hil, _, _, _, rfl⟩ := opSlice_some s s' kw hs
  have hv := h.2.2.2.2.2.2
  obtain ⟨hg, rows, _, htp, hlen, hhead⟩ := slicePre_time s kw it il ir ic ip h ht hit
  obtain ⟨_, cT, cL, _, _, _, cvg, csd, cst, _⟩ := core_eq (core_updatemeta (slicePre s it il ir ic ip) hg)
  have e2 : (slicePre s it il ir ic ip).nL = newLen s.nL il :=
    congrArg Frame.nL (frame_copyVarsInto _ _ _)
  have e3 : (slicePre s it il ir ic ip).vglvls = selLevels il s.vglvls := rfl
  refine ⟨by rw [csd, cst]; exact hg, ?_, ?_⟩
  · rw [cvg, cL, e3, e2]
    cases il with
    | none => exact hv
    | some i =>
      obtain ⟨hne, hlt⟩ := idxOf_some s.nL kw.l i hil
      simp only [selLevels, newLen]
      exact sliceLevels_length s.vglvls i s.nL hv hne hlt
  · obtain ⟨w, rows', h1, h2, h3⟩ := tflag_updatemeta (slicePre s it il ir ic ip) hg (by
      intro w rows' htf'
      rw [htp] at htf'
      simp only [Option.some.injEq, Prod.mk.injEq] at htf'
      rw [← htf'.2]
      exact ⟨hlen, hhead⟩)
    exact ⟨w, rows', h1, by rw [cT]; exact h2, by rw [csd, cst]; exact h3⟩

/-- a window that selects something leaves at least one step -/
theorem slice_nT_pos (s s' : St) (w : Win) (h : Coherent s) (ht : TimeOk s)
    (hs : opSlice s { t := some w } = some s') : 1 ≤ s'.nT := by
  obtain ⟨it, il, ir, ic, ip, hit, _, _, _, _, rfl⟩ := opSlice_some s s' _ hs
  obtain ⟨hg, _⟩ := slicePre_time s _ it il ir ic ip h ht hit
  obtain ⟨_, cT, _⟩ := core_eq (core_updatemeta (slicePre s it il ir ic ip) hg)
  have e : (slicePre s it il ir ic ip).nT = newLen s.nT it :=
    congrArg Frame.nT (frame_copyVarsInto _ _ _)
  rw [cT, e]
  cases it with
  | none => simp [idxOf] at hit; split at hit <;> simp at hit
  | some i =>
    obtain ⟨hne, _⟩ := idxOf_some s.nT (some w) i hit
    simp only [newLen]
    exact List.length_pos_iff.mpr hne

/-- `self[k:].stack(self[:k], 'TSTEP')`: files stacked against the order of time.  The result keeps the rows in the order
given, so it starts with the first flag of the receiver: SDATE/STIME stay those of the receiver. -/
theorem coherent_restack (s s' : St) (k : Nat) (h : Coherent s) (ht : TimeOk s)
    (hs : opRestack s k = some s') (hn : 1 ≤ s'.varlist.length) : Coherent s' := by
  unfold opRestack at hs
  split at hs
  · rename_i later earlier hl he
    simp only [Option.some.injEq] at hs
    subst hs
    obtain ⟨hg1, hv1, w1, rows1, htf1, hl1, hh1⟩ := slice_spec s later _ h ht hl
    obtain ⟨_, _, w2, rows2, htf2, hl2, _⟩ := slice_spec s earlier _ h ht he
    have hpos := slice_nT_pos s later _ h ht hl
    have hfr : frame (stackPre later earlier Dm.T) = { frame later with nT := later.nT + earlier.nT } := by
      simp [stackPre, frame_copyVarsInto]
      rfl
    have htp : (stackPre later earlier Dm.T).tflag = some (w1, rows1 ++ rows2) := by
      simp [stackPre, tflag_copyVarsInto, htf1, htf2]
    have e := congrArg Frame.nT hfr
    have e2 := congrArg Frame.nL hfr
    have e3 := congrArg Frame.vglvls hfr
    have e4 := congrArg Frame.sdate hfr
    have e5 := congrArg Frame.stime hfr
    simp only [frame] at e e2 e3 e4 e5
    refine finish _ hn ?_ ?_ ?_
    · rw [e3, e2]; exact hv1
    · rw [e4, e5]; exact hg1
    · intro w rows' htf'
      rw [htp] at htf'
      simp only [Option.some.injEq, Prod.mk.injEq] at htf'
      rw [e, e4, e5, ← htf'.2]
      refine ⟨by simp [hl1, hl2], ?_⟩
      intro r hr
      cases rows1 with
      | nil => simp at hl1; omega
      | cons a as => exact hh1 r (by simpa using hr)
  · cases hs


/-- **`updatemeta()` establishes the property** (re-exported): see `Ioapi.coherent_updatemeta` -/
theorem coherent_updatemeta (p : St) (hn : 1 ≤ (getVarlist p).varlist.length)
    (hv : p.vglvls.length = p.nL + 1) (hstart : GoodFlag p.sdate p.stime)
    (hkeep : ∀ w rows, p.tflag = some (w, rows) →
      rows.length = p.nT ∧ ∀ r ∈ rows.head?, r = (p.sdate, p.stime)) :
    Coherent (updatemeta p) := Ioapi.coherent_updatemeta p hn hv hstart hkeep

/-- **C10, one step**: every modelled operation maps a coherent file to a coherent file, provided at least
one variable is still listed afterwards. -/
theorem coherent_step (s s' : St) (op : Op) (h : Coherent s) (ht : TimeOk s) (hs : step s op = some s')
    (hn : 1 ≤ s'.varlist.length) : Coherent s' := by
  cases op with
  | copy =>
    simp only [step, Option.some.injEq] at hs
    subst hs
    exact coherent_copy s h ht hn
  | slice kw => exact coherent_slice s s' kw h ht hs hn
  | subset ks =>
    simp only [step, Option.some.injEq] at hs
    subst hs
    exact coherent_subset s ks h ht hn
  | rename o n => exact coherent_rename s s' o n h ht hs hn
  | apply d f => exact coherent_apply s s' d f h ht hs hn
  | eval n src ip => exact coherent_eval s s' n src ip h ht hs hn
  | mask =>
    simp only [step, Option.some.injEq] at hs
    subst hs
    exact coherent_mask s h ht hn
  | stack d => exact coherent_stack s s' d h ht hs hn
  | restack k => exact coherent_restack s s' k h ht hs hn
  | interp lv => exact coherent_interp s s' lv h ht hs hn

/-- the states an operation sequence goes through (none when an operation raises) -/
def runAll : St → List Op → Option (List St)
  | _, [] => some []
  | s, op :: rest => match step s op with
    | some s' => (runAll s' rest).map (s' :: ·)
    | none => none

/-- **C10, any sequence**: along any sequence of operations of any length, every state is coherent, as long
as each keeps a listed variable and well-formed time flags. -/
theorem coherent_run (ops : List Op) : ∀ (s0 : St) (states : List St), runAll s0 ops = some states →
    Coherent s0 → TimeOk s0 → (∀ s ∈ states, TimeOk s ∧ 1 ≤ s.varlist.length) → ∀ s ∈ states, Coherent s := by
  induction ops with
  | nil =>
    intro s0 states hr _ _ _ s hs
    simp only [runAll, Option.some.injEq] at hr
    subst hr
    cases hs
  | cons op rest ih =>
    intro s0 states hr h0 ht0 hg s hs
    simp only [runAll] at hr
    cases hst : step s0 op with
    | none => simp [hst] at hr
    | some s1 =>
      simp only [hst, Option.map_eq_some_iff] at hr
      obtain ⟨tl, htl, rfl⟩ := hr
      have hg1 := hg s1 (by simp)
      have hc1 : Coherent s1 := coherent_step s0 s1 op h0 ht0 hst hg1.2
      rcases List.mem_cons.mp hs with rfl | hmem
      · exact hc1
      · exact ih s1 tl htl hc1 hg1.1 (fun x hx => hg x (by simp [hx])) s hmem

/-! ### non-vacuity and the recorded exception -/

/-- a gridded file with two listed variables and one unlisted 2-D variable, two steps -/
def exSt : St :=
  { grid := true, nT := 2, nL := 2, nR := 2, nC := 3, nP := 0, varDim := 2,
    vars := [⟨"A0", stdG⟩, ⟨"A1", stdG⟩, ⟨"LAT2D", ["ROW", "COL"]⟩],
    tflag := some (2, [(2019365, 230000), (2020001, 0)]), nvars := 2, varlist := ["A0", "A1"],
    nrows := 2, ncols := 3, nlays := 2, vglvls := [1, 1/2, 0], sdate := 2019365, stime := 230000, tstep := 10000,
    xorig := 0, yorig := 0, xcell := 1000, ycell := 1000 }

theorem exSt_coherent : Coherent exSt ∧ TimeOk exSt := by
  refine ⟨⟨rfl, rfl, ⟨[(2019365, 230000), (2020001, 0)], rfl, rfl, ?_⟩, ?_, rfl, fun _ => ⟨rfl, rfl⟩, rfl⟩, ⟨?_, ?_⟩⟩
  · intro r hr; simp at hr; exact hr.symm
  · intro k hk
    simp only [exSt, List.mem_cons, List.mem_nil_iff, or_false] at hk
    rcases hk with rfl | rfl <;> decide
  · refine ⟨by decide, by decide, by decide⟩
  · intro w rows h r hr
    simp only [exSt, Option.some.injEq, Prod.mk.injEq] at h
    rw [← h.2] at hr
    simp only [List.mem_cons, List.mem_nil_iff, or_false] at hr
    rcases hr with rfl | rfl
    · exact ⟨by decide, by decide, by decide⟩
    · exact ⟨by decide, by decide, by decide⟩

/-- the hypotheses of `coherent_run` are met by a real five-step history (and so is its conclusion) -/
example : ∃ states, runAll exSt [.copy, .slice { t := some (.int (-1)), c := some (.slc (some 1) none) },
    .rename "A0" "B", .stack .L, .apply .T .mean] = some states ∧ states.length = 5 ∧
    ∀ s ∈ states, 1 ≤ s.varlist.length := by
  refine ⟨_, rfl, by decide +kernel, ?_⟩
  decide +kernel

/-- **the side condition is real**: `eval` creating only a variable whose name has 17 characters leaves no
listed variable; `updatemeta` then keeps the VAR dimension (and TFLAG's second axis) at length 1 while NVARS
and VAR-LIST say 0 — the file is not coherent.  (Confirmed on the real code: recorded finding.) -/
theorem zero_listed_counterexample :
    ∃ s', opEval exSt "XXXXXXXXXXXXXXXXX" "A0" false = some s' ∧ s'.varlist = [] ∧ s'.nvars = 0 ∧
      s'.varDim = 1 ∧ ¬ Coherent s' := by
  refine ⟨_, rfl, by decide +kernel, by decide +kernel, by decide +kernel, ?_⟩
  intro h
  have h2 := h.2.1
  revert h2
  decide +kernel

/-- `createVariable` / `copyVariable` IN PLACE followed by `updatemeta()` -/
theorem coherent_create_then_updatemeta (s : St) (v : DVar) (h : Coherent s) (ht : TimeOk s)
    (hn : 1 ≤ (updatemeta (putVar s v)).varlist.length) : Coherent (updatemeta (putVar s v)) := by
  have hv := h.2.2.2.2.2.2
  obtain ⟨rows, htf, hl, hh⟩ := h.2.2.1
  obtain ⟨_, hT, hL, _, _, _, _, _, _, hvg, hsd, hst, _⟩ := frame_eq (frame_putVar s v)
  refine finish _ hn ?_ ?_ ?_
  · rw [hvg, hL]; exact hv
  · rw [hsd, hst]; exact ht.1
  · intro w rows' htf'
    rw [tflag_putVar, htf] at htf'
    simp only [Option.some.injEq, Prod.mk.injEq] at htf'
    rw [hT, hsd, hst, ← htf'.2]
    exact ⟨hl, hh⟩

/-- **in place, `createVariable` alone does not restore the property**: the new variable is listed and counted, the VAR
dimension and the second axis of TFLAG keep their length until `updatemeta()` is called (recorded finding; the
docstring of `createVariable` promises otherwise) -/
theorem create_variable_counterexample :
    (putVar exSt ⟨"NEW", stdG⟩).nvars = 3 ∧ (putVar exSt ⟨"NEW", stdG⟩).varDim = 2 ∧ ¬ Coherent (putVar exSt ⟨"NEW", stdG⟩) ∧
      Coherent (updatemeta (putVar exSt ⟨"NEW", stdG⟩)) := by
  refine ⟨by decide +kernel, by decide +kernel, ?_, ?_⟩
  · intro h
    have h2 := h.2.1
    revert h2
    decide +kernel
  · exact coherent_create_then_updatemeta exSt _ exSt_coherent.1 exSt_coherent.2 (by decide +kernel)

/-- **a copy without variables keeps the variable list of its source**: NVARS is 0 while VAR-LIST still names the
source's variables, none of which exists (recorded finding; the list is what keeps the VAR dimension at the right length
for the callers that fill the copy) -/
theorem copy_novars_counterexample :
    (copyNoVars exSt).nvars = 0 ∧ (copyNoVars exSt).varlist = ["A0", "A1"] ∧ (copyNoVars exSt).vars = [] ∧
      ¬ Coherent (copyNoVars exSt) := by
  refine ⟨by decide +kernel, by decide +kernel, by decide +kernel, ?_⟩
  intro h
  have h1 := h.1
  revert h1
  decide +kernel

/-- assigning the level-edge attribute in place (same number of edges) keeps the property -/
theorem coherent_setvg (s : St) (lv : List Rat) (h : Coherent s) (hl : lv.length = s.nL + 1) :
    Coherent (setVglvls s lv) := by
  obtain ⟨h1, h2, h3, h4, h5, h6, _⟩ := h
  exact ⟨h1, h2, h3, h4, h5, h6, hl⟩

theorem mem_vars_putVar (o : St) (v w : DVar) (h : w ∈ (putVar o v).vars) : w ∈ o.vars ∨ w = v := by
  simp only [putVar, vars_add2Varlist, List.mem_append, List.mem_filter, List.mem_singleton] at h
  rcases h with h | h
  · exact Or.inl h.1
  · exact Or.inr h

theorem mem_vars_putAll : ∀ (vs : List DVar) (o : St) (w : DVar), w ∈ (putAll o vs).vars → w ∈ o.vars ∨ w ∈ vs
  | [], o, w, h => Or.inl h
  | v :: vs, o, w, h => by
    have : putAll o (v :: vs) = putAll (putVar o v) vs := rfl
    rw [this] at h
    rcases mem_vars_putAll vs (putVar o v) w h with h1 | h1
    · rcases mem_vars_putVar o v w h1 with h2 | h2
      · exact Or.inl h2
      · exact Or.inr (by rw [h2]; simp)
    · exact Or.inr (by simp [h1])

/-- after the point extraction a dimension tuple is never a standard one (unless it was the boundary tuple before) -/
theorem pointsDims_not_std (d : List String) (hb : d ≠ stdB) : (pointsDims d == stdG || pointsDims d == stdB) = false := by
  unfold pointsDims
  by_cases hg : (d == stdG) = true
  · rw [if_pos hg]
    decide
  · simp only [hg, Bool.false_eq_true, if_false, Bool.or_eq_false_iff]
    constructor
    · apply beq_false_of_ne
      intro he
      have hrow : "ROW" ∈ stdG := by simp [stdG]
      rw [← he] at hrow
      simp only [List.mem_append, List.mem_filter] at hrow
      rcases hrow with h1 | h1
      · simp at h1
      · split at h1 <;> simp at h1
    · apply beq_false_of_ne
      intro he
      have hnp : "POINTS" ∉ stdB := by simp [stdB]
      by_cases hc : (d.contains "ROW" || d.contains "COL") = true
      · rw [if_pos hc] at he
        apply hnp
        rw [← he]
        simp
      · rw [if_neg hc, List.append_nil] at he
        have hfl : d.filter (fun k => k != "ROW" && k != "COL") = d := by
          apply List.filter_eq_self.mpr
          intro k hk
          simp only [Bool.or_eq_true, List.contains_eq_mem, decide_eq_true_eq, not_or] at hc
          simp only [Bool.and_eq_true, bne_iff_ne, ne_eq]
          exact ⟨fun e => hc.1 (e ▸ hk), fun e => hc.2 (e ▸ hk)⟩
        rw [hfl] at he
        exact hb he

theorem vars_pointsPre (s : St) (w : DVar) (h : w ∈ (pointsPre s).vars) : ∃ v ∈ s.vars, w = pointsVar v := by
  unfold pointsPre copyVarsInto at h
  have h' : w ∈ (putAll { shell s with grid := false, nR := 0, nC := 0 } (s.vars.map pointsVar)).vars := by
    split at h
    · simpa using h
    · exact h
  rcases mem_vars_putAll _ _ w h' with h0 | h1
  · simp [shell] at h0
  · simp only [List.mem_map] at h1
    obtain ⟨v, hv, rfl⟩ := h1
    exact ⟨v, hv, rfl⟩

/-- **the point extraction leaves no listed variable**: every variable that had ROW / COL is carried by POINTS afterwards,
so (unless a gridded file holds a variable on the boundary dimensions) none has standard dimensions and `updatemeta()`
lists none — the state of the recorded finding `zero-listed-variables` -/
theorem points_unlists (s s' : St) (h : opPoints s = some s') (hb : ∀ v ∈ s.vars, v.dims ≠ stdB) :
    s'.varlist = [] := by
  unfold opPoints at h
  split at h
  · cases h
  · simp only [Option.some.injEq] at h
    subst h
    have hlist : ∀ k, listable (pointsPre s) k = false := by
      intro k
      unfold listable
      simp only [Bool.and_eq_false_iff]
      left
      rw [List.any_eq_false]
      intro w hw
      obtain ⟨v, hv, rfl⟩ := vars_pointsPre s w hw
      have := pointsDims_not_std v.dims (hb v hv)
      simp [isStd, pointsVar, this]
    rw [varlist_updatemeta]
    unfold getVarlist
    simp only
    apply List.filter_eq_nil_iff.mpr
    intro k _
    simp [hlist k]

/-- non-vacuity: the example file -/
example : ∃ s', opPoints exSt = some s' ∧ s'.varlist = [] ∧ s'.nvars = 0 ∧ s'.varDim = 1 := by
  refine ⟨_, rfl, ?_, ?_, ?_⟩ <;> decide +kernel

/-- **tie to the source** (regenerated from `ioapi_base.getVarlist` on every run): the dimension tuples a listed variable
must have and the longest listable name are the ones the model's `isStd` / `listable` use -/
theorem std_dims_match_source : Generated.ioapiStdDims = [stdG, stdB] ∧ Generated.ioapiNameMax = some 16 := by decide

end Props.C10
