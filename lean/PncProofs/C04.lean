import PncProofs.ArrLemmas
import PncModel.File

/-!
# C04 — stacking concatenates in order and inverts splitting: property theorems

`Arr.concat k` is concatenation along axis `k`, `Arr.atAxis (List.take n) k` / `(List.drop n) k`
cut an array along axis `k`.  `PFile.concatAll` is what the model of `stack` applies to the
variables that have the stack dimension.
-/
namespace Props.C04
open Arr PFile

variable {α : Type}

/-- the array is a node at every position down to depth `k` (it has an axis `k`) -/
def HasAxis : Nat → Arr α → Prop
  | _, .leaf _ => False
  | 0, .node _ => True
  | k + 1, .node xs => ∀ x ∈ xs, HasAxis k x

theorem atAxisL_eq_map (f : List (Arr α) → List (Arr α)) (k : Nat) (xs : List (Arr α)) :
    atAxisL f k xs = xs.map (atAxis f k) := by
  induction xs with
  | nil => rfl
  | cons x xs ih => simp [atAxisL, ih]

/-- **two-piece inverse**: cutting at `n` along axis `k` and concatenating gives the array back -/
theorem concat_take_drop (n : Nat) : ∀ (k : Nat) (a : Arr α), HasAxis k a →
    concat k (atAxis (List.take n) k a) (atAxis (List.drop n) k a) = a
  | _, .leaf _, h => by simp [HasAxis] at h
  | 0, .node xs, _ => by simp [atAxis, concat]
  | k + 1, .node xs, h => by
    simp only [atAxis, concat]
    congr 1
    induction xs with
    | nil => rfl
    | cons x xs ih =>
      simp only [atAxisL, concatL]
      rw [concat_take_drop n k x (h x (by simp)), ih (fun y hy => h y (by simp [hy]))]

theorem hasAxis_atAxis (f : List (Arr α) → List (Arr α)) : ∀ (k : Nat) (a : Arr α), HasAxis k a →
    HasAxis k (atAxis f k a)
  | _, .leaf _, h => by simp [HasAxis] at h
  | 0, .node _, _ => by simp [atAxis, HasAxis]
  | k + 1, .node xs, h => by
    simp only [atAxis, HasAxis, atAxisL_eq_map]
    intro y hy
    obtain ⟨x, hx, rfl⟩ := List.mem_map.mp hy
    exact hasAxis_atAxis f k x (h x hx)

/-- consecutive pieces cut at the given (relative) piece lengths -/
def splitAll (k : Nat) : List Nat → Arr α → List (Arr α)
  | [], a => [a]
  | n :: rest, a => atAxis (List.take n) k a :: splitAll k rest (atAxis (List.drop n) k a)

def concatAllG (k : Nat) : List (Arr α) → Arr α
  | [] => .node []
  | [a] => a
  | a :: b :: rest => concat k a (concatAllG k (b :: rest))

theorem concatAll_eq (k : Nat) (l : List (Arr Cell)) : concatAll k l = concatAllG k l := by
  induction l with
  | nil => rfl
  | cons a l ih =>
    cases l with
    | nil => rfl
    | cons b rest => simp only [concatAll, concatAllG, ih]

/-- **C04 (any partition).** Splitting an array into any number of consecutive pieces along
axis `k` (any piece lengths) and concatenating the pieces in order reproduces the array. -/
theorem concat_split_all (k : Nat) : ∀ (lens : List Nat) (a : Arr α), HasAxis k a →
    concatAllG k (splitAll k lens a) = a
  | [], a, _ => rfl
  | n :: rest, a, h => by
    have ih := concat_split_all k rest (atAxis (List.drop n) k a) (hasAxis_atAxis _ k a h)
    cases hr : splitAll k rest (atAxis (List.drop n) k a) with
    | nil => cases rest <;> simp [splitAll] at hr
    | cons p ps =>
      simp only [splitAll, hr, concatAllG]
      rw [hr] at ih
      rw [ih, concat_take_drop n k a h]

/-- arrays `a`, `b` agree in every axis but `k`, where `a` has length `n` -/
def Compat : Nat → Nat → Arr α → Arr α → Prop
  | 0, n, .node xs, .node _ => xs.length = n
  | k + 1, n, .node xs, .node ys => List.Forall₂ (Compat k n) xs ys
  | _, _, _, _ => False

/-- **slicing the stack at a piece's extent gives the piece** (first piece) -/
theorem take_concat (n : Nat) : ∀ (k : Nat) (a b : Arr α), Compat k n a b →
    atAxis (List.take n) k (concat k a b) = a
  | 0, .node xs, .node ys, h => by
    simp only [Compat] at h
    simp [concat, atAxis, ← h]
  | k + 1, .node xs, .node ys, h => by
    simp only [Compat] at h
    simp only [concat, atAxis]
    congr 1
    induction h with
    | nil => rfl
    | cons hxy _ ih =>
      simp only [concatL, atAxisL]
      rw [take_concat n k _ _ hxy, ih]
  | 0, .leaf _, _, h => by simp [Compat] at h
  | 0, .node _, .leaf _, h => by simp [Compat] at h
  | _ + 1, .leaf _, _, h => by simp [Compat] at h
  | _ + 1, .node _, .leaf _, h => by simp [Compat] at h

/-- … and the remainder (second piece) -/
theorem drop_concat (n : Nat) : ∀ (k : Nat) (a b : Arr α), Compat k n a b →
    atAxis (List.drop n) k (concat k a b) = b
  | 0, .node xs, .node ys, h => by
    simp only [Compat] at h
    simp [concat, atAxis, ← h]
  | k + 1, .node xs, .node ys, h => by
    simp only [Compat] at h
    simp only [concat, atAxis]
    congr 1
    induction h with
    | nil => rfl
    | cons hxy _ ih =>
      simp only [concatL, atAxisL]
      rw [drop_concat n k _ _ hxy, ih]
  | 0, .leaf _, _, h => by simp [Compat] at h
  | 0, .node _, .leaf _, h => by simp [Compat] at h
  | _ + 1, .leaf _, _, h => by simp [Compat] at h
  | _ + 1, .node _, .leaf _, h => by simp [Compat] at h

/-- **length of the stacked dimension is the sum of the inputs'** (shape of a concatenation) -/
theorem concat_shape : ∀ (k : Nat) (sh : List Nat) (m : Nat) (a b : Arr α), k < sh.length →
    hasShape sh a = true → hasShape (sh.set k m) b = true →
    hasShape (sh.set k (sh.getD k 0 + m)) (concat k a b) = true
  | _, [], _, _, _, hk, _, _ => by simp at hk
  | _, _ :: _, _, .leaf _, _, _, ha, _ => by simp [hasShape] at ha
  | 0, n :: sh, m, .node xs, .leaf _, _, _, hb => by simp [hasShape] at hb
  | k + 1, n :: sh, m, .node xs, .leaf _, _, _, hb => by simp [hasShape] at hb
  | 0, n :: sh, m, .node xs, .node ys, _, ha, hb => by
    simp only [hasShape, List.set_cons_zero, Bool.and_eq_true, beq_iff_eq, List.getD_cons_zero] at *
    simp only [concat, hasShape, Bool.and_eq_true, beq_iff_eq, List.length_append]
    refine ⟨by omega, ?_⟩
    apply hasShapeL_of_forall
    intro x hx
    rcases List.mem_append.mp hx with hx | hx
    · exact forall_of_hasShapeL sh xs ha.2 x hx
    · exact forall_of_hasShapeL sh ys hb.2 x hx
  | k + 1, n :: sh, m, .node xs, .node ys, hk, ha, hb => by
    simp only [hasShape, List.set_cons_succ, Bool.and_eq_true, beq_iff_eq, List.getD_cons_succ] at *
    simp only [concat, hasShape, Bool.and_eq_true, beq_iff_eq]
    have hka : k < sh.length := by simpa using hk
    have key : ∀ (xs ys : List (Arr α)), xs.length = ys.length → hasShapeL sh xs = true →
        hasShapeL (sh.set k m) ys = true →
        (concatL k xs ys).length = xs.length ∧
          hasShapeL (sh.set k (sh.getD k 0 + m)) (concatL k xs ys) = true := by
      intro xs
      induction xs with
      | nil => intro ys hl _ _; cases ys <;> simp [concatL, hasShapeL] at *
      | cons x xs ih =>
        intro ys hl hx hy
        cases ys with
        | nil => simp at hl
        | cons y ys =>
          simp only [hasShapeL, Bool.and_eq_true] at hx hy
          obtain ⟨l1, s1⟩ := ih ys (by simpa using hl) hx.2 hy.2
          simp only [concatL, List.length_cons, hasShapeL, Bool.and_eq_true]
          exact ⟨by omega, concat_shape k sh m x y hka hx.1 hy.1, s1⟩
    obtain ⟨l1, s1⟩ := key xs ys (by omega) ha.2 hb.2
    exact ⟨by omega, s1⟩

/-- non-vacuity: a 2×3 array cut along axis 1 into pieces of length 1 and 2 -/
example : let a : Arr Nat := .node [.node [.leaf 1, .leaf 2, .leaf 3], .node [.leaf 4, .leaf 5, .leaf 6]]
    HasAxis 1 a ∧ (splitAll 1 [1] a).length = 2 ∧ flatten (concatAllG 1 (splitAll 1 [1] a)) = [1, 2, 3, 4, 5, 6] := by
  refine ⟨?_, by decide, by decide⟩
  simp [HasAxis]

/-! ## windows and cuts -/

/-- the per-axis index lists of a window `[lo, lo + n)` on axis `k`, everything on the other axes -/
def windowSels : List Nat → Nat → Nat → Nat → List (List Nat)
  | [], _, _, _ => []
  | _ :: rest, 0, lo, n => List.range' lo n :: rest.map List.range
  | m :: rest, k + 1, lo, n => List.range m :: windowSels rest k lo n

theorem pick_range' (xs : List (Arr α)) (lo n : Nat) (h : lo + n ≤ xs.length) :
    pick (List.range' lo n) xs = (xs.drop lo).take n := by
  apply List.ext_getElem?
  intro j
  rw [pick_getElem? _ _ (by intro i hi; simp only [List.mem_range'_1] at hi; omega)]
  by_cases hj : j < n
  · rw [List.getElem?_range' hj]
    simp only [Option.bind_some]
    rw [List.getElem?_take_of_lt hj, List.getElem?_drop]
    simp
  · rw [List.getElem?_eq_none (by simpa using (Nat.le_of_not_lt hj))]
    simp only [Option.bind_none]
    rw [List.getElem?_eq_none]
    simp only [List.length_take, List.length_drop]
    omega


theorem hasShape_of_mem (sh : List Nat) : ∀ (xs : List (Arr α)), hasShapeL sh xs = true → ∀ x ∈ xs, hasShape sh x = true
  | [], _, x, hx => by cases hx
  | y :: ys, h, x, hx => by
    simp only [hasShapeL, Bool.and_eq_true] at h
    rcases List.mem_cons.mp hx with rfl | hx'
    · exact h.1
    · exact hasShape_of_mem sh ys h.2 x hx'

/-- **a window is a cut**: the orthogonal selection of a contiguous range on one axis (and everything on the others) is
the array cut to that range along the axis -/
theorem orth_window : ∀ (sh : List Nat) (k : Nat) (a : Arr α) (lo n : Nat), hasShape sh a = true → k < sh.length →
    lo + n ≤ sh.getD k 0 → orth (windowSels sh k lo n) a = atAxis (fun xs => (xs.drop lo).take n) k a
  | [], _, _, _, _, _, hk, _ => by simp at hk
  | m :: rest, _, .leaf _, _, _, h, _, _ => by simp [hasShape] at h
  | m :: rest, 0, .node xs, lo, n, h, _, hb => by
    simp only [hasShape, Bool.and_eq_true, beq_iff_eq] at h
    obtain ⟨hl, hr⟩ := h
    simp only [List.getD_cons_zero] at hb
    simp only [windowSels, orth, atAxis]
    rw [pick_range' xs lo n (by omega)]
    congr 1
    apply orth_full_idL rest
    apply hasShapeL_of_forall
    intro x hx
    exact hasShape_of_mem rest xs hr x (List.mem_of_mem_drop (List.mem_of_mem_take hx))
  | m :: rest, k + 1, .node xs, lo, n, h, hk, hb => by
    simp only [hasShape, Bool.and_eq_true, beq_iff_eq] at h
    obtain ⟨hl, hr⟩ := h
    simp only [windowSels, orth, atAxis, atAxisL_eq_map]
    rw [← hl, pick_range xs]
    congr 1
    apply List.map_congr_left
    intro x hx
    exact orth_window rest k x lo n (hasShape_of_mem rest xs hr x hx) (by simpa using hk) (by simpa using hb)


/-- two cuts along an axis that together give back the list at that axis give back the array -/
theorem concat_atAxis (f g : List (Arr α) → List (Arr α)) : ∀ (sh : List Nat) (k : Nat) (a : Arr α),
    hasShape sh a = true → k < sh.length → (∀ xs : List (Arr α), xs.length = sh.getD k 0 → f xs ++ g xs = xs) →
    concat k (atAxis f k a) (atAxis g k a) = a
  | [], _, _, _, hk, _ => by simp at hk
  | m :: rest, _, .leaf _, h, _, _ => by simp [hasShape] at h
  | m :: rest, 0, .node xs, h, _, hfg => by
    simp only [hasShape, Bool.and_eq_true, beq_iff_eq] at h
    simp only [atAxis, concat]
    rw [hfg xs (by simpa using h.1)]
  | m :: rest, k + 1, .node xs, h, hk, hfg => by
    simp only [hasShape, Bool.and_eq_true, beq_iff_eq] at h
    have hr := h.2
    clear h
    simp only [atAxis, concat]
    congr 1
    have hall : ∀ x ∈ xs, concat k (atAxis f k x) (atAxis g k x) = x := fun x hx =>
      concat_atAxis f g rest k x (hasShape_of_mem rest xs hr x hx) (by simpa using hk) (by simpa using hfg)
    clear hr
    induction xs with
    | nil => rfl
    | cons x xs ih =>
      simp only [atAxisL, concatL]
      rw [hall x (by simp), ih (fun y hy => hall y (by simp [hy]))]

/-- **split and stack, on one array**: the windows `[0, c)` and `[c, m)` along axis `k` of an array whose axis `k` has
length `m`, concatenated along `k`, are the array -/
theorem concat_windows (sh : List Nat) (k : Nat) (a : Arr α) (c : Nat) (hs : hasShape sh a = true) (hk : k < sh.length)
    (hc : c ≤ sh.getD k 0) :
    concat k (orth (windowSels sh k 0 c) a) (orth (windowSels sh k c (sh.getD k 0 - c)) a) = a := by
  rw [orth_window sh k a 0 c hs hk (by omega), orth_window sh k a c (sh.getD k 0 - c) hs hk (by omega)]
  apply concat_atAxis _ _ sh k a hs hk
  intro xs hxs
  simp only [List.drop_zero]
  have : (xs.drop c).take (sh.getD k 0 - c) = xs.drop c := by
    apply List.take_of_length_le
    simp only [List.length_drop]
    omega
  rw [this, List.take_append_drop]

end Props.C04
