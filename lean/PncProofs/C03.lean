import PncProofs.FiberLemmas
import PncModel.File

/-!
# C03 — apply-along-dimension equals the function applied to every fiber: property theorems
-/
namespace Props.C03
open Arr PFile

/-- **C03 (element-wise).** For any array of any rank, any axis `k` and any 1-D function `g` whose
output length depends only on the input length: the element at `idx` of `mapFibers g sh k a`
(what `applyAlongDimensions` computes for one named dimension, axis retained) is element `idx[k]`
of `g` applied to the 1-D fiber of `a` along axis `k` through `idx`. -/
theorem apply_fiberwise {α} (g : List α → List α) (glen : Nat → Nat) (hu : Uniform g glen)
    (sh : List Nat) (k : Nat) (a : Arr α) (idx : List Nat) (h : hasShape sh a = true)
    (hp : AllPos sh) (hk : k < sh.length) (hv : Valid idx (sh.set k (glen (sh.getD k 0)))) :
    get (mapFibers g sh k a) idx = (g (fiber a k (sh.getD k 0) idx))[idx.getD k 0]? :=
  mapFibers_get g glen hu sh k a idx h hp hk hv

/-- output length of each modelled function -/
def fnLen : Fn → Nat → Nat
  | .mean, _ | .sum, _ | .min, _ | .max, _ | .var, _ => 1
  | .diff, n | .conv2, n => n - 1
  | .sub2, n => (n + 1) / 2
  | .rev, n | .cumsum, n => n

theorem cumsum_length (acc : ℚ) (l : List Cell) : (Fn.apply.go acc l).length = l.length := by
  induction l generalizing acc with
  | nil => rfl
  | cons c l ih => cases c <;> simp [Fn.apply.go, ih]

/-- every modelled function is uniform, so `apply_fiberwise` applies to all of them (the named
reducers produce length 1: the axis is retained with length one) -/
theorem fn_uniform (fn : Fn) : Uniform fn.apply (fnLen fn) := by
  intro l
  cases fn <;> simp only [Fn.apply, fnLen, List.length_singleton, List.length_reverse]
  · -- diff
    simp [List.length_zipWith]
  · -- sub2
    have : ∀ i ∈ List.range ((l.length + 1) / 2), ∃ c, l[2 * i]? = some c := by
      intro i hi
      have : 2 * i < l.length := by simp at hi; omega
      exact ⟨l[2 * i], List.getElem?_eq_getElem this⟩
    have h2 : ∀ (r : List Nat), (∀ i ∈ r, ∃ c, l[2 * i]? = some c) →
        (r.filterMap (fun i => l[2 * i]?)).length = r.length := by
      intro r
      induction r with
      | nil => intro _; rfl
      | cons i r ih =>
        intro h
        obtain ⟨c, hc⟩ := h i (by simp)
        simp only [List.filterMap_cons, hc, List.length_cons]
        rw [ih (fun j hj => h j (by simp [hj]))]
    rw [h2 _ this]; simp
  · exact cumsum_length 0 l
  · simp [List.length_zipWith]

/-- **C03 (shape).** Applying any modelled function along axis `k` of an array of shape `sh` (no empty axis) gives an
array whose axis `k` has the function's output length (1 for the named reducers: the axis is kept) and whose
other axes are unchanged — for every rank and every axis. -/
theorem apply_shape (fn : Fn) (sh : List Nat) (k : Nat) (a : Arr Cell) (h : hasShape sh a = true)
    (hp : AllPos sh) (hk : k < sh.length) :
    hasShape (sh.set k (fnLen fn (sh.getD k 0))) (mapFibers fn.apply sh k a) = true :=
  mapFibers_hasShape fn.apply (fnLen fn) (fn_uniform fn) sh k a h hp hk

/-- **masked cells are excluded** by the reducers as numpy.ma does: sum and mean run over the
unmasked cells only; an all-masked fiber gives a masked result -/
theorem reducers_exclude_masked (l : List Cell) :
    (unmasked l ≠ [] → Fn.sum.apply l = [some (rsum (unmasked l))] ∧
       Fn.mean.apply l = [some (rsum (unmasked l) / ((unmasked l).length : ℕ))]) ∧
    (unmasked l = [] → l ≠ [] → Fn.sum.apply l = [none] ∧ Fn.mean.apply l = [none] ∧
       Fn.min.apply l = [none] ∧ Fn.max.apply l = [none]) := by
  constructor
  · intro h
    simp [Fn.apply, h]
  · intro h hl
    simp [Fn.apply, h, hl]

/-- **variables lacking the named dimensions are unchanged** -/
theorem untouched (f : File) (fns : List (String × Fn)) (v : Var)
    (h : ∀ k ∈ v.dims, fnOf fns k = none) : (applyVar f fns v).data = v.data := by
  unfold applyVar
  have hany : (v.dims.any fun k => (fnOf fns k).isSome) = false := by
    rw [List.any_eq_false]
    intro k hk
    simp [h k hk]
  simp only [hany, Bool.false_eq_true, and_false, if_false]
  have : ∀ (axes : List Nat) (acc : Arr Cell × List Nat), (∀ ax ∈ axes, ax < v.dims.length) →
      axes.foldl (applyAxis fns v.dims) acc = acc := by
    intro axes
    induction axes with
    | nil => intro acc _; rfl
    | cons ax axes ih =>
      intro acc hax
      have hlt : ax < v.dims.length := hax ax (by simp)
      have hk : fnOf fns (v.dims.getD ax "") = none := by
        apply h
        have : v.dims.getD ax "" = v.dims[ax] := by simp [List.getD, List.getElem?_eq_getElem hlt]
        rw [this]
        exact List.getElem_mem hlt
      simp only [List.foldl_cons, applyAxis, hk]
      exact ih acc (fun a ha => hax a (by simp [ha]))
  rw [this]
  intro ax hax
  simpa using hax

/-- non-vacuity: a masked 2×3 array reduced along axis 1 and along axis 0 -/
example :
    let a : Arr Cell := .node [.node [.leaf (some 1), .leaf none, .leaf (some 3)],
                               .node [.leaf none, .leaf none, .leaf (some 7)]]
    flatten (mapFibers Fn.mean.apply [2, 3] 1 a) = [some 2, some 7] ∧
    flatten (mapFibers Fn.sum.apply [2, 3] 0 a) = [some 1, none, some 10] := by
  decide +kernel

end Props.C03
