import PncProofs.BridgeLemmas
import PncProofs.C09
import PncProofs.C13

/-!
# C08 — CAMx binary write/read round trip (uamiv family): property theorems
-/
namespace Props.C08
open Words Camx

/-- **C08 (data, header, species, flags words).** For every well-formed content — any species list
(names of 10 characters), any nx, ny, any nz ≥ 1, any number ≥ 1 of time steps, any payload words
(every float32 bit pattern, denormals and -0 included) — the library's fixed-stride reader applied
to the written bytes presents exactly the written content: identical data words for every species,
layer and step, identical begin/end date and time words, grid header and species order. -/
theorem roundtrip (f : Uamiv) (h : WF f) (hnz : 1 ≤ f.nz) (hnt : f.steps ≠ []) :
    decodeMM f.encode 0 = .ok (viewOf f) := decodeMM_encode f h hnz hnt

/-- the independent decoder and the memory-mapped reader agree on every encoded file -/
theorem readers_agree_on_encodings (f : Uamiv) (h : WF f) (hnz : 1 ≤ f.nz) (hnt : f.steps ≠ []) :
    refDecode f.encode = some f ∧ decodeMM f.encode 0 = .ok (viewOf f) :=
  ⟨Props.C09.refDecode_encode f h, decodeMM_encode f h hnz hnt⟩

/-- **C08 (dates).** The two-digit-year date stored in the file decodes back to the original
YYYYJJJ for every date from 1970 to 2069 (day, year, leap-day and century roll-overs are ordinary
instances). -/
theorem date_roundtrip (d : Nat) (h1 : 1970000 ≤ d) (h2 : d < 2070000) :
    decDates [((encDate d : Nat) : Int)] = [(d : Int)] := by
  unfold decDates encDate
  simp only [List.map_cons, List.map_nil, List.cons.injEq, and_true]
  have hc : d / 100000 = 19 ∨ d / 100000 = 20 := by omega
  rcases hc with hc | hc <;> rw [hc] <;> (split <;> omega)

theorem le_foldl_max : ∀ (ts : List Int) (a t : Int), t ∈ ts → t ≤ ts.foldl max a
  | [], _, _, h => by simp at h
  | x :: ts, a, t, h => by
    simp only [List.foldl_cons]
    rcases List.mem_cons.mp h with rfl | h
    · have : ∀ (l : List Int) (b : Int), b ≤ l.foldl max b := by
        intro l
        induction l with
        | nil => intro b; exact le_refl _
        | cons y l ih => intro b; exact le_trans (le_max_left b y) (ih (max b y))
      exact le_trans (le_max_right a t) (this ts (max a t))
    · exact le_foldl_max ts (max a x) t h

theorem foldl_max_lt : ∀ (ts : List Int) (a B : Int), a < B → (∀ t ∈ ts, t < B) → ts.foldl max a < B
  | [], _, _, ha, _ => ha
  | x :: ts, a, B, ha, h => by
    simp only [List.foldl_cons]
    exact foldl_max_lt ts (max a x) B (max_lt ha (h x (by simp))) (fun t ht => h t (by simp [ht]))

/-- **C08 (times).** Whole hours stored as float hours come back as HHMMSS = hour·10000, whatever
the set of hours in the file (the ×100 loop of `ConvertCAMxTime` runs exactly twice unless all
hours are zero). -/
theorem hours_roundtrip (hs : List Int) (h : ∀ t ∈ hs, 0 ≤ t ∧ t ≤ 23) :
    scaleTimes 8 hs = hs.map (· * 10000) := by
  by_cases hz : hs.all (· == 0) = true
  · have : ∀ t ∈ hs, t = 0 := by
      intro t ht
      have := List.all_eq_true.mp hz t ht
      simpa using this
    have hmap : hs.map (· * 10000) = hs := by
      conv_rhs => rw [← List.map_id hs]
      apply List.map_congr_left
      intro t ht; simp [this t ht]
    rw [hmap]
    simp [scaleTimes, hz]
  · -- some hour is between 1 and 23
    have hex : ∃ t ∈ hs, 1 ≤ t := by
      by_contra hcon
      apply hz
      rw [List.all_eq_true]
      intro t ht
      have h0 := (h t ht).1
      have : ¬ 1 ≤ t := fun h1 => hcon ⟨t, ht, h1⟩
      simp; omega
    obtain ⟨t0, ht0, ht01⟩ := hex
    have hne : hs ≠ [] := List.ne_nil_of_mem ht0
    -- first iteration
    have step1 : scaleTimes 8 hs = scaleTimes 7 (hs.map (· * 100)) := by
      have hlt1 := foldl_max_lt hs 0 10000 (by norm_num) (fun t ht => by have := (h t ht).2; omega)
      have hlt2 := foldl_max_lt hs (hs.headD 0) 10000 (by
        cases hs with
        | nil => simp
        | cons x xs => have := (h x (by simp)).2; simp; omega) (fun t ht => by have := (h t ht).2; omega)
      simp only [scaleTimes, hz, Bool.false_eq_true, if_false, hlt1, hlt2, and_self, if_true]
    have hz2 : ((hs.map (· * 100)).all (· == 0)) = false := by
      rw [Bool.eq_false_iff]
      intro hall
      have := List.all_eq_true.mp hall (t0 * 100) (List.mem_map.mpr ⟨t0, ht0, rfl⟩)
      simp at this; omega
    have step2 : scaleTimes 7 (hs.map (· * 100)) = scaleTimes 6 ((hs.map (· * 100)).map (· * 100)) := by
      have hb : ∀ t ∈ hs.map (· * 100), t < 10000 := by
        intro t ht
        obtain ⟨u, hu, rfl⟩ := List.mem_map.mp ht
        have := (h u hu).2; omega
      have hlt1 := foldl_max_lt (hs.map (· * 100)) 0 10000 (by norm_num) hb
      have hlt2 := foldl_max_lt (hs.map (· * 100)) ((hs.map (· * 100)).headD 0) 10000 (by
        cases hs with
        | nil => simp
        | cons x xs => have := (h x (by simp)).2; simp; omega) hb
      simp only [scaleTimes, hz2, Bool.false_eq_true, if_false, hlt1, hlt2, and_self, if_true]
    have hz3 : (((hs.map (· * 100)).map (· * 100)).all (· == 0)) = false := by
      rw [Bool.eq_false_iff]
      intro hall
      have := List.all_eq_true.mp hall (t0 * 100 * 100)
        (List.mem_map.mpr ⟨t0 * 100, List.mem_map.mpr ⟨t0, ht0, rfl⟩, rfl⟩)
      simp at this; omega
    have step3 : scaleTimes 6 ((hs.map (· * 100)).map (· * 100)) = (hs.map (· * 100)).map (· * 100) := by
      have hge : (10000 : Int) ≤ ((hs.map (· * 100)).map (· * 100)).foldl max 0 := by
        have hm : t0 * 100 * 100 ∈ (hs.map (· * 100)).map (· * 100) :=
          List.mem_map.mpr ⟨t0 * 100, List.mem_map.mpr ⟨t0, ht0, rfl⟩, rfl⟩
        have := le_foldl_max _ 0 _ hm
        omega
      have : ¬ (((hs.map (· * 100)).map (· * 100)).foldl max 0 < 10000 ∧
          ((hs.map (· * 100)).map (· * 100)).foldl max (((hs.map (· * 100)).map (· * 100)).headD 0) < 10000) := by
        intro hh; omega
      simp only [scaleTimes, hz3, Bool.false_eq_true, if_false, this]
    rw [step1, step2, step3, List.map_map]
    apply List.map_congr_left
    intro t _
    simp only [Function.comp]; ring

/-- hours 0..23 survive float32 storage and the integer cast -/
theorem hour_bits_roundtrip : ∀ n : Fin 24, truncF32 (f32OfNat n.val) = (n.val : Int) := by decide

/-- non-vacuity: the example file of C09 meets the hypotheses of `roundtrip` -/
example : 1 ≤ Props.C09.exFile.nz ∧ Props.C09.exFile.steps ≠ [] ∧
    decodeMM Props.C09.exFile.encode 0 = .ok (viewOf Props.C09.exFile) := by
  refine ⟨by decide, by decide, by decide +kernel⟩


/-! ### slab formats -/

/-- **write then read (slab formats)**: what the memory-mapped reader presents for the bytes the writer
produces is the content that was written — same number of steps and layers, time flags and cells of every
variable — for every well-formed content of at least two steps, any grid, layer count and payload. Writing
that content again produces the same bytes because the encoder is a function of the content alone. -/
theorem slab_roundtrip (k : Slab.Kind) (f : Slab.SFile) (h : Props.C13.WF f) :
    Slab.mmDecode k f.cells (Slab.encode f) = Slab.viewOf k f ∧
    parseRecords (Slab.encode f).length (Slab.encode f) = some (Slab.rows f) :=
  ⟨Props.C13.mm_decode_encode k f h, Props.C09.slab_tiles f⟩

/-- **C08 (landuse files).** Writing any well-formed landuse content (either style, 11 or 26 categories, up to two of
the optional fields) and reading it back gives the same content, and writing what was read again gives the same
bytes. -/
theorem landuse_roundtrip (cells : Nat) (f : Landuse.LFile) (h : Landuse.WF cells f) :
    Landuse.read cells (Landuse.write f) = some f ∧
    ∀ g, Landuse.read cells (Landuse.write f) = some g → Landuse.write g = Landuse.write f := by
  refine ⟨Landuse.read_write cells f h, ?_⟩
  intro g hg
  rw [Landuse.read_write cells f h] at hg
  cases hg; rfl

/-- **C08 (wind files).** Reading any well-formed wind file (any number of steps, layers, either header variant) gives
its content, and writing what was read gives the same bytes. -/
theorem wind_roundtrip (cells nz h : Nat) (steps : List Wind.WStep) (w : Wind.WFw cells nz h steps) :
    Wind.read cells (Wind.encode steps) = some steps ∧
    ∀ g, Wind.read cells (Wind.encode steps) = some g → Wind.encode g = Wind.encode steps := by
  refine ⟨Wind.read_encode cells nz h steps w, ?_⟩
  intro g hg
  rw [Wind.read_encode cells nz h steps w] at hg
  cases hg; rfl

/-- **C08 (cloud/rain files).** -/
theorem cloud_rain_roundtrip (nv : Nat) (f : CloudRain.CFile) (w : CloudRain.WFc nv f) :
    CloudRain.read (CloudRain.encode f) = some f ∧
    ∀ g, CloudRain.read (CloudRain.encode f) = some g → CloudRain.encode g = CloudRain.encode f := by
  refine ⟨CloudRain.read_encode nv f w, ?_⟩
  intro g hg
  rw [CloudRain.read_encode nv f w] at hg
  cases hg; rfl

/-- **C08 (lateral boundary files).** -/
theorem boundary_roundtrip (nspec nx ny nz : Nat) (f : Boundary.BFile) (w : Boundary.WFb nspec nx ny nz f) :
    Boundary.read (Boundary.encode f) = some f ∧
    ∀ g, Boundary.read (Boundary.encode f) = some g → Boundary.encode g = Boundary.encode f := by
  refine ⟨Boundary.read_encode nspec nx ny nz f w, ?_⟩
  intro g hg
  rw [Boundary.read_encode nspec nx ny nz f w] at hg
  cases hg; rfl

end Props.C08
