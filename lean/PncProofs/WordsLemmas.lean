import PncModel.Words
import Mathlib.Tactic.Linarith

namespace Words

theorem frame_length (p : List Word) : (frame p).length = p.length + 2 := by
  simp [frame]

/-- reading back a framed record in front of anything -/
theorem unframe_frame (p rest : List Word) : unframe (frame p ++ rest) = some (p, rest) := by
  simp [frame, unframe]

/-- **records tile the file**: parsing the framed records gives exactly the records back, with
nothing left over (leading and trailing markers agree, no gaps) -/
theorem parse_encode (ps : List (List Word)) (fuel : Nat) (h : (encodeRecs ps).length ≤ fuel) :
    parseRecords fuel (encodeRecs ps) = some ps := by
  induction ps generalizing fuel with
  | nil => cases fuel <;> simp [encodeRecs, parseRecords]
  | cons p ps ih =>
    have hne : encodeRecs (p :: ps) = frame p ++ encodeRecs ps := by simp [encodeRecs]
    rw [hne] at h ⊢
    cases fuel with
    | zero => simp [frame] at h
    | succ fuel =>
      have hcons : frame p ++ encodeRecs ps = (4 * p.length) :: (p ++ [4 * p.length] ++ encodeRecs ps) := by
        simp [frame]
      have hi := ih fuel (by simp [frame] at h ⊢; omega)
      rw [hcons]
      unfold parseRecords
      rw [← hcons, unframe_frame]
      simp [hi]

/-- total size: payload words plus two markers per record -/
theorem encodeRecs_length (ps : List (List Word)) :
    (encodeRecs ps).length = (ps.map List.length).sum + 2 * ps.length := by
  induction ps with
  | nil => simp [encodeRecs]
  | cons p ps ih =>
    have : encodeRecs (p :: ps) = frame p ++ encodeRecs ps := by simp [encodeRecs]
    rw [this, List.length_append, frame_length, ih]
    simp; omega

theorem wordChar_charWord (c : Nat) : wordChar (charWord c) = c := by
  unfold wordChar charWord; omega

end Words
