import PncProofs.ArrLemmas
import PncProofs.ZipLemmas
import PncModel.File

/-!
# C02 — dimension slicing selects exactly the requested hyperslab: property theorems

`Arr.orth sels a` is what the model of `sliceDimensions` computes for a variable when at most one
index list is involved (`sels` = the normalised index list of every axis).  The theorems say:
element-wise it is the orthogonal per-axis selection in the same order (`orth_get`), it has the
selected lengths (`orth_shape`), it is the identity when every axis is selected in full
(`orth_full_id`: variables without a selected dimension are identical), and every Python selector
normalises to in-range indices (`indices_lt`), so the in-range hypothesis is met by construction.
-/
namespace Props.C02
open Arr PySlice PFile

theorem orth_get {α} (sels : List (List Nat)) (a : Arr α) (idx : List Nat) (h : InRange sels a) :
    get (orth sels a) idx = (mapIdx sels idx).bind (get a) := Arr.orth_get sels a idx h

theorem orth_shape {α} (sels : List (List Nat)) (sh : List Nat) (a : Arr α)
    (h : hasShape sh a = true) (hr : InRange sels a) :
    hasShape (selShape sels sh) (orth sels a) = true := Arr.orth_shape sels sh a h hr

theorem orth_full_id {α} (sh : List Nat) (a : Arr α) (h : hasShape sh a = true) :
    orth (sh.map List.range) a = a := Arr.orth_full_id sh a h

theorem normInt_lt (n : Nat) (i : Int) (k : Nat) (h : normInt n i = some k) : k < n :=
  PySlice.normInt_lt n i k h

/-- bounds computed by `slice.indices` stay inside the ranges `rangeList_lt` needs -/
theorem sliceIndices_lt (n : Nat) (a b : Option Int) (st : Int) :
    ∀ k ∈ sliceIndices n a b st, k < n := by
  unfold sliceIndices sliceBounds
  simp only
  by_cases hst : st < 0
  · simp only [hst, if_true]
    apply rangeList_lt n _ _ st
    · cases a <;> simp only <;> (try split) <;> (try split) <;> omega
    · cases a <;> simp only <;> (try split) <;> (try split) <;> omega
    · cases b <;> simp only <;> (try split) <;> (try split) <;> omega
    · cases b <;> simp only <;> (try split) <;> (try split) <;> omega
    · intro h; omega
    · intro _; cases a <;> simp only <;> (try split) <;> (try split) <;> omega
  · simp only [hst, if_false]
    apply rangeList_lt n _ _ st
    · cases a <;> simp only <;> (try split) <;> (try split) <;> omega
    · cases a <;> simp only <;> (try split) <;> (try split) <;> omega
    · cases b <;> simp only <;> (try split) <;> (try split) <;> omega
    · cases b <;> simp only <;> (try split) <;> (try split) <;> omega
    · intro _; cases a <;> simp only <;> (try split) <;> (try split) <;> omega
    · intro h; omega

/-- **every selector normalises to in-range indices** (ints, slices with any bounds and non-zero or
zero step, lists) — so `InRange` holds for what `sliceFile` passes to `orth` -/
theorem indices_lt (n : Nat) (s : PSel) (l : List Nat) (h : s.indices n = some l) : ∀ k ∈ l, k < n := by
  cases s with
  | int i =>
    simp only [PSel.indices, Option.map_eq_some_iff] at h
    obtain ⟨k, hk, rfl⟩ := h
    intro j hj
    simp only [List.mem_singleton] at hj
    subst hj
    exact PySlice.normInt_lt n i _ hk
  | slice a b st =>
    simp only [PSel.indices, Option.some.injEq] at h
    subst h
    exact sliceIndices_lt n a b st
  | list l0 =>
    simp only [PSel.indices] at h
    intro k hk
    have : ∀ (l0 : List Int) (l : List Nat), l0.mapM (normInt n) = some l → ∀ k ∈ l, k < n := by
      intro l0
      induction l0 with
      | nil => intro l h; simp at h; subst h; simp
      | cons i l0 ih =>
        intro l h k hk
        rw [List.mapM_cons] at h
        cases hi : normInt n i with
        | none => simp [hi] at h
        | some k0 =>
          cases hr : l0.mapM (normInt n) with
          | none => simp [hi, hr] at h
          | some r =>
            simp [hi, hr] at h
            subst h
            rcases List.mem_cons.mp hk with rfl | hk
            · exact PySlice.normInt_lt n i _ hi
            · exact ih r hr k hk
    exact this l0 l h k hk

/-- an integer selector keeps a length-1 axis (negative integers count from the end) -/
theorem int_keeps_unit_axis (n : Nat) (i : Int) (l : List Nat) (h : (PSel.int i).indices n = some l) :
    l.length = 1 := by
  simp only [PSel.indices, Option.map_eq_some_iff] at h
  obtain ⟨k, _, rfl⟩ := h
  rfl

/-- non-vacuity and a reversed, strided, partly out-of-range slice, as CPython computes it -/
example : sliceIndices 5 (some (-2)) (some (-9)) (-2) = [3, 1] ∧ sliceIndices 5 none none (-1) = [4, 3, 2, 1, 0]
    ∧ sliceIndices 5 (some 7) none 1 = [] ∧ normInt 5 (-5) = some 0 ∧ normInt 5 5 = none := by
  decide


/-! ## two or more index lists acting together (the pointwise selection on the new dimension) -/

/-- **C02 (pointwise selection, element-wise).** With index lists of one length `L` on several axes, the cell at an
index of the result — position `p` on the new axis, positions on the kept axes — is the cell of the source at: entry `p`
of every zipped list on the zipped axes, the selected entry on every other axis. Nothing else is selected, nothing is
reordered. -/
theorem zip_get {α : Type} (L : Nat) (ss : List Sel) (sh : List Nat) (a r : Arr α) (idx : List Nat)
    (h : hasShape sh a = true) (hin : ZSelsIn ss sh) (hl : ZLen L ss) (hr : zipSel L ss a = some r) :
    Arr.get r idx = (zipIdx ss idx).bind (Arr.get a) :=
  zipSel_get L ss sh a r idx h hin hl hr

/-- **C02 (pointwise selection, shape).** The result has the new axis (length `L`) where the first zipped axis was, the
other zipped axes are gone, every other axis has the length of its selection. -/
theorem zip_shape {α : Type} (L : Nat) (ss : List Sel) (sh : List Nat) (a r : Arr α)
    (h : hasShape sh a = true) (hin : ZSelsIn ss sh) (hr : zipSel L ss a = some r) :
    hasShape (zipShape L ss sh) r = true :=
  zipSel_shape L ss sh a r h hin hr

/-- non-vacuity: `A[t, [1, 0, 1], [0, 0, 1]]` of a 1 x 2 x 2 array picks (1,0), (0,0), (1,1) -/
example :
    let a : Arr Nat := .node [.node [.node [.leaf 1, .leaf 2], .node [.leaf 3, .leaf 4]]]
    let ss := [Sel.keep [0], Sel.zip [1, 0, 1], Sel.zip [0, 0, 1]]
    ZSelsIn ss [1, 2, 2] ∧ ZLen 3 ss ∧ (zipSel 3 ss a).map flatten = some [3, 1, 4] ∧
      zipShape 3 ss [1, 2, 2] = [1, 3] ∧ zipIdx ss [0, 2] = some [0, 1, 1] := by
  refine ⟨by simp [ZSelsIn], by simp [ZLen], by decide, by decide, by decide⟩

end Props.C02
