import PncProofs.C01Files

/-!
# C02 — `sliceDimensions` as a file operation: which cell of the source a cell of the result is
(array-level theorems: PncProofs/C02.lean, PncProofs/ZipLemmas.lean; index lemmas: PncProofs/SliceLemmas.lean)
-/
namespace Props.C02
open Arr PFile Props.C01 Props.C04

/-! ## the file operation: which cell of the source a cell of the sliced variable is -/

/-- **C02 (sliceDimensions, element-wise, orthogonal variables).** For a variable on which at most one index list acts,
the cell at `idx` of the sliced variable is the cell of the source variable at the index that takes, on every axis, the
`idx`-th entry of that axis' selection (integer: the one index; slice: the range; list: the list; no keyword: every
index). -/
theorem sliceVar_orth_get (f : File) (sels : List (String × PSel)) (idx : List (String × List Nat)) (zipped : Bool)
    (L : Nat) (newdim : String) (v v' : Var) (hv : VarWF f v) (hidx : sliceIdx f sels = .ok idx)
    (hn : ¬ (v.dims.filter (isZipSel sels zipped)).length ≥ 2)
    (hs : sliceVar f sels idx zipped L newdim v = .ok v') (i : List Nat) :
    v'.dims = v.dims ∧
    Arr.get v'.data i = (mapIdx ((v.dims.map (selOfDim f sels idx zipped)).map selIdxs) i).bind (Arr.get v.data) := by
  unfold sliceVar at hs
  simp only [hn, if_false] at hs
  have e := (Except.ok.inj hs).symm
  subst e
  refine ⟨rfl, ?_⟩
  apply orth_get
  apply inRange_of_shape _ (v.dims.map f.dimLen) _ hv.2
  rw [List.map_map]
  exact selsIn_map _ _ v.dims (fun k _ => selOfDim_lt f sels idx zipped hidx k)

/-- **C02 (sliceDimensions, element-wise, two or more index lists acting together).** The cell at `idx` of the sliced
variable — position `p` on the new dimension — is the cell of the source variable at entry `p` of every list on the
listed axes and at the selected entry on every other axis. -/
theorem sliceVar_zip_get (f : File) (sels : List (String × PSel)) (idx : List (String × List Nat))
    (L : Nat) (newdim : String) (v v' : Var) (hv : VarWF f v) (hidx : sliceIdx f sels = .ok idx)
    (hn : (v.dims.filter (isZipSel sels true)).length ≥ 2)
    (hl : ZLen L (v.dims.map (selOfDim f sels idx true)))
    (hs : sliceVar f sels idx true L newdim v = .ok v') (i : List Nat) :
    Arr.get v'.data i = (zipIdx (v.dims.map (selOfDim f sels idx true)) i).bind (Arr.get v.data) := by
  unfold sliceVar at hs
  simp only [hn, if_true] at hs
  split at hs
  · rename_i d hd
    have e := (Except.ok.inj hs).symm
    subst e
    exact zipSel_get L _ (v.dims.map f.dimLen) v.data d i hv.2
      (zSelsIn_map _ _ v.dims (fun k _ => selOfDim_lt f sels idx true hidx k)) hl hd
  · cases hs

/-! ## the file operation as a whole -/

theorem isZipSel_false (sels : List (String × PSel)) (k : String) : isZipSel sels false k = false := by
  unfold isZipSel
  cases lookupSel sels k <;> simp

/-- **C02 (sliceDimensions as a file operation, orthogonal selections).** When at most one index list is given, slicing
succeeds only with a file that has, for every variable of the input, one variable of the same name and dimensions whose
cell at any index is the cell of the input variable at the index that takes, on every axis, the entry of that axis'
selection — any number of variables of any rank, any mix of integers, slices and the one list, in any keyword order. -/
theorem slice_orth_cells (f r : File) (sels : List (String × PSel)) (newdim : String) (hwf : WF f)
    (hz : decide ((sels.filter (·.2.isList)).length ≥ 2) = false) (hs : sliceFile f sels newdim = .ok r) :
    ∃ idx, sliceIdx f sels = .ok idx ∧
      ∀ v' ∈ r.vars, ∃ v ∈ f.vars, v'.name = v.name ∧ v'.dims = v.dims ∧ v'.attrs = v.attrs ∧
        ∀ i, Arr.get v'.data i =
          (mapIdx ((v.dims.map (selOfDim f sels idx false)).map selIdxs) i).bind (Arr.get v.data) := by
  unfold sliceFile at hs
  split at hs
  · cases hs
  · split at hs
    · cases hs
    · simp only at hs
      split at hs
      · cases hs
      · split at hs
        · cases hs
        · rename_i idx hidx
          split at hs
          · rename_i vars hvars
            have e := (Except.ok.inj hs).symm
            subst e
            refine ⟨idx, hidx, ?_⟩
            intro v' hv'
            simp only at hv'
            rw [hz] at hvars
            obtain ⟨v, hvm, hsv⟩ := mapM_except_mem _ _ _ hvars v' hv'
            have hn : ¬ (v.dims.filter (isZipSel sels false)).length ≥ 2 := by
              have : v.dims.filter (isZipSel sels false) = [] := by
                rw [List.filter_eq_nil_iff]
                intro k _
                simp [isZipSel_false]
              rw [this]
              simp
            have hdims := (sliceVar_orth_get f sels idx false _ newdim v v' (hwf v hvm) hidx hn hsv []).1
            refine ⟨v, hvm, ?_, hdims, ?_, fun i => (sliceVar_orth_get f sels idx false _ newdim v v' (hwf v hvm) hidx hn hsv i).2⟩
            · unfold sliceVar at hsv
              simp only [hn, if_false] at hsv
              have e := (Except.ok.inj hsv).symm
              subst e
              rfl
            · unfold sliceVar at hsv
              simp only [hn, if_false] at hsv
              have e := (Except.ok.inj hsv).symm
              subst e
              rfl
          · cases hs

end Props.C02
