import PncModel.Camx.CloudRainRead
import PncProofs.WindLemmas

/-! the memory-mapped cloud/rain reader undoes the encoder -/
namespace CloudRain
open Words Slab Wind

/-- the words of one time step: the framed (time, date) record and the framed slabs -/
def stepWords (s : CStep) : List Word := frame [s.time, s.date] ++ (s.slabs.map frame).flatten

theorem encode_eq (f : CFile) :
    encode f = frame (f.desc ++ [f.nx, f.ny, f.nz]) ++ (f.steps.map stepWords).flatten := by
  simp only [encode, records, encodeRecs_cons']
  congr 1
  induction f.steps with
  | nil => rfl
  | cons s rest ih =>
    simp only [List.map_cons, List.flatten_cons, encodeRecs_append', encodeRecs_cons', stepWords, encodeRecs_eq_flatten,
      List.append_assoc]
    rw [← ih]
    simp [encodeRecs_eq_flatten]

/-- a cloud/rain file the reader can tell apart: `nv` = 3 or 5 variables, `nz` layers, every step with `nz * nv`
slabs of `nx * ny` words; a 3-variable file must not have a data section that is also a whole number of
5-variable steps (the format does not say which it is) -/
structure WFc (nv : Nat) (f : CFile) : Prop where
  vars : nv = 3 ∨ nv = 5
  shape : ∀ s ∈ f.steps, s.slabs.length = f.nz * nv ∧ ∀ c ∈ s.slabs, c.length = f.nx * f.ny
  unambiguous : nv = 3 → (f.steps.length * (3 * f.nz * (f.nx * f.ny + 2) + 4)) % (5 * f.nz * (f.nx * f.ny + 2) + 4) ≠ 0

theorem stepWords_length (cells n : Nat) (s : CStep) (hs : s.slabs.length = n) (hc : ∀ c ∈ s.slabs, c.length = cells) :
    (stepWords s).length = n * (cells + 2) + 4 := by
  simp only [stepWords, List.length_append, frame_length, List.length_cons, List.length_nil,
    frames_length cells s.slabs hc, hs]
  rw [Nat.mul_comm]; omega

theorem parseStep_stepWords (cells n : Nat) (s : CStep) (hs : s.slabs.length = n) (hc : ∀ c ∈ s.slabs, c.length = cells) :
    parseStep cells n (stepWords s) = some s := by
  unfold parseStep
  have hdrop : (stepWords s).drop 4 = (s.slabs.map frame).flatten := by
    simp [stepWords, frame]
  have hbl : ((s.slabs.map frame).flatten).length = (cells + 2) * n := by
    rw [frames_length cells s.slabs hc, hs]
  have h03 : ¬ ((stepWords s).getD 0 0 ≠ (stepWords s).getD 3 0) := by simp [stepWords, frame]
  rw [if_neg h03]
  simp only [hdrop, hbl, ne_eq, not_true_eq_false, if_false]
  rw [chunk_flatten (cells + 2) (by omega) (s.slabs.map frame) _ (by
      intro p hp
      obtain ⟨c, hcm, rfl⟩ := List.mem_map.mp hp
      rw [frame_length, hc c hcm]) (by rw [hbl]), mapM_dataRow]
  simp [stepWords, frame]

theorem readSteps_flatten (cells n : Nat) : ∀ (steps : List CStep),
    (∀ s ∈ steps, s.slabs.length = n ∧ ∀ c ∈ s.slabs, c.length = cells) →
    readSteps cells n (n * (cells + 2) + 4) steps.length ((steps.map stepWords).flatten) = some steps
  | [], _ => rfl
  | s :: rest, hall => by
    obtain ⟨hs, hc⟩ := hall s (by simp)
    have hl := stepWords_length cells n s hs hc
    simp only [List.length_cons, readSteps, List.map_cons, List.flatten_cons]
    have htake : (stepWords s ++ (rest.map stepWords).flatten).take (n * (cells + 2) + 4) = stepWords s := by
      rw [← hl, List.take_left]
    have hdrop : (stepWords s ++ (rest.map stepWords).flatten).drop (n * (cells + 2) + 4) = (rest.map stepWords).flatten := by
      rw [← hl, List.drop_left]
    rw [htake, hdrop, parseStep_stepWords cells n s hs hc, readSteps_flatten cells n rest (fun x hx => hall x (by simp [hx]))]

theorem steps_length (cells n : Nat) : ∀ (steps : List CStep),
    (∀ s ∈ steps, s.slabs.length = n ∧ ∀ c ∈ s.slabs, c.length = cells) →
    ((steps.map stepWords).flatten).length = steps.length * (n * (cells + 2) + 4)
  | [], _ => by simp
  | s :: rest, hall => by
    obtain ⟨hs, hc⟩ := hall s (by simp)
    simp only [List.map_cons, List.flatten_cons, List.length_append, stepWords_length cells n s hs hc,
      steps_length cells n rest (fun x hx => hall x (by simp [hx])), List.length_cons]
    generalize n * (cells + 2) + 4 = W
    rw [Nat.succ_mul, Nat.add_comm]

/-- **the memory-mapped cloud/rain reader recovers the content**: description, grid, and for every time step the
time, the date and every (layer, variable) slab — for 3- and 5-variable files of any size that are not ambiguous. -/
theorem read_encode (nv : Nat) (f : CFile) (w : WFc nv f) : read (encode f) = some f := by
  obtain ⟨hnv, hshape, hunamb⟩ := w
  rw [encode_eq]
  unfold read
  have hhead : (frame (f.desc ++ [f.nx, f.ny, f.nz]) ++ (f.steps.map stepWords).flatten).headD 0 / 4 = f.desc.length + 3 := by
    simp only [frame, List.append_assoc, List.cons_append, List.nil_append, List.headD_cons, List.length_append,
      List.length_cons, List.length_nil]
    rw [Nat.mul_div_cancel_left _ (show 0 < 4 by omega)]
  simp only [hhead]
  have hlt : ¬ (f.desc.length + 3 < 3) := by omega
  rw [if_neg hlt]
  have hpay : ((frame (f.desc ++ [f.nx, f.ny, f.nz]) ++ (f.steps.map stepWords).flatten).drop 1).take (f.desc.length + 3) =
      f.desc ++ [f.nx, f.ny, f.nz] := by
    have : frame (f.desc ++ [f.nx, f.ny, f.nz]) ++ (f.steps.map stepWords).flatten =
        (4 * (f.desc ++ [f.nx, f.ny, f.nz]).length) :: ((f.desc ++ [f.nx, f.ny, f.nz]) ++
          ([4 * (f.desc ++ [f.nx, f.ny, f.nz]).length] ++ (f.steps.map stepWords).flatten)) := by simp [frame]
    rw [this, List.drop_succ_cons, List.drop_zero]
    have hl : (f.desc ++ [f.nx, f.ny, f.nz]).length = f.desc.length + 3 := by simp
    rw [← hl, List.take_left]
  have hdata : (frame (f.desc ++ [f.nx, f.ny, f.nz]) ++ (f.steps.map stepWords).flatten).drop (f.desc.length + 3 + 2) =
      (f.steps.map stepWords).flatten := by
    have hl : (frame (f.desc ++ [f.nx, f.ny, f.nz])).length = f.desc.length + 3 + 2 := by simp [frame_length]
    rw [← hl, List.drop_left]
  have hx : (f.desc ++ [f.nx, f.ny, f.nz]).getD (f.desc.length + 3 - 3) 0 = f.nx := by
    simp [List.getD_eq_getElem?_getD, List.getElem?_append_right]
  have hy : (f.desc ++ [f.nx, f.ny, f.nz]).getD (f.desc.length + 3 - 2) 0 = f.ny := by
    have : f.desc.length + 3 - 2 = f.desc.length + 1 := by omega
    rw [this]
    simp [List.getD_eq_getElem?_getD, List.getElem?_append_right]
  have hz : (f.desc ++ [f.nx, f.ny, f.nz]).getD (f.desc.length + 3 - 1) 0 = f.nz := by
    have : f.desc.length + 3 - 1 = f.desc.length + 2 := by omega
    rw [this]
    simp [List.getD_eq_getElem?_getD, List.getElem?_append_right]
  have hdesc : (f.desc ++ [f.nx, f.ny, f.nz]).take (f.desc.length + 3 - 3) = f.desc := by simp
  simp only [hpay, hdata, hx, hy, hz, hdesc]
  have hall : ∀ s ∈ f.steps, s.slabs.length = f.nz * nv ∧ ∀ c ∈ s.slabs, c.length = f.nx * f.ny := hshape
  have hlen := steps_length (f.nx * f.ny) (f.nz * nv) f.steps hall
  have hW : ∀ k : Nat, k * f.nz * (f.nx * f.ny + 2) + 4 = f.nz * k * (f.nx * f.ny + 2) + 4 := by
    intro k; rw [Nat.mul_comm k f.nz]
  -- the reader settles on the right number of variables
  have hguess : guessVars f.nz (f.nx * f.ny) ((f.steps.map stepWords).flatten).length = nv := by
    unfold guessVars
    rw [hlen]
    rcases hnv with rfl | rfl
    · have h5 := hunamb rfl
      have e3 : f.nz * 3 * (f.nx * f.ny + 2) + 4 = 3 * f.nz * (f.nx * f.ny + 2) + 4 := by rw [Nat.mul_comm f.nz 3]
      rw [e3, if_neg h5, if_pos (Nat.mul_mod_left _ _)]
    · have e5 : f.nz * 5 * (f.nx * f.ny + 2) + 4 = 5 * f.nz * (f.nx * f.ny + 2) + 4 := by rw [Nat.mul_comm f.nz 5]
      rw [e5, if_pos (Nat.mul_mod_left _ _)]
  rw [hguess, hW nv, hlen]
  have hmod : ¬ (f.steps.length * (f.nz * nv * (f.nx * f.ny + 2) + 4) % (f.nz * nv * (f.nx * f.ny + 2) + 4) ≠ 0) := by
    rw [Nat.mul_mod_left]; simp
  rw [if_neg hmod, Nat.mul_div_cancel _ (by omega), readSteps_flatten (f.nx * f.ny) (f.nz * nv) f.steps hall]

end CloudRain
