import PncProofs.ArlLemmas
import PncProofs.C20
import PncProofs.InterpLemmas
import PncProofs.SigmaLemmas
import PncProofs.C17
import PncProofs.Val2idxLemmas
import PncProofs.C16
import PncProofs.C15
