import PncProofs.ArlLemmas
import PncProofs.C20
