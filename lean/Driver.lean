import PncModel

/-- one request line `<stream> <args…>` → one answer line -/
def step (line : String) : String :=
  match line.trimAscii.toString.splitOn " " with
  | "c20" :: args => Arl.run args
  | "c17" :: args => Interp.run args
  | "c16" :: args => Val2idx.run args
  | "c15" :: args => Registry.run args
  | "c12" :: args => TimeDec.run args
  | "c01" :: args => PFile.runC01 args
  | "c02" :: args => PFile.runC02 args
  | "c03" :: args => PFile.runC03 args
  | "c04" :: args => PFile.runC04 args
  | "c06" :: args => PFile.runC06 args
  | "c05h" :: args => Handles.runLine args
  | "c10" :: args => Ioapi.run args
  | "c07" :: args => NcStore.run args
  | "c19" :: args => Icartt.run args
  | "c18" :: args => Bpch.run args
  | "bin" :: args => Camx.runBin args
  | _ => "err bad-stream"

partial def loop (h : IO.FS.Stream) : IO Unit := do
  let line ← h.getLine
  if line.isEmpty then return ()
  IO.println (step line)
  loop h

def main : IO Unit := do loop (← IO.getStdin)
