import PncModel.Wire
import PncModel.Generated.CloseGuard
/-
Handles: the netCDF-C handle table and the Python objects that refer to it (property C05, part c).
The C library hands out the lowest free slot; a Python object remembers its slot and an `isopen`
flag.  `close` calls the library close on the remembered slot — guarded by `isopen` or not,
according to the flag re-extracted from the source on every run.
-/
namespace Handles

structure Obj where
  slot : Nat          -- id handed out by the library when the object was opened
  file : Nat          -- which file the user opened
  pyOpen : Bool       -- netCDF4's own `_isopen` flag
  dropped : Bool      -- the user released the last reference (finaliser has run)
deriving Repr, DecidableEq

structure State where
  table : List (Nat × Nat)    -- open slots of the C library: slot ↦ file
  objs : List Obj
deriving Repr, DecidableEq

def init : State := ⟨[], []⟩

def lowestFree (t : List (Nat × Nat)) : Nat :=
  ((List.range (t.length + 1)).find? (fun s => !(t.any (·.1 == s)))).getD t.length

inductive Ev where
  | open (file : Nat)
  | close (obj : Nat)       -- obj.close()
  | drop (obj : Nat)        -- del obj : finaliser (`__del__` → close) and deallocation
deriving Repr, DecidableEq

/-- the library close on a slot: removes it from the table (an unknown slot is an error the
wrapper swallows) -/
def libClose (t : List (Nat × Nat)) (slot : Nat) : List (Nat × Nat) := t.filter (·.1 != slot)

def closeObj (guarded : Bool) (s : State) (i : Nat) : State :=
  match s.objs[i]? with
  | none => s
  | some o =>
    if guarded ∧ !o.pyOpen then s
    else { table := libClose s.table o.slot,
           objs := s.objs.set i { o with pyOpen := false } }

def stepWith (guarded : Bool) (s : State) : Ev → State
  | .open f =>
    let slot := lowestFree s.table
    { table := s.table ++ [(slot, f)], objs := s.objs ++ [⟨slot, f, true, false⟩] }
  | .close i => closeObj guarded s i
  | .drop i =>
    let s' := closeObj guarded s i
    { s' with objs := match s'.objs[i]? with
        | some o => s'.objs.set i { o with dropped := true }
        | none => s'.objs }

/-- the model of the code as it is now -/
def step (s : State) (e : Ev) : State := stepWith (Generated.closeGuarded.getD false) s e

def run (s : State) (es : List Ev) : State := es.foldl step s

/-- can object `i` still be read?  (its own flag says open and its slot still maps to its file) -/
def readable (s : State) (i : Nat) : Bool :=
  match s.objs[i]? with
  | some o => o.pyOpen && s.table.any (fun p => p.1 == o.slot && p.2 == o.file)
  | none => false

open Wire

def parseEv (t : String) : Option Ev :=
  match t.splitOn ":" with
  | ["o", f] => (parseNat f).map .open
  | ["c", i] => (parseNat i).map .close
  | ["d", i] => (parseNat i).map .drop
  | _ => none

/-- `hist <events>` → after every event, the readability of every object created so far -/
def runLine : List String → String
  | ["hist", evs] =>
    match parseList parseEv evs with
    | some es =>
      let rec go (s : State) : List Ev → List String
        | [] => []
        | e :: rest =>
          let s' := step s e
          (String.join ((List.range s'.objs.length).map (fun i => if readable s' i then "1" else "0"))) :: go s' rest
      "ok " ++ showList id (go init es)
    | none => "err parse"
  | _ => "err bad-op"

end Handles
