import PncModel.Wire
/-
Icartt: model of the ICARTT (ffi1001) writer `ncf2ffi1001` and reader `ffi1001.__init__`
(icarttfiles/ffi1001.py, property C19) at the level of *lines*.

The writer produces a list of typed lines; the reader interprets lines purely by their position (line 10 is
the number of dependent variables, line 12 the missing codes, lines 13… the variable descriptions, then the
two comment blocks, and line `n_header_lines` — the count declared on line 1 — the column names).  That
positional logic, the declared counts, the order of names, units and missing codes, and the masking rule
(a value is missing iff it equals the variable's code) are what this model carries.  The text of a number
(`%.6e`) and its parsing are outside: a written value is the exact decimal the harness computed for it.
-/
namespace Icartt

/-- one line of the file, by content type -/
inductive Line where
  | first (n : Nat)                        -- "n, 1001"
  | text (s : String)                      -- PI, organisation, source, mission, volume, dates, interval
  | indep (name : String) (unit : Option String)
  | count (n : Nat)                        -- a line holding one integer
  | scales (n : Nat)                       -- n scale factors, all 1
  | codes (l : List (String × Rat))        -- missing codes as spelled, with their values
  | desc (name unit : String)              -- "name, unit"
  | attr (k v : String)                    -- "KEY: value"
  | names (l : List String)
  | data (cells : List Rat)
deriving Repr, DecidableEq

structure DVar where
  name : String
  unit : String
  codeStr : String
  code : Rat
  cells : List (Option Rat)                -- none = missing
deriving Repr, DecidableEq

structure File where
  head : List String                       -- the seven free-text header lines (2–8)
  indep : String
  indepUnit : Option String
  indepCells : List Rat
  deps : List DVar
  attrs : List (String × String)
deriving Repr, DecidableEq

def nrec (f : File) : Nat := f.indepCells.length

/-- the value written for a cell -/
def outCell (v : DVar) : Option Rat → Rat
  | some x => x
  | none => v.code

def dataLine (f : File) (i : Nat) : Line :=
  .data ((f.indepCells.getD i 0) :: f.deps.map (fun v => outCell v (v.cells.getD i none)))

/-- the unit field of line 9: written when the variable has a unit different from its name -/
def wUnit (f : File) : Option String :=
  match f.indepUnit with
  | some u => if u = f.indep then none else some u
  | none => none

/-- `ncf2ffi1001` -/
def write (f : File) : List Line :=
  [.first (f.attrs.length + f.deps.length + 15)] ++
  f.head.map .text ++
  [.indep f.indep (wUnit f),
   .count f.deps.length,
   .scales f.deps.length,
   .codes (f.deps.map (fun v => (v.codeStr, v.code)))] ++
  f.deps.map (fun v => .desc v.name v.unit) ++
  [.count 0, .count f.attrs.length] ++
  f.attrs.map (fun a => .attr a.1 a.2) ++
  [.names (f.indep :: f.deps.map (·.name))] ++
  (List.range (nrec f)).map (dataLine f)

/-- keysubs: '/' in a column name becomes '_' -/
def subName (s : String) : String := s.replace "/" "_"

/-- the cell as read: missing iff equal to the code -/
def inCell (code : Rat) (x : Rat) : Option Rat := if x = code then none else some x

/-- the unit the reader gives the independent variable: the second field of line 9, else the name -/
def rUnit (name : String) : Option String → String
  | some u => u
  | none => name

def getFirst : Option Line → Option Nat | some (.first n) => some n | _ => none
def getText : Option Line → Option String | some (.text s) => some s | _ => none
def getIndep : Option Line → Option (String × Option String) | some (.indep a b) => some (a, b) | _ => none
def getCount : Option Line → Option Nat | some (.count k) => some k | _ => none
def getScales : Option Line → Option Nat | some (.scales k) => some k | _ => none
def getCodes : Option Line → Option (List (String × Rat)) | some (.codes l) => some l | _ => none
def getDesc : Option Line → Option (String × String) | some (.desc a b) => some (a, b) | _ => none
def getAttr : Option Line → Option (String × String) | some (.attr k v) => some (k, v) | _ => none
def getNames : Option Line → Option (List String) | some (.names l) => some l | _ => none
def getData : Line → Option (List Rat) | .data c => some c | _ => none

/-- the variables the reader builds from the column names, codes, descriptions and rows -/
def mkDeps (names : List String) (codes : List (String × Rat)) (descs : List (String × String))
    (rows : List (List Rat)) : List DVar :=
  (List.range codes.length).map (fun j =>
    let c := codes.getD j ("", 0)
    { name := names.getD (j + 1) "", unit := (descs.getD j ("", "")).2, codeStr := c.1, code := c.2,
      cells := (rows.map (fun r => r.getD (j + 1) 0)).map (inCell c.2) })

/-- `ffi1001.__init__`: lines are taken by position.  Errors (a line of the wrong kind at a position the
reader interprets, inconsistent counts) are `none`. -/
def read (ls : List Line) : Option File := do
  let n ← getFirst ls[0]?
  let head ← (List.range 7).mapM (fun i => getText ls[i + 1]?)
  let iv ← getIndep ls[8]?
  let _ndep ← getCount ls[9]?
  let _ ← getScales ls[10]?
  let codes ← getCodes ls[11]?
  let nd := codes.length                                -- the reader sizes everything by the code list
  let descs ← (List.range nd).mapM (fun i => getDesc ls[12 + i]?)
  let nspecial ← getCount ls[12 + nd]?
  if nspecial ≠ 0 then none                             -- special comments are not written by the library
  let _nuser ← getCount ls[13 + nd]?
  -- user comments: every line after the count up to (not including) line n
  let attrs ← (List.range (n - 1 - (14 + nd))).mapM (fun i => getAttr ls[14 + nd + i]?)
  let names ← getNames ls[n - 1]?
  let rows ← (ls.drop n).mapM getData
  if names.length ≠ nd + 1 then none                    -- data.reshape(nlines, len(variables)) / units[vi]
  if rows.any (fun r => r.length ≠ names.length) then none
  let names := names.map subName
  pure { head := head, indep := iv.1, indepUnit := some (rUnit iv.1 iv.2),
         indepCells := rows.map (fun r => r.getD 0 0),
         deps := mkDeps names codes descs rows,
         attrs := attrs }

/-! ### wire format -/
open Wire

def hexDecode (s : String) : Option String :=
  let cs := s.toList
  let rec go : List Char → List Char → Option (List Char)
    | [], acc => some acc.reverse
    | [_], _ => none
    | a :: b :: rest, acc =>
      let hv (c : Char) : Option Nat :=
        if c.isDigit then some (c.toNat - 48) else if 'a' ≤ c ∧ c ≤ 'f' then some (c.toNat - 87) else none
      match hv a, hv b with
      | some x, some y => go rest (Char.ofNat (x * 16 + y) :: acc)
      | _, _ => none
  (go cs []).map String.mk

def hexEncode (s : String) : String :=
  let d (n : Nat) : Char := if n < 10 then Char.ofNat (48 + n) else Char.ofNat (87 + n)
  String.mk (s.toList.flatMap (fun c => [d (c.toNat / 16), d (c.toNat % 16)]))

def hs (s : String) : String := if s.isEmpty then "~" else hexEncode s
def unhs (s : String) : Option String := if s = "~" then some "" else hexDecode s

def showLine : Line → String
  | .first n => s!"F:{n}"
  | .text s => s!"T:{hs s}"
  | .indep a b => s!"I:{hs a}:{match b with | some u => hs u | none => "_"}"
  | .count n => s!"C:{n}"
  | .scales n => s!"S:{n}"
  | .codes l => s!"M:{showList (fun (p : String × Rat) => hs p.1 ++ "=" ++ showRat p.2) l}"
  | .desc a b => s!"D:{hs a}:{hs b}"
  | .attr k v => s!"A:{hs k}:{hs v}"
  | .names l => s!"N:{showList hs l}"
  | .data c => s!"R:{showList showRat c}"

def parseLine (s : String) : Option Line :=
  match s.splitOn ":" with
  | ["F", n] => (parseNat n).map Line.first
  | ["T", t] => (unhs t).map Line.text
  | ["I", a, b] => do
    let a ← unhs a
    let b ← if b = "_" then some none else (unhs b).map some
    pure (.indep a b)
  | ["C", n] => (parseNat n).map Line.count
  | ["S", n] => (parseNat n).map Line.scales
  | ["M", l] => (parseList (fun t => match t.splitOn "=" with
      | [a, b] => match unhs a, parseRat b with
        | some a, some b => some (a, b)
        | _, _ => none
      | _ => none) l).map Line.codes
  | ["D", a, b] => match unhs a, unhs b with
    | some a, some b => some (.desc a b)
    | _, _ => none
  | ["A", a, b] => match unhs a, unhs b with
    | some a, some b => some (.attr a b)
    | _, _ => none
  | ["N", l] => (parseList unhs l).map Line.names
  | ["R", l] => (parseList parseRat l).map Line.data
  | _ => none

def showFile (f : File) : String :=
  let dv (v : DVar) : String :=
    s!"{hs v.name}|{hs v.unit}|{hs v.codeStr}|{showRat v.code}|{showList (showOpt showRat) v.cells}"
  s!"head={showList hs f.head} indep={hs f.indep} iunit={match f.indepUnit with | some u => hs u | none => "_"} " ++
  s!"icells={showList showRat f.indepCells} deps={if f.deps.isEmpty then "-" else ";".intercalate (f.deps.map dv)} " ++
  s!"attrs={showList (fun (p : String × String) => hs p.1 ++ "=" ++ hs p.2) f.attrs}"

def parseFile (toks : List String) : Option File := do
  let kv := toks.filterMap (fun t => match t.splitOn "=" with
    | k :: rest => some (k, "=".intercalate rest)
    | _ => none)
  let get (k : String) : Option String := (kv.find? (·.1 == k)).map (·.2)
  let head ← (get "head").bind (parseList unhs)
  let indep ← (get "indep").bind unhs
  let iu ← get "iunit"
  let iunit ← if iu = "_" then some none else (unhs iu).map some
  let icells ← (get "icells").bind (parseList parseRat)
  let ds ← get "deps"
  let deps ← if ds = "-" then some [] else (ds.splitOn ";").mapM (fun t => match t.splitOn "|" with
    | [a, b, c, d, e] => do
      let a ← unhs a
      let b ← unhs b
      let c ← unhs c
      let d ← parseRat d
      let e ← parseList (parseOpt parseRat) e
      pure ({ name := a, unit := b, codeStr := c, code := d, cells := e } : DVar)
    | _ => none)
  let at' ← (get "attrs").bind (parseList (fun t => match t.splitOn "=" with
    | [a, b] => match unhs a, unhs b with
      | some a, some b => some (a, b)
      | _, _ => none
    | _ => none))
  pure { head := head, indep := indep, indepUnit := iunit, indepCells := icells, deps := deps, attrs := at' }

/-- `c19 write <file tokens>` → the lines; `c19 read lines=<l>§<l>…` → the file -/
def run : List String → String
  | "write" :: toks => match parseFile toks with
    | some f => "ok " ++ "§".intercalate ((write f).map showLine)
    | none => "err parse"
  | ["read", ls] => match (ls.splitOn "§").mapM parseLine with
    | some l => (match read l with
      | some f => "ok " ++ showFile f
      | none => "err read")
    | none => "err parse"
  | _ => "err unknown"

end Icartt
