import PncModel.Wire
/-
Interp: exact-arithmetic model of `coordutil.getinterpweights` and `coordutil.sigma2coeff`
(property C17).

`getinterpweights(xs, nxs)`: scipy `interp1d(xs, identity, kind='linear', fill_value='extrapolate')`
evaluated at `nxs`, then (unless `extrapolate`) clipped at 0 and renormalised per target.
interp1d sorts `xs`; for a target `t` it takes `lo = clip(searchsorted(xs, t), 1, n-1) - 1` and
evaluates `slope * (t - x_lo) + y_lo` for every basis vector.  `col` is that computation on an
ascending list, written as the segment search it is.
-/
namespace Interp

def zeros (n : Nat) : List Rat := List.replicate n 0

/-- weights of one target `t` over ascending `xs` (linear, extrapolating end segments) -/
def col : List Rat → Rat → List Rat
  | [_], _ => [1]       -- one source level: the only line through one point is the constant (repaired code)
  | [x0, x1], t => let f := (t - x0) / (x1 - x0); [1 - f, f]
  | x0 :: x1 :: x2 :: rest, t =>
    if t ≤ x1 then let f := (t - x0) / (x1 - x0); (1 - f) :: f :: zeros (rest.length + 1)
    else 0 :: col (x1 :: x2 :: rest) t
  | _, _ => []

def sum (l : List Rat) : Rat := l.foldr (· + ·) 0

/-- `np.maximum(0, w); w /= w.sum(0)` -/
def clipNorm (w : List Rat) : List Rat :=
  let c := w.map (max 0)
  c.map (· / sum c)

def dot : List Rat → List Rat → Rat
  | a :: as, b :: bs => a * b + dot as bs
  | _, _ => 0

/-- weights for one target, ascending source -/
def weightsAsc (extrapolate : Bool) (xs : List Rat) (t : Rat) : List Rat :=
  if extrapolate then col xs t else clipNorm (col xs t)

def isAsc : List Rat → Bool
  | a :: b :: rest => a < b && isAsc (b :: rest)
  | _ => true

def isDesc : List Rat → Bool
  | a :: b :: rest => a > b && isDesc (b :: rest)
  | _ => true

/-- weights for one target; a descending source is handled as interp1d does (sort, i.e. reverse) -/
def weights (extrapolate : Bool) (xs : List Rat) (t : Rat) : List Rat :=
  if isAsc xs then weightsAsc extrapolate xs t
  else (weightsAsc extrapolate xs.reverse t).reverse

/-- the matrix as a list of columns (one per target) -/
def weightMatrix (extrapolate : Bool) (xs nxs : List Rat) : List (List Rat) :=
  nxs.map (weights extrapolate xs)

/-! ### sigma2coeff -/

def clamp01 (x : Rat) : Rat := max 0 (min 1 x)

/-- fractional layer index of sigma value `v` in the descending edge list (np.interp on the
reversed arrays: clamped outside the range) -/
def fidx : List Rat → Rat → Rat
  | [s0, s1], v =>
    if v ≥ s0 then 0 else if v ≥ s1 then (s0 - v) / (s0 - s1) else 1
  | s0 :: s1 :: s2 :: rest, v =>
    if v ≥ s0 then 0
    else if v ≥ s1 then (s0 - v) / (s0 - s1)
    else 1 + fidx (s1 :: s2 :: rest) v
  | _, _ => 0

def floorZ (q : Rat) : Int := q.num / q.den
def ceilZ (q : Rat) : Int := -((-q).num / (-q).den)

/-- one entry as the code computes it: only layers in `range(floor(b), ceil(t))` are touched -/
def codeCoeff (b t : Rat) (lay : Int) : Rat :=
  if floorZ b ≤ lay ∧ lay < ceilZ t then min (t - lay) 1 - max (b - lay) 0 else 0

/-- column of the coefficient matrix for the target layer with fractional edges (b, t),
over `n` source layers starting at layer index `l0` -/
def coeffCol (b t : Rat) : Nat → Int → List Rat
  | 0, _ => []
  | n + 1, l0 => codeCoeff b t l0 :: coeffCol b t n (l0 + 1)

/-- consecutive pairs -/
def pairs : List Rat → List (Rat × Rat)
  | a :: b :: rest => (a, b) :: pairs (b :: rest)
  | _ => []

/-- `sigma2coeff(from, to)` as a list of columns (one per target layer) -/
def sigma2coeff (src dst : List Rat) : List (List Rat) :=
  (pairs (dst.map (fidx src))).map (fun (b, t) => coeffCol b t (src.length - 1) 0)

/-- source layer thicknesses `-diff(vglvls)` -/
def thick : List Rat → List Rat
  | a :: b :: rest => (a - b) :: thick (b :: rest)
  | _ => []

/-- `interpsigma(data)` for one column of data: (data·fdp).sum / ndp per target layer -/
def conserveApply (src dst : List Rat) (data : List Rat) : List (Option Rat) :=
  (sigma2coeff src dst).map (fun c =>
    let fdp := List.zipWith (· * ·) (thick src) c
    let ndp := sum fdp
    if ndp = 0 then none else some (dot data fdp / ndp))

/-- `(weights * data[:, None]).sum(0)`: the interpolated values of one column of data; `data` may be shorter than
the source axis (`weights[:data.shape[0]]` in the GEOS-Chem `interpSigma`) -/
def linearApply (extrapolate : Bool) (xs nxs data : List Rat) : List Rat :=
  (weightMatrix extrapolate xs nxs).map (fun w => dot (w.take data.length) data)

open Wire

def run : List String → String
  | ["weights", ex, xs, nxs] =>
    match parseList parseRat xs, parseList parseRat nxs with
    | some x, some n =>
      if x.length < 1 then "err short"
      else if !(isAsc x || isDesc x) then "err nonmonotone"
      else s!"ok {showRows showRat (weightMatrix (ex == "1") x n)}"
    | _, _ => "err parse"
  | ["linear", ex, xs, nxs, data] =>
    match parseList parseRat xs, parseList parseRat nxs, parseList parseRat data with
    | some x, some n, some d =>
      if x.length < 1 then "err short"
      else if !(isAsc x || isDesc x) then "err nonmonotone"
      else s!"ok {showList showRat (linearApply (ex == "1") x n d)}"
    | _, _, _ => "err parse"
  | ["sigma", src, dst] =>
    match parseList parseRat src, parseList parseRat dst with
    | some s, some d =>
      if s.length < 2 || d.length < 2 then "err short" else
      s!"ok {showRows showRat (sigma2coeff s d)}"
    | _, _ => "err parse"
  | ["conserve", src, dst, data] =>
    match parseList parseRat src, parseList parseRat dst, parseList parseRat data with
    | some s, some d, some x =>
      if s.length < 2 || d.length < 2 || x.length + 1 ≠ s.length then "err short" else
      s!"ok {showList (showOpt showRat) (conserveApply s d x)}"
    | _, _, _ => "err parse"
  | _ => "err bad-op"

end Interp
