import PncModel.Wire
/-
Arr: nested rectangular arrays (the model of numpy arrays for the structural operations,
properties C01–C06) and Python index normalisation.
A cell is `Option Rat` in the file model (`none` = masked); this file is generic.
-/

inductive Arr (α : Type) where
  | leaf : α → Arr α
  | node : List (Arr α) → Arr α
deriving Repr

namespace Arr
variable {α : Type}

/-! ### building from / flattening to row-major data -/

def chunks : Nat → Nat → List β → List (List β)
  | 0, _, _ => []
  | n + 1, k, l => l.take k :: chunks n k (l.drop k)

/-- nested array of the given shape from row-major data (missing data → `dflt`) -/
def unflatten (dflt : α) : List Nat → List α → Arr α
  | [], l => leaf (l.headD dflt)
  | n :: rest, l =>
    let k := rest.foldl (· * ·) 1
    node ((chunks n k l).map (unflatten dflt rest))

mutual
def flatten : Arr α → List α
  | leaf a => [a]
  | node xs => flattenL xs
def flattenL : List (Arr α) → List α
  | [] => []
  | x :: xs => flatten x ++ flattenL xs
end

-- does the array have exactly this shape?
mutual
def hasShape : List Nat → Arr α → Bool
  | [], leaf _ => true
  | n :: rest, node xs => xs.length == n && hasShapeL rest xs
  | _, _ => false
def hasShapeL : List Nat → List (Arr α) → Bool
  | _, [] => true
  | s, x :: xs => hasShape s x && hasShapeL s xs
end

/-- element at a multi-index -/
def get : Arr α → List Nat → Option α
  | leaf a, [] => some a
  | node xs, i :: rest => match xs[i]? with
    | some x => get x rest
    | none => none
  | _, _ => none

-- map over cells
mutual
def mapCells (g : α → α) : Arr α → Arr α
  | leaf a => leaf (g a)
  | node xs => node (mapCellsL g xs)
def mapCellsL (g : α → α) : List (Arr α) → List (Arr α)
  | [] => []
  | x :: xs => mapCells g x :: mapCellsL g xs
end

/-- tabulate: the array of shape `sh` whose cell at `idx` is `f idx` -/
def build : List Nat → (List Nat → α) → Arr α
  | [], f => leaf (f [])
  | n :: rest, f => node ((List.range n).map (fun i => build rest (fun idx => f (i :: idx))))

/-! ### orthogonal selection -/

/-- `xs[i]` for every `i` of the index list (out-of-range indices are dropped; the file level
rejects them before) -/
def pick (idxs : List Nat) (xs : List (Arr α)) : List (Arr α) := idxs.filterMap (fun i => xs[i]?)

/-- per-axis (orthogonal) selection: one index list per axis, outermost first -/
def orth : List (List Nat) → Arr α → Arr α
  | s :: rest, node xs => node ((pick s xs).map (orth rest))
  | _, a => a

/-! ### zipped (pointwise) selection over several axes -/

inductive Sel where
  | keep (idxs : List Nat)     -- orthogonal index list (int → one index, slice → range)
  | zip (idxs : List Nat)      -- participates in the pointwise selection

/-- select point `p` of every remaining zipped axis (dropping those axes), orthogonally the others -/
def pointSel (p : Nat) : List Sel → Arr α → Option (Arr α)
  | Sel.keep s :: rest, node xs => (pick s xs).mapM (pointSel p rest) |>.map node
  | Sel.zip s :: rest, node xs => match s[p]? with
    | some i => match xs[i]? with
      | some x => pointSel p rest x
      | none => none
    | none => none
  | _, a => some a

/-- zipped selection: the new axis (length `L`) stands where the first zipped axis was -/
def zipSel (L : Nat) : List Sel → Arr α → Option (Arr α)
  | Sel.keep s :: rest, node xs => (pick s xs).mapM (zipSel L rest) |>.map node
  | Sel.zip s :: rest, a => (List.range L).mapM (fun p => pointSel p (Sel.zip s :: rest) a) |>.map node
  | _, a => some a

/-! ### structural operations along an axis -/

-- apply `f` to the list of sub-arrays at depth `k`
mutual
def atAxis (f : List (Arr α) → List (Arr α)) : Nat → Arr α → Arr α
  | _, leaf a => leaf a
  | 0, node xs => node (f xs)
  | k + 1, node xs => node (atAxisL f k xs)
def atAxisL (f : List (Arr α) → List (Arr α)) : Nat → List (Arr α) → List (Arr α)
  | _, [] => []
  | k, x :: xs => atAxis f k x :: atAxisL f k xs
end

-- concatenate two arrays along axis `k`
mutual
def concat : Nat → Arr α → Arr α → Arr α
  | 0, node xs, node ys => node (xs ++ ys)
  | k + 1, node xs, node ys => node (concatL k xs ys)
  | _, a, _ => a
def concatL : Nat → List (Arr α) → List (Arr α) → List (Arr α)
  | k, x :: xs, y :: ys => concat k x y :: concatL k xs ys
  | _, _, _ => []
end

/-- `j`-th child of every node in the list -/
def column (j : Nat) (xs : List (Arr α)) : List (Arr α) :=
  xs.filterMap (fun a => match a with | node ys => ys[j]? | leaf _ => none)

def leaves (xs : List (Arr α)) : List α :=
  xs.filterMap (fun a => match a with | leaf c => some c | node _ => none)

/-- combine a list of equally shaped sub-arrays (shape `sh`) cell by cell with the 1-D function
`g`: the result is the list of sub-arrays along the new axis -/
def pointwise (g : List α → List α) : List Nat → List (Arr α) → List (Arr α)
  | [], xs => (g (leaves xs)).map leaf
  | m :: rest, xs =>
    -- res[j] : list (over the new axis) of sub-arrays for position j of the next axis
    let res : List (List (Arr α)) := (List.range m).map (fun j => pointwise g rest (column j xs))
    let L := (res.headD []).length
    (List.range L).map (fun i => node (res.filterMap (fun r => r[i]?)))

/-- apply the 1-D function `g` along axis `k` of an array of shape `sh`, keeping the axis -/
def mapFibers (g : List α → List α) : List Nat → Nat → Arr α → Arr α
  | _ :: rest, 0, node xs => node (pointwise g rest xs)
  | _ :: rest, k + 1, node xs => node (xs.map (mapFibers g rest k))
  | _, _, a => a

end Arr

/-! ### Python index normalisation -/
namespace PySlice

/-- `i` (possibly negative) → position in `0..n-1`, or none (IndexError) -/
def normInt (n : Nat) (i : Int) : Option Nat :=
  if 0 ≤ i ∧ i < n then some i.toNat
  else if i < 0 ∧ -i ≤ n then some (i + n).toNat
  else none

/-- `slice(start, stop, step).indices(n)` as CPython computes them -/
def sliceBounds (n : Nat) (start stop : Option Int) (step : Int) : Int × Int :=
  let len : Int := n
  let lower : Int := if step < 0 then -1 else 0
  let upper : Int := if step < 0 then len - 1 else len
  let clampv (v : Int) : Int :=
    if v < 0 then (if v + len < lower then lower else v + len)
    else (if v > upper then upper else v)
  let s := match start with
    | none => if step < 0 then upper else lower
    | some v => clampv v
  let e := match stop with
    | none => if step < 0 then lower else upper
    | some v => clampv v
  (s, e)

/-- indices of `range(start, stop, step)` -/
def rangeList (s e step : Int) : List Nat :=
  if step > 0 then
    let cnt := if e > s then ((e - s + step - 1) / step).toNat else 0
    (List.range cnt).map (fun (k : Nat) => (s + step * (k : Int)).toNat)
  else if step < 0 then
    let cnt := if s > e then ((s - e + (-step) - 1) / (-step)).toNat else 0
    (List.range cnt).map (fun (k : Nat) => (s + step * (k : Int)).toNat)
  else []

def sliceIndices (n : Nat) (start stop : Option Int) (step : Int) : List Nat :=
  let (s, e) := sliceBounds n start stop step
  rangeList s e step

end PySlice
