import PncModel.Wire
/-
Val2idx: exact model of `PseudoNetCDFFile.val2idx` (core/_files.py), property C16.
All arithmetic over `Rat`; `none : Option Rat` stands for NaN.
-/
namespace Val2idx

/-- fractional position of `x` in the strictly ascending list `xs` (for `head ≤ x ≤ last`) — what
`np.interp(x, xs, arange(n))` returns inside the range -/
def fpos : List Rat → Rat → Rat
  | [x0, x1], x => (x - x0) / (x1 - x0)
  | x0 :: x1 :: x2 :: rest, x =>
    if x < x1 then (x - x0) / (x1 - x0) else 1 + fpos (x1 :: x2 :: rest) x
  | _, _ => 0

def isAsc : List Rat → Bool
  | a :: b :: rest => a < b && isAsc (b :: rest)
  | _ => true

def isDesc : List Rat → Bool
  | a :: b :: rest => a > b && isDesc (b :: rest)
  | _ => true

inductive Fill where
  | dflt            -- None: clamp to the end value
  | nan
  | val (q : Rat)

/-- `np.interp(x, xp, fp, left, right)` where `xp` is ascending and `fp k = if desc then m-1-k else k` -/
def interp (xp : List Rat) (desc : Bool) (left right : Fill) (x : Rat) : Option Rat :=
  let m : Rat := (xp.length : Nat)
  let fp (p : Rat) : Rat := if desc then m - 1 - p else p
  let lo := xp.headD 0
  let hi := xp.getLastD 0
  if x < lo then
    match left with
    | .dflt => some (fp 0)
    | .nan => none
    | .val q => some q
  else if x > hi then
    match right with
    | .dflt => some (fp (m - 1))
    | .nan => none
    | .val q => some q
  else some (fp (fpos xp x))

/-- approximate edges from cell centres (`method='bounds'` without a bounds variable) -/
def halfDiffs : List Rat → List Rat
  | a :: b :: rest => (b - a) / 2 :: halfDiffs (b :: rest)
  | _ => []

def approxEdges (c : List Rat) : List Rat :=
  let dv := halfDiffs c
  let uniform := dv.all (· == dv.headD 0)
  let start := c.headD 0 - (if uniform then dv.headD 0 else 0)
  let stop := c.getLastD 0 + (if uniform then dv.getLastD 0 else 0)
  [start] ++ List.zipWith (· - ·) (c.drop 1) dv ++ [stop]

def floorZ (q : Rat) : Int := q.num / q.den
def trunc0 (q : Rat) : Int := Int.tdiv q.num q.den

/-- `np.round(q, 0)` : round half to even -/
def roundHalfEven (q : Rat) : Int :=
  let f := floorZ q
  let r := q - f
  if r < 1 / 2 then f else if r > 1 / 2 then f + 1 else if f % 2 = 0 then f else f + 1

inductive Method where | nearest | bounds | exact
deriving DecidableEq

inductive Edges where
  | none
  | e1 (e : List Rat)
  | b2 (rows : List (List Rat))

/-- result for one query value: index, masked, or unspecified (NaN cast to int) -/
inductive Res where
  | idx (i : Int)
  | masked
  | unspec

structure Out where
  res : List Res
  anyOut : Bool

def dimevals (method : Method) (c : List Rat) : Edges → List Rat
  | .e1 e => e
  | .b2 rows => rows.map (·.headD 0) ++ [(rows.getLastD []).getLastD 0]
  | .none => if method = .bounds then approxEdges c else c

/-- fractional index of one query (`none` = NaN) -/
def fidxOne (method : Method) (left right : Fill) (xe xc : List Rat) (desc : Bool) (n : Rat)
    (x : Rat) : Option Rat :=
  if method = .bounds then
    -- the index table is clamped to the last cell before interpolating; user supplied
    -- left/right values are returned as they are
    let userFill := (x < xe.headD 0 ∧ !(left matches .dflt)) ∨ (x > xe.getLastD 0 ∧ !(right matches .dflt))
    match interp xe desc left right x with
    | some v => if userFill then some v else some (min v (n - 1))
    | none => none
  else interp xc desc left right x

/-- result for one query -/
def lookupOne (method : Method) (cleanMask : Bool) (left right : Fill) (xe xc c : List Rat)
    (desc : Bool) (x : Rat) : Res :=
  if method = .exact ∧ !(c.contains x) then .masked else
  match fidxOne method left right xe xc desc (c.length : Nat) x with
  | none => if cleanMask then .masked else .unspec
  | some v => if method = .nearest then .idx (roundHalfEven v) else .idx (trunc0 v)

/-- the lookup; `Except` error = the ValueError for a non-monotonic coordinate -/
def val2idx (method : Method) (cleanMask : Bool) (left right : Fill) (c : List Rat)
    (bnds : Edges) (vals : List Rat) : Except String Out :=
  let de := dimevals method c bnds
  let desc := isDesc de && de.length ≥ 2
  if !(isDesc de || isAsc de) then .error "nonmonotone" else
  -- the code reverses coordinate and edges together: a coordinate whose direction disagrees
  -- with its bounds variable is outside the model
  if desc && !(isDesc c) || !desc && !(isAsc c) then .error "unspec" else
  let xe := if desc then de.reverse else de
  let xc := if desc then c.reverse else c
  let out := vals.any (fun x => x < xe.headD 0 || x > xe.getLastD 0)
  .ok { res := vals.map (lookupOne method cleanMask left right xe xc c desc), anyOut := out }

open Wire

def parseFill (s : String) : Option Fill :=
  if s = "none" then some .dflt else if s = "nan" then some .nan else (parseRat s).map .val

def parseMethod : String → Option Method
  | "nearest" => some .nearest | "bounds" => some .bounds | "exact" => some .exact | _ => none

def parseEdges (s : String) : Option Edges :=
  if s = "none" then some .none
  else if s.startsWith "e1:" then (parseList parseRat (s.drop 3).toString).map .e1
  else if s.startsWith "b2:" then (parseRows parseRat (s.drop 3).toString).map .b2
  else none

def showRes : Res → String
  | .idx i => toString i | .masked => "m" | .unspec => "u"

/-- `<method> <clean:mask|none> <left> <right> <coords> <edges> <vals>` -/
def run : List String → String
  | [m, cl, l, r, c, e, v] =>
    match parseMethod m, parseFill l, parseFill r, parseList parseRat c, parseEdges e, parseList parseRat v with
    | some m, some l, some r, some c, some e, some v =>
      if c.length < 2 then "err short" else
      match val2idx m (cl == "mask") l r c e v with
      | .ok o => s!"ok {showList showRes o.res} out={if o.anyOut then 1 else 0}"
      | .error msg => s!"err {msg}"
    | _, _, _, _, _, _ => "err parse"
  | _ => "err bad-op"

end Val2idx
