import PncModel.Wire
/-
NcStore: model of `save` to a netCDF flavour followed by reopening (property C07).

`save` mirrors `pncgen.Pseudo2NetCDF.convert`: dimensions, then global attributes, then variable
definitions (disk `_FillValue` chosen with the precedence missing_value > fill_value > _FillValue),
variable attributes, then data with masked cells replaced by
`getattr(nvar, '_FillValue', getattr(nvar, 'fill_value', getattr(pvar, 'missing_value', -9999)))`.
`reopen` is the behaviour of netCDF4-python that the library relies on (trusted, exercised by the
correspondence): a cell reads as masked when it equals the disk `_FillValue`, or the `missing_value`
attribute, or — when the variable has no `_FillValue` and is wider than one byte — the default fill
value of its type.  Attribute values are opaque tokens; numbers are exact rationals (every float32 /
float64 value is one).
-/
namespace NcStore

inductive Dt where
  | f4 | f8 | i1 | i2 | i4 | i8 | u1 | u2 | u4 | u8 | c
deriving DecidableEq, Repr

inductive Flavour where
  | classic3 | offset3 | classic4 | nc4
deriving DecidableEq, Repr

structure Var where
  name : String
  dt : Dt
  dims : List String
  attrs : List (String × String)      -- every attribute except the three fill attributes
  missing : Option Rat                -- `missing_value` attribute
  fill : Option Rat                   -- `fill_value` attribute
  ufill : Option Rat                  -- `_FillValue` attribute
  maskedArr : Bool                    -- the in-memory array is a numpy masked array
  cells : List (Option Rat)           -- row-major; none = masked
deriving Repr

structure File where
  dims : List (String × Nat × Bool)
  gattrs : List (String × String)
  vars : List Var
deriving Repr

/-- default fill values of netCDF (NC_FILL_*) -/
def defaultFill : Dt → Option Rat
  | .f4 => some 9969209968386869046778552952102584320      -- 0x7cf00000
  | .f8 => some 9969209968386869046778552952102584320
  | .i2 => some (-32767)
  | .i4 => some (-2147483647)
  | .i8 => some (-9223372036854775806)
  | .u2 => some 65535
  | .u4 => some 4294967295
  | .u8 => some 18446744073709551614
  | .i1 => none | .u1 => none | .c => none      -- one-byte types are never auto-masked by default

/-- names the writer skips: anything starting with an underscore (`^_\w*(__\w*)?`) -/
def skipped (k : String) : Bool := k.startsWith "_"

/-- `fill_value=` passed to `createVariable` on disk -/
def diskFill (v : Var) : Option Rat :=
  match v.missing with
  | some m => some m
  | none => match v.fill with
    | some f => some f
    | none => v.ufill

/-- the value written into masked cells:
`getattr(nvar, '_FillValue', getattr(nvar, 'fill_value', getattr(pvar, 'missing_value', None)))`; the disk
variable has `_FillValue` exactly when `diskFill` is some, and without it there is no `fill_value` or
`missing_value` either: the masked array is then handed to netCDF4, which writes the default fill value of the type
(the code wrote -9999 there before the repair: `writeFill9999`, `Props.C07.default_fill_counterexample`) -/
def writeFill (v : Var) : Rat :=
  match diskFill v with
  | some d => d
  | none => (defaultFill v.dt).getD 0

/-- what the code wrote for a masked cell of a variable without any fill before the repair -/
def writeFill9999 (v : Var) : Rat :=
  match diskFill v with
  | some d => d
  | none => -9999

/-- the precedence the code had before the repair (`fill_value` attribute first): kept to state what went
wrong (`Props.C07.mask_lost_counterexample`) -/
def writeFillOld (v : Var) : Rat :=
  match v.fill with
  | some f => f
  | none => writeFill v

/-- what netCDF4-python itself writes for a masked cell (used for rank-0 variables, which are assigned
whole: `nvar[...] = pvar`): the disk `_FillValue`, else the type's default fill -/
def libFill (v : Var) : Rat :=
  match diskFill v with
  | some d => d
  | none => (defaultFill v.dt).getD 0

/-- what is stored for one cell -/
def saveCell (v : Var) : Option Rat → Rat
  | some x => x
  | none => if v.dims.isEmpty then libFill v else writeFill v

/-- what netCDF4 returns for a stored value -/
def readCell (dt : Dt) (dfill missing : Option Rat) (x : Rat) : Option Rat :=
  if dfill = some x then none
  else if missing = some x then none
  else if dfill = none ∧ defaultFill dt = some x then none
  else some x

def representableDt : Flavour → Dt → Bool
  | .nc4, _ => true
  | _, .i8 => false | _, .u1 => false | _, .u2 => false | _, .u4 => false | _, .u8 => false
  | _, _ => true

/-- a cell of a plain (unmasked) array: written as it is -/
def readPlain (dt : Dt) (dfill missing : Option Rat) : Option Rat → Option Rat
  | some x => readCell dt dfill missing x
  | none => none

/-- the variable as it is read back -/
def roundVar (v : Var) : Var :=
  let df := diskFill v
  { v with
    attrs := v.attrs.filter (fun a => !skipped a.1),
    ufill := df,
    cells := if v.maskedArr then v.cells.map (fun c => readCell v.dt df v.missing (saveCell v c))
             else v.cells.map (readPlain v.dt df v.missing) }

/-- `reopen (save f)`: none when a type is not representable in the flavour -/
def roundtrip (fl : Flavour) (f : File) : Option File :=
  if f.vars.all (fun v => representableDt fl v.dt) then
    some { dims := f.dims,
           gattrs := f.gattrs.filter (fun a => !skipped a.1),
           vars := f.vars.map roundVar }
  else none

/-! ### wire format -/
open Wire

def parseDt : String → Option Dt
  | "f4" => some .f4 | "f8" => some .f8 | "i1" => some .i1 | "i2" => some .i2 | "i4" => some .i4
  | "i8" => some .i8 | "u1" => some .u1 | "u2" => some .u2 | "u4" => some .u4 | "u8" => some .u8
  | "c" => some .c | _ => none

def showDt : Dt → String
  | .f4 => "f4" | .f8 => "f8" | .i1 => "i1" | .i2 => "i2" | .i4 => "i4" | .i8 => "i8"
  | .u1 => "u1" | .u2 => "u2" | .u4 => "u4" | .u8 => "u8" | .c => "c"

def parseFlavour : String → Option Flavour
  | "NETCDF3_CLASSIC" => some .classic3 | "NETCDF3_64BIT_OFFSET" => some .offset3
  | "NETCDF4_CLASSIC" => some .classic4 | "NETCDF4" => some .nc4 | _ => none

def parseCell (s : String) : Option (Option Rat) := parseOpt parseRat s

def parseAttrs (s : String) : Option (List (String × String)) :=
  if s = "-" then some [] else (s.splitOn ",").mapM (fun t => match t.splitOn ":" with
    | [k, v] => some (k, v)
    | _ => none)

def showAttrs (l : List (String × String)) : String := showList (fun (p : String × String) => s!"{p.1}:{p.2}") l

/-- `name|dt|dims|attrs|missing|fill|ufill|masked|cells` -/
def parseVar (s : String) : Option Var :=
  match s.splitOn "|" with
  | [n, dt, ds, ats, m, f, u, ma, cs] => do
    let dt ← parseDt dt
    let at' ← parseAttrs ats
    let m ← parseOpt parseRat m
    let f ← parseOpt parseRat f
    let u ← parseOpt parseRat u
    let cs ← parseList parseCell cs
    pure { name := n, dt := dt, dims := if ds = "-" then [] else ds.splitOn ".", attrs := at', missing := m,
           fill := f, ufill := u, maskedArr := ma == "1", cells := cs }
  | _ => none

def showVar (v : Var) : String :=
  s!"{v.name}|{showDt v.dt}|{if v.dims.isEmpty then "-" else ".".intercalate v.dims}|{showAttrs v.attrs}|" ++
  s!"{showOpt showRat v.missing}|{showOpt showRat v.fill}|{showOpt showRat v.ufill}|{if v.maskedArr then 1 else 0}|" ++
  s!"{showList (showOpt showRat) v.cells}"

def parseDims (s : String) : Option (List (String × Nat × Bool)) :=
  if s = "-" then some [] else (s.splitOn ",").mapM (fun t => match t.splitOn ":" with
    | [n, l, u] => (parseNat l).map (fun l => (n, l, u == "u"))
    | _ => none)

def showDims (l : List (String × Nat × Bool)) : String :=
  showList (fun (p : String × Nat × Bool) => s!"{p.1}:{p.2.1}:{if p.2.2 then "u" else "f"}") l

def showFile (f : File) : String :=
  s!"dims={showDims f.dims} gattrs={showAttrs f.gattrs} vars={if f.vars.isEmpty then "-" else ";".intercalate (f.vars.map showVar)}"

/-- `c07 rt <flavour> dims=… gattrs=… vars=…` -/
def run : List String → String
  | "rt" :: fl :: toks =>
    let kv := toks.filterMap (fun t => match t.splitOn "=" with
      | [k, v] => some (k, v)
      | _ => none)
    let get (k : String) : Option String := (kv.find? (·.1 == k)).map (·.2)
    match parseFlavour fl, (get "dims").bind parseDims, (get "gattrs").bind parseAttrs, get "vars" with
    | some fl, some ds, some ga, some vs =>
      (match (if vs = "-" then some [] else (vs.splitOn ";").mapM parseVar) with
       | some vars => (match roundtrip fl { dims := ds, gattrs := ga, vars := vars } with
         | some f => "ok " ++ showFile f
         | none => "err not-representable")
       | none => "err parse-vars")
    | _, _, _, _ => "err parse"
  | _ => "err unknown"

end NcStore
