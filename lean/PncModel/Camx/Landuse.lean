import PncModel.Words
/-
Landuse: CAMx landuse files (`camxfiles/landuse/Write.py` `ncf2landuse`, `camxfiles/landuse/Memmap.py`).

A file is time-independent: one 3-D record of land-use fractions (NLAND x ROW x COL) followed by zero, one or
two 2-D records (ROW x COL).  New-style files precede every data record by an 8-character key record
(`LUCAT11 ` / `LUCAT26 ` for the fractions — the key tells the number of categories — and `VAR1`, `LAI`, `TOPO`
for the optional fields); old-style files have no key records, 11 categories and at most one optional field,
which is the topography.  The reader takes rows and columns from the caller, recognises the style from the first
eight data bytes and the number of optional fields from the file size; it does not look at the record markers.
-/
namespace Landuse
open Words

/-- four characters as one big-endian word -/
def w4 (a b c d : Nat) : Word := ((a * 256 + b) * 256 + c) * 256 + d

/-- `'LUCAT%02d '` as two words -/
def lucatKey (nland : Nat) : List Word :=
  [w4 76 85 67 65, w4 84 (48 + nland / 10 % 10) (48 + nland % 10) 32]

def keyVAR1 : List Word := [w4 86 65 82 49, w4 32 32 32 32]
def keyLAI : List Word := [w4 76 65 73 32, w4 32 32 32 32]
def keyTOPO : List Word := [w4 84 79 80 79, w4 32 32 32 32]

/-- the content of a landuse file: the writer knows exactly these fields -/
structure LFile where
  newstyle : Bool
  nland : Nat
  fland : List Word                  -- nland * cells words
  var1 : Option (List Word)          -- cells words each
  lai : Option (List Word)
  topo : Option (List Word)
deriving Repr, DecidableEq

/-- the optional records that are present, in the order in which the writer emits them -/
def optRecs (f : LFile) : List (List Word × List Word) :=
  (f.var1.map (fun d => (keyVAR1, d))).toList ++ (f.lai.map (fun d => (keyLAI, d))).toList ++
    (f.topo.map (fun d => (keyTOPO, d))).toList

/-- one field: key record (new style only) and data record -/
def field (ns : Bool) (key data : List Word) : List (List Word) := if ns then [key, data] else [data]

def fieldsOf (ns : Bool) : List (List Word × List Word) → List (List Word)
  | [] => []
  | (k, d) :: rest => field ns k d ++ fieldsOf ns rest

def records (f : LFile) : List (List Word) :=
  field f.newstyle (lucatKey f.nland) f.fland ++ fieldsOf f.newstyle (optRecs f)

/-- the bytes the writer emits -/
def write (f : LFile) : List Word := encodeRecs (records f)

/-- positional read of one record with an `n`-word payload: payload and the rest (markers are skipped, not checked) -/
def cut (n : Nat) (ws : List Word) : List Word × List Word := ((ws.drop 1).take n, ws.drop (n + 2))

/-- one field read positionally -/
def cutField (ns : Bool) (n : Nat) (ws : List Word) : (List Word × List Word) × List Word :=
  if ns then ((((cut 2 ws).1), (cut n (cut 2 ws).2).1), (cut n (cut 2 ws).2).2)
  else (([], (cut n ws).1), (cut n ws).2)

/-- words of one field on disk -/
def fieldSize (ns : Bool) (n : Nat) : Nat := (if ns then 4 else 0) + n + 2

def cutFields (ns : Bool) (n : Nat) : Nat → List Word → List (List Word × List Word)
  | 0, _ => []
  | k + 1, ws => (cutField ns n ws).1 :: cutFields ns n k (cutField ns n ws).2

/-- style and number of categories from the first eight data bytes -/
def detect (ws : List Word) : Bool × Nat :=
  let k := (ws.drop 1).take 2
  if k = lucatKey 11 then (true, 11) else if k = lucatKey 26 then (true, 26) else (false, 11)

/-- number of optional fields from the file size -/
def nopt (ns : Bool) (nland cells len : Nat) : Option Nat :=
  let fl := fieldSize ns (nland * cells)
  let ot := fieldSize ns cells
  if len = fl then some 0 else if len = fl + ot then some 1 else if len = fl + 2 * ot then some 2 else none

/-- put the optional fields of a new-style file into the slots their keys name; an unknown or repeated key is
outside what the writer can reproduce -/
def assign (f : LFile) : List (List Word × List Word) → Option LFile
  | [] => some f
  | (k, d) :: rest =>
    if k = keyVAR1 then (if f.var1.isSome then none else assign { f with var1 := some d } rest)
    else if k = keyLAI then (if f.lai.isSome then none else assign { f with lai := some d } rest)
    else if k = keyTOPO then (if f.topo.isSome then none else assign { f with topo := some d } rest)
    else none

/-- old-style files carry no keys: the (first) optional field is presented as the topography -/
def assignOld (f : LFile) : List (List Word × List Word) → LFile
  | [] => f
  | (_, d) :: _ => { f with topo := some d }

/-- the reader: rows * columns come from the caller -/
def read (cells : Nat) (ws : List Word) : Option LFile :=
  let ns := (detect ws).1
  let nland := (detect ws).2
  match nopt ns nland cells ws.length with
  | none => none
  | some k =>
    let fl := cutField ns (nland * cells) ws
    let base : LFile := ⟨ns, nland, fl.1.2, none, none, none⟩
    let opts := cutFields ns cells k fl.2
    if ns then assign base opts else some (assignOld base opts)

/-- what a file must satisfy for the writer's output to be read back as the same content -/
def WF (cells : Nat) (f : LFile) : Prop :=
  0 < cells ∧ f.fland.length = f.nland * cells ∧
  (∀ d, f.var1 = some d → d.length = cells) ∧ (∀ d, f.lai = some d → d.length = cells) ∧
  (∀ d, f.topo = some d → d.length = cells) ∧
  (optRecs f).length ≤ 2 ∧
  (f.newstyle = true → f.nland = 11 ∨ f.nland = 26) ∧
  (f.newstyle = false → f.nland = 11 ∧ f.var1 = none ∧ f.lai = none ∧
      f.fland.take 2 ≠ lucatKey 11 ∧ f.fland.take 2 ≠ lucatKey 26)

end Landuse

namespace Landuse
open Wire Words

def showOpt : Option (List Word) → String
  | none => "_"
  | some d => showWords d

def parseOpt (s : String) : Option (Option (List Word)) :=
  if s = "_" then some none else (parseWords s).map some

def showFile (f : LFile) : String :=
  s!"new={if f.newstyle then 1 else 0} nland={f.nland} fland={showWords f.fland} var1={showOpt f.var1} lai={showOpt f.lai} topo={showOpt f.topo}"

/-- `bin lu-enc new=<0|1> nland=<n> fland=<hex> var1=<hex|_> lai=<hex|_> topo=<hex|_>` → hex of the file;
`bin lu-read <cells> <hex>` → the content the reader presents -/
def run : List String → String
  | "lu-enc" :: toks =>
    let kv := toks.filterMap (fun t => match t.splitOn "=" with
      | [k, v] => some (k, v)
      | _ => none)
    let get (k : String) : Option String := (kv.find? (·.1 == k)).map (·.2)
    match get "new", (get "nland").bind parseNat, (get "fland").bind parseWords, (get "var1").bind parseOpt,
        (get "lai").bind parseOpt, (get "topo").bind parseOpt with
    | some ns, some nl, some fl, some v1, some la, some tp => "ok " ++ showWords (write ⟨ns == "1", nl, fl, v1, la, tp⟩)
    | _, _, _, _, _, _ => "err parse"
  | ["lu-read", cells, hex] =>
    match parseNat cells, parseWords hex with
    | some c, some ws => (match read c ws with
      | some f => "ok " ++ showFile f
      | none => "err unreadable")
    | _, _ => "err parse"
  | _ => "err bad-op"

end Landuse
