import PncModel.Wire
import PncModel.Words
import PncModel.Camx.Uamiv
/-
Slab: the CAMx meteorological formats whose files are a plain sequence of equal-sized Fortran records
`[time (float32, HHMM), date (int32, YYJJJ), nx·ny float32]` — one record per 2-D slab:

* `one3d` (also humidity, vertical diffusivity): per time step one slab per layer;
* `temperature`: per time step one surface slab, then one slab per layer;
* `height_pressure`: per time step and layer a height slab, then a pressure slab.

Nothing in the file says how many layers or steps there are: the memory-mapped readers
(`camxfiles/{one3d,temperature,height_pressure}/Memmap.py`) cut the file into records of `cells + 4` words
and take the index of the first record whose (time, date) differs from the first record's as the number of
slabs per step.
-/
namespace Slab
open Words

inductive Kind where
  | one3d | temperature | heightPressure
deriving DecidableEq, Repr

structure Step where
  time : Word
  date : Word
  slabs : List (List Word)
deriving Repr, DecidableEq

structure SFile where
  cells : Nat                 -- nx · ny
  steps : List Step
deriving Repr, DecidableEq

def stepRows (s : Step) : List (List Word) := s.slabs.map (fun c => s.time :: s.date :: c)

def rows (f : SFile) : List (List Word) := (f.steps.map stepRows).flatten

/-- the bytes of the file (as big-endian words) -/
def encode (f : SFile) : List Word := encodeRecs (rows f)

/-- consecutive pieces of `n` items; a trailing partial piece is dropped (`size // n`) -/
def chunk {α} (n : Nat) (l : List α) : Nat → List (List α)
  | 0 => []
  | fuel + 1 => if n = 0 ∨ l.length < n then [] else l.take n :: chunk n (l.drop n) fuel

/-- (time, date) of a framed record -/
def recTD (r : List Word) : Word × Word := (r.getD 1 0, r.getD 2 0)

/-- payload cells of a framed record (without markers, time, date) -/
def recCells (r : List Word) : List Word := (r.drop 3).dropLast

/-- number of leading records that carry the (time, date) of the first one -/
def leading (rs : List (List Word)) : Nat :=
  match rs with
  | [] => 0
  | r :: rest => 1 + (rest.takeWhile (fun x => recTD x == recTD r)).length

/-- what a memory-mapped reader presents: number of steps and layers, (date, time) of each step and, per
variable, the cells of every slab in (step, layer) order -/
structure View where
  nt : Nat
  nz : Nat
  flags : List (Word × Word)                    -- (date, time) per step
  vars : List (String × List (List Word))
deriving Repr, DecidableEq

/-- layers from the number of slabs per step -/
def layersOf : Kind → Nat → Option Nat
  | .one3d, m => some m
  | .temperature, m => if m ≥ 2 then some (m - 1) else none
  | .heightPressure, m => if m % 2 = 0 ∧ m ≥ 2 then some (m / 2) else none

def pickEvery (start stride : Nat) (l : List (List Word)) : List (List Word) :=
  (List.range l.length).filterMap (fun i => if i % stride = start then l[i]? else none)

/-- variables of one step's slabs -/
def stepVars : Kind → List (List Word) → List (String × List (List Word))
  | .one3d, sl => [("UNKNOWN", sl)]
  | .temperature, sl => [("SURFTEMP", sl.take 1), ("AIRTEMP", sl.drop 1)]
  | .heightPressure, sl => [("HGHT", pickEvery 0 2 sl), ("PRES", pickEvery 1 2 sl)]

def mergeVars (a b : List (String × List (List Word))) : List (String × List (List Word)) :=
  List.zipWith (fun x y => (x.1, x.2 ++ y.2)) a b

/-- the spec view of a file -/
def viewOf (k : Kind) (f : SFile) : Option View :=
  match f.steps with
  | [] => none
  | s :: rest =>
    (layersOf k s.slabs.length).map (fun nz =>
      { nt := f.steps.length, nz := nz, flags := f.steps.map (fun s => (s.date, s.time)),
        vars := rest.foldl (fun acc st => mergeVars acc (stepVars k st.slabs)) (stepVars k s.slabs) })

/-- the memory-mapped readers: records of `cells + 4` words; slabs per step from the first change of
(time, date); the record count must be a multiple of it; at least two steps (with one step no record differs
from the first: `one3d` raises IndexError, the other two infer a wrong layer count — outside the domain) -/
def mmRows (k : Kind) (rs : List (List Word)) : Option View :=
  let m := leading rs
  if m = 0 ∨ m = rs.length ∨ rs.length % m ≠ 0 then none else
  -- the readers that check the Fortran markers (temperature, height_pressure) raise on a mismatch
  if k ≠ .one3d ∧ rs.any (fun r => r.head? ≠ r.getLast?) then none else
  let steps := chunk m rs rs.length
  match steps with
  | [] => none
  | s0 :: rest =>
    (layersOf k m).map (fun nz =>
      { nt := steps.length, nz := nz,
        flags := steps.map (fun s => ((recTD (s.headD [])).2, (recTD (s.headD [])).1)),
        vars := rest.foldl (fun acc st => mergeVars acc (stepVars k (st.map recCells))) (stepVars k (s0.map recCells)) })

def mmDecode (k : Kind) (cells : Nat) (ws : List Word) : Option View :=
  -- `memmap.reshape(records, cells + 4)` fails unless the file is a whole number of records
  if ws.length % (cells + 4) ≠ 0 then none else mmRows k (chunk (cells + 4) ws ws.length)

/-! ### wire format -/
open Wire

def parseKind : String → Option Kind
  | "one3d" => some .one3d | "temperature" => some .temperature | "height_pressure" => some .heightPressure
  | _ => none

def showView (v : View) : String :=
  let fl := showList (fun (p : Word × Word) => s!"{toHex p.1}:{toHex p.2}") v.flags
  let vs := ";".intercalate (v.vars.map (fun p => s!"{p.1}~{showWords p.2.flatten}"))
  -- TFLAG as `ConvertCAMxTime` presents it
  let tf := showList (fun (p : Int × Int) => s!"{p.1}:{p.2}") (Camx.convertTime (v.flags.map (·.1)) (v.flags.map (·.2)))
  s!"nt={v.nt} nz={v.nz} flags={fl} tflag={tf} vars={vs}"

def parseStep (s : String) : Option Step :=
  match s.splitOn ":" with
  | [t, d, sl] => match parseHexWord t, parseHexWord d with
    | some t, some d =>
      (if sl = "-" then some [] else (sl.splitOn ",").mapM parseWords).map (fun l => ⟨t, d, l⟩)
    | _, _ => none
  | _ => none

/-- `bin slab-enc cells=<n> steps=<t:d:slab,slab|…>` → hex;
    `bin slab-mm <kind> <cells> <hex>` → view; `bin slab-view <kind> cells=… steps=…` → spec view -/
def parseSFile (toks : List String) : Option SFile := do
  let kv := toks.filterMap (fun t => match t.splitOn "=" with
    | [k, v] => some (k, v)
    | _ => none)
  let get (k : String) : Option String := (kv.find? (·.1 == k)).map (·.2)
  let c ← (get "cells").bind parseNat
  let st ← get "steps"
  let steps ← if st = "-" then some [] else (st.splitOn "|").mapM parseStep
  pure { cells := c, steps := steps }

def run : List String → String
  | "slab-enc" :: toks => match parseSFile toks with
    | some f => "ok " ++ showWords (encode f)
    | none => "err parse"
  | "slab-view" :: k :: toks => match parseKind k, parseSFile toks with
    | some k, some f => (match viewOf k f with
      | some v => "ok " ++ showView v
      | none => "err view")
    | _, _ => "err parse"
  | ["slab-mm", k, c, hex] => match parseKind k, parseNat c, parseWords hex with
    | some k, some c, some ws => (match mmDecode k c ws with
      | some v => "ok " ++ showView v
      | none => "err mmap")
    | _, _, _ => "err parse"
  | _ => "err unknown"

end Slab

/-! ### cloud/rain files: a header record, then per time step a (time, date) record and one record per
(layer, variable) -/
namespace CloudRain
open Words

structure CStep where
  time : Word
  date : Word
  slabs : List (List Word)        -- (layer, variable) order: for each layer CLOUD, [PRECIP | RAIN, SNOW, GRAUPEL], COD
deriving Repr, DecidableEq

structure CFile where
  desc : List Word                -- FILEDESC, 4 characters per word
  nx : Word
  ny : Word
  nz : Word
  steps : List CStep
deriving Repr, DecidableEq

def records (f : CFile) : List (List Word) :=
  (f.desc ++ [f.nx, f.ny, f.nz]) :: (f.steps.map (fun s => [s.time, s.date] :: s.slabs)).flatten

def encode (f : CFile) : List Word := encodeRecs (records f)

end CloudRain

namespace Slab
open Wire Words

def parseCStep (s : String) : Option CloudRain.CStep :=
  match s.splitOn ":" with
  | [t, d, sl] => match parseHexWord t, parseHexWord d with
    | some t, some d =>
      (if sl = "-" then some [] else (sl.splitOn ",").mapM parseWords).map (fun l => ⟨t, d, l⟩)
    | _, _ => none
  | _ => none

/-- `bin cr-enc desc=<hex> nx=<n> ny=<n> nz=<n> steps=<t:d:slab,slab|…>` -/
def runCR (toks : List String) : String :=
  let kv := toks.filterMap (fun t => match t.splitOn "=" with
    | [k, v] => some (k, v)
    | _ => none)
  let get (k : String) : Option String := (kv.find? (·.1 == k)).map (·.2)
  match (get "desc").bind parseWords, (get "nx").bind parseNat, (get "ny").bind parseNat, (get "nz").bind parseNat, get "steps" with
  | some d, some nx, some ny, some nz, some st =>
    (match (if st = "-" then some [] else (st.splitOn "|").mapM parseCStep) with
     | some steps => "ok " ++ showWords (CloudRain.encode ⟨d, nx, ny, nz, steps⟩)
     | none => "err parse-steps")
  | _, _, _, _, _ => "err parse"

end Slab

/-! ### wind files: per time step a header record (time, date and — newer files — the stagger flag), one
record per layer for U then V, and a one-word dummy record -/
namespace Wind
open Words

structure WStep where
  time : Word
  date : Word
  stag : Option Word
  slabs : List (List Word)        -- U(layer 1), V(layer 1), U(layer 2), …
deriving Repr, DecidableEq

def header (s : WStep) : List Word :=
  match s.stag with
  | some g => [s.time, s.date, g]
  | none => [s.time, s.date]

def stepRecords (s : WStep) : List (List Word) := header s :: (s.slabs ++ [[0]])

def records (steps : List WStep) : List (List Word) := (steps.map stepRecords).flatten

def encode (steps : List WStep) : List Word := encodeRecs (records steps)

end Wind

namespace Slab
open Wire Words

def parseWStep (s : String) : Option Wind.WStep :=
  match s.splitOn ":" with
  | [t, d, g, sl] => match parseHexWord t, parseHexWord d with
    | some t, some d =>
      let stag := if g = "_" then some none else (parseHexWord g).map some
      match stag with
      | some st => (if sl = "-" then some [] else (sl.splitOn ",").mapM parseWords).map (fun l => ⟨t, d, st, l⟩)
      | none => none
    | _, _ => none
  | _ => none

/-- `bin wind-enc steps=<t:d:stag|_:slab,slab>|…` -/
def runWind (toks : List String) : String :=
  let kv := toks.filterMap (fun t => match t.splitOn "=" with
    | [k, v] => some (k, v)
    | _ => none)
  match (kv.find? (·.1 == "steps")).map (·.2) with
  | some st => (match (if st = "-" then some [] else (st.splitOn "|").mapM parseWStep) with
     | some steps => "ok " ++ showWords (Wind.encode steps)
     | none => "err parse-steps")
  | none => "err parse"

end Slab

/-! ### lateral boundary files: the four header records of the gridded family, four boundary-definition
records (west, east, south, north), then per time step a time record and, per species, one record per edge
`[1, name (10 words), edge index, ncell·nz values]` -/
namespace Boundary
open Words

structure BStep where
  hdr : List Word                         -- ibdate, btime, iedate, etime
  recs : List (List Word)                 -- (species, edge) order; each = [1] ++ name ++ [edge] ++ data
deriving Repr, DecidableEq

structure BFile where
  headers : List (List Word)              -- file header, grid, cell, species names
  defs : List (List Word)                 -- four boundary definitions
  steps : List BStep
deriving Repr, DecidableEq

def records (f : BFile) : List (List Word) :=
  f.headers ++ f.defs ++ (f.steps.map (fun s => s.hdr :: s.recs)).flatten

def encode (f : BFile) : List Word := encodeRecs (records f)

end Boundary

namespace Slab
open Wire Words

def parseRecList (s : String) : Option (List (List Word)) :=
  if s = "-" then some [] else (s.splitOn ",").mapM parseWords

/-- `bin bnd-enc headers=<r,r,r,r> defs=<r,r,r,r> steps=<hdr:rec,rec|…>` -/
def runBnd (toks : List String) : String :=
  let kv := toks.filterMap (fun t => match t.splitOn "=" with
    | [k, v] => some (k, v)
    | _ => none)
  let get (k : String) : Option String := (kv.find? (·.1 == k)).map (·.2)
  match (get "headers").bind parseRecList, (get "defs").bind parseRecList, get "steps" with
  | some h, some d, some st =>
    let steps := if st = "-" then some [] else (st.splitOn "|").mapM (fun s => match s.splitOn ":" with
      | [hd, rs] => match parseWords hd, parseRecList rs with
        | some hd, some rs => some (⟨hd, rs⟩ : Boundary.BStep)
        | _, _ => none
      | _ => none)
    (match steps with
     | some steps => "ok " ++ showWords (Boundary.encode ⟨h, d, steps⟩)
     | none => "err parse-steps")
  | _, _, _ => "err parse"

end Slab
