import PncModel.Camx.Slab
/-
SlabRead: the record-based ("Read") readers of the CAMx slab formats
(`camxfiles/one3d/Read.py`, also humidity and vertical diffusivity; `camxfiles/height_pressure/Read.py`).

Unlike the memory-mapped readers they navigate by *time arithmetic*: the (date, HHMM) of the first record is the
start, the number of layers is the number of records read until the time changes, the time step is the
difference to that record, the end is found by seeking forward one step at a time until a seek falls off the
file, and every slab is then fetched by converting (date, time, layer) back into a record number.
`stride` is the number of records per layer (1, or 2 for height/pressure where a height slab is followed by a
pressure slab).
-/
namespace SlabRead
open Words Slab

/-- (date, time): the date word as an integer, the HHMM time as the value of its float -/
abbrev DT := Int × Int

/-- `timetuple.timediff` (end of day = 2400) -/
def timediff (a b : DT) : Int := (b.1 - a.1) * 2400 + (b.2 - a.2)

/-- `timetuple.timeadd (date, time) (0, s)`: at most one day is carried, nothing is borrowed -/
def timeadd (eod : Int) (a : DT) (s : Int) : DT :=
  if a.2 + s ≥ eod then (a.1 + 1, (a.2 + s) % eod) else (a.1, a.2 + s)

/-- (date, time) of a framed record as the reader unpacks it (`t, d = read('fi')`) -/
def recDT (r : List Word) : DT := ((r.getD 2 0 : Nat), truncF32 (r.getD 1 0))

/-- number of layers: records `stride, 2·stride, …` are read until one carries another time; `none` when the
file ends first (a single time step: the reader raises) -/
def countLayers (stride : Nat) (start : DT) (rs : List (List Word)) : Nat → Nat → Option Nat
  | 0, _ => none
  | fuel + 1, n =>
    match rs[n * stride]? with
    | none => none
    | some r => if timediff start (recDT r) ≠ 0 then some n else countLayers stride start rs fuel (n + 1)

/-- `int(timediff(start, dt) / step)`: number of whole steps, truncated toward zero -/
def nsteps (start : DT) (step : Int) (dt : DT) : Int := Int.tdiv (timediff start dt) step

/-- record number of (dt, layer k ≥ 1, hp) — `__recordposition / padded_size` -/
def recIndex (start : DT) (step : Int) (nl stride : Nat) (dt : DT) (k hp : Nat) : Int :=
  ((k - 1) * stride : Nat) + nsteps start step dt * ((nl * stride : Nat) : Int) + (hp : Nat)

/-- the end search: seek (dt, layer 1 or `nl`) and advance one step until the seek falls off the file; `none`
when it does not stop within `fuel` rounds (the reader would not return).  The height/pressure reader also
refuses a time before the start even without the range check (operator precedence in its `seek`). -/
def walk (start : DT) (step : Int) (nl stride nrec : Nat) (kseek hp : Nat) (chkStart : Bool) : Nat → DT → Option DT
  | 0, _ => none
  | fuel + 1, dt =>
    let r := recIndex start step nl stride dt kseek hp
    if (chkStart ∧ timediff start dt < 0) ∨ ¬ (0 ≤ r ∧ r < nrec) then some dt
    else walk start step nl stride nrec kseek hp chkStart fuel (timeadd 2400 dt step)

/-- `timetuple.timerange`: from `cur` in steps until `stop` is hit exactly -/
def trange (eod step : Int) (stop : DT) : Nat → DT → Option (List DT)
  | 0, _ => none
  | fuel + 1, cur => if cur = stop then some [] else (trange eod step stop fuel (timeadd eod cur step)).map (cur :: ·)

structure RView where
  nt : Nat
  nz : Nat
  times : List DT                        -- `timerange()`
  vars : List (List (List Word))         -- per variable: the cells of every (step, layer) slab
deriving Repr, DecidableEq

/-- one slab: seek with the range check, then read the cells behind the (time, date) pair -/
def fetch (start fin : DT) (step : Int) (nl stride : Nat) (rs : List (List Word)) (dt : DT) (k hp : Nat) :
    Option (List Word) :=
  if timediff fin dt > 0 ∨ timediff start dt < 0 then none else
  let r := recIndex start step nl stride dt k hp
  if r < 0 then none else (rs[r.toNat]?).map recCells

/-- the record reader on a whole number of records of `cells + 4` words (cells from the first marker);
`hp = false`: one3d / humidity / vertical diffusivity, `hp = true`: height/pressure -/
def readRows (hp : Bool) (rs : List (List Word)) : Option RView :=
  let stride := if hp then 2 else 1
  match rs with
  | [] => none
  | r0 :: _ =>
    let start := recDT r0
    match countLayers stride start rs rs.length 1 with
    | none => none
    | some nl =>
      match rs[nl * stride]? with
      | none => none
      | some r1 =>
        let step := timediff start (recDT r1)
        -- height_pressure seeks (layer `nl`, pressure), one3d layer 1
        match walk start step nl stride rs.length (if hp then nl else 1) (if hp then 1 else 0) hp rs.length (recDT r1) with
        | none => none
        | some dtEnd =>
          let fin := timeadd 2400 dtEnd (-step)
          let cnt := Int.tdiv (timediff start fin) step + 1
          if cnt < 0 then none else
          let eod : Int := if hp ∧ step % 2 = 1 then 24 else 2400
          let stop := if hp then timeadd eod (timeadd eod fin step) 0 else timeadd eod (fin.1, fin.2 + step) 0
          match trange eod step stop (rs.length + 1 + cnt.toNat) (timeadd eod start 0) with
          | none => none
          | some ts =>
            if (ts.length : Int) > cnt then none else
            let slabsOf (v : Nat) : Option (List (List Word)) :=
              (ts.flatMap (fun dt => (List.range nl).map (fun ki => (dt, ki + 1)))).mapM
                (fun p => fetch start fin step nl stride rs p.1 p.2 v)
            -- steps of the array that `timerange()` does not reach stay zero
            let pad (l : List (List Word)) : List (List Word) :=
              l ++ List.replicate (cnt.toNat * nl - l.length) (List.replicate (r0.length - 4) 0)
            match (List.range stride).mapM slabsOf with
            | none => none
            | some vs => some { nt := cnt.toNat, nz := nl, times := ts, vars := vs.map pad }

/-- the file as words: the record size comes from the first marker; a file that is not a whole number of such
records is outside the model -/
def readDecode (hp : Bool) (ws : List Word) : Option RView :=
  let cells := ws.headD 0 / 4 - 2
  if ws.length % (cells + 4) ≠ 0 then none else readRows hp (chunk (cells + 4) ws ws.length)

end SlabRead

/-! ### the temperature record reader (`camxfiles/temperature/Read.py`)

It counts the records that carry the time of the first one (comparing the (date, time) pairs, not their
difference), takes the step from the next record and the end from the *last* record of the file, and fetches the
data by position: step `i` starts at record `i · (layers + 1)`, its first record is the surface slab. -/
namespace SlabRead
open Words Slab

/-- index of the first record (from `n` on) whose (date, time) differs from `start`; `none` when the file ends first -/
def firstDiff (start : DT) (rs : List (List Word)) : Nat → Nat → Option Nat
  | 0, _ => none
  | fuel + 1, n =>
    match rs[n]? with
    | none => none
    | some r => if recDT r ≠ start then some n else firstDiff start rs fuel (n + 1)

def readTempRows (rs : List (List Word)) : Option RView :=
  match rs with
  | [] => none
  | r0 :: _ =>
    let start := recDT r0
    match firstDiff start rs rs.length 1 with
    | none => none
    | some m =>
      match rs[m]?, rs.getLast? with
      | some r1, some rl =>
        let nl := m - 1
        let step := timediff start (recDT r1)
        let cnt := Int.fdiv (timediff start (recDT rl)) step + 1        -- `int(diff // step) + 1`
        if cnt < 0 then none else
        -- the data maps need whole steps; more steps in the file than `cnt` overrun the output array
        if rs.length % m ≠ 0 ∨ ((rs.length / m : Nat) : Int) > cnt then none else
        let T := rs.length / m
        let eod : Int := if step % 2 = 1 then 24 else 2400
        let stop := timeadd eod (timeadd eod (recDT rl) step) 0
        match trange eod step stop (rs.length + 1 + cnt.toNat) (timeadd eod start 0) with
        | none => none
        | some ts =>
          let zero := List.replicate (r0.length - 4) (0 : Word)
          let surf := (List.range T).map (fun i => recCells (rs.getD (i * m) []))
          let air := (List.range T).flatMap (fun i => (List.range nl).map (fun k => recCells (rs.getD (i * m + 1 + k) [])))
          some { nt := cnt.toNat, nz := nl, times := ts,
                 vars := [surf ++ List.replicate (cnt.toNat - T) zero, air ++ List.replicate ((cnt.toNat - T) * nl) zero] }
      | _, _ => none

def readTempDecode (ws : List Word) : Option RView :=
  let cells := ws.headD 0 / 4 - 2
  if ws.length % (cells + 4) ≠ 0 then none else readTempRows (chunk (cells + 4) ws ws.length)

end SlabRead

namespace SlabRead
open Wire Words

def showRView (v : RView) : String :=
  let ts := showList (fun (p : DT) => s!"{p.1}:{p.2}") v.times
  let vs := ";".intercalate (v.vars.map (fun l => showWords l.flatten))
  s!"nt={v.nt} nz={v.nz} times={ts} vars={vs}"

/-- `bin slab-rd <0|1|2> <hex>`: the record reader of the one3d family (0), of height/pressure files (1), of temperature files (2) -/
def run : List String → String
  | ["slab-rd", hp, hex] => match parseWords hex with
    | some ws => (match (if hp == "2" then readTempDecode ws else readDecode (hp == "1") ws) with
      | some v => "ok " ++ showRView v
      | none => "err read")
    | none => "err parse"
  | _ => "err unknown"

end SlabRead
