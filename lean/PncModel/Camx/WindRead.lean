import PncModel.Camx.Slab
/-
WindRead: the memory-mapped reader of CAMx wind files (`camxfiles/wind/Memmap.py`).

Rows and columns come from the caller.  The reader takes the number of header words from the first record marker
(8 bytes: time, date; 12 bytes: time, date, stagger flag), counts the records that follow the first header and have
the size of the first of them (two per layer: U, V), takes the size of the closing record from the record that ends
that run, derives the number of time steps from the file size, and then cuts every step at fixed word positions,
checking that the two markers of every data record agree.
-/
namespace Wind
open Words Slab

/-- header words from the first marker (a reader given another first record raises KeyError) -/
def hdrWords (ws : List Word) : Option Nat :=
  if ws.headD 0 = 8 then some 2 else if ws.headD 0 = 12 then some 3 else none

/-- the run of records of `recsz` bytes at the head of `ws` (walked by their markers): its length; `none` when the
file ends before a record of another size closes the run (the reader raises "Incomplete wind file") -/
def countData (recsz : Nat) : Nat → List Word → Nat → Option Nat
  | 0, _, _ => none
  | fuel + 1, ws, n =>
    if ws.isEmpty then none
    else if ws.headD 0 = recsz then countData recsz fuel (ws.drop (recsz / 4 + 2)) (n + 1)
    else some n

/-- one framed data record of `cells` words: the cells if both markers agree -/
def dataRow (r : List Word) : Option (List Word) :=
  if r.head? = r.getLast? then some ((r.drop 1).dropLast) else none

/-- one time step cut at fixed positions: header frame (`h + 2` words), `2 nz` data frames, the closing record is
skipped -/
def parseStep (h cells nz : Nat) (sw : List Word) : Option WStep :=
  let hdr := sw.take (h + 2)
  let block := (sw.drop (h + 2)).take ((cells + 2) * (2 * nz))
  if block.length ≠ (cells + 2) * (2 * nz) then none else
  match (chunk (cells + 2) block block.length).mapM dataRow with
  | none => none
  | some rows => some { time := hdr.getD 1 0, date := hdr.getD 2 0,
                        stag := if h = 3 then some (hdr.getD 3 0) else none, slabs := rows }

def readSteps (h cells nz stepW : Nat) : Nat → List Word → Option (List WStep)
  | 0, _ => some []
  | n + 1, ws =>
    match parseStep h cells nz (ws.take stepW), readSteps h cells nz stepW n (ws.drop stepW) with
    | some s, some r => some (s :: r)
    | _, _ => none

/-- the reader: `cells = rows * cols` from the caller -/
def read (cells : Nat) (ws : List Word) : Option (List WStep) :=
  match hdrWords ws with
  | none => none
  | some h =>
    let rest := ws.drop (h + 2)
    let recsz := rest.headD 0
    -- the caller's rows x cols must be the record size of the file
    if recsz ≠ 4 * cells then none else
    match countData recsz rest.length rest 0 with
    | none => none
    | some cnt =>
      let nz := (cnt + 1) / 2
      let dummy := ((rest.drop (cnt * (cells + 2))).headD 0 + 8) / 4
      let stepW := (h + 2) + (cells + 2) * (2 * nz) + dummy
      -- a file shorter than one step gives TSTEP = 0; reading any variable of it raises
      if ws.length / stepW = 0 then none else
      readSteps h cells nz stepW (ws.length / stepW) ws

end Wind
