import PncModel.Camx.WindRead
import PncModel.Camx.UamivRead
import PncModel.Camx.SlabRead
/-
WindRecRead: the record-based ("Read") reader of CAMx wind files (`camxfiles/wind/Read.py` on
`FortranFileUtil.RecordFile` and `timetuple`).

It takes the header variant from the first marker, walks the records by their markers until one has the size of a
time header (counting the data records of the first step on the way: that gives the layers), takes the time step from
that second header — or, when the file ends first, presents one step with a nominal step of 100 —, finds the last
time by jumping `2·layers + 1` records at a time while it lands on time headers, and then fetches every (time, layer,
U/V) slab by converting it into a byte position.  Times are the integer HHMM values of the float words; rows and
columns come from the caller (`cells = rows · cols`).  The time arithmetic is that of `SlabRead` (`timetuple` with an end of
day of 2400; a `timerange()` longer than the counted steps overruns the output array).
-/
namespace WindRec
open Words
open UamivRead (sint)
open SlabRead (DT timediff timeadd trange)

structure RView where
  nt : Nat
  nz : Nat
  times : List DT
  u : List (List (List Word))        -- [step][layer] → cells words
  v : List (List (List Word))
deriving Repr, DecidableEq

/-- `RecordFile.next()`: the record behind the one at `pos` (marker `m` bytes), when it starts inside the file -/
def nextRec (ws : List Word) (pos : Nat) : Option Nat :=
  let p := pos + ws.getD pos 0 / 4 + 2
  if p < ws.length then some p else none

/-- `next()` ignoring its result (the cursor stays on the last record at the end of the file) -/
def nextStay (ws : List Word) (pos : Nat) : Nat := (nextRec ws pos).getD pos

/-- `n` calls of `next()` that all succeed; `none` when one of them runs off the file (the cursor is then at the end of
the file and every later read raises) -/
def advance (ws : List Word) : Nat → Nat → Option Nat
  | 0, pos => some pos
  | n + 1, pos => match nextRec ws pos with
    | none => none
    | some p => advance ws n p

/-- the first loop of `__gettimestep`: from `pos`, count records until one has the size of a time header; `inl n`: the
file ended after `n` records, `inr (n, p)`: a header-sized record at `p` after `n` records -/
def findHeader (ws : List Word) (hdrBytes : Nat) : Nat → Nat → Nat → Option (Sum Nat (Nat × Nat))
  | 0, _, _ => none
  | fuel + 1, pos, n =>
    if ws.getD pos 0 = hdrBytes then some (.inr (n, pos))
    else match nextRec ws pos with
      | none => some (.inl n)
      | some p => findHeader ws hdrBytes fuel p (n + 1)

/-- the end search: from the record behind a time header, `2·nl + 1` records on; while that lands on a record of 8 or
12 bytes it is read as a time header (its time becomes the end) -/
def findEnd (ws : List Word) (nl : Nat) : Nat → Nat → DT → DT
  | 0, _, e => e
  | fuel + 1, pos, e =>
    match advance ws (2 * nl + 1) pos with
    | none => e
    | some p =>
      let m := ws.getD p 0
      if m = 8 ∨ m = 12 then
        -- `read` needs the words of the header; a header cut short ends the search (the exception is swallowed)
        if ws.length < p + 1 + m / 4 then e
        else
          let e' : DT := (sint (ws.getD (p + 2) 0), truncF32 (ws.getD (p + 1) 0))
          match nextRec ws p with
          | none => e'
          | some p' => findEnd ws nl fuel p' e'
      else e

def fetch (ws : List Word) (cells hdrW nl padW : Nat) (start fin : DT) (step : Int) (dt : DT) (k uv : Nat) :
    Option (List Word) :=
  if timediff fin dt > 0 ∨ timediff start dt < 0 then none else
  let S := Int.tdiv (timediff start dt) step
  -- `int(nsteps / nlayers)` with nsteps = S · nl
  let T := Int.tdiv (S * (nl : Int)) (nl : Int)
  let q : Int := T * ((hdrW + 2 : Nat) : Int) + T * 3 + S * (nl : Int) * (padW : Int) * 2 + ((hdrW + 2 : Nat) : Int) +
    (((k - 1) * 2 * padW + (uv - 1) * padW : Nat) : Int)
  if q < 0 ∨ q ≥ ws.length then none else
  if ws.length < q.toNat + 1 + cells then none else
  some ((ws.drop (q.toNat + 1)).take cells)

/-- the reader given rows · cols = `cells`, reading U and V -/
def read (cells : Nat) (ws : List Word) : Option RView :=
  if ws.isEmpty then none else
  let m0 := ws.getD 0 0
  if ¬ (m0 = 8 ∨ m0 = 12) then none else
  let hdrW := m0 / 4
  if ws.length < 1 + hdrW then none else
  let start : DT := (sint (ws.getD 2 0), truncF32 (ws.getD 1 0))
  -- the size of the record behind the first header gives the cells
  let p1 := nextStay ws 0
  let rs := ws.getD p1 0
  if rs % 4 ≠ 0 then none else
  if rs / 4 ≠ cells then none else
  let padW := rs / 4 + 2
  match findHeader ws m0 ws.length p1 0 with
  | none => none
  | some (.inl n) =>
    -- one time step
    let nl := n / 2
    let step : Int := 100
    match trange 2400 step (timeadd 2400 start step) 2 (timeadd 2400 start 0) with
    | none => none
    | some ts =>
      let slab (uv : Nat) := ts.mapM (fun dt => (List.range nl).mapM (fun ki => fetch ws cells hdrW nl padW start start step dt (ki + 1) uv))
      match slab 1, slab 2 with
      | some u, some v => some ⟨1, nl, ts, u, v⟩
      | _, _ => none
  | some (.inr (n, p2)) =>
    let nl := (n - 1) / 2
    if ws.length < p2 + 1 + hdrW then none else
    let second : DT := (sint (ws.getD (p2 + 2) 0), truncF32 (ws.getD (p2 + 1) 0))
    let step := timediff start second
    if step = 0 then none else
    let fin := match nextRec ws p2 with
      | none => second
      | some p3 => findEnd ws nl ws.length p3 second
    let cnt := Int.tdiv (timediff start fin) step + 1
    if cnt < 0 then none else
    match trange 2400 step (timeadd 2400 (timeadd 2400 fin step) 0) (cnt.toNat + 1) (timeadd 2400 start 0) with
    | none => none
    | some ts =>
      let zero := List.replicate cells (0 : Word)
      let slab (uv : Nat) := (ts.mapM (fun dt => (List.range nl).mapM (fun ki =>
          fetch ws cells hdrW nl padW start fin step dt (ki + 1) uv))).map
        (fun got => got ++ List.replicate (cnt.toNat - got.length) (List.replicate nl zero))
      match slab 1, slab 2 with
      | some u, some v => some ⟨cnt.toNat, nl, ts, u, v⟩
      | _, _ => none

end WindRec

namespace WindRec
open Wire Words

def showView (v : RView) : String :=
  let ts := showList (fun (p : SlabRead.DT) => s!"{p.1}:{p.2}") v.times
  let flat (d : List (List (List Word))) : String := showWords (d.map List.flatten).flatten
  s!"ok nt={v.nt} nz={v.nz} times={ts} u={flat v.u} v={flat v.v}"

/-- `bin wind-rd <cells> <hex>` -/
def run : List String → String
  | ["wind-rd", cells, hex] => match parseNat cells, parseWords hex with
    | some c, some ws => (match read c ws with
      | some v => showView v
      | none => "err read")
    | _, _ => "err parse"
  | _ => "err unknown"

end WindRec
