import PncModel.Camx.Uamiv
import PncModel.Camx.Slab
import PncModel.Camx.Landuse
import PncModel.Camx.SlabRead
import PncModel.Camx.CloudRainRead
import PncModel.Camx.BoundaryRead
import PncModel.Camx.UamivRead
import PncModel.Camx.WindRecRead
/- line protocol for the binary-format models -/
namespace Camx
open Words Wire

def showCodes (l : List Nat) : String := showList toString l
def parseCodes (s : String) : Option (List Nat) := parseList parseNat s

def showStep (s : Step) : String :=
  s!"{toHex s.ibdate}:{toHex s.btime}:{toHex s.iedate}:{toHex s.etime}:{showWords (s.data.flatten.flatten)}"

/-- canonical text of file content -/
def showUamiv (f : Uamiv) : String :=
  let sp := if f.species.isEmpty then "-" else ";".intercalate (f.species.map showCodes)
  let st := if f.steps.isEmpty then "-" else "|".intercalate (f.steps.map showStep)
  s!"name={showCodes f.name} note={showCodes f.note} itzon={toHex f.itzon} ftime={toHex f.ibdate}:{toHex f.btime}:{toHex f.iedate}:{toHex f.etime} grid={showWords f.grid} species={sp} steps={st}"

def kvGet (kvs : List (String × String)) (k : String) : Option String := (kvs.find? (·.1 == k)).map (·.2)

def parseKVs (toks : List String) : List (String × String) :=
  toks.filterMap (fun t => match t.splitOn "=" with
    | [k, v] => some (k, v)
    | _ => none)

def regroup (nspec nz cells : Nat) (ws : List Word) : List (List (List Word)) :=
  (splitEvery (nz * cells) nspec ws).map (splitEvery cells nz)

def parseStep (nspec nz cells : Nat) (s : String) : Option Step :=
  match s.splitOn ":" with
  | [a, b, c, d, e] => match parseHexWord a, parseHexWord b, parseHexWord c, parseHexWord d, parseWords e with
    | some a, some b, some c, some d, some ws => some ⟨a, b, c, d, regroup nspec nz cells ws⟩
    | _, _, _, _, _ => none
  | _ => none

def parseUamiv (toks : List String) : Option Uamiv := do
  let kv := parseKVs toks
  let name ← (kvGet kv "name").bind parseCodes
  let note ← (kvGet kv "note").bind parseCodes
  let itzon ← (kvGet kv "itzon").bind parseHexWord
  let ft ← kvGet kv "ftime"
  let grid ← (kvGet kv "grid").bind parseWords
  let sp ← kvGet kv "species"
  let species ← if sp = "-" then some [] else (sp.splitOn ";").mapM parseCodes
  let st ← kvGet kv "steps"
  let nx := grid.getD 7 0
  let ny := grid.getD 8 0
  -- layers of data per species: the header count unless the content says otherwise (`lay=`: old 2-D
  -- emission files carry nz = 0 in the header and one layer of data)
  let nz := match (kvGet kv "lay").bind parseNat with
    | some l => l
    | none => grid.getD 9 0
  let steps ← if st = "-" then some [] else (st.splitOn "|").mapM (parseStep species.length nz (nx * ny))
  match (ft.splitOn ":").mapM parseHexWord with
  | some [a, b, c, d] => some ⟨name, note, itzon, a, b, c, d, grid, species, steps⟩
  | _ => none

def parseFlags (s : String) : Option (List (Nat × Nat)) :=
  parseList (fun t => match t.splitOn ":" with
    | [a, b] => match parseNat a, parseNat b with
      | some x, some y => some (x, y) | _, _ => none
    | _ => none) s

def showFlagsI (l : List (Int × Int)) : String := showList (fun (p : Int × Int) => s!"{p.1}:{p.2}") l

def parseWriteIn (toks : List String) : Option WriteIn := do
  let kv := parseKVs toks
  let name ← (kvGet kv "name").bind parseCodes
  let note ← (kvGet kv "note").bind parseCodes
  let itzon ← (kvGet kv "itzon").bind parseHexWord
  let grid ← (kvGet kv "grid").bind parseWords
  let sp ← kvGet kv "species"
  let species ← if sp = "-" then some [] else (sp.splitOn ";").mapM parseCodes
  let tflag ← (kvGet kv "tflag").bind parseFlags
  let et ← kvGet kv "etflag"
  let etflag ← if et = "_" then some none else (parseFlags et).map some
  let tstep ← (kvGet kv "tstep").bind parseNat
  let dat ← kvGet kv "data"
  let nx := grid.getD 7 0
  let ny := grid.getD 8 0
  let nz := grid.getD 9 0
  let data ← if dat = "-" then some [] else (dat.splitOn "|").mapM (fun s => (parseWords s).map (regroup species.length nz (nx * ny)))
  some ⟨name, note, itzon, grid, species, tflag, etflag, tstep, data⟩

def showErr : RErr → String
  | .mmapErr => "mmap" | .partialTime => "partial" | .noSteps => "nosteps"

def showView (v : MMView) : String :=
  let sp := if v.species.isEmpty then "-" else ";".intercalate (v.species.map showCodes)
  let tf := convertTime (v.steps.map (·.ibdate)) (v.steps.map (·.btime))
  let ef := convertTime (v.steps.map (·.iedate)) (v.steps.map (·.etime))
  let dat := "|".intercalate (v.steps.map (fun s => showWords s.data.flatten.flatten))
  s!"ok nspec={v.nspec} nx={v.nx} ny={v.ny} nz={v.nz} nt={v.steps.length} species={sp} tflag={showFlagsI tf} etflag={showFlagsI ef} hdr={showWords v.hdr} grid={showWords v.grid} data={dat}"

def runBin : List String → String
  | "slab-enc" :: toks => Slab.run ("slab-enc" :: toks)
  | "slab-view" :: toks => Slab.run ("slab-view" :: toks)
  | "slab-mm" :: toks => Slab.run ("slab-mm" :: toks)
  | "cr-enc" :: toks => Slab.runCR toks
  | "wind-enc" :: toks => Slab.runWind toks
  | "bnd-enc" :: toks => Slab.runBnd toks
  | "wind-read" :: toks => Wind.runRead toks
  | "cr-read" :: toks => CloudRain.runRead toks
  | "wind-rd" :: toks => WindRec.run ("wind-rd" :: toks)
  | "uamiv-rd" :: toks => UamivRead.run ("uamiv-rd" :: toks)
  | "bnd-read" :: toks => Boundary.runRead ("bnd-read" :: toks)
  | "slab-rd" :: toks => SlabRead.run ("slab-rd" :: toks)
  | "lu-enc" :: toks => Landuse.run ("lu-enc" :: toks)
  | "lu-read" :: toks => Landuse.run ("lu-read" :: toks)
  | ["frame", hex] =>
    -- one Fortran record around a payload of whole words (FortranFileUtil.writeline): marker, payload, marker
    match parseWords hex with
    | some w => "ok " ++ showWords (frame w)
    | none => "err parse"
  | "uamiv-write" :: toks =>
    match parseWriteIn toks with
    | some i => "ok " ++ showWords (writerContent i).encode
    | none => "err parse"
  | ["uamiv-read", hex, extra] =>
    match parseWords hex, parseNat extra with
    | some w, some e => match decodeMM w e with
      | .ok v => showView v
      | .error er => "err " ++ showErr er
    | _, _ => "err parse"
  | ["uamiv-refdec", hex] =>
    match parseWords hex with
    | some w => match refDecode w with
      | some f => "ok " ++ showUamiv f
      | none => "err layout"
    | none => "err parse"
  | "uamiv-refenc" :: toks =>
    match parseUamiv toks with
    | some f => "ok " ++ showWords f.encode
    | none => "err parse"
  | _ => "err bad-op"

end Camx
