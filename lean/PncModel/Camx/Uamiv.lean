import PncModel.Words
/-
Uamiv: CAMx gridded average / emissions / instant files ("uamiv"), properties C08, C09, C13, C14.
Layout (every record Fortran-framed):
  1. name(10 chars) note(60 chars) itzon nspec ibdate btime iedate etime
  2. plon plat iutm xorg yorg delx dely nx ny nz iproj istag tlat1 tlat2 rdum
  3. 1 1 nx ny
  4. species names (10 chars each)
  then per time step: (ibdate btime iedate etime) and, per species and layer, (1, name, ny*nx values)
-/
namespace Camx
open Words

structure Step where
  ibdate : Word
  btime : Word
  iedate : Word
  etime : Word
  data : List (List (List Word))     -- [species][layer] → ny*nx words
deriving Repr, BEq, DecidableEq

structure Uamiv where
  name : List Nat          -- 10 character codes
  note : List Nat          -- 60 character codes
  itzon : Word
  ibdate : Word
  btime : Word
  iedate : Word
  etime : Word
  grid : List Word         -- 15 words
  species : List (List Nat)
  steps : List Step
deriving Repr, BEq, DecidableEq

def Uamiv.nx (f : Uamiv) : Nat := f.grid.getD 7 0
def Uamiv.ny (f : Uamiv) : Nat := f.grid.getD 8 0
def Uamiv.nz (f : Uamiv) : Nat := f.grid.getD 9 0
def Uamiv.nspec (f : Uamiv) : Nat := f.species.length

def chars (l : List Nat) : List Word := l.map charWord

/-- one data record: the constant 1, the species name, ny*nx values -/
def dataRec (spc : List Nat) (d : List Word) : List Word := 1 :: (chars spc ++ d)

def speciesRecords (p : List Nat × List (List Word)) : List (List Word) := p.2.map (dataRec p.1)

def stepRecords (species : List (List Nat)) (s : Step) : List (List Word) :=
  [s.ibdate, s.btime, s.iedate, s.etime] :: (List.zip species s.data).flatMap speciesRecords

/-- the records of a file, in order (the reference encoder of C09) -/
def Uamiv.records (f : Uamiv) : List (List Word) :=
  [chars f.name ++ chars f.note ++ [f.itzon, f.nspec, f.ibdate, f.btime, f.iedate, f.etime],
   f.grid, [1, 1, f.nx, f.ny], (f.species.map chars).flatten] ++
  f.steps.flatMap (stepRecords f.species)

def Uamiv.encode (f : Uamiv) : List Word := encodeRecs f.records

/-! ### reference decoder: walks the records, using only the published layout -/

def splitEvery (k : Nat) : Nat → List α → List (List α)
  | 0, _ => []
  | n + 1, l => l.take k :: splitEvery k n (l.drop k)

/-- `nz` layer records of one species -/
def takeLayers (spc : List Nat) (cells : Nat) : Nat → List (List Word) → Option (List (List Word) × List (List Word))
  | 0, recs => some ([], recs)
  | n + 1, r :: recs =>
    if r.length = 11 + cells ∧ r.head? = some 1 ∧ (r.drop 1).take 10 = chars spc then
      (takeLayers spc cells n recs).map (fun (ls, rest) => (r.drop 11 :: ls, rest))
    else none
  | _ + 1, [] => none

def takeSpecies (nz cells : Nat) : List (List Nat) → List (List Word) → Option (List (List (List Word)) × List (List Word))
  | [], recs => some ([], recs)
  | spc :: more, recs =>
    match takeLayers spc cells nz recs with
    | none => none
    | some (ls, rest) => (takeSpecies nz cells more rest).map (fun (ss, rest') => (ls :: ss, rest'))

def parseSteps (species : List (List Nat)) (nz cells : Nat) : Nat → List (List Word) → Option (List Step)
  | _, [] => some []
  | 0, _ => none
  | fuel + 1, [b, bt, e, et] :: recs =>
    match takeSpecies nz cells species recs with
    | none => none
    | some (d, rest) => (parseSteps species nz cells fuel rest).map (fun ss => ⟨b, bt, e, et, d⟩ :: ss)
  | _ + 1, _ => none

def decodeRecords (recs : List (List Word)) : Option Uamiv :=
  match recs with
  | h :: g :: c :: sp :: rest =>
    if h.length ≠ 76 ∨ g.length ≠ 15 then none else
    let nspec := h.getD 71 0
    let nx := g.getD 7 0
    let ny := g.getD 8 0
    let nz := g.getD 9 0
    if c ≠ [1, 1, nx, ny] ∨ sp.length ≠ 10 * nspec then none else
    let species := (splitEvery 10 nspec sp).map (·.map wordChar)
    match parseSteps species nz (nx * ny) rest.length rest with
    | none => none
    | some steps =>
      some { name := (h.take 10).map wordChar, note := ((h.drop 10).take 60).map wordChar,
             itzon := h.getD 70 0, ibdate := h.getD 72 0, btime := h.getD 73 0, iedate := h.getD 74 0,
             etime := h.getD 75 0, grid := g, species := species, steps := steps }
  | _ => none

/-- the independent decoder: frames, then layout -/
def refDecode (w : List Word) : Option Uamiv :=
  (parseRecords w.length w).bind decodeRecords

/-! ### the library's memory-mapped reader (`uamiv/Memmap.py __readheader`) -/

inductive RErr where
  | mmapErr     -- numpy.memmap refuses an offset/shape beyond the file
  | partialTime -- "Partial time output"
  | noSteps     -- no complete time step
deriving Repr, DecidableEq

structure MMView where
  nspec : Nat
  nx : Nat
  ny : Nat
  nz : Nat
  hdr : List Word        -- words 1..76 of record 1
  grid : List Word
  species : List (List Nat)
  steps : List Step
deriving Repr, DecidableEq

/-- header size in words up to the first time-step block -/
def dataOffset (nspec : Nat) : Nat := 103 + 10 * nspec

def blockWords (nspec nz nx ny : Nat) : Nat := 6 + nspec * nz * (13 + nx * ny)

/-- one time block read at fixed strides, markers ignored -/
def readStep (nspec nz cells : Nat) (blk : List Word) : Step :=
  let body := blk.drop 6
  let spcWords := nz * (13 + cells)
  let data := (List.range nspec).map (fun s =>
    (List.range nz).map (fun z =>
      ((body.drop (s * spcWords + z * (13 + cells))).drop 12).take cells))
  ⟨blk.getD 1 0, blk.getD 2 0, blk.getD 3 0, blk.getD 4 0, data⟩

def hNspec (w : List Word) : Nat := w.getD 72 0
def hNx (w : List Word) : Nat := w.getD 86 0
def hNy (w : List Word) : Nat := w.getD 87 0
def hNz (w : List Word) : Nat := max (w.getD 88 0) 1
def hOff (w : List Word) : Nat := dataOffset (hNspec w)
def hBlk (w : List Word) : Nat := blockWords (hNspec w) (hNz w) (hNx w) (hNy w)

/-- what the reader presents when it found `nt` whole time blocks -/
def mkView (w : List Word) (nt : Nat) : MMView :=
  { nspec := hNspec w, nx := hNx w, ny := hNy w, nz := hNz w,
    hdr := (w.drop 1).take 76, grid := (w.drop 79).take 15,
    species := (splitEvery 10 (hNspec w) ((w.drop 102).take (10 * hNspec w))).map (·.map wordChar),
    steps := (List.range nt).map (fun t =>
      readStep (hNspec w) (hNz w) (hNx w * hNy w) (((w.drop (hOff w)).drop (t * hBlk w)).take (hBlk w))) }

/-- `words` = the whole 4-byte words of the file, `extra` = remaining bytes (0..3) -/
def decodeMM (words : List Word) (extra : Nat) : Except RErr MMView :=
  let size := 4 * words.length + extra
  if size < 404 then .error .mmapErr else
  if size < 408 + 40 * hNspec words then .error .mmapErr else
  if size < 4 * hOff words then .error .partialTime else
  if (size - 4 * hOff words) % (4 * hBlk words) ≠ 0 then .error .partialTime else
  if (size - 4 * hOff words) / (4 * hBlk words) = 0 then .error .noSteps else
  .ok (mkView words ((size - 4 * hOff words) / (4 * hBlk words)))

/-! ### time conventions -/

/-- YYYYJJJ → YYJJJ as the writers store it: `d % (d // 100000 * 100000)` -/
def encDate (d : Nat) : Nat := d % (d / 100000 * 100000)

/-- `ConvertCAMxTime` on dates: two-digit years 70-99 are 1970-1999, 00-69 are 2000-2069 -/
def decDates (ds : List Int) : List Int :=
  ds.map (fun d => if d < 70000 then d + 2000000 else d + 1900000)

/-- `ConvertCAMxTime` on times: multiply by 100 until the largest is at least 10000 -/
def scaleTimes : Nat → List Int → List Int
  | 0, ts => ts
  | fuel + 1, ts =>
    if ts.all (· == 0) then ts
    else if ts.foldl max 0 < 10000 ∧ (ts.foldl max (ts.headD 0)) < 10000 then scaleTimes fuel (ts.map (· * 100))
    else ts

/-- TFLAG (or ETFLAG) rows from stored dates and float32 hours -/
def convertTime (dates : List Word) (times : List Word) : List (Int × Int) :=
  let ds := decDates (dates.map (fun (w : Word) => if w ≥ 2147483648 then (w : Int) - 4294967296 else (w : Int)))
  let ts := scaleTimes 8 (times.map truncF32)
  List.zip ds ts

/-! ### the library writer (`uamiv/Write.py ncf2uamiv`) on whole-hour inputs -/

/-- `_add_days`: add days to a YYJJJ date (two-digit year) rolling over the end of the year -/
def addDaysGo : Nat → Nat → Nat → Nat
  | 0, yy, jjj => yy * 1000 + jjj
  | fuel + 1, yy, jjj =>
    let ylen := if yy % 4 = 0 then 366 else 365
    if jjj > ylen then addDaysGo fuel ((yy + 1) % 100) (jjj - ylen) else yy * 1000 + jjj

def addDays (d n : Nat) : Nat := addDaysGo (n / 365 + 2) (d / 1000) (d % 1000 + n)

structure WriteIn where
  name : List Nat
  note : List Nat
  itzon : Word
  grid : List Word              -- with nx ny nz already in place
  species : List (List Nat)     -- first 10 characters of each 16-character VAR-LIST entry
  tflag : List (Nat × Nat)      -- YYYYJJJ, HHMMSS (whole hours)
  etflag : Option (List (Nat × Nat))
  tstepHours : Nat              -- TSTEP / 10000 when there is no ETFLAG
  data : List (List (List (List Word)))   -- [t][spc][lay]

def writerContent (i : WriteIn) : Uamiv :=
  let ds := i.tflag.map (fun p => encDate p.1)
  let hs := i.tflag.map (fun p => p.2 / 10000)
  let (de, he) : List Nat × List Nat := match i.etflag with
    | some e => (e.map (fun p => encDate p.1), e.map (fun p => p.2 / 10000))
    | none =>
      let h2 := hs.map (· + i.tstepHours)
      (List.zipWith (fun d h => addDays d (h / 24)) ds h2, h2.map (· % 24))
  let steps := (List.zip (List.zip (List.zip ds hs) (List.zip de he)) i.data).map
    (fun (((d, h), (d2, h2)), dat) => (⟨d, f32OfNat h, d2, f32OfNat h2, dat⟩ : Step))
  { name := i.name, note := i.note, itzon := i.itzon,
    ibdate := ds.headD 0, btime := f32OfNat (hs.headD 0),
    iedate := de.getLastD 0, etime := f32OfNat (he.getLastD 0),
    grid := i.grid, species := i.species, steps := steps }

end Camx
