import PncModel.Camx.Slab
/-
BoundaryRead: the memory-mapped reader of CAMx lateral boundary files (`camxfiles/lateral_boundary/Memmap.py`).

The reader takes the number of species from the file header, columns, rows and layers from the grid header, maps
the four header records and the four boundary-definition records at the positions those numbers give (checking the
leading marker of every definition record, no other marker), derives the number of time steps from what is left of
the file, which must be a whole number of time-step blocks, and presents every block cut at fixed positions.
-/
namespace Boundary
open Words

/-- positional cut of framed records with payload sizes `sizes`: the markers are skipped, not checked -/
def cutRecs : List Nat → List Word → List (List Word) × List Word
  | [], ws => ([], ws)
  | n :: rest, ws => ((ws.drop 1).take n :: (cutRecs rest (ws.drop (n + 2))).1, (cutRecs rest (ws.drop (n + 2))).2)

/-- words that records with these payload sizes take on disk -/
def framedLen : List Nat → Nat
  | [] => 0
  | n :: rest => (n + 2) + framedLen rest

/-- the leading markers of records with these payload sizes are what the sizes demand -/
def markersOk : List Nat → List Word → Bool
  | [], _ => true
  | n :: rest, ws => ws.headD 0 = 4 * n && markersOk rest (ws.drop (n + 2))

def hdrSizes (nspec : Nat) : List Nat := [76, 15, 4, 10 * nspec]
def defSizes (nx ny : Nat) : List Nat := [3 + 4 * ny, 3 + 4 * ny, 3 + 4 * nx, 3 + 4 * nx]
/-- west, east (rows x layers), south, north (columns x layers); 12 = the one, the name, the edge number -/
def spcSizes (nx ny nz : Nat) : List Nat := [12 + ny * nz, 12 + ny * nz, 12 + nx * nz, 12 + nx * nz]
def stepSizes (nspec nx ny nz : Nat) : List Nat := 4 :: (List.replicate nspec (spcSizes nx ny nz)).flatten

/-- `max(nz, 1)` on a signed word -/
def layers (w : Word) : Nat := if w = 0 ∨ w ≥ 2147483648 then 1 else w

/-- the projection code must be one of 0..3 (a polar file, 3, may have its origin at any latitude: the reader takes the
hemisphere from it) -/
def projOk (iproj _plat : Word) : Bool := decide (iproj ≤ 3)

def stepOf (rs : List (List Word)) : BStep := ⟨rs.headD [], rs.drop 1⟩

def cutSteps (sizes : List Nat) : Nat → List Word → List BStep
  | 0, _ => []
  | n + 1, ws => stepOf (cutRecs sizes ws).1 :: cutSteps sizes n (cutRecs sizes ws).2

/-- the reader (mode `r`) -/
def read (ws : List Word) : Option BFile :=
  let nspec := ws.getD 72 0
  let nx := ws.getD 86 0
  let ny := ws.getD 87 0
  let nz := layers (ws.getD 88 0)
  if ¬ (1 ≤ nspec ∧ nspec < 2147483648 ∧ 1 ≤ nx ∧ nx < 2147483648 ∧ 1 ≤ ny ∧ ny < 2147483648) then none else
  if ¬ projOk (ws.getD 89 0) (ws.getD 80 0) then none else
  let off := framedLen (hdrSizes nspec) + framedLen (defSizes nx ny)
  if ws.length < off then none else
  let h := cutRecs (hdrSizes nspec) ws
  if ¬ markersOk (defSizes nx ny) h.2 then none else
  let d := cutRecs (defSizes nx ny) h.2
  let block := framedLen (stepSizes nspec nx ny nz)
  -- the data map needs whole blocks; a file without any block has no first time flag
  if (ws.length - off) % block ≠ 0 ∨ (ws.length - off) / block = 0 then none else
  some ⟨h.1, d.1, cutSteps (stepSizes nspec nx ny nz) ((ws.length - off) / block) d.2⟩

end Boundary

namespace Boundary
open Wire Words

def showRecs (rs : List (List Word)) : String := if rs.isEmpty then "-" else ",".intercalate (rs.map showWords)

def showFile (f : BFile) : String :=
  let steps := if f.steps.isEmpty then "-" else "|".intercalate (f.steps.map (fun s => showWords s.hdr ++ ":" ++ showRecs s.recs))
  s!"headers={showRecs f.headers} defs={showRecs f.defs} steps={steps}"

/-- `bin bnd-read <hex>` → the records the reader presents, in the form `bnd-enc` takes -/
def runRead : List String → String
  | ["bnd-read", hex] => match parseWords hex with
    | some ws => (match read ws with
      | some f => "ok " ++ showFile f
      | none => "err read")
    | none => "err parse"
  | _ => "err unknown"

end Boundary
