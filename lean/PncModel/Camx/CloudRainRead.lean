import PncModel.Camx.WindRead
/-
CloudRainRead: the memory-mapped reader of CAMx cloud/rain files (`camxfiles/cloud_rain/Memmap.py`).

The header record holds the file description and nx, ny, nz.  The format does not store the number of variables:
the reader tries 5 (CLOUD, RAIN, SNOW, GRAUPEL, COD) and then 3 (CLOUD, PRECIP, COD) and keeps the first for which
the data section is a whole number of time steps.  Every step is `[8, time, date, 8]` followed by one framed record
per (layer, variable); all markers must agree pairwise.
-/
namespace CloudRain
open Words Slab

/-- number of variables from the size of the data section -/
def guessVars (nz cells len : Nat) : Nat :=
  if len % (5 * nz * (cells + 2) + 4) = 0 then 5 else if len % (3 * nz * (cells + 2) + 4) = 0 then 3 else 5

def parseStep (cells n : Nat) (sw : List Word) : Option CStep :=
  if sw.getD 0 0 ≠ sw.getD 3 0 then none else
  let block := sw.drop 4
  if block.length ≠ (cells + 2) * n then none else
  match (chunk (cells + 2) block block.length).mapM Wind.dataRow with
  | none => none
  | some rows => some { time := sw.getD 1 0, date := sw.getD 2 0, slabs := rows }

def readSteps (cells n stepW : Nat) : Nat → List Word → Option (List CStep)
  | 0, _ => some []
  | k + 1, ws =>
    match parseStep cells n (ws.take stepW), readSteps cells n stepW k (ws.drop stepW) with
    | some s, some r => some (s :: r)
    | _, _ => none

def read (ws : List Word) : Option CFile :=
  let hw := ws.headD 0 / 4                 -- words of the header payload
  if hw < 3 then none else
  let payload := (ws.drop 1).take hw
  let nx := payload.getD (hw - 3) 0
  let ny := payload.getD (hw - 2) 0
  let nz := payload.getD (hw - 1) 0
  let data := ws.drop (hw + 2)
  let cells := nx * ny
  let nv := guessVars nz cells data.length
  let stepW := nv * nz * (cells + 2) + 4
  if data.length % stepW ≠ 0 then none else
  match readSteps cells (nz * nv) stepW (data.length / stepW) data with
  | none => none
  | some steps => some { desc := payload.take (hw - 3), nx := nx, ny := ny, nz := nz, steps := steps }

end CloudRain

/-! ### wire format of the wind and cloud/rain readers -/
namespace Wind
open Wire Words

def showStep (s : WStep) : String :=
  let st := match s.stag with | some g => toHex g | none => "_"
  s!"{toHex s.time}:{toHex s.date}:{st}:{",".intercalate (s.slabs.map showWords)}"

/-- `bin wind-read <cells> <hex>` -/
def runRead : List String → String
  | [cells, hex] => match parseNat cells, parseWords hex with
    | some c, some ws => (match read c ws with
      | some steps => "ok " ++ (if steps.isEmpty then "-" else "|".intercalate (steps.map showStep))
      | none => "err read")
    | _, _ => "err parse"
  | _ => "err bad-op"

end Wind

namespace CloudRain
open Wire Words

def showStep (s : CStep) : String :=
  s!"{toHex s.time}:{toHex s.date}:{",".intercalate (s.slabs.map showWords)}"

/-- `bin cr-read <hex>` -/
def runRead : List String → String
  | [hex] => match parseWords hex with
    | some ws => (match read ws with
      | some f => s!"ok desc={showWords f.desc} nx={f.nx} ny={f.ny} nz={f.nz} steps={if f.steps.isEmpty then "-" else "|".intercalate (f.steps.map showStep)}"
      | none => "err read")
    | none => "err parse"
  | _ => "err bad-op"

end CloudRain
