import PncModel.Camx.Uamiv
/-
UamivRead: the record-based ("Read") reader of CAMx gridded files (`camxfiles/uamiv/Read.py` on
`FortranFileUtil.RecordFile` and `timetuple`).

It walks the four header records and the first time record by their markers, takes the time step from the first
time record, the number of steps from the begin/end pair of the *file* header (with a 24/2400 "end of day"
chosen from the parity of the step), forces one layer for EMISSIONS files and one step for AIRQUALITY files, and
then fetches every (time, species, layer) slab by converting it into a byte position: strides come from the size of
the first data record, the time from `timerange()` of the header interval.

Times are the integer values of the float words (hours); a file whose markers are not multiples of four bytes is
outside the model, as is a file without species.
-/
namespace UamivRead
open Words Camx

/-- a word as the signed integer `struct.unpack('>i')` gives -/
def sint (w : Word) : Int := if w ≥ 2147483648 then (w : Int) - 4294967296 else (w : Int)

/-- `FortranFileUtil.Int2Asc` on one word: the code handed to `chr()` -/
def int2asc (w : Word) : Int := Int.fdiv (Int.fdiv (Int.fdiv (sint w - 32) 256 - 32) 256 - 32) 256

/-- `chr()` accepts the code -/
def chrOk (c : Int) : Bool := decide (0 ≤ c) && decide (c ≤ 1114111)

abbrev DT := Int × Int

/-- `timetuple.timediff` -/
def timediff (eod : Int) (a b : DT) : Int := (b.1 - a.1) * eod + (b.2 - a.2)

/-- `timetuple.timeadd (date, time) (0, s)` -/
def timeadd (eod : Int) (a : DT) (s : Int) : DT :=
  if a.2 + s ≥ eod then (a.1 + 1, Int.fmod (a.2 + s) eod)
  else if a.2 + s < 0 then (a.1 - 1, Int.fmod (a.2 + s) eod)
  else (a.1, a.2 + s)

/-- `timetuple.timerange`: from `cur` in steps until `stop` is hit exactly; `none` when that takes more than `fuel`
rounds (the reader would overrun its output array, or never return) -/
def trange (eod step : Int) (stop : DT) : Nat → DT → Option (List DT)
  | 0, cur => if cur = stop then some [] else none
  | fuel + 1, cur => if cur = stop then some [] else (trange eod step stop fuel (timeadd eod cur step)).map (cur :: ·)

/-- `RecordFile.next()` from the record at word `pos` whose marker says `m` bytes: the position of the following
record when it starts inside the file -/
def nextPos (len pos m : Nat) : Option Nat := if pos + m / 4 + 2 < len then some (pos + m / 4 + 2) else none

structure RecView where
  nspec : Nat
  nx : Nat
  ny : Nat
  nz : Nat
  nt : Nat
  species : List (List Int)                    -- names as character codes (before `strip()`)
  data : List (List (List (List Word)))        -- [species][step][layer] → ny*nx words
deriving Repr, DecidableEq

def nameEMISSIONS : List Int := [69, 77, 73, 83, 83, 73, 79, 78, 83, 32]
def nameAIRQUALITY : List Int := [65, 73, 82, 81, 85, 65, 76, 73, 84, 89]

/-- everything `__readheader` learns -/
structure Hdr where
  name : List Int
  nspec : Nat
  nx : Nat
  ny : Nat
  nl : Nat                -- layers presented
  species : List (List Int)
  dataStart : Nat         -- word position of the first time record
  start : DT
  fin : DT
  step : Int
  count : Int
  padW : Nat              -- words from one data record to the next
deriving Repr

def readHeader (ws : List Word) : Option Hdr :=
  let len := ws.length
  -- record 1 at word 0: 76 words
  if len < 77 then none else
  let m0 := ws.getD 0 0
  let name := ((ws.drop 1).take 10).map int2asc
  let note := ((ws.drop 11).take 60).map int2asc
  if ¬ ((name ++ note).all chrOk) then none else
  let nspecI := sint (ws.getD 72 0)
  if nspecI < 1 then none else
  let nspec := nspecI.toNat
  let sd0 := sint (ws.getD 73 0)
  let st0 := truncF32 (ws.getD 74 0)
  let ed0 := sint (ws.getD 75 0)
  let et0 := truncF32 (ws.getD 76 0)
  if m0 % 4 ≠ 0 then none else
  match nextPos len 0 m0 with
  | none => none
  | some p1 =>
    if len < p1 + 16 then none else
    let nx := sint (ws.getD (p1 + 8) 0)
    let ny := sint (ws.getD (p1 + 9) 0)
    let nz := sint (ws.getD (p1 + 10) 0)
    if nx < 0 ∨ ny < 0 ∨ nz < 0 then none else
    let m1 := ws.getD p1 0
    if m1 % 4 ≠ 0 then none else
    match nextPos len p1 m1 with
    | none => none
    | some p2 =>
      if len < p2 + 5 then none else
      if sint (ws.getD (p2 + 3) 0) ≠ nx ∨ sint (ws.getD (p2 + 4) 0) ≠ ny then none else
      let m2 := ws.getD p2 0
      if m2 % 4 ≠ 0 then none else
      match nextPos len p2 m2 with
      | none => none
      | some p3 =>
        if len < p3 + 1 + 10 * nspec then none else
        let spw := ((ws.drop (p3 + 1)).take (10 * nspec)).map int2asc
        if ¬ (spw.all chrOk) then none else
        let m3 := ws.getD p3 0
        if m3 % 4 ≠ 0 then none else
        match nextPos len p3 m3 with
        | none => none
        | some p4 =>
          if len < p4 + 5 then none else
          let sd := sint (ws.getD (p4 + 1) 0)
          let st := truncF32 (ws.getD (p4 + 2) 0)
          let ed := sint (ws.getD (p4 + 3) 0)
          let et := truncF32 (ws.getD (p4 + 4) 0)
          let step := timediff 2400 (sd, st) (ed, et)
          if step = 0 then none else
          let mystep : Int := if Int.fmod step 2 = 1 then 24 else 2400
          let count0 := Int.fdiv (timediff mystep (sd0, st0) (ed0, et0)) step
          let m4 := ws.getD p4 0
          if m4 % 4 ≠ 0 then none else
          -- the size of the record after the first time record (the time record itself when nothing follows)
          let rs := match nextPos len p4 m4 with
            | none => m4
            | some p5 => ws.getD p5 0
          if rs % 4 ≠ 0 then none else
          let air := name == nameAIRQUALITY
          some { name := name, nspec := nspec, nx := nx.toNat, ny := ny.toNat,
                 nl := if name == nameEMISSIONS then 1 else nz.toNat,
                 species := Camx.splitEvery 10 nspec spw, dataStart := p4,
                 start := (if air then ed0 else sd0, st0), fin := (ed0, et0), step := step,
                 count := if air then 1 else count0, padW := rs / 4 + 2 }

/-- `seek` + `read_into` of one slab: (time, species index `s` from 0, layer `k` from 1) -/
def fetch (ws : List Word) (h : Hdr) (dt : DT) (s k : Nat) : Option (List Word) :=
  if timediff 24 h.fin dt > 0 ∨ timediff 24 h.start dt < 0 then none else
  let nsteps := Int.tdiv (timediff 2400 h.start dt) h.step
  let ntime := nsteps * ((h.nspec * h.nl : Nat) : Int)
  let nid := Int.fdiv (Int.fdiv ntime h.nspec) h.nl + 1
  let q : Int := (h.dataStart : Int) + (((s * h.nl + (k - 1) : Nat) : Int) + ntime) * (h.padW : Int) + nid * 6
  if q < 0 ∨ q ≥ ws.length then none else
  let cells := h.nx * h.ny
  if ws.length < q.toNat + 12 + cells then none else
  some ((ws.drop (q.toNat + 12)).take cells)

/-- the reader, reading every variable -/
def read (ws : List Word) : Option RecView :=
  match readHeader ws with
  | none => none
  | some h =>
    if h.count < 0 then none else
    let cnt := h.count.toNat
    -- EMISSIONS: the squeezed array must keep exactly (steps, rows, columns)
    if h.name == nameEMISSIONS ∧ (cnt = 1 ∨ h.nx = 1 ∨ h.ny = 1) then none else
    match trange 24 h.step (timeadd 24 h.fin 0) cnt (timeadd 24 h.start 0) with
    | none => none
    | some ts =>
      let zero := List.replicate (h.nx * h.ny) (0 : Word)
      let ofSpecies (s : Nat) : Option (List (List (List Word))) :=
        (ts.mapM (fun dt => (List.range h.nl).mapM (fun ki => fetch ws h dt s (ki + 1)))).map
          (fun got => got ++ List.replicate (cnt - got.length) (List.replicate h.nl zero))
      match (List.range h.nspec).mapM ofSpecies with
      | none => none
      | some d => some { nspec := h.nspec, nx := h.nx, ny := h.ny, nz := h.nl, nt := cnt, species := h.species, data := d }

end UamivRead

namespace UamivRead
open Wire Words

/-- `str.strip()` on blanks, then padded to ten characters as the harness prints names -/
def showName (cs : List Int) : String :=
  let core := ((cs.dropWhile (· == 32)).reverse.dropWhile (· == 32)).reverse
  showList (fun (c : Int) => toString c) (core ++ List.replicate (10 - core.length) 32)

def showView (v : RecView) : String :=
  let sp := if v.species.isEmpty then "-" else ";".intercalate (v.species.map showName)
  let dat := "|".intercalate ((List.range v.nt).map (fun t =>
    showWords ((v.data.map (fun perSpecies => (perSpecies.getD t []).flatten)).flatten)))
  s!"ok nspec={v.nspec} nx={v.nx} ny={v.ny} nz={v.nz} nt={v.nt} species={sp} data={dat}"

/-- `bin uamiv-rd <hex>` -/
def run : List String → String
  | ["uamiv-rd", hex] => match parseWords hex with
    | some ws => (match read ws with
      | some v => showView v
      | none => "err read")
    | none => "err parse"
  | _ => "err unknown"

end UamivRead
