import PncModel.Wire
/-
Words: binary files at the level of big-endian 32-bit words (every field of the CAMx and bpch
formats is a multiple of four bytes), Fortran unformatted record framing, and small float32
helpers for the integer-valued floats (hours) the time headers hold.
-/
namespace Words

abbrev Word := Nat      -- 0 ≤ w < 2^32

/-- one Fortran record: leading and trailing marker = payload length in bytes -/
def frame (p : List Word) : List Word := [4 * p.length] ++ p ++ [4 * p.length]

def encodeRecs (ps : List (List Word)) : List Word := (ps.map frame).flatten

/-- read one record from the head of a word list -/
def unframe (w : List Word) : Option (List Word × List Word) :=
  match w with
  | [] => none
  | m :: rest =>
    if m % 4 ≠ 0 then none else
    let n := m / 4
    if rest.length < n + 1 then none else
    match rest.drop n with
    | e :: rest' => if e = m then some (rest.take n, rest') else none
    | [] => none

/-- parse a whole file into records (fuel = length) -/
def parseRecords : Nat → List Word → Option (List (List Word))
  | _, [] => some []
  | 0, _ => none
  | fuel + 1, w => match unframe w with
    | none => none
    | some (p, rest) => (parseRecords fuel rest).map (p :: ·)

/-- a character stored Fortran style: one character and three blanks per word -/
def charWord (c : Nat) : Word := c * 16777216 + 2105376     -- c<<24 | 0x202020
def wordChar (w : Word) : Nat := w / 16777216

/-- float32 bit pattern of a small non-negative integer (exact below 2^24) -/
def f32OfNat (n : Nat) : Word :=
  if n = 0 then 0 else
  let e := Nat.log2 n
  let mant := if e ≤ 23 then (n - 2 ^ e) * 2 ^ (23 - e) else (n - 2 ^ e) / 2 ^ (e - 23)
  (127 + e) * 8388608 + mant

/-- value of a float32 bit pattern truncated toward zero (what `astype('i')` gives), for finite
non-negative values below 2^31; negative → negated magnitude -/
def truncF32 (w : Word) : Int :=
  let sign := w / 2147483648
  let ex := w / 8388608 % 256
  let mant := w % 8388608
  let mag : Nat :=
    if ex < 127 then 0
    else
      let e := ex - 127
      let m := 8388608 + mant
      if e ≥ 23 then m * 2 ^ (e - 23) else m / 2 ^ (23 - e)
  if sign = 1 then -(mag : Int) else mag

def toHex (w : Word) : String :=
  let digs := Nat.toDigits 16 w
  String.ofList (List.replicate (8 - digs.length) '0' ++ digs)

def parseHexWord (s : String) : Option Word :=
  s.toList.foldlM (fun acc c =>
    let v := if '0' ≤ c ∧ c ≤ '9' then some (c.toNat - '0'.toNat)
      else if 'a' ≤ c ∧ c ≤ 'f' then some (c.toNat - 'a'.toNat + 10) else none
    v.map (fun d => acc * 16 + d)) 0

/-- words as one hex string (8 digits per word) -/
def showWords (ws : List Word) : String := if ws.isEmpty then "-" else String.join (ws.map toHex)

def chunkStr (s : List Char) : List (List Char) :=
  if h : s.length = 0 then [] else s.take 8 :: chunkStr (s.drop 8)
termination_by s.length
decreasing_by simp [List.length_drop]; omega

def parseWords (s : String) : Option (List Word) :=
  if s = "-" then some [] else
  if s.length % 8 ≠ 0 then none else
  (chunkStr s.toList).mapM (fun cs => parseHexWord (String.ofList cs))

end Words
