import PncModel.Wire
import PncModel.Generated.ReaderRegistration
/-
Registry: model of `_getreader.getreader` and the process-global reader registry (property C15).
A registry is an ordered list of (name, reader id); several names may map to one reader.
For one file, `acc id` says what that reader's `isMine` answers.
-/
namespace Registry

abbrev Reg := List (String × Nat)

inductive Ans where | yes | no | raises
deriving DecidableEq, Repr

/-- `dict(_readers)` lookup: the *last* entry with that name wins -/
def rdictGet (reg : Reg) (name : String) : Option Nat :=
  (reg.reverse.find? (·.1 == name)).map (·.2)

/-- first reader in the list that accepts; an `isMine` that raises aborts the search -/
def choose (acc : Nat → Ans) : Reg → Except String Nat
  | [] => .error "TypeError"
  | (_, r) :: rest =>
    match acc r with
    | .yes => .ok r
    | .raises => .error "isMineRaised"
    | .no => choose acc rest

/-- the list searched for a path with extension `ext` -/
def searchList (reg : Reg) (ext : String) : Reg :=
  match rdictGet reg ext with
  | some r => (ext, r) :: reg
  | none => reg

/-- `getreader(path)` without a format: (registry afterwards, chosen reader).
`copies = true` is the repaired code (suffix preference on a copy); `false` is the aliasing code,
which leaves the inserted entry in the global registry. -/
def getreaderWith (copies : Bool) (reg : Reg) (ext : String) (acc : Nat → Ans) : Reg × Except String Nat :=
  let l := searchList reg ext
  (if copies then reg else l, choose acc l)

/-- the model of the code as it is now (flag regenerated from the source on every run) -/
def getreader (reg : Reg) (ext : String) (acc : Nat → Ans) : Reg × Except String Nat :=
  getreaderWith (Generated.getreaderCopies.getD false) reg ext acc

/-- `pncopen(path, format=name)` : the reader registered under that name -/
def named (reg : Reg) (name : String) : Option Nat := rdictGet reg name

/-- one step of a history: an auto-detecting open, or an open with the format named -/
structure Open where
  ext : String
  acc : Nat → Ans
  fmt : Option String := none

/-- one open: registry afterwards and the reader used -/
def openStep (reg : Reg) (o : Open) : Reg × Except String Nat :=
  match o.fmt with
  | none => getreader reg o.ext o.acc
  | some name => (reg, match named reg name with
      | some r => .ok r
      | none => .error "KeyError")

/-- run a history of opens; returns the registry afterwards and each chosen reader -/
def runHist (reg : Reg) : List Open → Reg × List (Except String Nat)
  | [] => (reg, [])
  | o :: rest =>
    let (reg', r) := openStep reg o
    let (reg'', rs) := runHist reg' rest
    (reg'', r :: rs)

/-- `registerreader(name, reader)` (also what defining a subclass of PseudoNetCDFFile does): a new name goes to the
front of the registry, a known name is ignored -/
def register (reg : Reg) (name : String) (r : Nat) : Reg :=
  if (reg.map (·.1)).contains name then reg else (name, r) :: reg

/-- an event of a process history: a file is opened, or a reader is registered -/
inductive Event where
  | opn (o : Open)
  | reg (name : String) (r : Nat)

/-- registry afterwards and, for every open, the reader used -/
def runEvents (reg : Reg) : List Event → Reg × List (Except String Nat)
  | [] => (reg, [])
  | .opn o :: rest =>
    let (reg', r) := openStep reg o
    let (reg'', rs) := runEvents reg' rest
    (reg'', r :: rs)
  | .reg n r :: rest => runEvents (register reg n r) rest

/-- the registrations of a history, applied in order -/
def registrations (reg : Reg) : List Event → Reg
  | [] => reg
  | .opn _ :: rest => registrations reg rest
  | .reg n r :: rest => registrations (register reg n r) rest

open Wire

def parseReg (s : String) : Option Reg :=
  parseList (fun t => match t.splitOn ":" with
    | [n, i] => (parseNat i).map (fun k => (n, k))
    | _ => none) s

def mkAcc (yes raises : List Nat) : Nat → Ans :=
  fun r => if raises.contains r then .raises else if yes.contains r then .yes else .no

/-- one open: `ext/yesIds/raiseIds/format` with ids separated by `+` (`-` for none) -/
def parseOpen (s : String) : Option Open :=
  let ids (t : String) : Option (List Nat) := if t = "-" then some [] else (t.splitOn "+").mapM parseNat
  match s.splitOn "/" with
  | [e, y, r, f] => match ids y, ids r with
    | some ys, some rs => some { ext := if e = "-" then "" else e, acc := mkAcc ys rs,
                                 fmt := if f = "-" then none else some f }
    | _, _ => none
  | _ => none

def showChoice : Except String Nat → String
  | .ok r => toString r
  | .error e => e

/-- an event token: an open (`ext/yes/raises/format`) or `reg:<name>:<id>` -/
def parseEvent (s : String) : Option Event :=
  match s.splitOn ":" with
  | ["reg", n, i] => (parseNat i).map (fun k => Event.reg n k)
  | _ => (parseOpen s).map Event.opn

/-- `hist <registry> <open>,<open>,…`; `events <registry> <event>,<event>,…` -/
def run : List String → String
  | ["events", reg, evs] =>
    match parseReg reg, parseList parseEvent evs with
    | some r, some es =>
      let (r', cs) := runEvents r es
      s!"ok chosen={showList showChoice cs} reg={showList (fun (p : String × Nat) => p.1) r'}"
    | _, _ => "err parse"
  | ["hist", reg, opens] =>
    match parseReg reg, parseList parseOpen opens with
    | some r, some os =>
      let (r', cs) := runHist r os
      s!"ok chosen={showList showChoice cs} reg={showList (fun (p : String × Nat) => p.1) r'}"
    | _, _ => "err parse"
  | _ => "err bad-op"

end Registry
