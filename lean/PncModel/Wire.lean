/-
Wire: parsing and printing helpers for the line protocol between the Python harness and the
Lean model driver.  Core Lean only (no Mathlib) so that the driver links as a `lean_exe`.

Grammar: tokens are separated by single spaces; lists by `,`; rows of 2-D arrays by `;`;
rationals are `p/q` or `p`; the empty list is `-`.
-/
namespace Wire

def parseInt (s : String) : Option Int := s.toInt?

def parseNat (s : String) : Option Nat := s.toNat?

def parseRat (s : String) : Option Rat :=
  match s.splitOn "/" with
  | [p] => (parseInt p).map (fun n => (n : Rat))
  | [p, q] => match parseInt p, parseNat q with
      | some n, some d => if d = 0 then none else some ((n : Rat) / (d : Rat))
      | _, _ => none
  | _ => none

def parseList {α} (f : String → Option α) (s : String) : Option (List α) :=
  if s = "-" then some [] else (s.splitOn ",").mapM f

def parseRows {α} (f : String → Option α) (s : String) : Option (List (List α)) :=
  if s = "-" then some [] else (s.splitOn ";").mapM (parseList f)

def showRat (q : Rat) : String :=
  if q.den = 1 then toString q.num else s!"{q.num}/{q.den}"

def showList {α} (f : α → String) (l : List α) : String :=
  if l.isEmpty then "-" else ",".intercalate (l.map f)

def showRows {α} (f : α → String) (l : List (List α)) : String :=
  if l.isEmpty then "-" else ";".intercalate (l.map (showList f))

def showInt (i : Int) : String := toString i

def showOpt {α} (f : α → String) : Option α → String
  | none => "_"
  | some a => f a

def parseOpt {α} (f : String → Option α) (s : String) : Option (Option α) :=
  if s = "_" then some none else (f s).map some

end Wire
