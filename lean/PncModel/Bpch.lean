import PncModel.Wire
import PncModel.Words
/-
Bpch: GEOS-Chem binary punch files, version 2 (property C18), at the level of 4-byte words.

A file is two header records (file type, 40 characters; title, 80 characters) followed by data blocks of
three Fortran records each: model header (name 20 chars, 2 resolutions, halfpolar, center180 = 9 words), block
header (category 40 chars, tracer id, unit 40 chars, tau0 and tau1 as float64, reserved 40 chars, 3 dimensions,
3 start indices, skip = 42 words) and the data (nx·ny·nz float32).  Time steps are not marked in the file: the
reader (`bpch1.__init__`) takes the blocks up to the first repetition of the first block's (category, tracer)
as the layout of one step.
-/
namespace Bpch
open Words

structure Block where
  hdr1 : List Word            -- 9 words
  hdr2 : List Word            -- 42 words
  data : List Word
deriving Repr, DecidableEq

def Block.category (b : Block) : List Word := b.hdr2.take 10
def Block.tracerid (b : Block) : Word := b.hdr2.getD 10 0
def Block.unit (b : Block) : List Word := (b.hdr2.drop 11).take 10
def Block.tau0 (b : Block) : List Word := (b.hdr2.drop 21).take 2
def Block.tau1 (b : Block) : List Word := (b.hdr2.drop 23).take 2
def Block.dims (b : Block) : List Word := (b.hdr2.drop 35).take 3
def Block.start (b : Block) : List Word := (b.hdr2.drop 38).take 3
def Block.skip (b : Block) : Word := b.hdr2.getD 41 0
def Block.key (b : Block) : List Word × Word := (b.category, b.tracerid)

structure File where
  ftype : List Word           -- 10 words
  title : List Word           -- 20 words
  steps : List (List Block)
deriving Repr, DecidableEq

def blockRecords (b : Block) : List (List Word) := [b.hdr1, b.hdr2, b.data]

def records (f : File) : List (List Word) :=
  [f.ftype, f.title] ++ (f.steps.flatten.map blockRecords).flatten

/-- the bytes of the file (as big-endian words) -/
def encode (f : File) : List Word := encodeRecs (records f)

/-- group a flat list of records into blocks of three -/
def toBlocks : List (List Word) → Option (List Block)
  | [] => some []
  | a :: b :: c :: rest => (toBlocks rest).map (fun l => ⟨a, b, c⟩ :: l)
  | _ => none

/-- the layout of one time step as `bpch1` finds it: the blocks up to (not including) the first one whose
(category, tracer) equals the first block's -/
def firstStep : List Block → List Block
  | [] => []
  | b :: rest => b :: rest.takeWhile (fun x => x.key != b.key)

/-- consecutive chunks of `n` blocks; a trailing partial chunk is dropped (`itemcount` is a floor) -/
def chunks (n : Nat) (l : List Block) : Nat → List (List Block)
  | 0 => []
  | fuel + 1 => if n = 0 ∨ l.length < n then [] else l.take n :: chunks n (l.drop n) fuel

/-- the time steps `bpch1` presents for a flat list of blocks -/
def groupSteps (l : List Block) : List (List Block) :=
  chunks (firstStep l).length l l.length

/-- independent decoder: Fortran record walk, then blocks, then steps -/
def refDecode (ws : List Word) : Option File := do
  let recs ← parseRecords ws.length ws
  match recs with
  | ft :: ti :: rest =>
    let bs ← toBlocks rest
    pure { ftype := ft, title := ti, steps := groupSteps bs }
  | _ => none

/-! ### tracer tables -/

structure TInfo where
  id : Nat                    -- tracer number including the category offset
  name : String
  scale : Rat
  unit : String
deriving Repr

structure DInfo where
  offset : Nat
  category : String
deriving Repr

structure Resolved where
  name : String
  scale : Rat
  unit : Option String        -- none: the unit stored in the block header
deriving Repr, DecidableEq

/-- the category offset added to tracer numbers (0 for a category that is not in diaginfo) -/
def offsetOf (ds : List DInfo) (cat : String) : Nat :=
  match ds.find? (fun d => d.category == cat) with
  | some d => d.offset
  | none => 0

/-- which name, scale factor and unit a data block gets (`bpch1.__init__` / `_tracer_lookup.__missing__`):
the table line of `tracer + offset(category)`; without one, the name of the plain tracer number (or the
number itself) with scale 1 and the unit stored in the file -/
def resolve (ts : List TInfo) (ds : List DInfo) (cat : String) (tid : Nat) : Resolved :=
  match ts.find? (fun t => t.id == tid + offsetOf ds cat) with
  | some t => { name := t.name, scale := t.scale, unit := some t.unit }
  | none => match ts.find? (fun t => t.id == tid) with
    | some t => { name := t.name, scale := 1, unit := none }
    | none => { name := toString tid, scale := 1, unit := none }

/-! ### wire format -/
open Wire

def showBlock (b : Block) : String := s!"{showWords b.hdr1}:{showWords b.hdr2}:{showWords b.data}"

def showFile (f : File) : String :=
  let st := if f.steps.isEmpty then "-" else "|".intercalate (f.steps.map (fun s =>
    if s.isEmpty then "-" else ";".intercalate (s.map showBlock)))
  s!"ftype={showWords f.ftype} title={showWords f.title} nsteps={f.steps.length} steps={st}"

def parseBlock (s : String) : Option Block :=
  match s.splitOn ":" with
  | [a, b, c] => match parseWords a, parseWords b, parseWords c with
    | some a, some b, some c => some ⟨a, b, c⟩
    | _, _, _ => none
  | _ => none

def parseFileKV (toks : List String) : Option File := do
  let kv := toks.filterMap (fun t => match t.splitOn "=" with
    | [k, v] => some (k, v)
    | _ => none)
  let get (k : String) : Option String := (kv.find? (·.1 == k)).map (·.2)
  let ft ← (get "ftype").bind parseWords
  let ti ← (get "title").bind parseWords
  let st ← get "steps"
  let steps ← if st = "-" then some [] else (st.splitOn "|").mapM (fun s =>
    if s = "-" then some [] else (s.splitOn ";").mapM parseBlock)
  pure { ftype := ft, title := ti, steps := steps }

def parseT (s : String) : Option TInfo :=
  match s.splitOn ":" with
  | [i, n, sc, u] => match parseNat i, parseRat sc with
    | some i, some sc => some ⟨i, n, sc, u⟩
    | _, _ => none
  | _ => none

def parseD (s : String) : Option DInfo :=
  match s.splitOn ":" with
  | [o, c] => (parseNat o).map (fun o => ⟨o, c⟩)
  | _ => none

/-- `c18 enc <file kv>` → hex; `c18 dec <hex>` → file; `c18 res tinfo=… dinfo=… q=cat:tid,…` → resolutions -/
def run : List String → String
  | "enc" :: toks => match parseFileKV toks with
    | some f => "ok " ++ showWords (encode f)
    | none => "err parse"
  | ["dec", hex] => match parseWords hex with
    | some ws => (match refDecode ws with
      | some f => "ok " ++ showFile f
      | none => "err decode")
    | none => "err parse"
  | "res" :: toks =>
    let kv := toks.filterMap (fun t => match t.splitOn "=" with
      | [k, v] => some (k, v)
      | _ => none)
    let get (k : String) : Option String := (kv.find? (·.1 == k)).map (·.2)
    match (get "tinfo").bind (parseList parseT), (get "dinfo").bind (parseList parseD), get "q" with
    | some ts, some ds, some q =>
      let qs := q.splitOn ","
      "ok " ++ ",".intercalate (qs.map (fun t => match t.splitOn ":" with
        | [c, i] => match parseNat i with
          | some i => let r := resolve ts ds c i
            s!"{r.name}:{showRat r.scale}:{match r.unit with | some u => u | none => "_"}"
          | none => "?"
        | _ => "?"))
    | _, _, _ => "err parse"
  | _ => "err unknown"

end Bpch
