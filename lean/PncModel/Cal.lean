/-
Cal: proleptic Gregorian calendar arithmetic as Python's `datetime` performs it (closed forms),
used by the time-decoding models (C11, C12).  Everything is `Int`; ordinals are 1-based
(0001-01-01 = 1) as `date.toordinal()`.
-/
namespace Cal

def isLeap (y : Int) : Bool := y % 4 = 0 ∧ (y % 100 ≠ 0 ∨ y % 400 = 0)

def yearLen (y : Int) : Int := if isLeap y then 366 else 365

/-- days before January 1st of year `y` (`datetime._days_before_year`) -/
def dby (y : Int) : Int :=
  let p := y - 1
  p * 365 + p / 4 - p / 100 + p / 400

/-- ordinal of (year, day-of-year) -/
def yd2ord (y doy : Int) : Int := dby y + doy

/-- year and day-of-year of an ordinal (`datetime._ord2ymd`, year part) -/
def ord2yd (n : Int) : Int × Int :=
  let n0 := n - 1
  let n400 := n0 / 146097
  let r400 := n0 % 146097
  let n100 := r400 / 36524
  let r100 := r400 % 36524
  let n4 := r100 / 1461
  let r4 := r100 % 1461
  let n1 := r4 / 365
  let r1 := r4 % 365
  let year := n400 * 400 + 1 + n100 * 100 + n4 * 4 + n1
  if n1 = 4 ∨ n100 = 4 then (year - 1, 366) else (year, r1 + 1)

/-- days in month (1-based month) -/
def dim (leap : Bool) (m : Int) : Int :=
  if m = 2 then (if leap then 29 else 28)
  else if m = 4 ∨ m = 6 ∨ m = 9 ∨ m = 11 then 30 else 31

/-- days before the first of month `m` -/
def dbm (leap : Bool) (m : Int) : Int :=
  let t : Int := match m with
    | 1 => 0 | 2 => 31 | 3 => 59 | 4 => 90 | 5 => 120 | 6 => 151
    | 7 => 181 | 8 => 212 | 9 => 243 | 10 => 273 | 11 => 304 | 12 => 334 | _ => 0
  if leap ∧ m > 2 then t + 1 else t

def validYmd (y m d : Int) : Bool := 1 ≤ y ∧ y ≤ 9999 ∧ 1 ≤ m ∧ m ≤ 12 ∧ 1 ≤ d ∧ d ≤ dim (isLeap y) m

def ymd2ord (y m d : Int) : Int := dby y + dbm (isLeap y) m + d

/-- month and day of a day-of-year (table walk) -/
def doy2md (leap : Bool) (doy : Int) : Int × Int :=
  let rec go (fuel : Nat) (m : Int) : Int × Int :=
    match fuel with
    | 0 => (12, doy - dbm leap 12)
    | fuel + 1 => if m < 12 ∧ doy > dbm leap (m + 1) then go fuel (m + 1) else (m, doy - dbm leap m)
  go 12 1

/-- seconds since 0001-01-01T00:00 of an ordinal and a second of day -/
def instant (ord secs : Int) : Int := (ord - 1) * 86400 + secs

/-- `%Y%j` and `%H%M%S` of an instant (seconds) as the integers IOAPI stores -/
def encJ (t : Int) : Int × Int :=
  let day := t / 86400
  let s := t % 86400
  let (y, doy) := ord2yd (day + 1)
  (y * 1000 + doy, (s / 3600) * 10000 + (s % 3600 / 60) * 100 + s % 60)

/-- instant of (YYYYJJJ, HHMMSS) as the TFLAG branch of getTimes computes it:
`datetime(yyyy,1,1) + timedelta(days = jjj - 1 + (h + m/60 + s/3600)/24)` (exact arithmetic) -/
def decJ (d t : Int) : Int :=
  let y := d / 1000
  let j := d % 1000
  let h := t / 10000
  let m := t % 10000 / 100
  let s := t % 100
  instant (yd2ord y 1) 0 + (j - 1) * 86400 + h * 3600 + m * 60 + s

/-- a well-formed IOAPI time flag -/
def validFlag (d t : Int) : Bool :=
  let y := d / 1000
  let j := d % 1000
  1 ≤ y ∧ 1 ≤ j ∧ j ≤ yearLen y ∧ 0 ≤ t ∧ t / 10000 < 24 ∧ t % 10000 / 100 < 60 ∧ t % 100 < 60

/-- seconds of a non-negative HHMMSS number (any number of hour digits) -/
def hmsSeconds (T : Int) : Int := (T / 10000) * 3600 + (T % 10000 / 100) * 60 + T % 100

/-- seconds of an IOAPI TSTEP as getTimes reads it (repaired code): the sign of a negative step — a file that runs
backward in time — belongs to the whole duration, the digits are those of the magnitude -/
def tstepSeconds (T : Int) : Int := if T < 0 then - hmsSeconds (-T) else hmsSeconds T

end Cal
