import PncModel.Arr
import PncModel.Generated.NamespaceOrder
/-
File: the netCDF-like file model (dimensions, variables with nested data, attribute names) and the
structural operations of `PseudoNetCDFFile` (core/_files.py) — properties C01–C06.
-/
namespace PFile
open Arr PySlice

abbrev Cell := Option Rat          -- none = masked

structure Dim where
  name : String
  len : Nat
  unlim : Bool
deriving Repr, BEq

structure Var where
  name : String
  dims : List String
  data : Arr Cell
  attrs : List String        -- attribute names (values are carried opaquely by the real code)
  masked : Bool              -- masked-array variable?
  isInt : Bool := false      -- integer dtype (results are cast on assignment)
deriving Repr

structure File where
  dims : List Dim
  vars : List Var
  attrs : List String
deriving Repr

def File.dim? (f : File) (k : String) : Option Dim := f.dims.find? (·.name == k)
def File.var? (f : File) (k : String) : Option Var := f.vars.find? (·.name == k)
def File.dimLen (f : File) (k : String) : Nat := ((f.dim? k).map (·.len)).getD 0
def File.shapeOf (f : File) (v : Var) : List Nat := v.dims.map f.dimLen

/-- a Python selector -/
inductive PSel where
  | int (i : Int)
  | slice (start stop : Option Int) (step : Int)
  | list (l : List Int)
deriving Repr

def PSel.isList : PSel → Bool
  | .list _ => true
  | _ => false

/-- index list selected on an axis of length `n` (IndexError → none) -/
def PSel.indices (n : Nat) : PSel → Option (List Nat)
  | .int i => (normInt n i).map (fun k => [k])
  | .slice a b st => some (sliceIndices n a b st)
  | .list l => l.mapM (normInt n)

def lookupSel (sels : List (String × PSel)) (k : String) : Option PSel :=
  (sels.find? (·.1 == k)).map (·.2)

/-- does the selector of dimension `k` take part in the pointwise (zipped) selection? -/
def isZipSel (sels : List (String × PSel)) (zipped : Bool) (k : String) : Bool :=
  match lookupSel sels k with
  | some s => zipped && s.isList
  | none => false

/-- index lists per selected dimension -/
def sliceIdx (f : File) (sels : List (String × PSel)) : Except String (List (String × List Nat)) :=
  sels.mapM (fun p => match p.2.indices (f.dimLen p.1) with
    | some l => .ok (p.1, l)
    | none => .error "IndexError")

/-- the selection on the axis of dimension `k` -/
def selOfDim (f : File) (sels : List (String × PSel)) (idx : List (String × List Nat)) (zipped : Bool) (k : String) : Sel :=
  match idx.find? (·.1 == k), lookupSel sels k with
  | some p, some s => if zipped && s.isList then Sel.zip p.2 else Sel.keep p.2
  | _, _ => Sel.keep (List.range (f.dimLen k))

def selIdxs : Sel → List Nat
  | .zip l => l
  | .keep l => l

/-- one variable of the sliced file -/
def sliceVar (f : File) (sels : List (String × PSel)) (idx : List (String × List Nat)) (zipped : Bool) (L : Nat)
    (newdim : String) (v : Var) : Except String Var :=
  let ss := v.dims.map (selOfDim f sels idx zipped)
  if (v.dims.filter (isZipSel sels zipped)).length ≥ 2 then
    let firstZ := (v.dims.map (isZipSel sels zipped)).idxOf true
    let kept := v.dims.filter (fun k => !(isZipSel sels zipped k))
    match zipSel L ss v.data with
    | some d => .ok { v with dims := kept.take firstZ ++ [newdim] ++ kept.drop firstZ, data := d }
    | none => .error "IndexError"
  else
    -- a single zipped-mode list acting alone on this variable is an ordinary orthogonal list
    .ok { v with data := orth (ss.map selIdxs) v.data }

/-- new length of a dimension -/
def slicedLen (idx : List (String × List Nat)) (d : Dim) : Nat :=
  match idx.find? (·.1 == d.name) with
  | some p => p.2.length
  | none => d.len

/-- `sliceDimensions(newdims=(newdim,), **sels)` -/
def sliceFile (f : File) (sels : List (String × PSel)) (newdim : String) : Except String File :=
  -- every keyword must name a dimension
  if sels.any (fun p => (f.dim? p.1).isNone) then .error "KeyError"
  -- zero step
  else if sels.any (fun p => match p.2 with | .slice _ _ 0 => true | _ => false) then .error "ValueError"
  else
    let zipped := decide ((sels.filter (·.2.isList)).length ≥ 2)
    let listLens := sels.filterMap (fun p => match p.2 with | .list l => some l.length | _ => none)
    if zipped && !(listLens.all (· == listLens.headD 0)) then .error "ValueError"
    else
      let L := listLens.headD 0
      match sliceIdx f sels with
      | .error e => .error e
      | .ok idx =>
        let dims' := f.dims.map (fun d => { d with len := slicedLen idx d })
        let dims' := if zipped then dims' ++ [⟨newdim, L, false⟩] else dims'
        match f.vars.mapM (sliceVar f sels idx zipped L newdim) with
        | .ok vars' => .ok { f with dims := dims', vars := vars' }
        | .error e => .error e

/-! ### stack -/

def concatAll (k : Nat) : List (Arr Cell) → Arr Cell
  | [] => Arr.node []
  | [a] => a
  | a :: b :: rest => Arr.concat k a (concatAll k (b :: rest))

/-- the variables of all files: the first occurrence of each name, in order of appearance -/
def firstByName : List Var → List Var → List Var
  | acc, [] => acc
  | acc, v :: vs => if acc.any (·.name == v.name) then firstByName acc vs else firstByName (acc ++ [v]) vs

/-- one variable of the stacked file: kept as it is when it does not have the stack dimension, otherwise the
concatenation, along that axis, of the variable of that name of every file in order -/
def stackVar (fs : List File) (sd : String) (v : Var) : Except String Var :=
  if !(v.dims.contains sd) then .ok v
  -- a variable that carries the stack dimension on two axes: the code concatenates along the first and lets numpy
  -- stretch the result over the others (or fail); not specified here
  else if (v.dims.filter (· == sd)).length > 1 then .error "unspec"
  else match fs.mapM (fun h => h.var? v.name) with
    | some ws => .ok { v with data := concatAll (v.dims.idxOf sd) (ws.map (·.data)) }
    | none => .error "KeyError"

/-- the dimensions other than the stack dimension that have one length in every file -/
def sharedDims (fs : List File) (f0 : File) (sd : String) : List Dim :=
  (f0.dims.filter (fun d => d.name != sd)).filter (fun d => fs.all (fun g => g.dimLen d.name == d.len))

/-- `fs[0].stack(fs[1:], stackdim)` -/
def stackFiles (fs : List File) (sd : String) : Except String File :=
  match fs with
  | [] => .error "IndexError"
  | f0 :: _ =>
    -- every file must have the dimensions of the first
    if (f0.dims.filter (fun d => d.name != sd)).any (fun d => fs.any (fun g => (g.dim? d.name).isNone)) then
      .error "KeyError"
    -- every other dimension of every file must be the stack dimension
    else if fs.any (fun g => g.dims.any (fun d => d.name != sd && !((sharedDims fs f0 sd).any (·.name == d.name)))) then
      .error "AssertionError"
    else if fs.any (fun g => (g.dim? sd).isNone) then .error "KeyError"
    else
      let total := (fs.map (·.dimLen sd)).foldl (· + ·) 0
      let sdim : Dim := { name := sd, len := total, unlim := ((f0.dim? sd).map (·.unlim)).getD false }
      match (firstByName [] (fs.flatMap (·.vars))).mapM (stackVar fs sd) with
      | .ok vars => .ok { dims := sharedDims fs f0 sd ++ [sdim], vars := vars, attrs := f0.attrs }
      | .error e => .error e

/-! ### apply along dimensions -/

/-- the 1-D functions exercised: named reducers (array methods with keepdims) and callables -/
inductive Fn where
  | mean | sum | min | max | var          -- reducers → length 1
  | diff | sub2 | cumsum | rev | conv2    -- np.diff, x[::2], np.cumsum, x[::-1], np.convolve(x,[1,1],'valid')
deriving Repr, DecidableEq

def unmasked (l : List Cell) : List Rat := l.filterMap id

def rsum (l : List Rat) : Rat := l.foldl (· + ·) 0

/-- the function on a 1-D list of cells, with numpy.ma semantics for masked cells -/
def Fn.apply (fn : Fn) (l : List Cell) : List Cell :=
  let u := unmasked l
  match fn with
  | .sum => [if u.isEmpty ∧ !l.isEmpty then none else some (rsum u)]
  | .mean => [if u.isEmpty then none else some (rsum u / (u.length : Nat))]
  | .min => [match u with | [] => none | a :: r => some (r.foldl (fun x y => if y < x then y else x) a)]
  | .max => [match u with | [] => none | a :: r => some (r.foldl (fun x y => if y > x then y else x) a)]
  | .var => [if u.isEmpty then none else
      let m := rsum u / (u.length : Nat)
      some (rsum (u.map (fun x => (x - m) * (x - m))) / (u.length : Nat))]
  | .diff => List.zipWith (fun a b => match a, b with | some x, some y => some (y - x) | _, _ => none) l (l.drop 1)
  | .sub2 => (List.range ((l.length + 1) / 2)).filterMap (fun i => l[2 * i]?)
  | .rev => l.reverse
  | .cumsum =>
    let rec go (acc : Rat) : List Cell → List Cell
      | [] => []
      | none :: r => none :: go acc r
      | some x :: r => some (acc + x) :: go (acc + x) r
    go 0 l
  | .conv2 => List.zipWith (fun a b => match a, b with | some x, some y => some (x + y) | _, _ => none) l (l.drop 1)

def trunc0 (q : Rat) : Rat := ((Int.tdiv q.num q.den : Int) : Rat)

def fnOf (fns : List (String × Fn)) (k : String) : Option Fn := (fns.find? (·.1 == k)).map (·.2)

/-- one axis of one variable: apply the function named for that dimension (if any) -/
def applyAxis (fns : List (String × Fn)) (dims : List String) (acc : Arr Cell × List Nat) (ax : Nat) :
    Arr Cell × List Nat :=
  match fnOf fns (dims.getD ax "") with
  | some fn =>
    (mapFibers fn.apply acc.2 ax acc.1,
     acc.2.set ax (fn.apply ((List.range (acc.2.getD ax 0)).map (fun _ => some 0))).length)
  | none => acc

/-- data of one variable after `applyAlongDimensions`: axes are processed last to first; integer
variables receive the result through a C cast -/
def applyVar (f : File) (fns : List (String × Fn)) (v : Var) : Var :=
  let axes := (List.range v.dims.length).reverse
  let d := (axes.foldl (applyAxis fns v.dims) (v.data, f.shapeOf v)).1
  let touched := v.dims.any (fun k => (fnOf fns k).isSome)
  { v with data := if v.isInt ∧ touched then Arr.mapCells (fun c => c.map trunc0) d else d }

/-- `applyAlongDimensions(**{dim: fn})` -/
def applyFile (f : File) (fns : List (String × Fn)) : Except String File :=
  if fns.any (fun p => (f.dim? p.1).isNone) then .error "KeyError" else
  -- numpy refuses min/max over a zero-length axis
  if fns.any (fun p => (p.2 == .min || p.2 == .max) && f.dimLen p.1 == 0 &&
      (f.vars.any (fun v => v.dims.contains p.1) || true)) then .error "ValueError" else
  -- numpy.apply_along_axis (callables) refuses arrays with a zero-length iteration axis
  if fns.any (fun p => !(p.2 == .mean || p.2 == .sum || p.2 == .min || p.2 == .max || p.2 == .var) &&
      f.vars.any (fun v => v.dims.contains p.1 && v.dims.any (fun k => k != p.1 && f.dimLen k == 0)))
    then .error "ValueError" else
  -- new length: the function applied to the coordinate variable (or arange)
  let newLen (d : Dim) : Nat := match fnOf fns d.name with
    | some fn => (fn.apply ((List.range d.len).map (fun i => some ((i : Nat) : Rat)))).length
    | none => d.len
  .ok { f with dims := f.dims.map (fun d => { d with len := newLen d }), vars := f.vars.map (applyVar f fns) }

/-! ### file arithmetic, mask, eval (C06) -/

inductive Op where
  | add | sub | mul | div | floordiv | pow | mod | lt | le | gt | ge | eq | ne
deriving Repr, DecidableEq

def floorR (q : Rat) : Int := q.num / q.den

def ratPow (a : Rat) (n : Int) : Option Rat :=
  if n ≥ 0 then some (a ^ n.toNat)
  else if a = 0 then none else some (1 / a ^ (-n).toNat)

def isIntegral (q : Rat) : Bool := q.den == 1

/-- one cell of `a op b` with numpy semantics; `none` = masked (an operand was masked or the float
result is not finite); integer division/modulo by zero give 0 (numpy) unless an operand is a masked array
(`domain`: numpy.ma masks the domain error) -/
def Op.cell (op : Op) (isInt : Bool) (a b : Cell) (domain : Bool := false) : Cell :=
  match a, b with
  | some x, some y =>
    let boolc (p : Bool) : Cell := some (if p then 1 else 0)
    match op with
    | .add => some (x + y)
    | .sub => some (x - y)
    | .mul => some (x * y)
    | .div => if y = 0 then none else some (x / y)
    | .floordiv => if y = 0 then (if isInt ∧ !domain then some 0 else none) else some ((floorR (x / y) : Int) : Rat)
    | .mod => if y = 0 then (if isInt ∧ !domain then some 0 else none) else some (x - y * ((floorR (x / y) : Int) : Rat))
    | .pow => if isIntegral y then ratPow x y.num else none
    | .lt => boolc (x < y) | .le => boolc (x ≤ y) | .gt => boolc (x > y) | .ge => boolc (x ≥ y)
    | .eq => boolc (x == y) | .ne => boolc (x != y)
  | _, _ => none

-- cell-wise combination of two equally shaped arrays
mutual
def zipCells (g : Cell → Cell → Cell) : Arr Cell → Arr Cell → Arr Cell
  | .leaf a, .leaf b => .leaf (g a b)
  | .node xs, .node ys => .node (zipCellsL g xs ys)
  | a, _ => a
def zipCellsL (g : Cell → Cell → Cell) : List (Arr Cell) → List (Arr Cell) → List (Arr Cell)
  | x :: xs, y :: ys => zipCells g x y :: zipCellsL g xs ys
  | _, _ => []
end

/-- numpy stretches the right operand along axes of length one (a one-step or one-layer file against a full one); the
result of `pncbo` must keep the left shape, so only the right operand may be the short one -/
def bcastOk : List Nat → List Nat → Bool
  | [], [] => true
  | a :: as, b :: bs => (a == b || b == 1) && bcastOk as bs
  | _, _ => false

/-- the right operand stretched to the left shape `sv` (its own shape is `sw`) -/
def bcast (sv sw : List Nat) (a : Arr Cell) : Arr Cell :=
  Arr.build sv (fun idx => (Arr.get a (List.zipWith (fun i n => if n == 1 then 0 else i) idx sw)).getD none)

/-- the cells of the right operand as `pncbo` combines them with the left ones -/
def rightData (f1 f2 : File) (v w : Var) : Arr Cell :=
  if f1.shapeOf v == f2.shapeOf w then w.data else bcast (f1.shapeOf v) (f2.shapeOf w) w.data

/-- one variable of `f1 <op> f2` -/
def binopVar (op : Op) (f1 f2 : File) (coords : List String) (v : Var) : Var :=
  if coords.contains v.name then v else
  match f2.var? v.name with
  | none => v
  | some w =>
    let attrs := if v.attrs.contains "units" then v.attrs else v.attrs ++ ["units"]
    let attrs := if attrs.contains "fill_value" then attrs else attrs ++ ["fill_value"]
    { v with data := zipCells (fun a b => op.cell (v.isInt && w.isInt) a b (v.masked || w.masked)) v.data (rightData f1 f2 v w),
             attrs := attrs, masked := true }

/-- `f1 <op> f2` (pncbo): coordinate variables and variables missing on the right are copied from
the left operand; a right operand that can be stretched to the left shape is -/
def binopFile (op : Op) (f1 f2 : File) (coords : List String) : Except String File :=
  if f1.vars.any (fun v => !coords.contains v.name && match f2.var? v.name with
      | some w => f1.shapeOf v != f2.shapeOf w && !bcastOk (f1.shapeOf v) (f2.shapeOf w)
      | none => false) then .error "ValueError"
  else .ok { f1 with vars := f1.vars.map (binopVar op f1 f2 coords) }

/-- predicates of `mask()` (applied in the documented order; all are unions) -/
structure MaskSpec where
  whereDims : Option (List String)     -- dims of the `where` array (None: no where)
  whereBits : Arr Cell                 -- 1 = mask, 2 = the condition itself is masked there, as cells
  greater : Option Rat
  greaterEq : Option Rat
  less : Option Rat
  lessEq : Option Rat
  equal : Option Rat

/-- does an unmasked value satisfy one of the predicates (or the `where` bit)? -/
def maskHit (m : MaskSpec) (w : Cell) (x : Rat) : Bool :=
  (w == some 1) || (w == some 2)       -- the `where` cell is true, or is itself a masked cell (numpy.ma.masked_where)
    || (match m.greater with | some g => decide (x > g) | none => false)
    || (match m.greaterEq with | some g => decide (x ≥ g) | none => false)
    || (match m.less with | some g => decide (x < g) | none => false)
    || (match m.lessEq with | some g => decide (x ≤ g) | none => false)
    || (match m.equal with | some g => decide (g = x) | none => false)

def maskCell (m : MaskSpec) (w : Cell) (c : Cell) : Cell :=
  match c with
  | none => none
  | some x => if maskHit m w x then none else some x

def maskFile (f : File) (m : MaskSpec) (coords : List String) (maskCoords : Bool) : File :=
  { f with vars := f.vars.map (fun v =>
      let attrs := if v.attrs.contains "fill_value" then v.attrs else v.attrs ++ ["fill_value"]
      if coords.contains v.name ∧ !maskCoords then { v with attrs := attrs, masked := true } else
      let useWhere := m.whereDims == some v.dims
      let d := if useWhere then zipCells (fun c w => maskCell m w c) v.data m.whereBits
               else Arr.mapCells (maskCell m none) v.data
      { v with data := d, attrs := attrs, masked := true }) }

/-- expressions of `eval` (the grammar the check generates) -/
inductive Expr where
  | var (n : String)
  | lit (q : Rat)
  | bin (op : Op) (a b : Expr)
  | neg (a : Expr)
  | mlt (a : Expr) (c : Rat)       -- np.ma.masked_less(a, c)
  | minv (a : Expr)                -- np.ma.masked_invalid(a)
deriving Repr

def Expr.firstVar : Expr → Option String
  | .var n => some n
  | .lit _ => none
  | .bin _ a b => match a.firstVar with | some n => some n | none => b.firstVar
  | .neg a => a.firstVar
  | .mlt a _ => a.firstVar
  | .minv a => a.firstVar

def constLike : Arr Cell → Rat → Arr Cell := fun a q => Arr.mapCells (fun _ => some q) a

/-- value of an expression over the file's variables (all of one shape) -/
def Expr.eval (f : File) (shapeOf : Arr Cell) : Expr → Option (Arr Cell)
  | .var n => (f.var? n).map (·.data)
  | .lit q => some (constLike shapeOf q)
  | .neg a => (a.eval f shapeOf).map (Arr.mapCells (fun c => c.map (fun x => -x)))
  | .mlt a q => (a.eval f shapeOf).map (Arr.mapCells (fun c => match c with
      | some x => if x < q then none else some x
      | none => none))
  | .minv a => a.eval f shapeOf      -- non-finite cells are already `none` in this model
  | .bin op a b => match a.eval f shapeOf, b.eval f shapeOf with
    | some x, some y => some (zipCells (fun a b => op.cell false a b) x y)
    | _, _ => none

/-! ### what a name of an expression means (`eval`, `pncexpr`)

`PseudoNetCDFFile.eval` (core/_files.py) and `pncexpr` (core/_functions.py) run the user's expression with `exec` in a
dictionary that they fill in several steps: the file's variables, helper functions, `from scipy.constants import *`,
modules, the file's global attributes.  The dictionary is an association list with python's `d[k] = v` semantics; the
order of the steps is the code's.  `Expr.evalIn` evaluates an expression by looking names up in such a namespace;
PncProofs/C06.lean (with PncProofs/NamesLemmas.lean) proves that it is `Expr.eval` on the file's variables. -/

/-- what a name is bound to -/
inductive Bound where
  | fileVar (v : Var)        -- one of the file's variables
  | other (what : String)    -- a helper function, a physical constant, a module, a global attribute
deriving Repr

abbrev Env := List (String × Bound)

def Env.get : Env → String → Option Bound
  | [], _ => none
  | p :: e, k => if p.1 == k then some p.2 else Env.get e k

/-- `d[k] = b`: an existing key keeps its place and takes the new value, a new key goes last -/
def Env.set : Env → String → Bound → Env
  | [], k, b => [(k, b)]
  | p :: e, k, b => if p.1 == k then (k, b) :: e else p :: Env.set e k b

/-- `d.update(bs)` / a loop of assignments -/
def Env.update (e : Env) (bs : List (String × Bound)) : Env := bs.foldl (fun e p => e.set p.1 p.2) e

/-- `for k in ks: if k not in d: d[k] = ...` -/
def Env.fill (e : Env) (bs : List (String × Bound)) : Env :=
  bs.foldl (fun e p => if (e.get p.1).isSome then e else e.set p.1 p.2) e

def fileBinds (f : File) : List (String × Bound) := f.vars.map (fun v => (v.name, Bound.fileVar v))

def others (tag : String) (ns : List String) : List (String × Bound) := ns.map (fun n => (n, Bound.other tag))

/-- what one binding statement does to the namespace -/
def nsStep (f : File) (helpers consts : List String) (e : Env) : NsStep → Env
  | .fileVars => e.update (fileBinds f)
  | .helpers => e.update (others "helper" helpers)
  | .consts => e.update (others "const" consts)
  | .fillAttrs => e.fill (others "attr" f.attrs)
  | .attrs => e.update (others "attr" f.attrs)
  | .set n => e.set n (.other "module")
  | .copyTargets => e
  | .unknown _ => e

/-- the names a list of statements binds to modules and the like (`vardict['np'] = np`) -/
def reservedOf : List NsStep → List String
  | [] => []
  | .set n :: rest => n :: reservedOf rest
  | _ :: rest => reservedOf rest

/-- names `pncexpr` binds to modules / the input file after everything else -/
def pncexprReserved : List String := reservedOf Generated.pncexprSteps

/-- names `eval` binds after the variables and attributes -/
def evalReserved : List String := reservedOf Generated.evalSteps

/-- the namespace of `pncexpr(expr, ifile)`: the statements of the function, in the order the translator finds them in
the source (`Generated.pncexprSteps`): helper functions, scipy's constants, then the file's variables (a variable named like
a constant is the file's variable), the reserved names, and the global attributes whose names are still free -/
def pncexprEnv (f : File) (helpers consts : List String) : Env :=
  Generated.pncexprSteps.foldl (nsStep f helpers consts) []

/-- the namespace of `f.eval(expr)` (`Generated.evalSteps`): the variables, the attributes whose names are free, then the
reserved names -/
def evalEnv (f : File) : Env := Generated.evalSteps.foldl (nsStep f [] []) []

/-- value of an expression, names looked up in a namespace; a name bound to something that is not a variable of the file
has no cell-wise value in this model -/
def Expr.evalIn (env : Env) (shapeOf : Arr Cell) : Expr → Option (Arr Cell)
  | .var n => match env.get n with
    | some (.fileVar v) => some v.data
    | _ => none
  | .lit q => some (constLike shapeOf q)
  | .neg a => (a.evalIn env shapeOf).map (Arr.mapCells (fun c => c.map (fun x => -x)))
  | .mlt a q => (a.evalIn env shapeOf).map (Arr.mapCells (fun c => match c with
      | some x => if x < q then none else some x
      | none => none))
  | .minv a => a.evalIn env shapeOf
  | .bin op a b => match a.evalIn env shapeOf, b.evalIn env shapeOf with
    | some x, some y => some (zipCells (fun a b => op.cell false a b) x y)
    | _, _ => none

/-- the variable a name means, if it means one -/
def boundVar (env : Env) (n : String) : Option Var :=
  match env.get n with
  | some (.fileVar v) => some v
  | _ => none

def Expr.vars : Expr → List String
  | .var n => [n]
  | .lit _ => []
  | .neg a => a.vars
  | .mlt a _ => a.vars
  | .minv a => a.vars
  | .bin _ a b => a.vars ++ b.vars

/-- the attributes of a variable made by `eval`: those of the first variable of the expression plus `expression` -/
def evalAttrs (tv : Var) : List String := if tv.attrs.contains "expression" then tv.attrs else tv.attrs ++ ["expression"]

/-- `f.eval('target = expr', inplace=True)` and `pncexpr('target = expr', f)`: every variable stays, a variable already
called `target` is replaced, the new variable goes last -/
def evalInto (env : Env) (f : File) (target : String) (e : Expr) : Except String File :=
  match e.firstVar.bind (boundVar env) with
  | none => .error "novar"
  | some tv =>
    match e.evalIn env tv.data with
    | none => .error "KeyError"
    | some dat => .ok { f with vars := f.vars.filter (fun v => v.name != target) ++
        [{ tv with name := target, data := dat, attrs := evalAttrs tv, isInt := false }] }

/-- `f.eval('target = expr')` (a new file): the declared coordinate variables and the new variable -/
def evalNew (env : Env) (f : File) (coords : List String) (target : String) (e : Expr) : Except String File :=
  match e.firstVar.bind (boundVar env) with
  | none => .error "novar"
  | some tv =>
    match e.evalIn env tv.data with
    | none => .error "KeyError"
    | some dat => .ok { f with vars := f.vars.filter (fun v => coords.contains v.name && v.name != target) ++
        [{ tv with name := target, data := dat, attrs := evalAttrs tv }] }

/-- `f.variables[n] = f.variables[n] + q`: the variable replaced under its name by one derived from it -/
def bumpVar (f : File) (n : String) (q : Rat) : File :=
  { f with vars := f.vars.map (fun v => if v.name == n then
      { v with data := Arr.mapCells (fun c => c.map (fun x => x + q)) v.data } else v) }

/-! ### the remaining structural operations (C01) -/

def cellAt (a : Arr Cell) (idx : List Nat) : Cell := (Arr.get a idx).getD none

def File.names (f : File) : List String := f.vars.map (·.name)

/-- the distinct entries of a list, each at its first place (assigning twice under one dictionary key keeps one entry) -/
def uniq : List String → List String
  | [] => []
  | a :: l => a :: (uniq l).filter (· != a)

/-- `subsetVariables(varkeys, exclude)` (no coordinate variables declared); a key named twice is copied twice under the
same key -/
def subsetFile (f : File) (keys : List String) (exclude : Bool) : Except String File :=
  let keys' := if exclude then f.names.filter (fun k => !keys.contains k) else keys
  if keys'.any (fun k => (f.var? k).isNone) then .error "KeyError"
  else .ok { f with vars := (uniq keys').filterMap f.var? }

/-- `renameVariables(old=new)` : the renamed variable goes last; a variable already called `new` is
replaced; renaming a variable to its own name deletes it (copy under the same key, then delete) -/
def renameVarFile (f : File) (old new : String) : Except String File :=
  match f.var? old with
  | none => .error "KeyError"
  | some v =>
    let rest := f.vars.filter (fun w => w.name != old && w.name != new)
    let placed := if old == new then f.vars.filter (·.name != old) else
      -- copyVariable assigns under `new` (position of an existing `new`, else appended), then deletes `old`
      if (f.var? new).isSome then (f.vars.filter (·.name != old)).map (fun w => if w.name == new then { v with name := new } else w)
      else rest ++ [{ v with name := new }]
    .ok { f with vars := placed }

/-- `renameDimensions(old=new)` for a new name that is not yet a dimension -/
def renameDimFile (f : File) (old new : String) : Except String File :=
  if old == new then .ok f else
  if (f.dim? old).isNone then .error "KeyError" else
  if (f.dim? new).isSome then .error "ValueError" else
  .ok { f with
    dims := if old == new then f.dims else (f.dims.filter (·.name != old)) ++ ((f.dim? old).map (fun d => { d with name := new })).toList,
    vars := f.vars.map (fun v => { v with dims := v.dims.map (fun k => if k == old then new else k) }) }

/-- new name of a dimension under a multi-rename (pairs old ↦ new) -/
def renameKey (ps : List (String × String)) (k : String) : String := (ps.lookup k).getD k

/-- the renamed dimension objects, in the order of the keyword arguments -/
def renamedDims (f : File) (ps : List (String × String)) : List Dim :=
  ps.filterMap (fun p => (f.dim? p.1).map (fun d => { d with name := p.2 }))

/-- `renameDimensions(**newkeys)`: identity pairs are dropped; two dimensions cannot take the same name (repaired),
a new name cannot be an existing dimension (ValueError), an old one must exist (KeyError); the renamed dimensions
move to the end in keyword order.  Python keyword arguments have distinct old names. -/
def renameDimsFile (f : File) (pairs : List (String × String)) : Except String File :=
  let ps := pairs.filter (fun p => p.1 != p.2)
  if !(ps.map (·.2)).Nodup then .error "ValueError" else
  if ps.any (fun p => (f.dim? p.2).isSome) then .error "ValueError" else
  if ps.any (fun p => (f.dim? p.1).isNone) then .error "KeyError" else
  .ok { f with
    dims := f.dims.filter (fun d => !(ps.map (·.1)).contains d.name) ++ renamedDims f ps,
    vars := f.vars.map (fun v => { v with dims := v.dims.map (renameKey ps) }) }

/-- `removeSingleton(dimkey)` -/
def removeSingletonFile (f : File) (dimkey : Option String) : File :=
  let removed := (f.dims.filter (fun d => d.len == 1 && (dimkey.isNone || dimkey == some d.name))).map (·.name)
  { f with
    dims := f.dims.filter (fun d => !removed.contains d.name),
    vars := f.vars.map (fun v =>
      let keepPos := (List.range v.dims.length).filter (fun i => !removed.contains (v.dims.getD i ""))
      let newdims := keepPos.map (fun i => v.dims.getD i "")
      let sh := newdims.map f.dimLen
      let old (idx : List Nat) : List Nat :=
        (List.range v.dims.length).map (fun i => match keepPos.idxOf? i with | some j => idx.getD j 0 | none => 0)
      { v with dims := newdims, data := Arr.build sh (fun idx => cellAt v.data (old idx)) }) }

/-- `insertDimension(**{name: len}, newonly, multionly, before, after)` for one new dimension -/
def insertDimFile (f : File) (name : String) (len : Nat) (newonly multionly : Bool)
    (before after : Option String) : File :=
  let dims' := if (f.dim? name).isSome then f.dims else f.dims ++ [⟨name, len, false⟩]
  let L := if (f.dim? name).isSome then f.dimLen name else len
  { f with
    dims := dims',
    vars := f.vars.map (fun v =>
      if (newonly ∧ v.dims.contains name) ∨ (multionly ∧ v.dims.length == 1) then v else
      let bi? : Option Nat :=
        match before, after with
        | some b, _ => if v.dims.contains b then some (v.dims.idxOf b) else
            (match after with
              | some a => if v.dims.contains a then some (v.dims.idxOf a + 1) else none
              | none => none)
        | none, some a => if v.dims.contains a then some (v.dims.idxOf a + 1) else none
        | none, none => some 0
      match bi? with
      | none => v
      | some bi =>
        let newdims := v.dims.take bi ++ [name] ++ v.dims.drop bi
        let sh := newdims.map (fun k => if k == name then L else f.dimLen k)
        { v with dims := newdims, data := Arr.build sh (fun idx => cellAt v.data (idx.eraseIdx bi)) }) }

/-- `reorderDimensions(oldorder, neworder)` -/
def reorderFile (f : File) (neworder : List String) : Except String File :=
  let bad := f.vars.any (fun v =>
    let vno := neworder.filter (fun k => v.dims.contains k)
    !vno.isEmpty && vno.length != v.dims.length)
  if bad then .error "AssertionError" else
  .ok { f with vars := f.vars.map (fun v =>
    let vno := neworder.filter (fun k => v.dims.contains k)
    if vno.isEmpty then v else
    let sh := vno.map f.dimLen
    -- old axis j holds dimension v.dims[j], which is at position (vno.idxOf v.dims[j]) of the new order
    let old (idx : List Nat) : List Nat := v.dims.map (fun k => idx.getD (vno.idxOf k) 0)
    { v with dims := vno, data := Arr.build sh (fun idx => cellAt v.data (old idx)) }) }

/-! ### wire format -/
open Wire

def parseDim (s : String) : Option Dim :=
  match s.splitOn ":" with
  | [n, l, u] => (parseNat l).map (fun k => ⟨n, k, u == "u"⟩)
  | _ => none

def parseCell (s : String) : Option Cell :=
  if s = "_" then some none else (parseRat s).map some

def showCell : Cell → String
  | none => "_"
  | some q => showRat q

def parseNames (s : String) : List String := if s = "-" then [] else s.splitOn "."
def showNames (l : List String) : String := if l.isEmpty then "-" else ".".intercalate l

/-- `name|dim.dim|m or p|attr.attr|cells` -/
def parseVar (dims : List Dim) (s : String) : Option Var :=
  match s.splitOn "|" with
  | [n, ds, fl, ats, cells] =>
    let dn := parseNames ds
    let shape := dn.map (fun k => ((dims.find? (·.name == k)).map (·.len)).getD 0)
    match parseList parseCell cells with
    | some cs => some ⟨n, dn, unflatten none shape cs, parseNames ats, fl.contains 'm', fl.contains 'i'⟩
    | none => none
  | _ => none

def parseFile (d v a : String) : Option File :=
  match parseList parseDim d with
  | some ds =>
    let vs := if v = "-" then some [] else (v.splitOn ";").mapM (parseVar ds)
    vs.map (fun vs => ⟨ds, vs, parseNames a⟩)
  | none => none

def sortBy (key : β → String) (l : List β) : List β :=
  (l.toArray.qsort (fun a b => key a < key b)).toList

def showVar (f : File) (v : Var) : String :=
  let shape := f.shapeOf v
  let sh := if shape.isEmpty then "-" else "x".intercalate (shape.map toString)
  s!"{v.name}|{showNames v.dims}|{if (flatten v.data).any (·.isNone) then "m" else "p"}|{showNames (sortBy id v.attrs)}|{sh}|{showList showCell (flatten v.data)}"

def showFile (f : File) : String :=
  let ds := showList (fun (d : Dim) => s!"{d.name}:{d.len}:{if d.unlim then "u" else "f"}") (sortBy (·.name) f.dims)
  let vs := if f.vars.isEmpty then "-" else ";".intercalate ((sortBy (·.name) f.vars).map (showVar f))
  s!"dims={ds} vars={vs} attrs={showNames (sortBy id f.attrs)}"

def parsePSel (s : String) : Option PSel :=
  if s.startsWith "i" then (parseInt (s.drop 1).toString).map .int
  else if s.startsWith "s" then
    match (s.drop 1).toString.splitOn ":" with
    | [a, b, c] => match parseOpt parseInt a, parseOpt parseInt b, parseInt c with
      | some a, some b, some c => some (.slice a b c)
      | _, _, _ => none
    | _ => none
  else if s.startsWith "l" then (parseList parseInt (s.drop 1).toString).map .list
  else none

/-- `dim=sel` pairs separated by `;` -/
def parseSels (s : String) : Option (List (String × PSel)) :=
  if s = "-" then some [] else
  (s.splitOn ";").mapM (fun t => match t.splitOn "=" with
    | [k, v] => (parsePSel v).map (fun p => (k, p))
    | _ => none)

def showRes : Except String File → String
  | .ok f => "ok " ++ showFile f
  | .error e => "err " ++ e

def runC02 : List String → String
  | ["slice", d, v, a, sels, newdim] =>
    match parseFile d v a, parseSels sels with
    | some f, some ss => showRes (sliceFile f ss newdim)
    | _, _ => "err parse"
  | _ => "err bad-op"

def parseFn : String → Option Fn
  | "mean" => some .mean | "sum" => some .sum | "min" => some .min | "max" => some .max | "var" => some .var
  | "diff" => some .diff | "sub2" => some .sub2 | "cumsum" => some .cumsum | "rev" => some .rev
  | "conv2" => some .conv2 | _ => none

def parseFns (s : String) : Option (List (String × Fn)) :=
  if s = "-" then some [] else
  (s.splitOn ";").mapM (fun t => match t.splitOn "=" with
    | [k, v] => (parseFn v).map (fun p => (k, p))
    | _ => none)

def runC03 : List String → String
  | ["apply", d, v, a, fns] =>
    match parseFile d v a, parseFns fns with
    | some f, some ff => showRes (applyFile f ff)
    | _, _ => "err parse"
  | _ => "err bad-op"

/-- several files: `n d1 v1 a1 d2 v2 a2 … stackdim` -/
def parseFiles : Nat → List String → Option (List File × List String)
  | 0, rest => some ([], rest)
  | n + 1, d :: v :: a :: rest =>
    match parseFile d v a, parseFiles n rest with
    | some f, some (fs, r) => some (f :: fs, r)
    | _, _ => none
  | _, _ => none

def runC04 : List String → String
  | "stack" :: n :: rest =>
    match parseNat n with
    | some k => match parseFiles k rest with
      | some (fs, [sd]) => showRes (stackFiles fs sd)
      | _ => "err parse"
    | none => "err parse"
  | _ => "err bad-op"

def parseOp : String → Option Op
  | "add" => some .add | "sub" => some .sub | "mul" => some .mul | "div" => some .div
  | "floordiv" => some .floordiv | "pow" => some .pow | "mod" => some .mod | "lt" => some .lt
  | "le" => some .le | "gt" => some .gt | "ge" => some .ge | "eq" => some .eq | "ne" => some .ne
  | _ => none

/-- prefix expression: `bin,<op>,<e>,<e>` | `neg,<e>` | `var,<name>` | `lit,<rat>` -/
def parseExpr : Nat → List String → Option (Expr × List String)
  | 0, _ => none
  | _ + 1, "var" :: n :: rest => some (.var n, rest)
  | _ + 1, "lit" :: q :: rest => (parseRat q).map (fun r => (.lit r, rest))
  | fuel + 1, "neg" :: rest => (parseExpr fuel rest).map (fun (e, r) => (.neg e, r))
  | fuel + 1, "minv" :: rest => (parseExpr fuel rest).map (fun (e, r) => (.minv e, r))
  | fuel + 1, "mlt" :: q :: rest => match parseRat q with
    | some c => (parseExpr fuel rest).map (fun (e, r) => (.mlt e c, r))
    | none => none
  | fuel + 1, "bin" :: o :: rest =>
    match parseOp o, parseExpr fuel rest with
    | some op, some (a, r1) => (parseExpr fuel r1).map (fun (b, r2) => (.bin op a b, r2))
    | _, _ => none
  | _, _ => none

/-- the steps of a chain: `bin@op` with the next file of the list, `mask@greater@q` / `mask@less@q` -/
def runChain (coords : List String) : List File → File → List String → Except String File
  | _, f, [] => .ok f
  | others, f, tok :: rest =>
    match tok.splitOn "@", others with
    | ["bin", o], g :: more => match parseOp o with
      | some op => do let r ← binopFile op f g coords; runChain coords more r rest
      | none => .error "parse"
    | ["mask", "greater", q], _ :: more => match parseRat q with
      | some x => runChain coords more (maskFile f ⟨none, Arr.leaf none, some x, none, none, none, none⟩ coords false) rest
      | none => .error "parse"
    | ["mask", "less", q], _ :: more => match parseRat q with
      | some x => runChain coords more (maskFile f ⟨none, Arr.leaf none, none, none, some x, none, none⟩ coords false) rest
      | none => .error "parse"
    | _, _ => .error "bad-op"

def runC06 : List String → String
  | ["binop", op, coords, d1, v1, a1, d2, v2, a2] =>
    match parseOp op, parseFile d1 v1 a1, parseFile d2 v2 a2 with
    | some o, some f1, some f2 => showRes (binopFile o f1 f2 (parseNames coords))
    | _, _, _ => "err parse"
  | ["mask", coords, mc, d, v, a, wd, wc, g, ge, l, le, e] =>
    match parseFile d v a, parseOpt parseRat g, parseOpt parseRat ge, parseOpt parseRat l, parseOpt parseRat le,
        parseOpt parseRat e, parseList parseCell wc with
    | some f, some g, some ge, some l, some le, some e, some wcs =>
      let wdims := if wd = "_" then none else some (parseNames wd)
      let shape := match wdims with | some ds => ds.map f.dimLen | none => []
      let m : MaskSpec := ⟨wdims, unflatten none shape wcs, g, ge, l, le, e⟩
      showRes (.ok (maskFile f m (parseNames coords) (mc == "1")))
    | _, _, _, _, _, _, _ => "err parse"
  | ["eval", target, expr, _coords, d, v, a, ip] =>
    -- `eval(..., inplace=True)`
    match parseFile d v a, parseExpr 64 (expr.splitOn ",") with
    | some f, some (e, []) => if ip == "1" then showRes (evalInto (evalEnv f) f target e) else "err bad-op"
    | _, _ => "err parse"
  | ["eval", target, expr, coords, d, v, a] =>
    match parseFile d v a, parseExpr 64 (expr.splitOn ",") with
    | some f, some (e, []) => showRes (evalNew (evalEnv f) f (parseNames coords) target e)
    | _, _ => "err parse"
  | ["pncexpr", target, expr, _coords, d, v, a, hs, cs] =>
    -- `pncexpr(expr, ifile)`: the result is added to a wrapper around the whole file; `hs` / `cs`: the helper functions
    -- and physical constants that exist under names of the file
    match parseFile d v a, parseExpr 64 (expr.splitOn ",") with
    | some f, some (e, []) => showRes (evalInto (pncexprEnv f (parseNames hs) (parseNames cs)) f target e)
    | _, _ => "err parse"
  | ["twice", how, n, d, v, a] =>
    -- two `eval` calls on one file object; in between the variable is replaced under its name (by the first call itself
    -- when both assign to it, by `f.variables[n] = f.variables[n] + 1` otherwise)
    match parseFile d v a with
    | some f =>
      let e : Expr := .bin .mul (.var n) (.lit 2)
      if how == "inplace" then
        showRes (do let g ← evalInto (evalEnv f) f n e; evalInto (evalEnv g) g n e)
      else
        showRes (do
          let g ← evalInto (evalEnv f) f "FIRST" e
          let h := bumpVar g n 1
          evalInto (evalEnv h) h "SECOND" e)
    | none => "err parse"
  | "chain" :: coords :: d0 :: v0 :: a0 :: d1 :: v1 :: a1 :: d2 :: v2 :: a2 :: steps =>
    -- two operations in a row: arithmetic with the second / third file, `mask(greater=..)` / `mask(less=..)`
    match parseFile d0 v0 a0, parseFile d1 v1 a1, parseFile d2 v2 a2 with
    | some f0, some f1, some f2 => showRes (runChain (parseNames coords) [f1, f2] f0 steps)
    | _, _, _ => "err parse"
  | _ => "err bad-op"

/-- one operation of a C01 sequence, parsed -/
inductive SOp where
  | copy
  | slice (sels : List (String × PSel)) (newdim : String)
  | apply (fns : List (String × Fn))
  | subset (keys : List String) (exclude : Bool)
  | renameVar (old new : String)
  | renameDim (old new : String)
  | renameDims (pairs : List (String × String))
  | removeSingleton (dimkey : Option String)
  | insertDim (name : String) (len : Nat) (newonly multionly : Bool) (before after : Option String)
  | reorder (neworder : List String)
  | stackSelf (sd : String)
  | binopSelf (op : Op)
  | maskGt (q : Rat)
  | eval (target : String) (e : Expr)

def parseSOp (tok : String) : Except String SOp :=
  match tok.splitOn "@" with
  | ["copy"] => .ok .copy
  | ["slice", sels, nd] => match parseSels sels with
    | some ss => .ok (.slice ss nd)
    | none => .error "parse"
  | ["apply", fns] => match parseFns fns with
    | some ff => .ok (.apply ff)
    | none => .error "parse"
  | ["subset", names, ex] => .ok (.subset (parseNames names) (ex == "1"))
  | ["renamevar", o, n] => .ok (.renameVar o n)
  | ["renamedim", o, n] => .ok (.renameDim o n)
  | ["renamedims", ps] => .ok (.renameDims ((ps.splitOn ";").filterMap (fun t => match t.splitOn "=" with
      | [a, b] => some (a, b)
      | _ => none)))
  | ["removesingleton", d] => .ok (.removeSingleton (if d = "_" then none else some d))
  | ["insertdim", name, len, no, mo, b, a] => match parseNat len with
    | some l => .ok (.insertDim name l (no == "1") (mo == "1")
        (if b = "_" then none else some b) (if a = "_" then none else some a))
    | none => .error "parse"
  | ["reorder", names] => .ok (.reorder (parseNames names))
  | ["stackself", d] => .ok (.stackSelf d)
  | ["binopself", op] => match parseOp op with
    | some o => .ok (.binopSelf o)
    | none => .error "parse"
  | ["maskgt", q] => match parseRat q with
    | some g => .ok (.maskGt g)
    | none => .error "parse"
  | ["eval", target, expr] => match parseExpr 64 (expr.splitOn ",") with
    | some (e, []) => .ok (.eval target e)
    | _ => .error "parse"
  | _ => .error "bad-op"

/-- what an operation does to a file -/
def SOp.run (f : File) : SOp → Except String File
  | .copy => .ok f
  | .slice ss nd => sliceFile f ss nd
  | .apply fns => applyFile f fns
  | .subset keys ex => subsetFile f keys ex
  | .renameVar o n => renameVarFile f o n
  | .renameDim o n => renameDimFile f o n
  | .renameDims ps => renameDimsFile f ps
  | .removeSingleton d => .ok (removeSingletonFile f d)
  | .insertDim name l no mo b a => .ok (insertDimFile f name l no mo b a)
  | .reorder names => reorderFile f names
  | .stackSelf d => stackFiles [f, f] d
  | .binopSelf o => binopFile o f f []
  | .maskGt g => .ok (maskFile f ⟨none, Arr.leaf none, some g, none, none, none, none⟩ [] false)
  | .eval t e => evalInto (evalEnv f) f t e

/-- one operation of a C01 sequence, as the check writes it -/
def runOp (f : File) (tok : String) : Except String File :=
  match parseSOp tok with
  | .ok o => o.run f
  | .error e => .error e

/-- the files a sequence of operations goes through (it stops at the first operation that raises) -/
def states (f : File) : List SOp → List File
  | [] => []
  | o :: rest => match o.run f with
    | .ok g => g :: states g rest
    | .error _ => []

/-- run a sequence, printing every intermediate state; stops at the first error -/
def runSeq (f : File) : List String → List String
  | [] => []
  | tok :: rest => match runOp f tok with
    | .ok g => ("ok " ++ showFile g) :: runSeq g rest
    | .error e => ["err " ++ e]

def runC01 : List String → String
  | "run" :: d :: v :: a :: ops =>
    match parseFile d v a with
    | some f => " || ".intercalate (runSeq f ops)
    | none => "err parse"
  | _ => "err bad-op"

end PFile
