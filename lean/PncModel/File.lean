import PncModel.Arr
/-
File: the netCDF-like file model (dimensions, variables with nested data, attribute names) and the
structural operations of `PseudoNetCDFFile` (core/_files.py) — properties C01–C06.
-/
namespace PFile
open Arr PySlice

abbrev Cell := Option Rat          -- none = masked

structure Dim where
  name : String
  len : Nat
  unlim : Bool
deriving Repr, BEq

structure Var where
  name : String
  dims : List String
  data : Arr Cell
  attrs : List String        -- attribute names (values are carried opaquely by the real code)
  masked : Bool              -- masked-array variable?
deriving Repr

structure File where
  dims : List Dim
  vars : List Var
  attrs : List String
deriving Repr

def File.dim? (f : File) (k : String) : Option Dim := f.dims.find? (·.name == k)
def File.var? (f : File) (k : String) : Option Var := f.vars.find? (·.name == k)
def File.dimLen (f : File) (k : String) : Nat := ((f.dim? k).map (·.len)).getD 0
def File.shapeOf (f : File) (v : Var) : List Nat := v.dims.map f.dimLen

/-- a Python selector -/
inductive PSel where
  | int (i : Int)
  | slice (start stop : Option Int) (step : Int)
  | list (l : List Int)
deriving Repr

def PSel.isList : PSel → Bool
  | .list _ => true
  | _ => false

/-- index list selected on an axis of length `n` (IndexError → none) -/
def PSel.indices (n : Nat) : PSel → Option (List Nat)
  | .int i => (normInt n i).map (fun k => [k])
  | .slice a b st => some (sliceIndices n a b st)
  | .list l => l.mapM (normInt n)

def lookupSel (sels : List (String × PSel)) (k : String) : Option PSel :=
  (sels.find? (·.1 == k)).map (·.2)

/-- `sliceDimensions(newdims=(newdim,), **sels)` -/
def sliceFile (f : File) (sels : List (String × PSel)) (newdim : String) : Except String File := do
  -- every keyword must name a dimension
  for (k, _) in sels do
    if (f.dim? k).isNone then throw "KeyError"
  -- zero step
  for (_, s) in sels do
    match s with
    | .slice _ _ 0 => throw "ValueError"
    | _ => pure ()
  let nlists := (sels.filter (·.2.isList)).length
  let zipped := nlists ≥ 2
  let listLens := sels.filterMap (fun (_, s) => match s with | .list l => some l.length | _ => none)
  if zipped ∧ !(listLens.all (· == listLens.headD 0)) then throw "ValueError"
  let L := listLens.headD 0
  -- index lists per selected dimension
  let mut idx : List (String × List Nat) := []
  for (k, s) in sels do
    match s.indices (f.dimLen k) with
    | some l => idx := idx ++ [(k, l)]
    | none => throw "IndexError"
  let newLen (d : Dim) : Nat := match idx.find? (·.1 == d.name) with
    | some (_, l) => l.length
    | none => d.len
  let dims' := f.dims.map (fun d => { d with len := newLen d })
  let dims' := if zipped then dims' ++ [⟨newdim, L, false⟩] else dims'
  let selOf (k : String) : Sel :=
    match idx.find? (·.1 == k), lookupSel sels k with
    | some (_, l), some s => if zipped ∧ s.isList then Sel.zip l else Sel.keep l
    | _, _ => Sel.keep (List.range (f.dimLen k))
  let mut vars' : List Var := []
  for v in f.vars do
    let ss := v.dims.map selOf
    let nz := (v.dims.filter (fun k => match lookupSel sels k with | some s => zipped ∧ s.isList | none => false)).length
    if nz ≥ 2 then
      let firstZ := (v.dims.map (fun k => match lookupSel sels k with | some s => zipped && s.isList | none => false)).idxOf true
      let kept := v.dims.filter (fun k => match lookupSel sels k with | some s => !(zipped && s.isList) | none => true)
      let odims := kept.take (firstZ) ++ [newdim] ++ kept.drop firstZ
      match zipSel L ss v.data with
      | some d => vars' := vars' ++ [{ v with dims := odims, data := d }]
      | none => throw "IndexError"
    else
      -- a single zipped-mode list acting alone on this variable is an ordinary orthogonal list
      let ss' := ss.map (fun s => match s with | Sel.zip l => l | Sel.keep l => l)
      vars' := vars' ++ [{ v with data := orth ss' v.data }]
  return { f with dims := dims', vars := vars' }

/-! ### wire format -/
open Wire

def parseDim (s : String) : Option Dim :=
  match s.splitOn ":" with
  | [n, l, u] => (parseNat l).map (fun k => ⟨n, k, u == "u"⟩)
  | _ => none

def parseCell (s : String) : Option Cell :=
  if s = "_" then some none else (parseRat s).map some

def showCell : Cell → String
  | none => "_"
  | some q => showRat q

def parseNames (s : String) : List String := if s = "-" then [] else s.splitOn "."
def showNames (l : List String) : String := if l.isEmpty then "-" else ".".intercalate l

/-- `name|dim.dim|m or p|attr.attr|cells` -/
def parseVar (dims : List Dim) (s : String) : Option Var :=
  match s.splitOn "|" with
  | [n, ds, fl, ats, cells] =>
    let dn := parseNames ds
    let shape := dn.map (fun k => ((dims.find? (·.name == k)).map (·.len)).getD 0)
    match parseList parseCell cells with
    | some cs => some ⟨n, dn, unflatten none shape cs, parseNames ats, fl == "m"⟩
    | none => none
  | _ => none

def parseFile (d v a : String) : Option File :=
  match parseList parseDim d with
  | some ds =>
    let vs := if v = "-" then some [] else (v.splitOn ";").mapM (parseVar ds)
    vs.map (fun vs => ⟨ds, vs, parseNames a⟩)
  | none => none

def sortBy (key : β → String) (l : List β) : List β :=
  (l.toArray.qsort (fun a b => key a < key b)).toList

def showVar (f : File) (v : Var) : String :=
  let shape := f.shapeOf v
  let sh := if shape.isEmpty then "-" else "x".intercalate (shape.map toString)
  s!"{v.name}|{showNames v.dims}|{if (flatten v.data).any (·.isNone) then "m" else "p"}|{showNames (sortBy id v.attrs)}|{sh}|{showList showCell (flatten v.data)}"

def showFile (f : File) : String :=
  let ds := showList (fun (d : Dim) => s!"{d.name}:{d.len}:{if d.unlim then "u" else "f"}") (sortBy (·.name) f.dims)
  let vs := if f.vars.isEmpty then "-" else ";".intercalate ((sortBy (·.name) f.vars).map (showVar f))
  s!"dims={ds} vars={vs} attrs={showNames (sortBy id f.attrs)}"

def parsePSel (s : String) : Option PSel :=
  if s.startsWith "i" then (parseInt (s.drop 1).toString).map .int
  else if s.startsWith "s" then
    match (s.drop 1).toString.splitOn ":" with
    | [a, b, c] => match parseOpt parseInt a, parseOpt parseInt b, parseInt c with
      | some a, some b, some c => some (.slice a b c)
      | _, _, _ => none
    | _ => none
  else if s.startsWith "l" then (parseList parseInt (s.drop 1).toString).map .list
  else none

/-- `dim=sel` pairs separated by `;` -/
def parseSels (s : String) : Option (List (String × PSel)) :=
  if s = "-" then some [] else
  (s.splitOn ";").mapM (fun t => match t.splitOn "=" with
    | [k, v] => (parsePSel v).map (fun p => (k, p))
    | _ => none)

def showRes : Except String File → String
  | .ok f => "ok " ++ showFile f
  | .error e => "err " ++ e

def runC02 : List String → String
  | ["slice", d, v, a, sels, newdim] =>
    match parseFile d v a, parseSels sels with
    | some f, some ss => showRes (sliceFile f ss newdim)
    | _, _ => "err parse"
  | _ => "err bad-op"

end PFile
