import PncModel.Wire
/-
Arl: exact-arithmetic model of `noaafiles/_arl.py` `pack2d` / `unpack` (property C20).

A field is a list of rows (`J`), each row a list of `Rat` (`I`).  `s` is the scale `2^(7-NEXP)`.
The model follows the serial algorithm quoted in the source (which the vectorised code
reproduces): element (J,0) is differenced against the *reconstructed* (J-1,0), element (J,I)
against the reconstructed (J,I-1); `ICVAL = INT(d*s + 127.5)` with `INT` truncating toward zero;
the value stored is `ICVAL mod 256` (numpy's uint8 assignment wraps).
-/
namespace Arl

/-- Fortran/numpy `INT()` : truncation toward zero. -/
def trunc0 (q : Rat) : Int := Int.tdiv q.num q.den

/-- floor, by Euclidean division (denominator is positive). -/
def floorZ (q : Rat) : Int := q.num / q.den

def pow2 (e : Int) : Rat := if e ≥ 0 then (2 : Rat) ^ e.toNat else 1 / (2 : Rat) ^ (-e).toNat

/-- scale used for exponent `nexp` : `2^(7-nexp)` -/
def scaleOf (nexp : Int) : Rat := pow2 (7 - nexp)

/-- one element: packed integer and the value as it will appear unpacked -/
def packElem (s rold x : Rat) : Int × Rat :=
  let ic := trunc0 ((x - rold) * s + 255 / 2)
  (ic, ((ic - 127 : Int) : Rat) / s + rold)

/-- rest of a row, left to right, starting from the reconstruction `rold` of the element before -/
def packRow (s : Rat) : Rat → List Rat → List (Int × Rat)
  | _, [] => []
  | rold, x :: xs =>
    let p := packElem s rold x
    p :: packRow s p.2 xs

/-- all rows; `rcol` is the reconstruction of the first element of the previous row -/
def packRows (s : Rat) : Rat → List (List Rat) → List (List (Int × Rat))
  | _, [] => []
  | rcol, [] :: rest => [] :: packRows s rcol rest
  | rcol, (x :: xs) :: rest =>
    let p := packElem s rcol x
    (p :: packRow s p.2 xs) :: packRows s p.2 rest

/-- VAR1 : first element of the field (0 for an empty field) -/
def var1 : List (List Rat) → Rat
  | (x :: _) :: _ => x
  | _ => 0

/-- packed integers (before byte wrap) with the running reconstruction -/
def pack (s : Rat) (f : List (List Rat)) : List (List (Int × Rat)) := packRows s (var1 f) f

/-- the byte actually stored -/
def toByte (ic : Int) : Int := ic % 256

def bytes (p : List (List (Int × Rat))) : List (List Int) := p.map (·.map (fun e => toByte e.1))

def recon (p : List (List (Int × Rat))) : List (List Rat) := p.map (·.map (·.2))

/-- decoder: cumulative sums of (byte-127)/s along the first column, then along rows -/
def unpackRow (s : Rat) : Rat → List Int → List Rat
  | _, [] => []
  | rold, b :: bs =>
    let v := ((b - 127 : Int) : Rat) / s + rold
    v :: unpackRow s v bs

def unpackRows (s : Rat) : Rat → List (List Int) → List (List Rat)
  | _, [] => []
  | rcol, [] :: rest => [] :: unpackRows s rcol rest
  | rcol, (b :: bs) :: rest =>
    let v := ((b - 127 : Int) : Rat) / s + rcol
    (v :: unpackRow s v bs) :: unpackRows s v rest

def unpack (s v1 : Rat) (b : List (List Int)) : List (List Rat) := unpackRows s v1 b

/-- checksum as the code computes it: byte sum modulo 255 -/
def ksum (b : List (List Int)) : Int := (b.map List.sum).sum % 255

/-- largest neighbour difference in packing order -/
def rowDiffs : Rat → List Rat → List Rat
  | _, [] => []
  | prev, x :: xs => (x - prev) :: rowDiffs x xs

def fieldDiffs : Rat → List (List Rat) → List Rat
  | _, [] => []
  | pcol, [] :: rest => fieldDiffs pcol rest
  | pcol, (x :: xs) :: rest => (x - pcol) :: (rowDiffs x xs ++ fieldDiffs x rest)

def rabs (q : Rat) : Rat := if q < 0 then -q else q

def rmax (f : List (List Rat)) : Rat := (fieldDiffs (var1 f) f).foldl (fun m d => max m (rabs d)) 0

/-- floor(log2 q) for q > 0, by search from a bracket (fuel bounded by the bit sizes) -/
def floorLog2 (q : Rat) : Int :=
  if q ≤ 0 then 0 else
  -- start below: lo = log2(num) - log2(den) - 1 ≤ floor(log2 q)
  let lo : Int := (Nat.log2 q.num.toNat : Int) - (Nat.log2 q.den : Int) - 1
  let rec go (fuel : Nat) (e : Int) : Int :=
    match fuel with
    | 0 => e
    | fuel + 1 => if pow2 (e + 1) ≤ q then go fuel (e + 1) else e
  go 3 lo

/-- exponent rule of `pack2d` in exact arithmetic: `floor(log2 RMAX) + 1`, and 1 for RMAX = 0; never below -120, so that
the scale `2^(7 - NEXP)` is at most `2^127`, a finite float32 (differences below `2^-121` are packed with exponent -120) -/
def nexpOf (r : Rat) : Int := if r = 0 then 1 else max (floorLog2 r + 1) (-120)

/-- exact power of two? (where the code's float32 logarithm may land one below) -/
def isPow2 (q : Rat) : Bool := q > 0 && pow2 (floorLog2 q) == q

/-- did some element hit the negative-truncation region (d*s + 127.5 < 0)? -/
def negTruncRow (s : Rat) : Rat → List Rat → Bool
  | _, [] => false
  | rold, x :: xs =>
    ((x - rold) * s + 255 / 2 < 0) || negTruncRow s (packElem s rold x).2 xs

def negTruncRows (s : Rat) : Rat → List (List Rat) → Bool
  | _, [] => false
  | rcol, [] :: rest => negTruncRows s rcol rest
  | rcol, (x :: xs) :: rest =>
    ((x - rcol) * s + 255 / 2 < 0) || negTruncRow s (packElem s rcol x).2 xs
      || negTruncRows s (packElem s rcol x).2 rest

def negTrunc (s : Rat) (f : List (List Rat)) : Bool := negTruncRows s (var1 f) f

/-- maximal reconstruction error in units of one quantisation step (1/s) -/
def maxErrSteps (s : Rat) (f : List (List Rat)) (u : List (List Rat)) : Rat :=
  let errs := (List.zip f.flatten u.flatten).map (fun (a, b) => rabs (a - b) * s)
  errs.foldl max 0

end Arl

namespace Arl
open Wire

/-- ARL packed-bit files are fixed-length records: a 50-character label and one byte per grid cell; each
time period is an index record followed by one record per (level, variable) -/
def recl (ncell : Nat) : Nat := 50 + ncell

def fileBytes (ncell ntimes nrec : Nat) : Nat := ntimes * ((1 + nrec) * recl ncell)

/-- byte offset of data record `k` (0-based) of time period `t` -/
def recOffset (ncell nrec t k : Nat) : Nat := (t * (1 + nrec) + 1 + k) * recl ncell

/-- line protocol: `pack <nexp> <rows>`, `unpack <nexp> <var1> <byterows>`, `layout <ncell> <ntimes> <nrec>` -/
def run : List String → String
  | ["pack", ne, rows] =>
    match parseInt ne, parseRows parseRat rows with
    | some nexp, some f =>
      if f.isEmpty || f.any (·.length < 2) || f.any (·.length ≠ (f.headD []).length) then "err shape" else
      let s := scaleOf nexp
      let p := pack s f
      let b := bytes p
      let r := rmax f
      let u := unpack s (var1 f) b
      s!"ok bytes={showRows showInt b} var1={showRat (var1 f)} ksum={ksum b} nexp={nexpOf r} given={nexp} pow2={if isPow2 r then 1 else 0} negtrunc={if negTrunc s f then 1 else 0} unpack={showRows showRat u}"
    | _, _ => "err parse"
  | ["unpack", ne, v1, rows] =>
    match parseInt ne, parseRat v1, parseRows parseInt rows with
    | some nexp, some v, some b => s!"ok {showRows showRat (unpack (scaleOf nexp) v b)}"
    | _, _, _ => "err parse"
  | ["layout", ncell, nt, nrec] =>
    match parseNat ncell, parseNat nt, parseNat nrec with
    | some c, some t, some r => s!"ok {fileBytes c t r}"
    | _, _, _ => "err parse"
  | _ => "err bad-op"

end Arl
