/-
NsStep: the kinds of statements that bind names in the dictionary an expression of `eval` / `pncexpr` is executed in.
The lists `Generated.pncexprSteps` / `Generated.evalSteps` (harness/translate.py, regenerated from the source on every run)
are written with these constructors; PncModel/File.lean gives them their meaning.
-/
namespace PFile

inductive NsStep where
  | fileVars                 -- the file's variables, each under its name (`dict(...)`, `.update(filevars)`)
  | helpers                  -- `for fname in dir(userfuncs): vardict[fname] = ...`
  | consts                   -- `exec('from scipy.constants import *', None, vardict)`
  | fillAttrs                -- `for k in ncattrs(): if k not in vardict: vardict[k] = ...`
  | attrs                    -- the same without the guard
  | set (name : String)      -- `vardict['np'] = np`
  | copyTargets              -- variables a statement writes into are rebound to copies of themselves (same name, same data)
  | unknown (what : String)  -- a statement the translator does not know
deriving Repr, DecidableEq

end PFile
