import PncModel.Wire
import PncModel.Cal
/-
TimeDec: model of the time decoding / encoding paths (property C12; used by C11 too):
`PseudoNetCDFFile.getTimes` (core/_files.py), `ioapi_base.updatetflag` (cmaqfiles/_ioapi.py),
`add_time_variable` (conventions/ioapi/_ioapi.py).  Instants are seconds since 0001-01-01T00:00 UTC
(`Rat`, because CF values and interval means may be fractional).
-/
namespace TimeDec
open Cal

/-- TFLAG branch: `-635` dates are replaced by 1970001 -/
def fixDate (d : Int) : Int := if d = -635 then 1970001 else d

def decodeTflag (flags : List (Int × Int)) : List Int :=
  flags.map (fun (d, t) => decJ (fixDate d) t)

/-- TSTEP seconds as the `bounds=True` part of the TFLAG branch reads it (repaired code: as the attribute branch does) -/
def tstepSecondsB (T : Int) : Int := tstepSeconds T

def meanDiff (l : List Rat) : Rat :=
  let d := List.zipWith (· - ·) (l.drop 1) l
  if d.isEmpty then 0 else d.foldl (· + ·) 0 / (d.length : Nat)

/-- TFLAG branch with `bounds`: one more instant, `TSTEP` (or the mean step) after the last -/
def tflagTimes (flags : List (Int × Int)) (bounds : Bool) (tstep : Option Int) : Except String (List Rat) :=
  let out : List Rat := (decodeTflag flags).map (fun (i : Int) => (i : Rat))
  if !bounds then .ok out else
  match tstep with
  | some T => .ok (out ++ [out.getLastD 0 + ((tstepSecondsB T : Int) : Rat)])
  | none =>
    -- the mean of an empty difference list is NaN: datetime + NaN raises
    if out.length < 2 then .error "TypeError" else .ok (out ++ [out.getLastD 0 + meanDiff out])

/-- what `strptime('%07d %06d+0000', '%Y%j %H%M%S%z')` accepts -/
def strptimeOk (d t : Int) : Bool :=
  1000000 ≤ d ∧ d ≤ 9999999 ∧ 1 ≤ d % 1000 ∧ d % 1000 ≤ 366 ∧
  0 ≤ t ∧ t ≤ 999999 ∧ t / 10000 ≤ 23 ∧ t % 10000 / 100 ≤ 59 ∧ t % 100 ≤ 59

/-- SDATE/STIME/TSTEP branch -/
def attrTimes (sdate stime tstep : Int) (n : Nat) (bounds : Bool) : Except String (List Int) :=
  let jd := if sdate < 1 then 1970001 else sdate
  if !strptimeOk jd stime then .error "ValueError" else
  let t0 := decJ jd stime
  let incr := tstepSeconds tstep
  let m := if bounds then n + 1 else n
  .ok ((List.range m).map (fun i => t0 + incr * (i : Nat)))

/-- `updatetflag(overwrite=True)`: flags written for the attribute times -/
def synthFlags (sdate stime tstep : Int) (n : Nat) : Except String (List (Int × Int)) :=
  (attrTimes sdate stime tstep n false).map (·.map encJ)

/-! ### CF "units since reference" -/

structure Ref where
  y : Int
  m : Int
  d : Int
  secOfDay : Int      -- H*3600 + M*60 + S
  utcoff : Int        -- seconds east of UTC
deriving Repr

def Ref.instant (r : Ref) : Int := Cal.instant (ymd2ord r.y r.m r.d) r.secOfDay - r.utcoff

def unitSeconds : String → Option Rat
  | "days" => some 86400 | "hours" => some 3600 | "minutes" => some 60 | "seconds" => some 1
  | "weeks" => some 604800 | "milliseconds" => some (1 / 1000) | "microseconds" => some (1 / 1000000)
  | _ => none

/-- standard / gregorian / proleptic_gregorian: `refdate + timedelta(**{unit: n})` -/
def cfStandard (unit : String) (r : Ref) (vals : List Rat) : Except String (List Rat) :=
  match unitSeconds unit with
  | none => .error "TypeError"
  | some u => .ok (vals.map (fun n => (r.instant : Rat) + n * u))

/-- `bounds=True` without a bounds variable: `append(time - dt/2, time[-1] + dt/2)` -/
def approxBounds (vals : List Rat) : List Rat :=
  let dt := meanDiff vals
  vals.map (· - dt / 2) ++ [vals.getLastD 0 + dt / 2]

def floorR (q : Rat) : Int := q.num / q.den

/-- the fractional-year path for 365/366-day calendars, transcribed as it is (see DESIGN §5:
the time of day is dropped, `seconds` uses minutes per year, the reference time of day is ignored) -/
def cfYearlike (yeardays : Int) (unit : String) (r : Ref) (vals : List Rat) : Except String (List Rat) :=
  let leapLike := yeardays = 366
  let denom? : Option Rat := match unit with
    | "years" => some 1 | "days" => some yeardays | "hours" => some (yeardays * 24)
    | "minutes" => some (yeardays * 24 * 60) | "seconds" => some (yeardays * 24 * 60) | _ => none
  match denom? with
  | none => .error "KeyError"
  | some denom =>
    let addyears : Rat :=
      if r.m ≠ 1 ∨ r.d ≠ 1 then
        -- (crefdate - refcdate) in years of the yearlike calendar
        ((0 : Int) - (dbm leapLike r.m + r.d - 1) : Int) / (yeardays : Rat)
      else 0
    let one (n : Rat) : (Int × Rat) :=
      let frac := n / denom + addyears
      let yi := floorR frac
      (yi, (frac - yi) * yeardays)
    let parts := vals.map one
    -- first attempt: month/day of the yearlike year put into the target year
    let tryOne (p : Int × Rat) : Option Rat :=
      let doy := floorR p.2 + 1
      let (m, d) := doy2md leapLike doy
      let y := r.y + p.1
      if validYmd y m d then some ((Cal.instant (ymd2ord y m d) 0 : Int) : Rat) else none
    let firsts := parts.map tryOne
    if firsts.all (·.isSome) then .ok (firsts.map (·.getD 0))
    else .ok (parts.map (fun p => ((Cal.instant (ymd2ord (r.y + p.1) 1 1) 0 : Int) : Rat) + p.2 * 86400))

/-! ### add_time_variable -/

def epoch1970 : Int := Cal.instant (ymd2ord 1970 1 1) 0

def numDigits : Nat → Nat → Nat
  | 0, _ => 1
  | fuel + 1, n => if n < 10 then 1 else 1 + numDigits fuel (n / 10)

/-- seconds of TSTEP as `add_time_variable` computes them (repaired code: arithmetic split of HHMMSS with as many
hour digits as needed) -/
def tstepSecondsATV (T : Nat) : Nat :=
  3600 * (T / 10000) + 60 * (T / 100 % 100) + T % 100

/-- the slicing of `'%06d' % TSTEP` by character position (`[:2] [2:4] [4:]`) that the code used before the repair;
kept for the counterexample theorem -/
def tstepSecondsSliced (T : Nat) : Nat :=
  if T = 0 then 0 else
  let k := max 6 (numDigits 30 T)
  3600 * (T / 10 ^ (k - 2)) + 60 * (T / 10 ^ (k - 4) % 100) + T % 10 ^ (k - 4)

/-- `time` variable (seconds since 1970) from the flags -/
def atvTimeFromFlags (flags : List (Int × Int)) : List Int :=
  flags.map (fun (d, t) => decJ d t - epoch1970)

/-- `time` variable from SDATE/STIME/TSTEP when there is no TFLAG -/
def atvTimeFromAttrs (sdate stime : Int) (tstep : Nat) (n : Nat) : List Int :=
  let off := decJ sdate stime - epoch1970
  (List.range (max 1 n)).map (fun (i : Nat) => (i : Int) * ((tstepSecondsATV tstep : Nat) : Int) + off)

open Wire

def parseFlags (s : String) : Option (List (Int × Int)) :=
  parseList (fun t => match t.splitOn ":" with
    | [a, b] => match parseInt a, parseInt b with
      | some x, some y => some (x, y) | _, _ => none
    | _ => none) s

def showFlags (l : List (Int × Int)) : String := showList (fun (p : Int × Int) => s!"{p.1}:{p.2}") l

def parseRef (s : String) : Option Ref :=
  match (s.splitOn ",").mapM parseInt with
  | some [y, m, d, sod, off] => some ⟨y, m, d, sod, off⟩
  | _ => none

def showExcept (f : α → String) : Except String α → String
  | .ok a => "ok " ++ f a
  | .error e => "err " ++ e

def run : List String → String
  | ["tflag", flags, b, ts] =>
    match parseFlags flags, parseOpt parseInt ts with
    | some fl, some t => showExcept (showList showRat) (tflagTimes fl (b == "1") t)
    | _, _ => "err parse"
  | ["attrs", sd, st, ts, n, b] =>
    match parseInt sd, parseInt st, parseInt ts, parseNat n with
    | some sd, some st, some ts, some n => showExcept (showList showInt) (attrTimes sd st ts n (b == "1"))
    | _, _, _, _ => "err parse"
  | ["synth", sd, st, ts, n] =>
    match parseInt sd, parseInt st, parseInt ts, parseNat n with
    | some sd, some st, some ts, some n => showExcept showFlags (synthFlags sd st ts n)
    | _, _, _, _ => "err parse"
  | ["cf", unit, cal, ref, vals, bnd] =>
    match parseRef ref, parseList parseRat vals with
    | some r, some v =>
      let v' := if bnd == "approx" then approxBounds v else v
      if cal == "std" then showExcept (showList showRat) (cfStandard unit r v')
      else if cal == "365" then showExcept (showList showRat) (cfYearlike 365 unit r v')
      else if cal == "366" then showExcept (showList showRat) (cfYearlike 366 unit r v')
      else "err cal"
    | _, _ => "err parse"
  | ["atvflags", flags] =>
    match parseFlags flags with
    | some fl => "ok " ++ showList showInt (atvTimeFromFlags fl)
    | none => "err parse"
  | ["atvattrs", sd, st, ts, n] =>
    match parseInt sd, parseInt st, parseNat ts, parseNat n with
    | some sd, some st, some ts, some n => "ok " ++ showList showInt (atvTimeFromAttrs sd st ts n)
    | _, _, _, _ => "err parse"
  | ["enc", t] =>
    match parseInt t with
    | some t => let p := encJ t; s!"ok {p.1}:{p.2}"
    | none => "err parse"
  | _ => "err bad-op"

end TimeDec
