import PncModel.Wire
import PncModel.Cal
import PncModel.TimeDec
import PncModel.Arr
/-
Ioapi: model of the self-describing metadata of IOAPI-convention files and of what every operation of
`ioapi_base` (cmaqfiles/_ioapi.py) does to it (properties C10 and C11).

The state keeps exactly what the two properties talk about: the attributes NVARS, VAR-LIST (as the list
of names; the fixed-width string is 16 characters per name), NROWS/NCOLS/NLAYS, VGLVLS, SDATE/STIME/TSTEP,
XORIG/YORIG/XCELL/YCELL; the lengths of the dimensions TSTEP, LAY, ROW, COL / PERIM and VAR; the names and
dimension tuples of the variables; and TFLAG (its second-axis width and one (date,time) flag per step —
all VAR columns of a TFLAG are equal in every file the library writes).  Variable *data* is not part of
this model: C01–C06 cover it.

The helper methods `_add2Varlist`, `getVarlist(update=True)`, `updatetflag`, `updatemeta` are transcribed
branch by branch; each operation is the sequence of primitive calls the Python code performs
(`_copywith`, `createVariable`/`copyVariable` per variable — each of which calls `_add2Varlist` —, the
operation's own attribute updates, and the closing `updatemeta()`).
-/
namespace Ioapi
open Cal TimeDec PySlice

structure DVar where
  name : String
  dims : List String
deriving DecidableEq, Repr

structure St where
  grid : Bool                 -- ROW and COL (gridded) or PERIM (boundary)
  nT : Nat
  nL : Nat
  nR : Nat
  nC : Nat
  nP : Nat
  varDim : Nat
  vars : List DVar            -- every variable except TFLAG
  tflag : Option (Nat × List (Int × Int))   -- (second-axis width, flag of each step)
  nvars : Nat
  varlist : List String
  nrows : Nat
  ncols : Nat
  nlays : Nat
  vglvls : List Rat
  sdate : Int
  stime : Int
  tstep : Int
  xorig : Rat
  yorig : Rat
  xcell : Rat
  ycell : Rat
deriving Repr

def stdG : List String := ["TSTEP", "LAY", "ROW", "COL"]
def stdB : List String := ["TSTEP", "LAY", "PERIM"]

def isStd (v : DVar) : Bool := v.dims == stdG || v.dims == stdB

def hasVar (s : St) (k : String) : Bool := s.vars.any (fun v => v.name == k)

/-- `k in self.variables` -/
def present (s : St) (k : String) : Bool := hasVar s k || (k == "TFLAG" && s.tflag.isSome)

/-- `_add2Varlist(varkeys)`: names are appended to the *string* (stale names stay in it); NVARS counts the
listed names that exist plus the new ones. -/
def add2Varlist (s : St) (keys : List String) : St :=
  let kept := s.varlist.filter (present s)
  let new := keys.filter (fun k => decide (k.length ≤ 16) && !(kept.contains k) && k != "TFLAG" && k != "ETFLAG")
  { s with varlist := s.varlist ++ new, nvars := kept.length + new.length }

/-- `createVariable` / `copyVariable` of a data variable (both end in `_add2Varlist([name])`) -/
def putVar (s : St) (v : DVar) : St :=
  add2Varlist { s with vars := (s.vars.filter (fun w => w.name != v.name)) ++ [v] } [v.name]

/-- the same for TFLAG -/
def putTflag (s : St) (w : Nat) (rows : List (Int × Int)) : St :=
  add2Varlist { s with tflag := some (w, rows) } ["TFLAG"]

/-- the names `getVarlist` keeps: existing, standard dimensions, at most 16 characters -/
def listable (s : St) (k : String) : Bool :=
  s.vars.any (fun v => v.name == k && isStd v) && decide (k.length ≤ 16)

/-- `getVarlist(update=True, prune=True)` -/
def getVarlist (s : St) : St :=
  let cand := if s.varlist.isEmpty
    then (s.vars.filter (fun v => v.dims.take 2 == ["TSTEP", "LAY"])).map (·.name)
    else s.varlist
  let new := cand.filter (listable s)
  { s with varlist := new, nvars := new.length, varDim := max new.length 1 }

/-- `getVarlist(update=False)`: the pruned list (the attributes are left alone) -/
def prunedList (s : St) : List String := (getVarlist s).varlist

/-- flags `updatetflag(overwrite=True)` writes: SDATE/STIME + i·TSTEP -/
def synthRows (s : St) : List (Int × Int) :=
  match synthFlags s.sdate s.stime s.tstep s.nT with
  | .ok r => r
  | .error _ => []

/-- `updatetflag(overwrite)`; `force` is `overwrite=True` -/
def updatetflag (s : St) (force : Bool := false) : St :=
  let overwrite := force || (match s.tflag with
    | none => true
    | some (w, _) => w != s.nvars)
  if overwrite then
    let rows := synthRows s
    let s1 := add2Varlist { s with tflag := none } ["TFLAG"]     -- inside createVariable('TFLAG', ...)
    match rows.head? with
    | some (d, t) => { s1 with tflag := some (s1.varDim, rows), sdate := d, stime := t }
    | none => { s1 with tflag := some (s1.varDim, rows) }
  else s

/-- `updatemeta()` -/
def updatemeta (s : St) : St :=
  let s := getVarlist s
  let s := { s with nlays := s.nL,
                    ncols := if s.grid then s.nC else s.ncols,
                    nrows := if s.grid then s.nR else s.nrows }
  updatetflag s

/-- `_copywith(props=True, …, variables=False)`: attributes (and dimensions) without variables -/
def shell (s : St) : St := { s with vars := [], tflag := none }

def putAll (s : St) (vs : List DVar) : St := vs.foldl putVar s

/-! ### operations -/

/-- `copy()` -/
def opCopy (s : St) : St :=
  updatetflag (getVarlist (putAll (shell s) s.vars))

/-- `copy(variables=False)` (used by `mask`) -/
def copyNoVars (s : St) : St := updatetflag (shell s)

inductive Win where
  | int (i : Int)
  | slc (a b : Option Int)                  -- unit stride
  | sl (a b : Option Int) (st : Int)        -- any non-zero stride
  | lst (l : List Int)                      -- index list
deriving Repr

/-- the windows C11 is about: integers and unit-stride slices -/
def Win.unit : Win → Bool
  | .int _ => true
  | .slc _ _ => true
  | _ => false

/-- the indices a window selects on an axis of length `n` (none: IndexError) -/
def winIdx (n : Nat) : Win → Option (List Nat)
  | .int i => (normInt n i).map (fun k => [k])
  | .slc a b => some (sliceIndices n a b 1)
  | .sl a b st => if st = 0 then none else some (sliceIndices n a b st)
  | .lst l => l.mapM (normInt n)

inductive Dm where
  | T | L | R | C | P
deriving DecidableEq, Repr

def Dm.name : Dm → String
  | .T => "TSTEP" | .L => "LAY" | .R => "ROW" | .C => "COL" | .P => "PERIM"

def dimLen (s : St) : Dm → Nat
  | .T => s.nT | .L => s.nL | .R => s.nR | .C => s.nC | .P => s.nP

def setDim (s : St) (d : Dm) (n : Nat) : St :=
  match d with
  | .T => { s with nT := n } | .L => { s with nL := n } | .R => { s with nR := n }
  | .C => { s with nC := n } | .P => { s with nP := n }

def hasDim (s : St) : Dm → Bool
  | .T => true | .L => true | .R => s.grid | .C => s.grid | .P => !s.grid

def pickL {α} (idx : List Nat) (l : List α) : List α := idx.filterMap (fun i => l[i]?)

/-- HHMMSS (hours unbounded) of a number of seconds; a negative duration (a reversed window) is minus the HHMMSS of its
magnitude, the form `getTimes` decodes (`Cal.tstepSeconds`) -/
def encStep (sec : Int) : Int :=
  let a := sec.natAbs
  let h : Int := (a / 3600 * 10000 + a % 3600 / 60 * 100 + a % 60 : Nat)
  if sec < 0 then -h else h

/-- times `getTimes()` returns: from TFLAG when there is one, else from the attributes -/
def getTimes (s : St) : List Int :=
  match s.tflag with
  | some (_, rows) => decodeTflag rows
  | none => match attrTimes s.sdate s.stime s.tstep s.nT false with
    | .ok l => l
    | .error _ => []

/-- keyword arguments of `sliceDimensions`: at most one window per dimension -/
structure Kw where
  t : Option Win := none
  l : Option Win := none
  r : Option Win := none
  c : Option Win := none
  p : Option Win := none
deriving Repr

/-- indices selected on an axis: `some none` = dimension not named, `none` = IndexError or empty window
(an empty window raises: IndexError from `lidx[-1]`, `.take(0)`, `times[0]`) -/
def idxOf (n : Nat) : Option Win → Option (Option (List Nat))
  | none => some none
  | some w => match winIdx n w with
    | some [] => none
    | some i => some (some i)
    | none => none

def newLen (n : Nat) : Option (List Nat) → Nat
  | none => n
  | some i => i.length

/-- bookkeeping setters (they touch nothing else) -/
def setVarlist (s : St) (l : List String) : St := { s with varlist := l }
def setVars (s : St) (vs : List DVar) : St := { s with vars := vs }
def setVarDim (s : St) (n : Nat) : St := { s with varDim := n }
def dropVar (s : St) (k : String) : St := setVars s (s.vars.filter (fun w => w.name != k))
def setVglvls (s : St) (l : List Rat) : St := { s with vglvls := l }
def setNlays (s : St) (n : Nat) : St := { s with nlays := n }
def setGeo (s : St) (vg : List Rat) (xo yo : Rat) (sd st ts : Int) : St :=
  { s with vglvls := vg, xorig := xo, yorig := yo, sdate := sd, stime := st, tstep := ts }

/-- every variable of `src` copied into `o` (TFLAG with the given rows) -/
def copyVarsInto (o src : St) (rows : List (Int × Int) → List (Int × Int)) : St :=
  let o1 := putAll o src.vars
  match src.tflag with
  | some (w, r) => putTflag o1 w (rows r)
  | none => o1

/-- LAY window: lidx = arange(len(VGLVLS)-1)[sel]; VGLVLS[lidx] + the edge after the last one -/
def sliceLevels (vg : List Rat) (i : List Nat) : List Rat :=
  match i.getLast? with
  | some last =>
    if last < vg.length - 1 then
      (match vg[last + 1]? with
       | some e => pickL i vg ++ [e]
       | none => vg)
    else vg
  | none => vg

/-- TSTEP window: SDATE/STIME from the first selected time, TSTEP from the first difference -/
def sliceStart (src : St) (i : List Nat) : Int × Int × Int :=
  match pickL i (getTimes src) with
  | [] => (src.sdate, src.stime, src.tstep)
  | t0 :: rest =>
    ((encJ t0).1, (encJ t0).2, match rest with
      | t1 :: _ => encStep (t1 - t0)
      | [] => src.tstep)

/-- the state `sliceDimensions` hands to `updatemeta()`: the generic slicing (new dimension lengths, every
variable copied, TFLAG rows follow a TSTEP window), then the IOAPI attribute updates -/
def selRows (it : Option (List Nat)) (rows : List (Int × Int)) : List (Int × Int) :=
  match it with | some i => pickL i rows | none => rows
def selLevels (il : Option (List Nat)) (vg : List Rat) : List Rat :=
  match il with | some i => sliceLevels vg i | none => vg
def selStart (s : St) (it : Option (List Nat)) : Int × Int × Int :=
  match it with | some i => sliceStart s i | none => (s.sdate, s.stime, s.tstep)
def selOrig (i : Option (List Nat)) (orig cell : Rat) : Rat :=
  match i with | some i => orig + ((i.headD 0 : Nat) : Rat) * cell | none => orig

/-- `_copywith(props=True, dimensions=False)` followed by the new dimension lengths -/
def sliceShell (s : St) (it il ir ic ip : Option (List Nat)) : St :=
  { shell s with nT := newLen s.nT it, nL := newLen s.nL il, nR := newLen s.nR ir,
                 nC := newLen s.nC ic, nP := newLen s.nP ip }

def slicePre (s : St) (it il ir ic ip : Option (List Nat)) : St :=
  let s2 := copyVarsInto (sliceShell s it il ir ic ip) s (selRows it)
  setGeo s2 (selLevels il s.vglvls) (selOrig ic s.xorig s.xcell) (selOrig ir s.yorig s.ycell)
    (selStart s it).1 (selStart s it).2.1 (selStart s it).2.2

/-- `sliceDimensions(**kw)` with integer / unit-stride windows -/
def opSlice (s : St) (kw : Kw) : Option St :=
  if (kw.r.isSome || kw.c.isSome) && !s.grid then none
  else if kw.p.isSome && s.grid then none
  else match idxOf s.nT kw.t, idxOf s.nL kw.l, idxOf s.nR kw.r, idxOf s.nC kw.c, idxOf s.nP kw.p with
    | some it, some il, some ir, some ic, some ip => some (updatemeta (slicePre s it il ir ic ip))
    | _, _, _, _, _ => none

def subsetList (s : St) (keys : List String) : List String :=
  (prunedList s).filter (fun k => keys.contains k && hasVar s k && !k.endsWith "TFLAG")

def subsetPre (s : St) (keys : List String) : St :=
  let newlist := subsetList s keys
  let s0 := setVarDim (shell s) newlist.length
  let s1 := putAll s0 (newlist.filterMap (fun k => s.vars.find? (fun v => v.name == k)))
  add2Varlist (setVarlist s1 []) newlist

/-- `subsetVariables(keys)` -/
def opSubset (s : St) (keys : List String) : St := updatemeta (subsetPre s keys)

/-- `list(OrderedDict.fromkeys(l))`: every name once, at its first place -/
def dedupNames : List String → List String
  | [] => []
  | a :: l => a :: (dedupNames l).filter (· != a)

def renamePre (s : St) (v : DVar) (old new : String) : St :=
  let varlist0 := prunedList s
  -- _copywith(variables=True): every variable copied, TFLAG included
  let s2 := copyVarsInto (shell s) s id
  let s4 := dropVar (putVar s2 { v with name := new }) old          -- copyVariable(key=new); del variables[old]
  let nl := varlist0.map (fun k => if k == old then new else k)
  let nl := if nl.contains new then nl else nl ++ [new]
  let nl := dedupNames nl            -- a variable renamed onto another listed one is listed once
  add2Varlist (setVarlist s4 []) (nl.filter (fun k => present s4 k && decide (k.length ≤ 16)))

/-- `renameVariable(old, new)` -/
def opRename (s : St) (old new : String) : Option St := do
  let v ← s.vars.find? (fun v => v.name == old)
  pure (updatemeta (renamePre s v old new))

inductive FnK where
  | mean | min | max | sum | id | first2 | rev | every2 | ends
deriving DecidableEq, Repr

/-- `x[::2]` -/
def every2 : List Rat → List Rat
  | [] => []
  | [x] => [x]
  | x :: _ :: rest => x :: every2 rest

/-- `x[[0, -1]]` -/
def ends : List Rat → List Rat
  | [] => []
  | x :: rest => [x, rest.getLastD x]

def applyFn : FnK → List Rat → List Rat
  | .mean, l => if l.isEmpty then [] else [l.foldl (· + ·) 0 / (l.length : Nat)]
  | .sum, l => [l.foldl (· + ·) 0]
  | .min, l => match l with
    | [] => []
    | x :: xs => [xs.foldl (fun a b => if b < a then b else a) x]
  | .max, l => match l with
    | [] => []
    | x :: xs => [xs.foldl (fun a b => if a < b then b else a) x]
  | .id, l => l
  | .first2, l => l.take 2
  | .rev, l => l.reverse
  | .every2, l => every2 l
  | .ends, l => ends l

def fnLen (f : FnK) (n : Nat) : Nat := (applyFn f ((List.range n).map (fun (i : Nat) => (i : Rat)))).length

/-- level edges after `applyAlongDimensions(LAY=f)`: f(lower edges) then the last of f(upper edges) -/
def applyLevels (f : FnK) (vg : List Rat) : List Rat :=
  applyFn f vg.dropLast ++ (match (applyFn f (vg.drop 1)).getLast? with | some e => [e] | none => [])

/-- the state `applyAlongDimensions(DIM=f)` has after the generic part and the LAY branch.  TFLAG goes
through the function as well when DIM = TSTEP; its rows are regenerated afterwards, so their (meaningless)
values are not modelled (`take m` keeps the row count right). -/
def applyPre (s : St) (d : Dm) (f : FnK) : St :=
  let m := fnLen f (dimLen s d)
  let s2 := copyVarsInto (setDim (shell s) d m) s (fun rows => if d == Dm.T then rows.take m else rows)
  if d == Dm.L then setVglvls s2 (applyLevels f s.vglvls) else s2

/-- `applyAlongDimensions(DIM=f)` -/
def opApply (s : St) (d : Dm) (f : FnK) : Option St := do
  if !hasDim s d then none
  if fnLen f (dimLen s d) = 0 then none
  let p := applyPre s d f
  pure (updatemeta (if d == Dm.T then updatetflag (updatemeta p) true else p))

def evalInPre (s : St) (nv : DVar) : St :=
  let s1 := setVars s ((s.vars.filter (fun w => w.name != nv.name)) ++ [nv])
  add2Varlist s1 (s1.vars.map (·.name) ++ ["TFLAG"])

def evalOutPre (s : St) (nv : DVar) (src : String) : St :=
  let o := opSubset s [src]
  let o2 := setVars o (((o.vars.filter (fun w => w.name != src)).filter (fun w => w.name != nv.name)) ++ [nv])
  add2Varlist o2 (o2.vars.map (·.name) ++ ["TFLAG"])

/-- `eval('new = src * 2', inplace)` -/
def opEval (s : St) (new src : String) (inplace : Bool) : Option St := do
  let v ← s.vars.find? (fun v => v.name == src)
  let nv : DVar := { name := new, dims := v.dims }
  pure (updatemeta (if inplace then evalInPre s nv else evalOutPre s nv src))

def maskPre (s : St) : St :=
  let o := copyVarsInto (copyNoVars s) s id
  match s.tflag with
  | some (w, rows) => putTflag o w rows         -- the explicit second copy of TFLAG
  | none => o

/-- `mask(...)` -/
def opMask (s : St) : St := updatemeta (maskPre s)

def stackPre (s other : St) (d : Dm) : St :=
  let rows2 := match other.tflag with | some (_, r) => r | none => []
  let s2 := copyVarsInto (setDim (shell s) d (dimLen s d + dimLen other d)) s
    (fun rows => if d == Dm.T then rows ++ rows2 else rows)
  if d == Dm.L then setVglvls s2 (s.vglvls ++ other.vglvls.drop 1) else s2

/-- `stack(self.copy(), DIM)` -/
def opStack (s : St) (d : Dm) : Option St := do
  if !(d == Dm.T || d == Dm.L) then none
  pure (updatemeta (stackPre s (opCopy s) d))

/-- `self[k:].stack(self[:k], 'TSTEP')`: a later file with an earlier one stacked behind it (the result keeps the
order given: it starts when the later file starts) -/
def opRestack (s : St) (k : Nat) : Option St :=
  match opSlice s { t := some (.slc (some (k : Int)) none) }, opSlice s { t := some (.slc none (some (k : Int))) } with
  | some later, some earlier => some (updatemeta (stackPre later earlier Dm.T))
  | _, _ => none

def interpPre (s : St) (lv : List Rat) : St :=
  -- applyAlongDimensions(LAY=interpsigma) (with its own updatemeta), then VGLVLS and NLAYS are set
  let s3 := updatemeta (copyVarsInto (setDim (shell s) Dm.L (lv.length - 1)) s id)
  setNlays (setVglvls s3 lv) (lv.length - 1)

/-- `interpSigma(newlevels)` -/
def opInterp (s : St) (lv : List Rat) : Option St := do
  if lv.length < 2 then none
  pure (updatemeta (interpPre s lv))

inductive Op where
  | copy
  | slice (kw : Kw)
  | subset (keys : List String)
  | rename (old new : String)
  | apply (d : Dm) (f : FnK)
  | eval (new src : String) (inplace : Bool)
  | mask
  | stack (d : Dm)
  | restack (k : Nat)
  | interp (lv : List Rat)
deriving Repr

def step (s : St) : Op → Option St
  | .copy => some (opCopy s)
  | .slice kw => opSlice s kw
  | .subset ks => some (opSubset s ks)
  | .rename o n => opRename s o n
  | .apply d f => opApply s d f
  | .eval n src ip => opEval s n src ip
  | .mask => some (opMask s)
  | .stack d => opStack s d
  | .restack k => opRestack s k
  | .interp lv => opInterp s lv

/-! ### the property (C10) as a predicate -/

/-- the ten equalities of the statement -/
def Coherent (s : St) : Prop :=
  s.nvars = s.varlist.length ∧ s.varDim = s.varlist.length ∧
  (∃ rows, s.tflag = some (s.varlist.length, rows) ∧ rows.length = s.nT ∧
      (∀ r ∈ rows.head?, r = (s.sdate, s.stime))) ∧
  (∀ k ∈ s.varlist, listable s k = true) ∧
  s.nlays = s.nL ∧ (s.grid = true → s.nrows = s.nR ∧ s.ncols = s.nC) ∧
  s.vglvls.length = s.nL + 1

/-! ### wire format -/
open Wire

def showVars (vs : List DVar) : String :=
  if vs.isEmpty then "-" else ";".intercalate (vs.map (fun v => s!"{v.name}:{".".intercalate v.dims}"))

def showSt (s : St) : String :=
  let tf := match s.tflag with
    | none => "_"
    | some (w, rows) => s!"{w}|{showFlags rows}"
  s!"grid={if s.grid then 1 else 0} nT={s.nT} nL={s.nL} nR={s.nR} nC={s.nC} nP={s.nP} varDim={s.varDim} " ++
  s!"vars={showVars s.vars} tflag={tf} nvars={s.nvars} varlist={showList id s.varlist} nrows={s.nrows} " ++
  s!"ncols={s.ncols} nlays={s.nlays} vglvls={showList showRat s.vglvls} sdate={s.sdate} stime={s.stime} " ++
  s!"tstep={s.tstep} xorig={showRat s.xorig} yorig={showRat s.yorig} xcell={showRat s.xcell} ycell={showRat s.ycell}"

def kvGet (kvs : List (String × String)) (k : String) : Option String := (kvs.find? (·.1 == k)).map (·.2)

def parseKVs (toks : List String) : List (String × String) :=
  toks.filterMap (fun t => match t.splitOn "=" with
    | [k, v] => some (k, v)
    | _ => none)

def parseVars (s : String) : Option (List DVar) :=
  if s = "-" then some [] else (s.splitOn ";").mapM (fun t => match t.splitOn ":" with
    | [n, ds] => some { name := n, dims := if ds = "" then [] else ds.splitOn "." }
    | _ => none)

def parseTflag (s : String) : Option (Option (Nat × List (Int × Int))) :=
  if s = "_" then some none else match s.splitOn "|" with
    | [w, rows] => match parseNat w, parseFlags rows with
      | some w, some r => some (some (w, r))
      | _, _ => none
    | _ => none

def parseSt (toks : List String) : Option St := do
  let kv := parseKVs toks
  let g ← kvGet kv "grid"
  let nat (k : String) : Option Nat := (kvGet kv k).bind parseNat
  let int (k : String) : Option Int := (kvGet kv k).bind parseInt
  let rat (k : String) : Option Rat := (kvGet kv k).bind parseRat
  pure { grid := g == "1", nT := ← nat "nT", nL := ← nat "nL", nR := ← nat "nR", nC := ← nat "nC", nP := ← nat "nP",
         varDim := ← nat "varDim", vars := ← (kvGet kv "vars").bind parseVars,
         tflag := ← (kvGet kv "tflag").bind parseTflag, nvars := ← nat "nvars",
         varlist := ← (kvGet kv "varlist").bind (parseList some), nrows := ← nat "nrows", ncols := ← nat "ncols",
         nlays := ← nat "nlays", vglvls := ← (kvGet kv "vglvls").bind (parseList parseRat),
         sdate := ← int "sdate", stime := ← int "stime", tstep := ← int "tstep",
         xorig := ← rat "xorig", yorig := ← rat "yorig", xcell := ← rat "xcell", ycell := ← rat "ycell" }

def parseDm : String → Option Dm
  | "TSTEP" => some .T | "LAY" => some .L | "ROW" => some .R | "COL" => some .C | "PERIM" => some .P
  | _ => none

def parseWin (s : String) : Option Win :=
  match s.splitOn ":" with
  | ["i", v] => (parseInt v).map Win.int
  | ["s", a, b] => match parseOpt parseInt a, parseOpt parseInt b with
    | some a, some b => some (Win.slc a b)
    | _, _ => none
  | ["t", a, b, st] => match parseOpt parseInt a, parseOpt parseInt b, parseInt st with
    | some a, some b, some st => some (Win.sl a b st)
    | _, _, _ => none
  | ["l", l] => ((l.splitOn ".").mapM parseInt).map Win.lst
  | _ => none

def parseFn : String → Option FnK
  | "mean" => some .mean | "min" => some .min | "max" => some .max | "sum" => some .sum
  | "id" => some .id | "first2" => some .first2 | "rev" => some .rev | "every2" => some .every2 | "ends" => some .ends
  | _ => none

/-- `copy`, `slice@TSTEP~i:3;LAY~s:1:_`, `subset@a.b`, `rename@old@new`, `apply@DIM@fn`, `eval@new@src@0`,
`mask`, `stack@DIM`, `restack@k`, `interp@1,1/2,0` -/
def parseOp (s : String) : Option Op :=
  match s.splitOn "@" with
  | ["copy"] => some .copy
  | ["mask"] => some .mask
  | ["slice", kw] => ((kw.splitOn ";").mapM (fun (t : String) => match t.splitOn "~" with
      | [d, w] => match parseDm d, parseWin w with
        | some d, some w => some (d, w)
        | _, _ => none
      | _ => none)).map (fun (l : List (Dm × Win)) => Op.slice (l.foldl (fun (k : Kw) (p : Dm × Win) => match p.1 with
        | .T => { k with t := some p.2 } | .L => { k with l := some p.2 } | .R => { k with r := some p.2 }
        | .C => { k with c := some p.2 } | .P => { k with p := some p.2 }) {}))
  | ["subset", ks] => some (.subset (if ks = "-" then [] else ks.splitOn "."))
  | ["rename", o, n] => some (.rename o n)
  | ["apply", d, f] => match parseDm d, parseFn f with
    | some d, some f => some (.apply d f)
    | _, _ => none
  | ["eval", n, src, ip] => some (.eval n src (ip == "1"))
  | ["stack", d] => (parseDm d).map Op.stack
  | ["restack", k] => (parseNat k).map Op.restack
  | ["interp", lv] => (parseList parseRat lv).map Op.interp
  | _ => none

/-- what the driver can be asked for: an operation of the property's list, or one of the two calls that leave a file
for its caller to complete (`createVariable` in place, a copy without variables) — the states after those are not
coherent by themselves (recorded findings C10/createVariable-in-place and C10/copy-without-variables) -/
inductive XOp where
  | op (o : Op)
  | create (name : String)
  | copynv
  | setvg (lv : List Rat)       -- the attribute VGLVLS assigned in place (same number of layers)
  | points                      -- sliceDimensions(ROW=[..], COL=[..]): the point extraction (ROW, COL become POINTS)
deriving Repr

/-- the point extraction of a gridded file: the gridded variables are carried by (TSTEP, LAY, POINTS), the file has no
ROW / COL any more, the origin is left alone; `updatemeta()` then finds no variable with standard dimensions -/
def pointsDims (d : List String) : List String :=
  if d == stdG then ["TSTEP", "LAY", "POINTS"] else
  d.filter (fun k => k != "ROW" && k != "COL") ++ (if d.contains "ROW" || d.contains "COL" then ["POINTS"] else [])

def pointsVar (v : DVar) : DVar := { v with dims := pointsDims v.dims }

def pointsPre (s : St) : St :=
  copyVarsInto { shell s with grid := false, nR := 0, nC := 0 } { s with vars := s.vars.map pointsVar } id

def opPoints (s : St) : Option St :=
  if !s.grid then none else some (updatemeta (pointsPre s))

def xstep (s : St) : XOp → Option St
  | .op o => step s o
  | .create n => some (putVar s ⟨n, if s.grid then stdG else stdB⟩)
  | .copynv => some (copyNoVars s)
  | .setvg lv => if lv.length = s.nL + 1 then some (setVglvls s lv) else none
  | .points => opPoints s

/-- `create@NAME`, `copynv`, or an operation -/
def parseXOp (t : String) : Option XOp :=
  match t.splitOn "@" with
  | ["create", n] => some (.create n)
  | ["copynv"] => some .copynv
  | ["points"] => some .points
  | ["setvg", lv] => (parseList parseRat lv).map XOp.setvg
  | _ => (parseOp t).map XOp.op

def runOps : St → List XOp → List String
  | _, [] => []
  | s, op :: rest => match xstep s op with
    | some s' => ("ok " ++ showSt s') :: runOps s' rest
    | none => ["err"]

/-- `c10 run <state tokens…> ops=<op>|<op>|…` -/
def run : List String → String
  | "run" :: toks =>
    match parseSt toks, (kvGet (parseKVs toks) "ops") with
    | some s, some ops =>
      (match (ops.splitOn "|").mapM parseXOp with
       | some l => " || ".intercalate (runOps s l)
       | none => "err parse-ops")
    | _, _ => "err parse"
  | _ => "err unknown"

end Ioapi
