import PncModel.Wire
import PncModel.Arl
import PncModel.Interp
import PncModel.Val2idx
import PncModel.Registry
import PncModel.Cal
import PncModel.TimeDec
