import PncModel.Wire
import PncModel.Arl
import PncModel.Interp
