import PncModel.Wire
import PncModel.Arl
